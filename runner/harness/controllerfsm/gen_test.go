package controllerfsm

// State-aware random generator of Controller commands: every command kind, with valid, stale
// (revision / attempt / epoch / phase) and invalid payloads relative to the current cluster state.
// It is a generator only: which class a command falls into is decided by the real state machine.

import (
	"fmt"
	"math/rand"
	"sort"
	"strings"
	"time"

	"github.com/WuKongIM/WuKongIM/pkg/controller/command"
	"github.com/WuKongIM/WuKongIM/pkg/controller/state"
)

type gen struct {
	rng   *rand.Rand
	seq   int
	init  *command.Command // the initialising command of this log, once issued
	theme string           // "" | "ops" | "nodes": a log that dwells on one command family
}

func (g *gen) pick(n int) int { return g.rng.Intn(n) }
func (g *gen) chance(pct int) bool { return g.rng.Intn(100) < pct }
func (g *gen) nextSeq() int   { g.seq++; return g.seq }

func addrOf(id uint64) string { return fmt.Sprintf("n%d", id) }

// shuffled returns the same role set in an arbitrary order: the order in which a proposer lists
// the roles of a node carries no meaning (state.Normalize sorts them).
func (g *gen) shuffled(roles []state.NodeRole) []state.NodeRole {
	out := append([]state.NodeRole(nil), roles...)
	g.rng.Shuffle(len(out), func(i, j int) { out[i], out[j] = out[j], out[i] })
	return out
}

func (g *gen) node(id uint64, roles ...state.NodeRole) state.Node {
	roles = g.shuffled(roles)
	return state.Node{NodeID: id, Name: addrOf(id), Addr: addrOf(id), Roles: roles,
		JoinState: state.NodeJoinStateActive, Status: state.NodeStatusAlive, CapacityWeight: uint32(1 + g.pick(5))}
}

func (g *gen) issuedAt() time.Time {
	if g.chance(25) {
		return time.Time{}
	}
	return time.Unix(1_700_000_000+int64(g.nextSeq())*7, 0).UTC()
}

// expRev draws the compare-and-set guard: none, exact, or stale.
func (g *gen) expRev(st state.ClusterState) *uint64 {
	switch r := g.pick(10); {
	case r < 4:
		return nil
	case r < 8:
		v := st.Revision
		return &v
	default:
		v := st.Revision + 2
		if st.Revision > 0 && g.chance(60) {
			v = st.Revision - 1
		}
		return &v
	}
}

func (g *gen) initCommand() command.Command {
	if g.init != nil && g.chance(70) {
		c := *g.init
		return c
	}
	cfg := state.ClusterConfig{SlotCount: uint32(2 + g.pick(3)), HashSlotCount: uint16(8 * (1 + g.pick(2))),
		ReplicaCount: uint16(2 + g.pick(2)), DefaultCapacityWeight: 10}
	nodes := []state.Node{
		g.node(1, state.NodeRoleControllerVoter, state.NodeRoleData),
		g.node(2, state.NodeRoleControllerVoter, state.NodeRoleData),
		g.node(3, state.NodeRoleData), g.node(4, state.NodeRoleData),
	}
	if g.chance(50) {
		nodes = append(nodes, g.node(5, state.NodeRoleData))
	}
	ctrls := []state.ControllerVoter{{NodeID: 1, Addr: addrOf(1), Role: state.ControllerRoleVoter}}
	if g.chance(60) {
		ctrls = append(ctrls, state.ControllerVoter{NodeID: 2, Addr: addrOf(2), Role: state.ControllerRoleVoter})
	}
	c := command.Command{Kind: command.KindInitClusterState, IssuedAt: g.issuedAt(),
		Init: &command.InitClusterState{ClusterID: fmt.Sprintf("wk-%d", g.pick(3)), Config: cfg, Controllers: ctrls, Nodes: nodes}}
	switch g.pick(12) {
	case 0:
		c.Init.Config.SlotCount = 0
	case 1:
		c.Init.Config.SlotCount = uint32(c.Init.Config.HashSlotCount) + 1
	case 2:
		c.Init = nil
	case 3:
		c.Init.Controllers = []state.ControllerVoter{{NodeID: 3, Addr: addrOf(3), Role: state.ControllerRoleVoter}} // not a controller node
	case 4:
		c.Init.ClusterID = ""
	}
	return c
}

func findNode(st state.ClusterState, id uint64) (state.Node, bool) {
	for _, n := range st.Nodes {
		if n.NodeID == id {
			c := n
			c.Roles = append([]state.NodeRole(nil), n.Roles...)
			return c, true
		}
	}
	return state.Node{}, false
}

func (g *gen) upsertNode(st state.ClusterState) command.Command {
	id := uint64(1 + g.pick(6))
	if g.chance(40) { // prefer a node that carries more than one role
		var multi []uint64
		for _, n := range st.Nodes {
			if len(n.Roles) > 1 {
				multi = append(multi, n.NodeID)
			}
		}
		if len(multi) > 0 {
			id = multi[g.pick(len(multi))]
		}
	}
	n, ok := findNode(st, id)
	if !ok {
		n = g.node(id, state.NodeRoleData)
		if g.chance(20) {
			n.JoinState = state.NodeJoinStateJoining
		}
		if g.chance(20) {
			n.Roles = g.shuffled([]state.NodeRole{state.NodeRoleControllerVoter, state.NodeRoleData})
		}
	} else {
		// The stored record is canonical; the proposal lists the same roles in any order (a repeated
		// upsert that differs from the stored record only in role order is the same record).
		n.Roles = g.shuffled(n.Roles)
		switch g.pick(12) {
		case 0:
			n.Status = []state.NodeStatus{state.NodeStatusAlive, state.NodeStatusSuspect, state.NodeStatusDown}[g.pick(3)]
		case 1:
			n.JoinState = []state.NodeJoinState{state.NodeJoinStateActive, state.NodeJoinStateLeaving, state.NodeJoinStateJoining, state.NodeJoinStateRemoved}[g.pick(4)]
		case 2:
			n.CapacityWeight = uint32(g.pick(8))
		case 3:
			n.Addr = addrOf(id) + []string{"", "b"}[g.pick(2)]
		case 4:
			n.Roles = [][]state.NodeRole{{state.NodeRoleData}, {state.NodeRoleControllerVoter, state.NodeRoleData}, {state.NodeRoleData, state.NodeRoleControllerVoter}, {state.NodeRoleControllerVoter}}[g.pick(4)]
		case 5:
			n.Addr = "" // invalid
		case 6:
			n.Roles = []state.NodeRole{"bogus"} // invalid
		case 7:
			n.Status = "" // invalid
		default: // unchanged
		}
	}
	return command.Command{Kind: command.KindUpsertNode, IssuedAt: g.issuedAt(), ExpectedRevision: g.expRev(st), Node: &n}
}

func (g *gen) updateControllers(st state.ClusterState) command.Command {
	var out []state.ControllerVoter
	for _, n := range st.Nodes {
		if n.HasRole(state.NodeRoleControllerVoter) && g.chance(75) {
			out = append(out, state.ControllerVoter{NodeID: n.NodeID, Addr: n.Addr, Role: state.ControllerRoleVoter})
		}
	}
	switch g.pick(8) {
	case 0:
		out = append(out, state.ControllerVoter{NodeID: 3, Addr: addrOf(3), Role: state.ControllerRoleVoter}) // usually not a controller node
	case 1:
		out = nil
	case 2:
		if len(out) > 0 {
			out[0].Role = ""
		}
	case 3:
		out = append([]state.ControllerVoter(nil), st.Controllers...)
	}
	return command.Command{Kind: command.KindUpdateControllerVoters, IssuedAt: g.issuedAt(), ExpectedRevision: g.expRev(st), Controllers: out}
}

func voterIDs(st state.ClusterState) []uint64 {
	var out []uint64
	for _, c := range st.Controllers {
		out = append(out, c.NodeID)
	}
	return out
}

func (g *gen) promote(st state.ClusterState) command.Command {
	target := uint64(1 + g.pick(6))
	cur := voterIDs(st)
	obs := append([]uint64(nil), cur...)
	found := false
	for _, id := range cur {
		found = found || id == target
	}
	if !found {
		obs = append(obs, target)
	}
	p := &command.ControllerVoterPromotion{TargetNodeID: target, TargetAddr: addrOf(target),
		ExpectedPreviousVoters: append([]uint64(nil), cur...), ObservedConfigIndex: uint64(40 + g.nextSeq()), ObservedVoters: obs}
	switch g.pick(10) {
	case 0:
		p.ObservedConfigIndex = 0
	case 1:
		p.ExpectedPreviousVoters = []uint64{9}
	case 2:
		p.ExpectedPreviousVoters = nil
	case 3:
		p.ObservedVoters = cur
	case 4:
		p.TargetAddr = "elsewhere"
	}
	return command.Command{Kind: command.KindPromoteControllerVoter, IssuedAt: g.issuedAt(), ExpectedRevision: g.expRev(st), ControllerVoterPromotion: p}
}

func (g *gen) hashSlots(st state.ClusterState) command.Command {
	hc, sc := int(st.Config.HashSlotCount), int(st.Config.SlotCount)
	if hc == 0 {
		hc, sc = 8, 2
	}
	t := state.HashSlotTable{Version: state.CurrentHashSlotTableVersion, SlotCount: uint16(hc)}
	from := 0
	for from < hc {
		to := from + g.pick(hc-from)
		if g.chance(30) {
			to = hc - 1
		}
		t.Ranges = append(t.Ranges, state.HashSlotRange{From: uint16(from), To: uint16(to), SlotID: uint32(1 + g.pick(sc))})
		from = to + 1
	}
	switch g.pick(10) {
	case 0:
		t.Ranges[len(t.Ranges)-1].To-- // gap at the end (or from > to)
	case 1:
		t.Ranges[0].SlotID = 0
	case 2:
		t.SlotCount++
	case 3:
		t = st.HashSlots
		t.Ranges = append([]state.HashSlotRange(nil), st.HashSlots.Ranges...)
	case 4:
		t.Ranges[0].SlotID = uint32(sc + 1)
	}
	c := command.Command{Kind: command.KindReplaceHashSlotTable, IssuedAt: g.issuedAt(), ExpectedRevision: g.expRev(st), HashSlots: &t}
	if g.chance(4) {
		c.HashSlots = nil
	}
	return c
}

func (g *gen) scheduledBackup(st state.ClusterState) command.Command {
	const t0 = int64(1_800_000_000_000)
	sb := state.ScheduledBackupState{Revision: uint64(1 + g.pick(3)), ManagerSessionEpoch: uint64(g.pick(2)),
		Plan: &state.BackupPlan{Revision: uint64(1 + g.pick(2)), Enabled: g.chance(50), Store: state.BackupStoreConfig{Kind: state.BackupStoreKindFile},
			Cron: "0 1 * * *", TimeZone: "UTC", RetentionCount: 1 + g.pick(3), RateBytesPerSec: 1 << 20, WorkersPerNode: 1,
			MaxDurationMillis: 2 * 60 * 60 * 1000, ScheduleCursorUnixMillis: t0, CreatedUnixMillis: t0, UpdatedUnixMillis: t0}}
	switch g.pick(10) {
	case 0:
		sb.Revision = 0
	case 1:
		sb.Plan.WorkersPerNode = 9
	case 2:
		sb.Plan = nil
	case 3:
		sb.History = []state.BackupTaskRecord{{ID: "h1", Kind: "backup", Status: "succeeded", StartedUnixMillis: t0, CompletedUnixMillis: t0 + 5}}
	case 4:
		if st.ScheduledBackup != nil {
			sb = st.ScheduledBackup.Clone()
		}
	}
	c := command.Command{Kind: command.KindReplaceScheduledBackupState, IssuedAt: g.issuedAt(), ExpectedRevision: g.expRev(st), ScheduledBackup: &sb}
	if g.chance(4) {
		c.ScheduledBackup = nil
	}
	return c
}

func (g *gen) opsMCP(st state.ClusterState) command.Command {
	o := state.OpsMCPState{Enabled: g.chance(50), OwnerNodeID: uint64(1 + g.pick(4)),
		Credentials: []state.OpsMCPCredential{{ID: fmt.Sprintf("tok-%d", g.pick(2)), DigestSHA256: strings.Repeat("ab", 32), CreatedAtUnixMillis: 1_800_000_000_000}}}
	switch g.pick(10) {
	case 0:
		o.OwnerNodeID = 0
	case 1:
		o.Credentials = nil
	case 2:
		o.Credentials[0].DigestSHA256 = "zz"
	case 3:
		o.OwnerNodeID = 9
	case 4:
		if st.OpsMCP != nil {
			o = st.OpsMCP.Clone()
		}
	}
	c := command.Command{Kind: command.KindReplaceOpsMCPState, IssuedAt: g.issuedAt(), ExpectedRevision: g.expRev(st), OpsMCP: &o}
	if g.chance(4) {
		c.OpsMCP = nil
	}
	return c
}

// opsMCPFollow continues an MCP administration workflow on the current desired state: enable, move
// the executor while enabled (refused: it must be stopped first), stop, move it while stopped.
// Consecutive commands of this family land in one ApplyBatch under most delivery schedules, where
// each gate has to look at the state left by the entry before it.
func (g *gen) opsMCPFollow(st state.ClusterState) command.Command {
	o := st.OpsMCP.Clone()
	if len(o.Credentials) == 0 {
		o.Credentials = []state.OpsMCPCredential{{ID: "tok-0", DigestSHA256: strings.Repeat("ab", 32), CreatedAtUnixMillis: 1_800_000_000_000}}
	}
	other := o.OwnerNodeID
	var active []uint64
	for _, n := range st.Nodes {
		if n.JoinState == state.NodeJoinStateActive && n.NodeID != o.OwnerNodeID {
			active = append(active, n.NodeID)
		}
	}
	if len(active) > 0 {
		other = active[g.pick(len(active))]
	}
	if o.Enabled {
		switch g.pick(8) {
		case 0, 1, 2: // move the executor while enabled
			o.OwnerNodeID = other
		case 3: // stop and move in one command
			o.Enabled, o.OwnerNodeID = false, other
		case 4, 5, 6: // administrative stop
			o.Enabled = false
		default: // the same desired state again
		}
	} else {
		switch g.pick(8) {
		case 0, 1, 2: // move the executor while stopped
			o.OwnerNodeID = other
		case 3, 4: // enable on the current executor
			o.Enabled = true
		case 5, 6: // enable on another executor
			o.Enabled, o.OwnerNodeID = true, other
		default:
		}
	}
	var rev *uint64
	if g.chance(50) { // the Manager fences these with the revision it read
		v := st.Revision
		rev = &v
	} else {
		rev = g.expRev(st)
	}
	return command.Command{Kind: command.KindReplaceOpsMCPState, IssuedAt: g.issuedAt(), ExpectedRevision: rev, OpsMCP: &o}
}

func dataNodes(st state.ClusterState) []uint64 {
	var out []uint64
	for _, n := range st.Nodes {
		if n.HasRole(state.NodeRoleData) && n.JoinState == state.NodeJoinStateActive {
			out = append(out, n.NodeID)
		}
	}
	return out
}

func findSlot(st state.ClusterState, slot uint32) (state.SlotAssignment, bool) {
	for _, s := range st.Slots {
		if s.SlotID == slot {
			c := s
			c.DesiredPeers = append([]uint64(nil), s.DesiredPeers...)
			return c, true
		}
	}
	return state.SlotAssignment{}, false
}

func taskOfSlot(st state.ClusterState, slot uint32) (state.ReconcileTask, bool) {
	for _, t := range st.Tasks {
		if t.SlotID == slot {
			return t, true
		}
	}
	return state.ReconcileTask{}, false
}

func contains(xs []uint64, x uint64) bool {
	for _, v := range xs {
		if v == x {
			return true
		}
	}
	return false
}

func sortedU64(xs []uint64) []uint64 {
	out := append([]uint64(nil), xs...)
	sort.Slice(out, func(i, j int) bool { return out[i] < out[j] })
	return out
}

func replacePeer(peers []uint64, src, dst uint64) []uint64 {
	out := append([]uint64(nil), peers...)
	for i, p := range out {
		if p == src {
			out[i] = dst
			break
		}
	}
	return sortedU64(out)
}

func progressOf(peers []uint64) []state.TaskParticipantProgress {
	var out []state.TaskParticipantProgress
	for _, p := range peers {
		out = append(out, state.TaskParticipantProgress{NodeID: p, Status: state.TaskParticipantStatusPending})
	}
	return out
}

func (g *gen) bootstrap(st state.ClusterState) command.Command {
	sc := int(st.Config.SlotCount)
	if sc == 0 {
		sc = 2
	}
	slot := uint32(1 + g.pick(sc))
	if g.chance(5) {
		slot = uint32(sc + 1)
	}
	dn := dataNodes(st)
	g.rng.Shuffle(len(dn), func(i, j int) { dn[i], dn[j] = dn[j], dn[i] })
	want := int(st.Config.ReplicaCount)
	if g.chance(8) {
		want--
	}
	if want > len(dn) {
		want = len(dn)
	}
	if want < 0 {
		want = 0
	}
	peers := sortedU64(dn[:want])
	epoch := uint64(1)
	if a, ok := findSlot(st, slot); ok {
		epoch = a.ConfigEpoch + uint64(g.pick(2))
	}
	var leader uint64
	if len(peers) > 0 {
		leader = peers[g.pick(len(peers))]
	}
	a := state.SlotAssignment{SlotID: slot, DesiredPeers: peers, ConfigEpoch: epoch, PreferredLeader: leader}
	t := state.ReconcileTask{TaskID: fmt.Sprintf("slot-%d-bootstrap-%d", slot, g.nextSeq()), SlotID: slot, Kind: state.TaskKindBootstrap,
		Step: state.TaskStepCreateSlot, TargetNode: leader, TargetPeers: peers, CompletionPolicy: state.TaskCompletionPolicyAllTargetPeers,
		ParticipantProgress: progressOf(peers), ConfigEpoch: epoch, Status: state.TaskStatusPending}
	if cur, ok := taskOfSlot(st, slot); ok && g.chance(50) {
		t.TaskID = cur.TaskID // replace the active task of this slot instead of adding a second one
	}
	switch g.pick(12) {
	case 0:
		t.SlotID = slot + 1
	case 1:
		t.ConfigEpoch++
	case 2:
		t.CompletionPolicy = ""
		t.ParticipantProgress = nil
	case 3:
		a.PreferredLeader = 9
	}
	c := command.Command{Kind: command.KindUpsertSlotAssignmentAndTask, IssuedAt: g.issuedAt(), ExpectedRevision: g.expRev(st), Assignment: &a, Task: &t}
	if g.chance(3) {
		c.Task = nil
	}
	return c
}

func (g *gen) anySlot(st state.ClusterState) (state.SlotAssignment, bool) {
	if len(st.Slots) == 0 {
		return state.SlotAssignment{}, false
	}
	return findSlot(st, st.Slots[g.pick(len(st.Slots))].SlotID)
}

func (g *gen) leaderTransfer(st state.ClusterState) command.Command {
	a, ok := g.anySlot(st)
	if !ok || len(a.DesiredPeers) < 2 {
		return g.bootstrap(st)
	}
	src := a.PreferredLeader
	if src == 0 {
		src = a.DesiredPeers[0]
	}
	dst := a.DesiredPeers[g.pick(len(a.DesiredPeers))]
	if dst == src {
		dst = a.DesiredPeers[(g.pick(len(a.DesiredPeers)-1)+1+indexOf(a.DesiredPeers, src))%len(a.DesiredPeers)]
	}
	a.PreferredLeader = dst
	t := state.ReconcileTask{TaskID: fmt.Sprintf("slot-%d-leader-transfer-%d", a.SlotID, g.nextSeq()), SlotID: a.SlotID, Kind: state.TaskKindLeaderTransfer,
		Step: state.TaskStepTransferLeader, SourceNode: src, TargetNode: dst, TargetPeers: append([]uint64(nil), a.DesiredPeers...),
		CompletionPolicy: state.TaskCompletionPolicySingleObserver, ConfigEpoch: a.ConfigEpoch, Status: state.TaskStatusPending}
	if cur, ok := taskOfSlot(st, a.SlotID); ok && cur.Kind == state.TaskKindLeaderTransfer && g.chance(40) {
		t = cur // an equivalent re-proposal (stale revision => no-op)
		t.TaskID = fmt.Sprintf("slot-%d-leader-transfer-%d", a.SlotID, g.nextSeq())
		a.PreferredLeader = cur.TargetNode
	}
	if g.chance(8) {
		t.SourceNode = t.TargetNode
	}
	return command.Command{Kind: command.KindUpsertSlotAssignmentAndTask, IssuedAt: g.issuedAt(), ExpectedRevision: g.expRev(st), Assignment: &a, Task: &t}
}

func indexOf(xs []uint64, x uint64) int {
	for i, v := range xs {
		if v == x {
			return i
		}
	}
	return 0
}

func (g *gen) moveTask(st state.ClusterState) command.Command {
	a, ok := g.anySlot(st)
	if !ok || len(a.DesiredPeers) == 0 {
		return g.bootstrap(st)
	}
	src := a.DesiredPeers[g.pick(len(a.DesiredPeers))]
	var cands []uint64
	for _, id := range dataNodes(st) {
		if !contains(a.DesiredPeers, id) {
			cands = append(cands, id)
		}
	}
	dst := uint64(9)
	if len(cands) > 0 {
		dst = cands[g.pick(len(cands))]
	}
	t := state.ReconcileTask{TaskID: fmt.Sprintf("slot-%d-move-%d", a.SlotID, g.nextSeq()), SlotID: a.SlotID, Kind: state.TaskKindSlotReplicaMove,
		Step: state.TaskStepOpenLearner, SourceNode: src, TargetNode: dst, TargetPeers: replacePeer(a.DesiredPeers, src, dst),
		CompletionPolicy: state.TaskCompletionPolicySingleObserver, ConfigEpoch: a.ConfigEpoch, Status: state.TaskStatusPending}
	switch g.pick(12) {
	case 0:
		t.ConfigEpoch++
	case 1:
		t.TargetNode = src
	case 2:
		t.Kind = state.TaskKindBootstrap
	case 3:
		t.TargetPeers = a.DesiredPeers
	}
	c := command.Command{Kind: command.KindUpsertSlotReplicaMoveTask, IssuedAt: g.issuedAt(), ExpectedRevision: g.expRev(st), Task: &t}
	if g.chance(3) {
		c.Task = nil
	}
	return c
}

func (g *gen) tasksOfKind(st state.ClusterState, kind state.TaskKind) []state.ReconcileTask {
	var out []state.ReconcileTask
	for _, t := range st.Tasks {
		if kind == "" || t.Kind == kind {
			out = append(out, t)
		}
	}
	return out
}

func (g *gen) advancePhase(st state.ClusterState) command.Command {
	ts := g.tasksOfKind(st, state.TaskKindSlotReplicaMove)
	p := &command.SlotReplicaMovePhaseAdvance{TaskID: "slot-1-move-0", SlotID: 1, ConfigEpoch: 1, NextStep: state.TaskStepAddLearner, ObservedConfigIndex: 7}
	if len(ts) > 0 {
		t := ts[g.pick(len(ts))]
		srcPeers := replacePeer(t.TargetPeers, t.TargetNode, t.SourceNode)
		p = &command.SlotReplicaMovePhaseAdvance{TaskID: t.TaskID, SlotID: t.SlotID, ConfigEpoch: t.ConfigEpoch, Attempt: t.Attempt,
			ExpectedPhaseIndex: t.PhaseIndex, ObservedConfigIndex: uint64(100 + g.nextSeq())}
		switch t.Step {
		case state.TaskStepOpenLearner:
			p.NextStep = state.TaskStepAddLearner
		case state.TaskStepAddLearner:
			if g.chance(70) {
				p.NextStep, p.ObservedVoters, p.ObservedLearners = state.TaskStepPromoteLearner, srcPeers, []uint64{t.TargetNode}
			} else {
				p.NextStep, p.ObservedVoters = state.TaskStepRemoveVoter, append(append([]uint64(nil), srcPeers...), t.TargetNode)
			}
		case state.TaskStepPromoteLearner:
			p.NextStep, p.ObservedVoters = state.TaskStepRemoveVoter, append(append([]uint64(nil), srcPeers...), t.TargetNode)
		case state.TaskStepRemoveVoter:
			if g.chance(75) {
				p.NextStep, p.ObservedVoters = state.TaskStepCommitAssignment, append([]uint64(nil), t.TargetPeers...)
			} else {
				p.NextStep, p.ObservedVoters = state.TaskStepRemoveVoter, append(append([]uint64(nil), srcPeers...), t.TargetNode)
			}
		default:
			p.NextStep = state.TaskStepCommitAssignment
		}
		switch g.pick(14) {
		case 0:
			p.ExpectedPhaseIndex++
		case 1:
			p.Attempt++
		case 2:
			p.ConfigEpoch++
		case 3:
			p.SlotID++
		case 4:
			p.ObservedConfigIndex = 0
		case 5:
			p.NextStep = state.TaskStepCommitAssignment
		case 6:
			p.ObservedVoters = []uint64{t.SourceNode}
		}
	}
	c := command.Command{Kind: command.KindAdvanceSlotReplicaMovePhase, IssuedAt: g.issuedAt(), ExpectedRevision: g.expRev(st), SlotReplicaMovePhase: p}
	if g.chance(3) {
		c.SlotReplicaMovePhase = nil
	}
	return c
}

func (g *gen) commitMove(st state.ClusterState) command.Command {
	ts := g.tasksOfKind(st, state.TaskKindSlotReplicaMove)
	m := &command.SlotReplicaMoveCommit{TaskID: "slot-1-move-0", SlotID: 1, ConfigEpoch: 1, ObservedConfigIndex: 7}
	if len(ts) > 0 {
		t := ts[g.pick(len(ts))]
		m = &command.SlotReplicaMoveCommit{TaskID: t.TaskID, SlotID: t.SlotID, ConfigEpoch: t.ConfigEpoch, Attempt: t.Attempt,
			ObservedConfigIndex: uint64(200 + g.nextSeq()), ObservedVoters: append([]uint64(nil), t.TargetPeers...)}
		switch g.pick(12) {
		case 0:
			m.Attempt++
		case 1:
			m.ConfigEpoch++
		case 2:
			m.ObservedConfigIndex = 0
		case 3:
			m.ObservedVoters = []uint64{t.SourceNode}
		case 4:
			m.SlotID++
		}
	}
	return command.Command{Kind: command.KindCommitSlotReplicaMove, IssuedAt: g.issuedAt(), ExpectedRevision: g.expRev(st), SlotReplicaMoveCommit: m}
}

func (g *gen) taskResult(st state.ClusterState, kind command.Kind) command.Command {
	r := &command.TaskResult{TaskID: fmt.Sprintf("slot-1-bootstrap-%d", g.pick(3)), SlotID: 1, TaskKind: state.TaskKindBootstrap, ConfigEpoch: 1}
	if ts := g.tasksOfKind(st, ""); len(ts) > 0 && g.chance(85) {
		t := ts[g.pick(len(ts))]
		r = &command.TaskResult{TaskID: t.TaskID, SlotID: t.SlotID, TaskKind: t.Kind, ConfigEpoch: t.ConfigEpoch, Attempt: t.Attempt}
		switch g.pick(12) {
		case 0:
			r.Attempt++
		case 1:
			r.ConfigEpoch++
		case 2:
			r.SlotID++
		case 3:
			r.TaskKind = state.TaskKindLeaderTransfer
		case 4:
			r.TaskKind = ""
		}
	}
	if kind == command.KindFailTask {
		r.Err = "boom"
		if g.chance(15) {
			r.Err = strings.Repeat("é", 700) // longer than the durable bound, multi-byte
		}
	}
	c := command.Command{Kind: kind, IssuedAt: g.issuedAt(), ExpectedRevision: g.expRev(st), TaskResult: r}
	if g.chance(3) {
		c.TaskResult = nil
	}
	return c
}

func (g *gen) progress(st state.ClusterState) command.Command {
	p := &command.TaskProgress{TaskID: "slot-1-bootstrap-0", SlotID: 1, TaskKind: state.TaskKindBootstrap, ConfigEpoch: 1, ParticipantNodeID: 1, Status: state.TaskParticipantStatusDone}
	if ts := g.tasksOfKind(st, ""); len(ts) > 0 && g.chance(90) {
		t := ts[g.pick(len(ts))]
		p = &command.TaskProgress{TaskID: t.TaskID, SlotID: t.SlotID, TaskKind: t.Kind, ConfigEpoch: t.ConfigEpoch, TaskAttempt: t.Attempt,
			ParticipantNodeID: uint64(1 + g.pick(5)),
			Status:            []state.TaskParticipantStatus{state.TaskParticipantStatusDone, state.TaskParticipantStatusDone, state.TaskParticipantStatusFailed, state.TaskParticipantStatusPending}[g.pick(4)]}
		if len(t.ParticipantProgress) > 0 && g.chance(85) {
			pp := t.ParticipantProgress[g.pick(len(t.ParticipantProgress))]
			p.ParticipantNodeID, p.ParticipantAttempt = pp.NodeID, pp.Attempt
		}
		switch g.pick(14) {
		case 0:
			p.TaskAttempt++
		case 1:
			p.ConfigEpoch++
		case 2:
			p.ParticipantAttempt++
		case 3:
			if p.ParticipantAttempt > 0 {
				p.ParticipantAttempt--
			}
		case 4:
			p.Status = "bogus"
		case 5:
			p.SlotID++
		}
		if p.Status == state.TaskParticipantStatusFailed {
			p.Err = "participant failed"
		}
	}
	return command.Command{Kind: command.KindReportTaskProgress, IssuedAt: g.issuedAt(), ExpectedRevision: g.expRev(st), TaskProgress: p}
}

func (g *gen) nodeHealth(st state.ClusterState) command.Command {
	h := state.NodeHealthReport{NodeID: uint64(1 + g.pick(5)),
		Status:       []state.NodeStatus{state.NodeStatusAlive, state.NodeStatusSuspect, state.NodeStatusDown}[g.pick(3)],
		RuntimeReady: g.chance(70), ObservedControlRevision: st.Revision, ReportSeq: uint64(g.pick(4)), ReportedAtUnixMilli: 1_700_000_000_000 + int64(g.pick(3))}
	switch g.pick(12) {
	case 0:
		h.NodeID = 9
	case 1:
		h.Status = "bogus"
	case 2:
		h.ReportedAtUnixMilli = -1
	case 3, 4, 5:
		if len(st.NodeHealthReports) > 0 { // an identical repetition
			h = st.NodeHealthReports[g.pick(len(st.NodeHealthReports))]
			h.AppliedRaftIndex = 0
		}
	}
	c := command.Command{Kind: command.KindReportNodeHealth, IssuedAt: g.issuedAt(), NodeHealth: &h}
	if g.chance(40) {
		c.ExpectedRevision = g.expRev(st)
	}
	return c
}

// command draws one command for the current state.
func (g *gen) command(st state.ClusterState) command.Command {
	if st.Revision == 0 {
		switch r := g.pick(10); {
		case r < 5:
			return g.initCommand()
		case r < 7:
			stale := uint64(3)
			return command.Command{Kind: command.KindCompleteTask, ExpectedRevision: &stale, TaskResult: &command.TaskResult{TaskID: "gone"}}
		}
	}
	if st.Revision != 0 && g.theme != "" && g.chance(55) {
		switch g.theme {
		case "ops":
			if st.OpsMCP != nil && g.chance(85) {
				return g.opsMCPFollow(st)
			}
			return g.opsMCP(st)
		case "nodes":
			return g.upsertNode(st)
		}
	}
	// keep multi-step workflows moving
	if len(g.tasksOfKind(st, state.TaskKindSlotReplicaMove)) > 0 && g.chance(35) {
		if g.chance(70) {
			return g.advancePhase(st)
		}
		return g.commitMove(st)
	}
	if st.OpsMCP != nil && g.chance(18) {
		return g.opsMCPFollow(st)
	}
	if len(g.tasksOfKind(st, state.TaskKindBootstrap)) > 0 && g.chance(25) {
		if g.chance(60) {
			return g.progress(st)
		}
		return g.taskResult(st, command.KindCompleteTask)
	}
	switch r := g.pick(100); {
	case r < 4:
		return g.initCommand()
	case r < 15:
		return g.upsertNode(st)
	case r < 18:
		return g.updateControllers(st)
	case r < 23:
		return g.promote(st)
	case r < 28:
		return g.hashSlots(st)
	case r < 32:
		return g.scheduledBackup(st)
	case r < 38:
		return g.opsMCP(st)
	case r < 50:
		return g.bootstrap(st)
	case r < 55:
		return g.leaderTransfer(st)
	case r < 63:
		return g.moveTask(st)
	case r < 68:
		return g.advancePhase(st)
	case r < 71:
		return g.commitMove(st)
	case r < 77:
		return g.taskResult(st, command.KindCompleteTask)
	case r < 83:
		return g.taskResult(st, command.KindFailTask)
	case r < 89:
		return g.progress(st)
	case r < 98:
		return g.nodeHealth(st)
	default:
		return command.Command{Kind: "bogus_kind", IssuedAt: g.issuedAt(), ExpectedRevision: g.expRev(st)}
	}
}

// targeted returns a command that is certain (on the unchanged code) to fall into the class.
func (g *gen) targeted(st state.ClusterState, class string) command.Command {
	switch class {
	case "changed":
		if st.Revision == 0 {
			g.init = nil
			for {
				if c := g.initCommand(); c.Init != nil && c.Init.Config.SlotCount > 0 && c.Init.ClusterID != "" &&
					c.Init.Config.SlotCount <= uint32(c.Init.Config.HashSlotCount) && c.Init.Controllers[0].NodeID == 1 {
					return c
				}
			}
		}
		n, _ := findNode(st, st.Nodes[g.pick(len(st.Nodes))].NodeID)
		n.Roles = g.shuffled(n.Roles)
		n.CapacityWeight += 1 + uint32(g.pick(3))
		return command.Command{Kind: command.KindUpsertNode, IssuedAt: g.issuedAt(), Node: &n}
	case "updated":
		h := state.NodeHealthReport{NodeID: st.Nodes[g.pick(len(st.Nodes))].NodeID, Status: state.NodeStatusAlive, RuntimeReady: true,
			ReportSeq: uint64(1000 + g.nextSeq()), ReportedAtUnixMilli: 1_700_000_000_000}
		return command.Command{Kind: command.KindReportNodeHealth, IssuedAt: g.issuedAt(), NodeHealth: &h}
	case "noop":
		if st.Revision == 0 {
			stale := uint64(3)
			return command.Command{Kind: command.KindFailTask, ExpectedRevision: &stale, TaskResult: &command.TaskResult{TaskID: "gone"}}
		}
		n, _ := findNode(st, st.Nodes[g.pick(len(st.Nodes))].NodeID)
		n.Roles = g.shuffled(n.Roles)
		return command.Command{Kind: command.KindUpsertNode, IssuedAt: g.issuedAt(), Node: &n}
	default:
		return command.Command{Kind: "bogus_kind", IssuedAt: g.issuedAt()}
	}
}

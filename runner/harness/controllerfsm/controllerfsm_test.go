package controllerfsm

// Conformance harness for specs/ControllerFSM (property C18).  External package of the runner
// module; drives the real fsm.StateMachine over a real statefile.Store through exported API only.
//
// A *log* is a sequence of Controller commands (gen_test.go) together with what a reference run
// observed (fresh machine, one command at a time, no restart): result class, revision, and the
// state after every command.  A *schedule* delivers the same log in batches, with replays,
// restarts, Reset, Restore and failing saves.
//
//   spec -> code: TLC supplies (class sequence, schedule) pairs; the harness builds a real log with
//                 exactly those classes and runs the schedule, comparing per-entry result class and
//                 revision, the published state and the state file (identified against the
//                 reference states) with the specification's prediction after every call.
//   code -> spec: longer free-form logs under seeded random schedules; everything is recorded and
//                 TLC validates it against the same specification; the reference data itself is
//                 checked by the C18_Ref* invariants (revision arithmetic, rejected/no-op leave the
//                 state untouched, every published state validates).

import (
	"context"
	"encoding/json"
	"errors"
	"fmt"
	"math/rand"
	"os"
	"path/filepath"
	"testing"
	"time"

	"github.com/WuKongIM/WuKongIM/pkg/controller/command"
	"github.com/WuKongIM/WuKongIM/pkg/controller/fsm"
	"github.com/WuKongIM/WuKongIM/pkg/controller/state"
	"github.com/WuKongIM/WuKongIM/pkg/controller/statefile"
	"verif/runner/kit"
)

const propID = "C18"

var bg = context.Background()

// memStore is the in-memory fsm.Store of reference and trial machines.
type memStore struct{ st *state.ClusterState }

func (m *memStore) Load(context.Context) (state.ClusterState, error) {
	if m.st == nil {
		return state.ClusterState{}, os.ErrNotExist
	}
	return m.st.Clone(), nil
}
func (m *memStore) Save(_ context.Context, st state.ClusterState) error {
	c := st.Clone()
	m.st = &c
	return nil
}

// classify maps an ApplyResult to the specification's classes.  Only the replay guard's reason is
// distinguished; other reason strings are not part of the property.
func classify(r fsm.ApplyResult) string {
	n, cls := 0, "none"
	for _, f := range []struct {
		on  bool
		cls string
	}{{r.Changed, "changed"}, {r.Updated, "updated"}, {r.Noop, "noop"}, {r.Rejected, "rejected"}} {
		if f.on {
			n++
			cls = f.cls
		}
	}
	if n != 1 {
		return "ambiguous"
	}
	if r.Noop && r.Reason == fsm.ReasonAlreadyApplied {
		return "already"
	}
	return cls
}

func marshal(st state.ClusterState) string {
	raw, err := json.Marshal(st)
	if err != nil {
		return "unmarshalable: " + err.Error()
	}
	return string(raw)
}

// canon is the full identity of a state; logical leaves out revision, applied index, timestamp,
// checksum and node health (what a revision counts); durable leaves out applied index and checksum.
func canon(st state.ClusterState) string {
	c := st.Clone()
	c.Normalize()
	return marshal(c)
}
func logical(st state.ClusterState) string {
	c := st.Clone()
	c.Normalize()
	c.Revision, c.AppliedRaftIndex, c.UpdatedAt, c.Checksum, c.NodeHealthReports = 0, 0, time.Time{}, "", nil
	return marshal(c)
}
func durable(st state.ClusterState) string {
	c := st.Clone()
	c.Normalize()
	c.AppliedRaftIndex, c.Checksum = 0, ""
	return marshal(c)
}

// refRun is a command log plus the observations of its reference run (index 0 = empty state).
type refRun struct {
	n     int
	cmds  []command.Command // 1-based
	idx   []uint64          // 1-based Raft indexes
	cls   []string          // 1-based
	rev   []uint64          // 0..n
	snaps []state.ClusterState
	valid []bool
	lfp   []int
	dfp   []int
	sid   map[string]int // canon -> smallest position
}

func (r *refRun) cfg() map[string]any {
	rev := make([]int64, r.n+1)
	for i, v := range r.rev {
		rev[i] = int64(v)
	}
	idx := make([]int64, r.n)
	for p := 1; p <= r.n; p++ {
		idx[p-1] = int64(r.idx[p])
	}
	return map[string]any{"n": r.n, "cls": r.cls[1:], "idx": idx, "rev": rev, "lfp": r.lfp, "dfp": r.dfp, "valid": r.valid}
}

// classOn applies cmd to a scratch machine restored to cur and returns the result class.
func classOn(cur state.ClusterState, index uint64, cmd command.Command) (string, error) {
	sm, err := fsm.New(&memStore{})
	if err != nil {
		return "", err
	}
	if err := sm.Restore(bg, cur); err != nil {
		return "", err
	}
	res, err := sm.Apply(bg, index, cmd)
	if err != nil {
		return "", err
	}
	return classify(res), nil
}

// buildLog generates a log of n commands and its reference run.  want (1-based classes, may be nil)
// asks for a specific class per position (rejection sampling over the generator, then a targeted
// command).  gaps: Raft indexes are positions (false) or increasing with gaps (true).
func buildLog(rep *kit.Report, rng *rand.Rand, n int, want []string, gaps bool) *refRun {
	g := &gen{rng: rng, theme: []string{"", "", "", "ops", "nodes"}[rng.Intn(5)]}
	ref, err := fsm.New(&memStore{})
	if err != nil {
		rep.Infra("fsm.New: %v", err)
		return nil
	}
	r := &refRun{n: n, cmds: make([]command.Command, n+1), idx: make([]uint64, n+1), cls: make([]string, n+1),
		rev: make([]uint64, n+1), snaps: make([]state.ClusterState, n+1), valid: make([]bool, n+1),
		lfp: make([]int, n+1), dfp: make([]int, n+1), sid: map[string]int{}}
	r.snaps[0] = ref.Snapshot(bg)
	for p := 1; p <= n; p++ {
		r.idx[p] = r.idx[p-1] + 1
		if gaps {
			r.idx[p] += uint64(rng.Intn(3))
		}
		cur := r.snaps[p-1]
		cmd := g.command(cur)
		trial := ""
		if want != nil {
			for try := 0; ; try++ {
				if try >= 60 {
					cmd = g.targeted(cur, want[p])
				}
				c, err := classOn(cur, r.idx[p], cmd)
				if err != nil {
					rep.Infra("trial application: %v", err)
					return nil
				}
				if c == want[p] {
					trial = c
					break
				}
				if try >= 60 {
					rep.Infra("cannot build a %q command at position %d (revision %d): got %q", want[p], p, cur.Revision, c)
					return nil
				}
				cmd = g.command(cur)
			}
		}
		res, err := ref.Apply(bg, r.idx[p], cmd)
		if err != nil {
			rep.Infra("reference Apply: %v", err)
			return nil
		}
		r.cmds[p], r.cls[p], r.rev[p] = cmd, classify(res), res.Revision
		if trial != "" && trial != r.cls[p] {
			// same state, same command, different outcome: the state machine is not deterministic
			rep.Violate(propID, "nondeterministic", fmt.Sprintf("command %s applied to the same state was %q on one machine and %q on another", cmd.Kind, trial, r.cls[p]),
				map[string]any{"command": cmd, "state": cur})
			return nil
		}
		r.snaps[p] = ref.Snapshot(bg)
		if cmd.Kind == command.KindInitClusterState && r.cls[p] == "changed" {
			c := cmd
			g.init = &c
		}
	}
	lids, dids := map[string]int{}, map[string]int{}
	for k := 0; k <= n; k++ {
		st := r.snaps[k]
		r.valid[k] = st.Revision == 0 || st.Validate() == nil
		if _, ok := r.sid[canon(st)]; !ok {
			r.sid[canon(st)] = k
		}
		l, d := logical(st), durable(st)
		if _, ok := lids[l]; !ok {
			lids[l] = k
		}
		if _, ok := dids[d]; !ok {
			dids[d] = k
		}
		r.lfp[k], r.dfp[k] = lids[l], dids[d]
	}
	if r.snaps[0].Revision != 0 {
		rep.Infra("a fresh state machine is not empty")
		return nil
	}
	return r
}

// ---- the system under test -----------------------------------------------------------------

var errInjected = errors.New("verif: injected state file failure")

type sut struct {
	ref      *refRun
	path     string
	store    *statefile.Store
	sm       *fsm.StateMachine
	failNext bool
}

func newSUT(rep *kit.Report, dir string, ref *refRun) *sut {
	s := &sut{ref: ref, path: filepath.Join(dir, "cluster-state.json")}
	_ = os.Remove(s.path)
	// The state file is replaced through the real Store; the failure is injected with the Store's
	// own hook between the temp-file fsync and the rename.
	s.store = statefile.New(s.path, statefile.WithAfterTempWriteHook(func() error {
		if s.failNext {
			s.failNext = false
			return errInjected
		}
		return nil
	}))
	sm, err := fsm.New(s.store)
	if err != nil {
		rep.Infra("fsm.New: %v", err)
		return nil
	}
	if err := sm.Load(bg); err != nil {
		rep.Infra("Load on an empty directory: %v", err)
		return nil
	}
	s.sm = sm
	return s
}

func (s *sut) view(st state.ClusterState) map[string]any {
	sid, ok := s.ref.sid[canon(st)]
	if !ok {
		sid = -9 // not a state of the reference run
	}
	return map[string]any{"sid": sid, "rev": int64(st.Revision), "app": int64(st.AppliedRaftIndex),
		"valid": st.Revision == 0 || st.Validate() == nil}
}

// proj: Snapshot() and the state file identified against the reference states, plus `same`: what
// is published is, field for field (JSON of the states as they are, nothing re-normalised here),
// what a restart would load from the state file.
func (s *sut) proj() map[string]any {
	var disk map[string]any
	snap := s.sm.Snapshot(bg)
	same := snap.Revision == 0
	st, err := statefile.New(s.path).Load(bg)
	switch {
	case err == nil:
		disk = s.view(st)
		same = same || marshal(snap) == marshal(st)
	case errors.Is(err, os.ErrNotExist):
		disk = map[string]any{"sid": -1, "rev": 0, "app": 0, "valid": true}
	default: // a state file that does not load is not a valid persisted state
		disk = map[string]any{"sid": -9, "rev": 0, "app": 0, "valid": false}
	}
	return map[string]any{"snap": s.view(snap), "disk": disk, "same": same}
}

func (s *sut) apply(ev map[string]any) (map[string]any, error) {
	switch kit.Str(ev, "a") {
	case "ApplyBatch":
		i, j := int(kit.Int(ev, "i")), int(kit.Int(ev, "j"))
		if i < 1 || j > s.ref.n || j < i-1 {
			return nil, fmt.Errorf("ApplyBatch(%d,%d) outside the log", i, j)
		}
		s.failNext = kit.Bool(ev, "fail")
		var results []fsm.ApplyResult
		var err error
		finalSame := true
		if kit.Str(ev, "via") == "apply" {
			var r fsm.ApplyResult
			r, err = s.sm.Apply(bg, s.ref.idx[i], s.ref.cmds[i])
			results = []fsm.ApplyResult{r}
		} else {
			batch := make([]fsm.AppliedCommand, 0, j-i+1)
			for p := i; p <= j; p++ {
				batch = append(batch, fsm.AppliedCommand{Index: s.ref.idx[p], Term: 1, Command: s.ref.cmds[p]})
			}
			var out fsm.BatchApplyResult
			out, err = s.sm.ApplyBatch(bg, batch)
			results = out.Results
			if err == nil && out.FinalState.Revision != 0 {
				finalSame = canon(out.FinalState) == canon(s.sm.Snapshot(bg))
			}
		}
		s.failNext = false
		entries := make([]any, 0, len(results))
		for _, r := range results {
			entries = append(entries, map[string]any{"cls": classify(r), "rev": int64(r.Revision)})
		}
		return map[string]any{"err": err != nil, "entries": entries, "finalSame": finalSame}, nil
	case "Restart":
		sm, err := fsm.New(s.store)
		if err != nil {
			return nil, err
		}
		s.sm = sm
		return map[string]any{"err": sm.Load(bg) != nil}, nil
	case "Reset":
		s.sm.Reset()
		return map[string]any{"err": false}, nil
	case "Restore":
		k := int(kit.Int(ev, "k"))
		if k < 0 || k > s.ref.n {
			return nil, fmt.Errorf("Restore(%d) outside the log", k)
		}
		return map[string]any{"err": s.sm.Restore(bg, s.ref.snaps[k].Clone()) != nil}, nil
	}
	return nil, fmt.Errorf("unknown action %q", kit.Str(ev, "a"))
}

// diskPos returns the log position of the persisted applied index (0 = no usable state file).
func (s *sut) diskPos() int {
	st, err := statefile.New(s.path).Load(bg)
	if err != nil || st.Revision == 0 {
		return 0
	}
	for p := 1; p <= s.ref.n; p++ {
		if s.ref.idx[p] == st.AppliedRaftIndex {
			return p
		}
	}
	return 0
}

// randomSchedule drives one log through a seeded schedule and records it.
func randomSchedule(rep *kit.Report, rec *kit.Recorder, rng *rand.Rand, dir string, ref *refRun, steps int) {
	s := newSUT(rep, dir, ref)
	if s == nil {
		return
	}
	rec.Begin(map[string]any{"cfg": ref.cfg()}, s.proj())
	n, next := ref.n, 1
	do := func(ev map[string]any) map[string]any {
		res, err := s.apply(ev)
		if err != nil {
			rep.Infra("driver: %v", err)
			return nil
		}
		ev["res"] = res
		rec.Step(ev, s.proj())
		rep.Cover(kit.Str(ev, "a"))
		return res
	}
	min := func(a, b int) int {
		if a < b {
			return a
		}
		return b
	}
	batch := func(i, j int, fail bool, via string) {
		res := do(kit.Ev("ApplyBatch", "i", i, "j", j, "fail", fail, "via", via))
		if res != nil && !res["err"].(bool) && j+1 > next {
			next = j + 1
		}
	}
	for k := 0; k < steps; k++ {
		switch r := rng.Intn(100); {
		case r < 40 && next <= n: // in order
			batch(next, min(n, next+rng.Intn(5)), false, "batch")
		case r < 48 && next <= n:
			batch(next, next, false, "apply")
		case r < 62: // replay from an earlier entry
			i := 1 + rng.Intn(next)
			j := i - 1 + rng.Intn(n-i+2)
			batch(i, j, false, "batch")
		case r < 68:
			i := 1 + rng.Intn(min(n, next))
			batch(i, i, false, "apply")
		case r < 78: // the state file cannot be replaced
			i := 1 + rng.Intn(min(n, next))
			batch(i, i+rng.Intn(n-i+1), true, "batch")
		case r < 92:
			do(kit.Ev("Restart"))
			if p := s.diskPos(); p > 0 {
				next = p + 1
			}
		case r < 95:
			do(kit.Ev("Reset"))
			next = 1
		default:
			k := rng.Intn(n + 1)
			do(kit.Ev("Restore", "k", k))
			next = k + 1
		}
	}
	// deliver the rest in order and come back from the state file
	for next <= n {
		batch(next, min(n, next+rng.Intn(4)), false, "batch")
	}
	do(kit.Ev("Restart"))
}

func clsList(cfg map[string]any) []string {
	out := []string{""}
	for _, c := range kit.List(cfg, "cls") {
		s, _ := c.(string)
		out = append(out, s)
	}
	return out
}

func TestVerifControllerFSM(t *testing.T) {
	env, ok := kit.LoadEnv()
	if !ok {
		t.Skip("not started by the verif runner")
	}
	rep := kit.NewReport(env, "controllerfsm")
	rec, err := kit.NewRecorder(env.TraceFile)
	if err != nil {
		t.Fatal(err)
	}
	// The state file lives on a memory file system when there is one: fsync cost is not the subject.
	base := ""
	if fi, err := os.Stat("/dev/shm"); err == nil && fi.IsDir() {
		base = "/dev/shm"
	}
	dir, err := os.MkdirTemp(base, "verif-c18-")
	if err != nil {
		dir, err = os.MkdirTemp("", "verif-c18-")
	}
	if err != nil {
		t.Fatal(err)
	}
	defer os.RemoveAll(dir)
	rng := env.Rand()
	classes := map[string]int{}
	kinds := map[string]int{}
	count := func(ref *refRun) {
		for p := 1; p <= ref.n; p++ {
			classes[ref.cls[p]]++
			kinds[string(ref.cmds[p].Kind)+"/"+ref.cls[p]]++
		}
	}

	// ---- spec -> code: TLC schedules on logs built to the requested classes ----
	behs, err := kit.LoadBehaviours(env.BehFile)
	if err != nil {
		rep.Infra("load behaviours: %v", err)
	}
	recordEvery := 1 + len(behs)/env.Pick(60, 400) // a subset is also recorded for TLC (all Init lines are)
	for bi, b := range behs {
		if rep.Violations() >= 5 { // the report keeps five; more of the same adds nothing
			break
		}
		if len(b.Steps) == 0 || kit.Str(b.Steps[0].Ev, "a") != "Init" {
			rep.Infra("behaviour %d does not start with Init", bi)
			continue
		}
		cfg := kit.Map(b.Steps[0].Ev, "cfg")
		want := clsList(cfg)
		ref := buildLog(rep, rng, int(kit.Int(cfg, "n")), want, false)
		if ref == nil {
			continue
		}
		count(ref)
		s := newSUT(rep, dir, ref)
		if s == nil {
			continue
		}
		record := bi%recordEvery == 0
		rec.Begin(map[string]any{"cfg": ref.cfg()}, s.proj())
		if d := kit.Diff(b.Steps[0].St, s.proj()); d != "" {
			rep.Violate(propID, "state", "fresh machine: "+d, map[string]any{"behaviour": b, "step": 0, "log": ref.cmds[1:]})
			continue
		}
		for si, st := range b.Steps[1:] {
			call := kit.CloneEv(st.Ev)
			res, err := s.apply(call)
			rep.Cover(kit.Str(st.Ev, "a"))
			if err != nil {
				rep.Infra("behaviour %d step %d: %v", bi, si+1, err)
				break
			}
			proj := s.proj()
			if record {
				call["res"] = res
				rec.Step(call, proj)
			}
			if d := kit.Diff(st.Ev["res"], res); d != "" {
				rep.Violate(propID, "reply", fmt.Sprintf("step %d %s: %s", si+1, kit.JSON(kit.CloneEv(st.Ev)), d),
					map[string]any{"behaviour": b, "step": si + 1, "observed": res, "log": ref.cmds[1:]})
				break
			}
			if d := kit.Diff(st.St, proj); d != "" {
				rep.Violate(propID, "state", fmt.Sprintf("step %d %s: %s", si+1, kit.JSON(kit.CloneEv(st.Ev)), d),
					map[string]any{"behaviour": b, "step": si + 1, "observed": proj, "log": ref.cmds[1:]})
				break
			}
		}
		rep.Replayed(len(b.Steps) - 1)
		if bi == 0 {
			rep.Sample(b)
		}
	}

	// ---- code -> spec: free-form logs under seeded random schedules ----
	logs := env.Pick(40, 300)
	for i := 0; i < logs && rep.Violations() < 5; i++ {
		n := 6 + rng.Intn(30)
		ref := buildLog(rep, rng, n, nil, true)
		if ref == nil {
			continue
		}
		count(ref)
		for k := 0; k < 2; k++ { // two different schedules of the same log
			randomSchedule(rep, rec, rng, dir, ref, 6+rng.Intn(12))
		}
	}
	for c, n := range classes {
		rep.Extra("commands_"+c, n)
	}
	rep.Extra("commands_by_kind_and_class", kinds)

	if err := rec.Close(); err != nil {
		rep.Infra("trace file: %v", err)
	}
	if err := rep.Finish(rec); err != nil {
		t.Fatal(err)
	}
}

package membership

// Conformance harness for specs/Membership (property C16). A package of the runner
// module: it opens a real metadata DB (Pebble) in a temporary directory and drives
// the exported API of github.com/WuKongIM/WuKongIM/pkg/db/meta only.
//
//	Call(op)   the Shard method of the operation (MetaDB.HashSlot(hs).X)
//	Batch(ops) DB.NewWriteBatch + the WriteBatch method of every operation + Commit
//	ListPage   MetaDB.HashSlot(hs).ListUserChannelMembershipPage
//	Reopen     DB.Close + meta.Open
//
// The projection is GetUserChannelMembership / GetUserCMDChannelMembership of every
// (user, channel) of the case.
//
// Channel n of the specification is the pair (channel id "g<(n+1)/2>", channel type
// 2 - n%2): 1 = (g1,1), 2 = (g1,2), 3 = (g2,1).  Channels 1 and 2 share one id and
// differ in the channel type only (the type is part of the primary key and of the
// activation index key).

import (
	"context"
	"errors"
	"fmt"
	"math/rand"
	"strconv"
	"strings"
	"testing"

	metadb "github.com/WuKongIM/WuKongIM/pkg/db/meta"
	"verif/runner/kit"
)

const nCh = 3

var users = []string{"u1", "u2"}

type mbSUT struct {
	dir    string
	db     *metadb.DB
	prefix string
	slots  map[string]uint16
	tick   int64 // injected "time" for UpdatedAt / TombstoneAt (not modelled, not compared)
}

func openSUT(dir string) (*mbSUT, error) {
	db, err := metadb.Open(dir)
	if err != nil {
		return nil, err
	}
	return &mbSUT{dir: dir, db: db}, nil
}

func (s *mbSUT) begin(n int) {
	s.prefix = fmt.Sprintf("case%d", n)
	if n%2 == 0 {
		s.slots = map[string]uint16{"u1": 4, "u2": 11}
	} else {
		s.slots = map[string]uint16{"u1": 6, "u2": 6}
	}
}

func (s *mbSUT) uid(u string) string { return s.prefix + "-" + u }
func chID(c int64) string            { return "g" + strconv.FormatInt((c+1)/2, 10) }
func chType(c int64) int64           { return 2 - c%2 }
func cmdID(c int64) string           { return chID(c) + "____cmd" }

// chNo is the inverse of (chID, chType); -1 for anything that is not a channel of the case.
func chNo(id string, typ int64) int64 {
	n, err := strconv.ParseInt(strings.TrimPrefix(id, "g"), 10, 64)
	if err != nil || n < 1 || (typ != 1 && typ != 2) {
		return -1
	}
	c := 2*n - 2 + typ
	if c > nCh || chID(c) != id {
		return -1
	}
	return c
}

func (s *mbSUT) shard(u string) *metadb.Shard {
	return s.db.MetaDB().HashSlot(metadb.HashSlot(s.slots[u]))
}

func (s *mbSUT) now() int64 { s.tick++; return s.tick }

func (s *mbSUT) memRow(u string, c int64, m map[string]any) metadb.UserChannelMembership {
	row := metadb.UserChannelMembership{UID: s.uid(u), ChannelID: chID(c), ChannelType: chType(c),
		JoinSeq: 1, ReadSeq: uint64(kit.Int(m, "read")), DeletedToSeq: uint64(kit.Int(m, "del")),
		ActivatedAt: kit.Int(m, "at"), Tombstone: kit.Bool(m, "tomb"), SourceVersion: uint64(kit.Int(m, "sv")),
		UpdatedAt: s.now()}
	if row.Tombstone {
		row.TombstoneAt = row.UpdatedAt
	}
	return row
}

func (s *mbSUT) cmdRow(u string, c int64, m map[string]any) metadb.UserCMDChannelMembership {
	row := metadb.UserCMDChannelMembership{UID: s.uid(u), CommandChannelID: cmdID(c), ChannelType: chType(c),
		StartSeq: 1, AckSeq: uint64(kit.Int(m, "ack")), Tombstone: kit.Bool(m, "tomb"), UpdatedAt: s.now()}
	if row.Tombstone {
		row.TombstoneAt = row.UpdatedAt
	}
	return row
}

func (s *mbSUT) proj() (map[string]any, error) {
	ctx := context.Background()
	mem, cmd := map[string]any{}, map[string]any{}
	for _, u := range users {
		var mrows, crows []any
		for c := int64(1); c <= nCh; c++ {
			r, ok, err := s.shard(u).GetUserChannelMembership(ctx, s.uid(u), chID(c), chType(c))
			if err != nil {
				return nil, fmt.Errorf("GetUserChannelMembership(%s,%d): %w", u, c, err)
			}
			if ok {
				mrows = append(mrows, map[string]any{"present": true, "tomb": r.Tombstone, "read": r.ReadSeq,
					"del": r.DeletedToSeq, "at": r.ActivatedAt, "sv": r.SourceVersion})
			} else {
				mrows = append(mrows, map[string]any{"present": false, "tomb": false, "read": 0, "del": 0, "at": 0, "sv": 0})
			}
			cr, ok, err := s.shard(u).GetUserCMDChannelMembership(ctx, s.uid(u), cmdID(c), chType(c))
			if err != nil {
				return nil, fmt.Errorf("GetUserCMDChannelMembership(%s,%d): %w", u, c, err)
			}
			if ok {
				crows = append(crows, map[string]any{"present": true, "tomb": cr.Tombstone, "ack": cr.AckSeq})
			} else {
				crows = append(crows, map[string]any{"present": false, "tomb": false, "ack": 0})
			}
		}
		mem[u], cmd[u] = mrows, crows
	}
	return map[string]any{"mem": mem, "cmd": cmd}, nil
}

func errClass(err error) (string, error) {
	switch {
	case err == nil:
		return "ok", nil
	case errors.Is(err, metadb.ErrNotFound):
		return "notfound", nil
	case errors.Is(err, metadb.ErrInvalidArgument):
		return "invalid", nil // never expected: the specification only issues valid calls
	case errors.Is(err, metadb.ErrStaleMeta):
		return "conflict", nil // never expected on these tables
	}
	return "", err
}

func (s *mbSUT) call(op map[string]any) error {
	ctx := context.Background()
	u, c, m := kit.Str(op, "u"), kit.Int(op, "c"), kit.Map(op, "m")
	sh := s.shard(u)
	key := metadb.ChannelKey{ChannelID: chID(c), ChannelType: chType(c)}
	switch kit.Str(op, "k") {
	case "upsert":
		return sh.UpsertUserChannelMembership(ctx, s.memRow(u, c, m))
	case "ensure":
		return sh.EnsureUserChannelMembership(ctx, s.memRow(u, c, m))
	case "read":
		return sh.AdvanceUserChannelMembershipReadSeq(ctx, s.uid(u), key, uint64(kit.Int(m, "read")), s.now())
	case "activate":
		return sh.SetUserChannelMembershipActivatedAt(ctx, s.uid(u), key, kit.Int(m, "at"), s.now())
	case "hide":
		return sh.HideUserChannelMembership(ctx, s.uid(u), key, uint64(kit.Int(m, "del")), s.now())
	case "delete":
		return sh.DeleteUserChannelMembership(ctx, s.uid(u), key)
	case "cupsert":
		return sh.UpsertUserCMDChannelMembership(ctx, s.cmdRow(u, c, m))
	case "cack":
		return sh.AdvanceUserCMDChannelMembershipAckSeq(ctx, s.uid(u), cmdID(c), chType(c), uint64(kit.Int(m, "ack")), s.now())
	case "ctomb":
		return sh.TombstoneUserCMDChannelMembership(ctx, s.uid(u), cmdID(c), chType(c), s.now())
	}
	return fmt.Errorf("harness: unknown operation %q", kit.Str(op, "k"))
}

func (s *mbSUT) stage(wb *metadb.WriteBatch, op map[string]any) error {
	u, c, m := kit.Str(op, "u"), kit.Int(op, "c"), kit.Map(op, "m")
	hs := s.slots[u]
	key := metadb.ChannelKey{ChannelID: chID(c), ChannelType: chType(c)}
	switch kit.Str(op, "k") {
	case "upsert":
		return wb.UpsertUserChannelMembership(hs, s.memRow(u, c, m))
	case "ensure":
		return wb.EnsureUserChannelMembership(hs, s.memRow(u, c, m))
	case "read":
		return wb.AdvanceUserChannelMembershipReadSeq(hs, s.uid(u), key, uint64(kit.Int(m, "read")), s.now())
	case "activate":
		return wb.ActivateUserChannelMembership(hs, s.uid(u), key, kit.Int(m, "at"), s.now())
	case "hide":
		return wb.HideUserChannelMembership(hs, s.uid(u), key, uint64(kit.Int(m, "del")), s.now())
	case "delete":
		return wb.DeleteUserChannelMembership(hs, s.uid(u), key)
	case "cupsert":
		return wb.UpsertUserCMDChannelMembership(hs, s.cmdRow(u, c, m))
	case "cack":
		return wb.AdvanceUserCMDChannelMembershipAckSeq(hs, s.cmdRow(u, c, m))
	case "ctomb":
		row := s.cmdRow(u, c, m)
		row.Tombstone, row.TombstoneAt = true, row.UpdatedAt
		return wb.TombstoneUserCMDChannelMembership(hs, row)
	}
	return fmt.Errorf("harness: unknown operation %q", kit.Str(op, "k"))
}

// apply performs the call described by ev (its "res" is ignored) and returns the
// observed reply and projection. A non-nil error is infrastructure trouble.
func (s *mbSUT) apply(ev map[string]any) (map[string]any, map[string]any, error) {
	var res map[string]any
	switch kit.Str(ev, "a") {
	case "Call":
		cls, ierr := errClass(s.call(kit.Map(ev, "op")))
		if ierr != nil {
			return nil, nil, ierr
		}
		res = map[string]any{"err": cls}
	case "Batch":
		wb := s.db.NewWriteBatch()
		for i, o := range kit.List(ev, "ops") {
			op, _ := o.(map[string]any)
			if err := s.stage(wb, op); err != nil {
				_ = wb.Close()
				return nil, nil, fmt.Errorf("staging op %d: %w", i, err)
			}
		}
		cls, ierr := errClass(wb.Commit())
		_ = wb.Close()
		if ierr != nil {
			return nil, nil, ierr
		}
		res = map[string]any{"err": cls}
	case "ListPage":
		u, cur := kit.Str(ev, "u"), kit.Map(ev, "cur")
		var cursor metadb.UserChannelMembershipCursor
		if kit.Int(cur, "c") != 0 {
			cursor = metadb.UserChannelMembershipCursor{ActivatedAt: kit.Int(cur, "at"), ChannelID: chID(kit.Int(cur, "c")), ChannelType: chType(kit.Int(cur, "c"))}
		}
		rows, next, done, err := s.shard(u).ListUserChannelMembershipPage(context.Background(), s.uid(u), cursor, int(kit.Int(ev, "n")))
		if err != nil {
			cls, ierr := errClass(err)
			if ierr != nil {
				return nil, nil, ierr
			}
			res = map[string]any{"rows": []any{}, "next": cur, "done": false, "error": cls}
			break
		}
		live := []any{}
		for _, r := range rows {
			if r.UID != s.uid(u) || chNo(r.ChannelID, r.ChannelType) < 1 {
				live = append(live, map[string]any{"c": -1, "at": r.ActivatedAt,
					"foreign": fmt.Sprintf("%s/%s/%d", r.UID, r.ChannelID, r.ChannelType)})
				continue
			}
			if !r.Tombstone {
				live = append(live, map[string]any{"c": chNo(r.ChannelID, r.ChannelType), "at": r.ActivatedAt})
			}
		}
		nx := map[string]any{"c": 0, "at": next.ActivatedAt}
		if next.ChannelID != "" {
			nx["c"] = chNo(next.ChannelID, next.ChannelType)
		}
		res = map[string]any{"rows": live, "next": nx, "done": done}
	case "Reopen":
		if err := s.db.Close(); err != nil {
			return nil, nil, fmt.Errorf("close: %w", err)
		}
		db, err := metadb.Open(s.dir)
		if err != nil {
			return nil, nil, fmt.Errorf("reopen: %w", err)
		}
		s.db = db
		res = map[string]any{"ok": true}
	default:
		return nil, nil, fmt.Errorf("unknown action %q", kit.Str(ev, "a"))
	}
	st, err := s.proj()
	if err != nil {
		return nil, nil, err
	}
	return res, st, nil
}

// ---- seeded random driver (code -> spec) -------------------------------------------

func clamp(x int64) int64 {
	if x < 0 {
		return 0
	}
	return x
}

var kindBag = []string{"upsert", "upsert", "upsert", "ensure", "ensure", "ensure", "read", "read", "activate", "activate",
	"hide", "delete", "cupsert", "cupsert", "cack", "cack", "ctomb"}

func rowOf(st map[string]any, table, u string, c int64) map[string]any {
	t, _ := st[table].(map[string]any)
	l, _ := t[u].([]any)
	if int(c) < 1 || int(c) > len(l) {
		return map[string]any{}
	}
	r, _ := l[c-1].(map[string]any)
	return r
}

type slot struct {
	u string
	c int64
}

func presentSlots(st map[string]any, table string, want func(map[string]any) bool) []slot {
	var out []slot
	for _, u := range users {
		for c := int64(1); c <= nCh; c++ {
			if r := rowOf(st, table, u, c); kit.Bool(r, "present") && (want == nil || want(r)) {
				out = append(out, slot{u, c})
			}
		}
	}
	return out
}

// partner is the channel with the same id and the other channel type (c itself when
// the case has none).
func partner(c int64) int64 {
	if c%2 == 1 {
		if c+1 <= nCh {
			return c + 1
		}
		return c
	}
	return c - 1
}

func genOp(rng *rand.Rand, st map[string]any) map[string]any {
	return genOpOn(rng, st, kindBag, nil)
}

// genOpOn draws one operation of a kind from kinds; on slot fixed when that is not nil.
func genOpOn(rng *rand.Rand, st map[string]any, kinds []string, fixed *slot) map[string]any {
	k := kinds[rng.Intn(len(kinds))]
	isCmd := strings.HasPrefix(k, "c")
	creates := k == "upsert" || k == "ensure" || k == "cupsert"
	table := "mem"
	if isCmd {
		table = "cmd"
	}
	// mutators are aimed at rows that exist (3 of 4), creators at any slot (1 of 2)
	present := presentSlots(st, table, nil)
	sl := slot{users[rng.Intn(len(users))], 1 + int64(rng.Intn(nCh))}
	coin := rng.Intn(4)
	if len(present) > 0 && !(coin == 0 || (creates && coin == 1)) {
		sl = present[rng.Intn(len(present))]
	}
	if fixed != nil {
		sl = *fixed
	}
	ex, cx := rowOf(st, "mem", sl.u, sl.c), rowOf(st, "cmd", sl.u, sl.c)
	near := rng.Intn(2) == 0
	val := func(cur int64, span int) int64 {
		if near {
			return clamp(cur + int64(rng.Intn(3)) - 1)
		}
		return int64(rng.Intn(span))
	}
	// activation time: one in three copies the row with the same channel id and the other
	// channel type, so that only the channel type orders the two index entries
	at := func() int64 {
		if rng.Intn(3) == 0 {
			return kit.Int(rowOf(st, "mem", sl.u, partner(sl.c)), "at")
		}
		return val(kit.Int(ex, "at"), 6)
	}
	m := map[string]any{"tomb": false, "read": int64(0), "del": int64(0), "at": int64(0), "sv": int64(0), "ack": int64(0)}
	switch k {
	case "upsert", "ensure":
		m["tomb"] = rng.Intn(4) == 0
		m["read"], m["del"] = val(kit.Int(ex, "read"), 30), val(kit.Int(ex, "del"), 30)
		m["at"], m["sv"] = at(), val(kit.Int(ex, "sv"), 5)
	case "read":
		m["read"] = val(kit.Int(ex, "read"), 30)
	case "activate":
		m["at"] = at()
		if m["at"].(int64) == 0 {
			m["at"] = int64(1)
		}
	case "hide":
		m["del"] = val(kit.Int(ex, "del"), 30)
	case "cupsert":
		m["tomb"] = rng.Intn(4) == 0
		m["ack"] = val(kit.Int(cx, "ack"), 30)
	case "cack":
		m["ack"] = val(kit.Int(cx, "ack"), 30)
	}
	return map[string]any{"k": k, "u": sl.u, "c": sl.c, "m": m}
}

var (
	cmdFollowers = []string{"cack", "ctomb", "cupsert"}
	memSources   = []string{"upsert", "ensure"}
	memMutators  = []string{"read", "hide", "activate"}
	memAny       = []string{"upsert", "ensure", "read", "hide", "activate", "upsert", "ensure", "read", "hide", "activate", "delete"}
)

// genSameRowBatch builds a batch of two (sometimes three) operations on the SAME row:
// the later ones are resolved against what the earlier ones staged, not against the
// stored row. Command-channel binding: a (re-)bind followed by ack / tombstone / bind
// (preferring a live binding that was acknowledged); conversation membership: a source
// write followed by a mutator or another source write, or a mutator followed by a
// source write.
func genSameRowBatch(rng *rand.Rand, st map[string]any) []any {
	pick := func(table string, want func(map[string]any) bool) slot {
		cands := presentSlots(st, table, want)
		if len(cands) == 0 {
			cands = presentSlots(st, table, nil)
		}
		if len(cands) == 0 {
			return slot{users[rng.Intn(len(users))], 1 + int64(rng.Intn(nCh))}
		}
		return cands[rng.Intn(len(cands))]
	}
	live := func(r map[string]any) bool { return !kit.Bool(r, "tomb") }
	var first, second, more []string
	var sl slot
	switch mode := rng.Intn(5); {
	case mode <= 1:
		sl = pick("cmd", func(r map[string]any) bool { return live(r) && kit.Int(r, "ack") > 0 })
		first, second, more = []string{"cupsert"}, cmdFollowers, cmdFollowers
	case mode <= 3:
		sl = pick("mem", live)
		first, second, more = memSources, append(append([]string{}, memMutators...), memSources...), memAny
	default:
		sl = pick("mem", live)
		first, second, more = memMutators, memSources, memAny
	}
	ops := []any{genOpOn(rng, st, first, &sl), genOpOn(rng, st, second, &sl)}
	if rng.Intn(4) == 0 {
		ops = append(ops, genOpOn(rng, st, more, &sl))
	}
	return ops
}

func TestVerifMembership(t *testing.T) {
	env, ok := kit.LoadEnv()
	if !ok {
		t.Skip("not started by the verif runner")
	}
	id := env.Property
	if id == "" {
		id = "C16"
	}
	rep := kit.NewReport(env, "membership")
	rec, err := kit.NewRecorder(env.TraceFile)
	if err != nil {
		t.Fatal(err)
	}
	finish := func() {
		if err := rec.Close(); err != nil {
			rep.Infra("trace file: %v", err)
		}
		if err := rep.Finish(rec); err != nil {
			t.Fatal(err)
		}
	}
	sut, err := openSUT(t.TempDir())
	if err != nil {
		rep.Infra("open metadata DB: %v", err)
		finish()
		return
	}
	defer func() { _ = sut.db.Close() }()
	caseNo := 0

	// ---- spec -> code: replay TLC behaviours ----
	behs, err := kit.LoadBehaviours(env.BehFile)
	if err != nil {
		rep.Infra("load behaviours: %v", err)
	}
	for bi, b := range behs {
		if len(b.Steps) == 0 || kit.Str(b.Steps[0].Ev, "a") != "Init" {
			rep.Infra("behaviour %d does not start with Init", bi)
			continue
		}
		caseNo++
		sut.begin(caseNo)
		for si, st := range b.Steps[1:] {
			res, proj, err := sut.apply(st.Ev)
			rep.Cover(kit.Str(st.Ev, "a"))
			if err != nil {
				rep.Infra("behaviour %d step %d %s: %v", bi, si+1, kit.JSON(kit.CloneEv(st.Ev)), err)
				break
			}
			if d := kit.Diff(st.Ev["res"], res); d != "" {
				rep.Violate(id, "reply", fmt.Sprintf("step %d %s: %s", si+1, kit.JSON(kit.CloneEv(st.Ev)), d),
					map[string]any{"behaviour": b, "step": si + 1, "observed": res, "observed_state": proj})
				break
			}
			if d := kit.Diff(st.St, proj); d != "" {
				rep.Violate(id, "state", fmt.Sprintf("step %d %s: stored rows %s", si+1, kit.JSON(kit.CloneEv(st.Ev)), d),
					map[string]any{"behaviour": b, "step": si + 1, "observed": proj})
				break
			}
		}
		rep.Replayed(len(b.Steps) - 1)
		if bi == 0 {
			rep.Sample(b)
		}
	}

	// ---- code -> spec: seeded random driver, trace validated by TLC ----
	rng := env.Rand()
	traces := env.Pick(120, 600)
	for tr := 0; tr < traces; tr++ {
		caseNo++
		sut.begin(caseNo)
		st, err := sut.proj()
		if err != nil {
			rep.Infra("projection: %v", err)
			break
		}
		rec.Begin(map[string]any{}, st)
		passCur := map[string]map[string]any{} // user -> cursor of a directory pass in progress
		var past []map[string]any              // earlier mutating calls of this trace (for replays)
		steps := 15 + rng.Intn(35)
		for i := 0; i < steps; i++ {
			var ev map[string]any
			switch r := rng.Intn(100); {
			case r < 35:
				ev = kit.Ev("Call", "op", genOp(rng, st))
			case r < 47:
				n := 1 + rng.Intn(3)
				ops := make([]any, 0, n)
				for j := 0; j < n; j++ {
					ops = append(ops, genOp(rng, st))
				}
				ev = kit.Ev("Batch", "ops", ops)
			case r < 58:
				ev = kit.Ev("Batch", "ops", genSameRowBatch(rng, st))
			case r < 88:
				u := users[rng.Intn(len(users))]
				for _, cand := range users { // prefer a pass in progress
					if passCur[cand] != nil && rng.Intn(4) != 0 {
						u = cand
					}
				}
				cur := map[string]any{"c": 0, "at": 0}
				switch {
				case passCur[u] != nil && rng.Intn(8) != 0:
					cur = passCur[u]
				case rng.Intn(8) == 0:
					cur = map[string]any{"c": 1 + rng.Intn(nCh), "at": rng.Intn(6)}
				}
				n := 1
				if rng.Intn(2) == 0 {
					n = 1 + rng.Intn(4)
				}
				ev = kit.Ev("ListPage", "u", u, "cur", cur, "n", n)
			case r < 97 && len(past) > 0:
				ev = kit.CloneEv(past[rng.Intn(len(past))])
			default:
				ev = kit.Ev("Reopen")
			}
			ev, _ = kit.Canon(ev).(map[string]any) // the JSON shape the specification sees
			res, proj, err := sut.apply(ev)
			if err != nil {
				rep.Infra("trace %d step %d %s: %v", tr, i, kit.JSON(ev), err)
				finish()
				return
			}
			switch kit.Str(ev, "a") {
			case "Call", "Batch":
				past = append(past, kit.CloneEv(ev))
				for _, u := range users { // a pass survives only if no row of its user changed
					if !kit.Equal(kit.Map(st, "mem")[u], kit.Map(proj, "mem")[u]) {
						delete(passCur, u)
					}
				}
			case "ListPage":
				u := kit.Str(ev, "u")
				if kit.Bool(res, "done") || res["error"] != nil {
					delete(passCur, u)
				} else {
					passCur[u], _ = kit.Canon(res["next"]).(map[string]any)
				}
			}
			ev["res"] = res
			rec.Step(ev, proj)
			rep.Cover(kit.Str(ev, "a"))
			st = proj
		}
	}
	finish()
}

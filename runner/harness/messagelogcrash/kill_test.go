package messagelogcrash

// Process kill without any hook (the second crash engine of the design): a child process (this
// test binary, re-executed) runs a sequential history on a real directory through the operating
// system's file system and writes every Issue / Reply line to a pipe before it goes on; the
// parent SIGKILLs it after a seeded number of lines, reopens the directory and records
// Issue / Reply / Recovered for TLC.  Nothing is lost but the process, so this binds the
// "kill" half of the property to real files, fsync and Pebble's own recovery.

import (
	"bufio"
	"encoding/json"
	"fmt"
	"math/rand"
	"os"
	"os/exec"
	"strconv"
	"strings"
	"syscall"
	"testing"

	"github.com/WuKongIM/WuKongIM/pkg/verifhook"
	"verif/runner/kit"
)

const childPrefix = "C09EV "

type liveRun struct {
	st  *store
	n   int
	out *os.File
}

func (l *liveRun) line(v map[string]any) {
	raw, _ := json.Marshal(v)
	_, _ = l.out.Write(append(append([]byte(childPrefix), raw...), '\n')) // one write call per line
}

func (l *liveRun) do(call map[string]any) map[string]any {
	l.n++
	op := l.n
	l.line(map[string]any{"a": "Issue", "op": op, "call": call})
	res, err := l.st.call(call)
	if err != nil {
		res = map[string]any{"err": "other: " + err.Error()}
	}
	res = kit.Canon(res).(map[string]any)
	l.line(map[string]any{"a": "Reply", "op": op, "res": res})
	return res
}

// TestVerifMessageLogCrashChild is the body of the child process; it never returns normally in
// a kill run (the parent kills it), and it is skipped everywhere else.
func TestVerifMessageLogCrashChild(t *testing.T) {
	dir := os.Getenv("C09_CHILD_DIR")
	if dir == "" {
		t.Skip("only as the child of a kill run")
	}
	surface := os.Getenv("C09_CHILD_SURFACE")
	base, _ := strconv.ParseInt(os.Getenv("C09_CHILD_BASE"), 10, 64)
	seed, _ := strconv.ParseInt(os.Getenv("C09_CHILD_SEED"), 10, 64)
	idx, _ := strconv.Atoi(os.Getenv("C09_CHILD_INDEX"))
	p := probesFor(base)
	st, err := openStore(dir, surface, p)
	if err != nil {
		fmt.Println(childPrefix + `{"a":"Fail","err":` + strconv.Quote(err.Error()) + `}`)
		return
	}
	l := &liveRun{st: st, out: os.Stdout}
	l.line(map[string]any{"a": "Ready"})
	rng := rand.New(rand.NewSource(seed))
	sequentialHistory(l, surface, p, base, idx, rng, 80) // long enough to be killed on the way
	l.line(map[string]any{"a": "Done"})
	st.close()
}

func shmDir() string {
	if st, err := os.Stat("/dev/shm"); err == nil && st.IsDir() {
		return "/dev/shm"
	}
	return os.TempDir()
}

// killRun runs one child, kills it after `after` lines and records the history.
func (h *harness) killRun(i int, rng *rand.Rand) {
	surface := []string{"compat", "typed"}[i%2]
	p, base := h.probes(rng)
	dir, err := os.MkdirTemp(shmDir(), "verif-c09-kill-")
	if err != nil {
		h.rep.Infra("kill run %d: %v", i, err)
		return
	}
	defer os.RemoveAll(dir)
	after := 4 + rng.Intn(40)
	cmd := exec.Command(os.Args[0], "-test.run", "^TestVerifMessageLogCrashChild$", "-test.count=1")
	cmd.Env = append(os.Environ(), "C09_CHILD_DIR="+dir, "C09_CHILD_SURFACE="+surface, "C09_CHILD_BASE="+strconv.FormatInt(base, 10),
		"C09_CHILD_SEED="+strconv.FormatInt(rng.Int63(), 10), "C09_CHILD_INDEX="+strconv.Itoa(i), "VERIF_RESULT=")
	out, err := cmd.StdoutPipe()
	if err != nil {
		h.rep.Infra("kill run %d: %v", i, err)
		return
	}
	if err := cmd.Start(); err != nil {
		h.rep.Infra("kill run %d: cannot start the child: %v", i, err)
		return
	}
	var lines []map[string]any
	killed, done := false, false
	sc := bufio.NewScanner(out)
	sc.Buffer(make([]byte, 1<<20), 1<<26)
	for sc.Scan() {
		txt := sc.Text()
		if !strings.HasPrefix(txt, childPrefix) {
			continue
		}
		var v map[string]any
		dec := json.NewDecoder(strings.NewReader(txt[len(childPrefix):]))
		dec.UseNumber()
		if dec.Decode(&v) != nil {
			continue // a line cut by the kill
		}
		switch kit.Str(v, "a") {
		case "Ready":
			continue
		case "Done":
			done = true
			continue
		case "Fail":
			h.rep.Infra("kill run %d: child: %s", i, kit.Str(v, "err"))
			continue
		}
		lines = append(lines, kit.Canon(v).(map[string]any))
		if !killed && len(lines) >= after {
			_ = cmd.Process.Signal(syscall.SIGKILL)
			killed = true
		}
	}
	_ = cmd.Wait()
	if !killed {
		if !done {
			h.rep.Infra("kill run %d: the child ended on its own after %d lines", i, len(lines))
		}
		return // the history was shorter than the kill point: nothing to learn
	}
	// reopen the directory through the operating system's file system
	h.fsMu.Lock()
	verifhook.SetFS(nil)
	st, err := openStore(dir, surface, p)
	verifhook.SetFS(h.e.mfs)
	h.fsMu.Unlock()
	if err != nil {
		h.rep.Violate("C09", "recover", fmt.Sprintf("kill run %d (%s): the store does not open after the process was killed: %v", i, surface, err),
			map[string]any{"history": lines})
		return
	}
	cold := st.cold()
	st.close()
	if len(st.infra) > 0 {
		h.rep.Infra("kill run %d: projection of the recovered store: %s", i, st.infra[0])
		return
	}
	if d := clauses(cold); d != "" {
		discarding := false
		open := map[int64]string{}
		for _, l := range lines {
			if kit.Str(l, "a") == "Issue" {
				open[kit.Int(l, "op")] = kit.Str(kit.Map(l, "call"), "a")
			} else {
				delete(open, kit.Int(l, "op"))
			}
		}
		for _, a := range open {
			discarding = discarding || a == "Discard"
		}
		replay := map[string]any{"history": lines, "recovered": cold}
		if discarding {
			h.rep.AddExtra("known_finding_hits", 1)
			h.mu.Lock()
			first := !h.kn[sigDiscard]
			h.kn[sigDiscard] = true
			h.mu.Unlock()
			if first {
				h.rep.ViolateSig("C09", "clause", fmt.Sprintf("kill run %d (%s): %s", i, surface, d), sigDiscard, replay)
			}
		} else {
			h.rep.Violate("C09", "clause", fmt.Sprintf("kill run %d (%s): after the process was killed: %s", i, surface, d), replay)
		}
	}
	h.rec.Begin(map[string]any{"cfg": map[string]any{"surface": surface, "ids": p.ids, "froms": p.froms, "nos": p.nos, "pids": p.pids}}, nil)
	for _, l := range lines {
		h.rec.Step(l, nil)
		if kit.Str(l, "a") == "Issue" {
			h.rep.Cover(kit.Str(kit.Map(l, "call"), "a"))
		}
	}
	h.rec.Step(map[string]any{"a": "Recovered", "at": "SIGKILL", "pct": 100}, cold)
	h.rep.AddExtra("process_kills", 1)
	h.rep.AddExtra("recovered_lines_recorded", 1)
}

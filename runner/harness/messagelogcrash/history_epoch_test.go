package messagelogcrash

// Epoch history (specs/MessageLogCrash: eh, BeginEpoch / AppendHist / ApplyE / TruncLH /
// HistTrunc) and the aimed histories of two shapes the random drivers reach too rarely:
//
//	hist    epochs begun at the log end, follower applies that carry an epoch point, and
//	        TruncateLogAndHistory calls that remove rows AND epoch points (one commit);
//	shrink  an exact channel whose retention state holds a retained log-end floor equal to
//	        the log end (an adopt / trim after the last append), then a suffix replacement
//	        that ends BELOW the old log end, then more calls; every crash image (and the
//	        last one, taken after everything has returned) is reopened.
//
// The calls are made through the exported compatibility surface only; whether the store
// behaved is decided by TLC on the recorded trace and by the history-free clause "no epoch
// starts beyond the recovered log end".

import (
	"errors"
	"fmt"
	"math/rand"

	cc "github.com/WuKongIM/WuKongIM/pkg/db/message/channelcompat"
	"verif/runner/kit"
)

// callEpoch performs the epoch-history calls (compat surface).
func (s *store) callEpoch(k map[string]any) (map[string]any, error) {
	a, c := kit.Str(k, "a"), kit.Str(k, "c")
	switch a {
	case "BeginEpoch", "AppendHist", "ApplyE", "TruncLH", "HistTrunc":
	default:
		return nil, fmt.Errorf("unknown call %q", a)
	}
	if s.isTyped() {
		return nil, fmt.Errorf("%s on the typed surface", a)
	}
	q := s.compat[c]
	switch a {
	case "BeginEpoch":
		pt := cc.EpochPoint{Epoch: uint64(kit.Int(k, "e")), StartOffset: uint64(kit.Int(k, "s"))}
		return errRes(q.BeginEpoch(bg, pt, pt.StartOffset)), nil
	case "AppendHist":
		return errRes(q.AppendHistory(cc.EpochPoint{Epoch: uint64(kit.Int(k, "e")), StartOffset: uint64(kit.Int(k, "s"))})), nil
	case "HistTrunc":
		return errRes(q.TruncateHistoryTo(uint64(kit.Int(k, "t")))), nil
	case "TruncLH":
		to := uint64(kit.Int(k, "to"))
		err := q.TruncateLogAndHistory(bg, to)
		if err == nil {
			for seq := range s.chain[c] {
				if seq > to {
					delete(s.chain[c], seq)
				}
			}
		}
		return errRes(err), nil
	}
	// ApplyE
	rs := recsOfList(kit.List(k, "recs"))
	mode, hw := kit.Str(k, "mode"), kit.Int(k, "hw")
	req := cc.ApplyFetchStoreRequest{Records: compatRecords(c, rs, 0, 0)}
	if hw > 0 {
		h := uint64(hw)
		req.CheckpointHW = &h
	}
	pt := &cc.EpochPoint{Epoch: uint64(kit.Int(k, "e")), StartOffset: uint64(kit.Int(k, "s"))}
	var leo uint64
	var err error
	switch mode {
	case "strict":
		leo, err = q.StoreApplyFetchWithEpoch(req, pt)
	case "trusted":
		leo, err = q.StoreApplyFetchTrustedWithEpoch(req, pt)
	default:
		return nil, fmt.Errorf("mode %q", mode)
	}
	return appRes(err, int64(leo)-int64(len(rs))+1, int64(len(rs))), nil
}

// history returns the stored epoch history of a channel (specification: ColdProj.eh).
func (s *store) history(c string) []any {
	out := []any{}
	if s.isTyped() {
		pts, _, err := s.typed[c].LoadHistory(bg)
		if err != nil {
			s.infra = append(s.infra, fmt.Sprintf("LoadHistory(%s): %v", c, err))
		}
		for _, p := range pts {
			out = append(out, map[string]any{"e": p.Epoch, "s": p.StartOffset})
		}
		return out
	}
	pts, err := s.compat[c].LoadHistory()
	if err != nil && !errors.Is(err, cc.ErrEmptyState) {
		if errClass(err) == "rejected" {
			return []any{map[string]any{"e": -1, "s": -1}} // a history that does not decode
		}
		s.infra = append(s.infra, fmt.Sprintf("LoadHistory(%s): %v", c, err))
	}
	for _, p := range pts {
		out = append(out, map[string]any{"e": p.Epoch, "s": p.StartOffset})
	}
	return out
}

// historyClause: no epoch starts beyond the recovered log end.
func historyClause(c string, ch map[string]any, leo int64) string {
	for _, p := range kit.List(ch, "eh") {
		pm := p.(map[string]any)
		if kit.Int(pm, "s") > leo {
			return fmt.Sprintf("%s: epoch point {epoch %d, start offset %d} starts beyond the recovered log end %d", c, kit.Int(pm, "e"), kit.Int(pm, "s"), leo)
		}
	}
	return ""
}

// ---- the writer's mirror of the history ---------------------------------------------------

type epochPoint struct{ e, s int64 }

func (w *writer) nextEpoch() int64 {
	if len(w.hist) == 0 {
		return 1
	}
	return w.hist[len(w.hist)-1].e + 1
}

// pointAbove reports whether an epoch point starts above `to` (a plain Truncate below it is
// outside the callers' contract; TruncateLogAndHistory is the call for that).
func (w *writer) pointAbove(to int64) bool {
	for _, p := range w.hist {
		if p.s > to {
			return true
		}
	}
	return false
}

func (w *writer) cutHist(to int64) {
	var keep []epochPoint
	for _, p := range w.hist {
		if p.s <= to {
			keep = append(keep, p)
		}
	}
	w.hist = keep
}

// truncCall is the truncation the contract allows for target `to`.
func (w *writer) truncCall(to int64) string {
	if !w.typed && to < w.leo && w.pointAbove(to) {
		return "TruncLH"
	}
	return "Truncate"
}

func (w *writer) notePoint(e, s int64) {
	if n := len(w.hist); n > 0 && w.hist[n-1] == (epochPoint{e, s}) {
		return
	}
	w.hist = append(w.hist, epochPoint{e, s})
}

func (w *writer) beginEpoch() {
	e, s := w.nextEpoch(), w.leo
	if w.ok(w.r.do(kit.Ev("BeginEpoch", "c", w.c, "e", e, "s", s))) {
		w.notePoint(e, s)
	}
}

func (w *writer) applyEpoch() {
	mode := []string{"strict", "trusted"}[w.rng.Intn(2)]
	rs := w.batch(true, 2)
	if !w.envOK(mode, rs) {
		return
	}
	hw := int64(0)
	if w.rng.Intn(3) == 0 {
		hw = w.offerHW(w.ckpt, w.leo)
	}
	e, s := w.nextEpoch(), w.leo
	res := w.r.do(kit.Ev("ApplyE", "c", w.c, "mode", mode, "recs", recsJSON(rs), "hw", hw, "e", e, "s", s))
	if w.ok(res) {
		w.put(kit.Int(res, "base"), rs)
		w.notePoint(e, s)
		if hw > w.ckpt {
			w.ckpt = hw
		}
	}
}

// truncLogAndHistory cuts the log and the history at `want` (raised to the offered watermarks
// and the adopted boundary); on an exact channel the target should be a proposal end.
func (w *writer) truncLogAndHistory(want int64) {
	if want < 0 {
		want = 0
	}
	to := w.cutFloor(want)
	if to > w.leo {
		to = w.leo
	}
	res := w.r.do(kit.Ev("TruncLH", "c", w.c, "to", to))
	if w.ok(res) {
		w.cutRows(to) // also cuts the mirror of the history
		w.leo = to
	}
	w.setDurable()
}

// histStep issues one epoch-history call (compat surface); false = nothing was issued.
func (w *writer) histStep() bool {
	if w.typed {
		return false
	}
	x := w.rng.Intn(100)
	switch {
	case x < 34:
		w.beginEpoch()
	case x < 50:
		if w.exact {
			w.beginEpoch()
		} else {
			w.applyEpoch()
		}
	case x < 80: // cut below an epoch point (or just below the log end)
		want := w.leo - int64(w.rng.Intn(3))
		if len(w.hist) > 0 && w.rng.Intn(4) > 0 {
			want = w.hist[w.rng.Intn(len(w.hist))].s - int64(w.rng.Intn(2))
		}
		if w.exact {
			ends := w.propEnds()
			best := int64(0)
			for _, e := range ends {
				if e <= want && e > best {
					best = e
				}
			}
			want = best
		}
		if w.local > 0 && want < w.local {
			want = w.local
		}
		w.truncLogAndHistory(want)
	case x < 86: // a point that is refused: not at the log end
		w.r.do(kit.Ev("BeginEpoch", "c", w.c, "e", w.nextEpoch(), "s", w.leo+1))
	case x < 90: // an epoch that does not advance
		if len(w.hist) > 0 {
			p := w.hist[w.rng.Intn(len(w.hist))]
			w.r.do(kit.Ev("BeginEpoch", "c", w.c, "e", p.e, "s", w.leo))
		}
	case x < 95:
		e, s := w.nextEpoch(), int64(w.rng.Intn(int(w.leo)+1))
		if n := len(w.hist); n > 0 && s < w.hist[n-1].s {
			s = w.hist[n-1].s
		}
		if s <= w.leo && w.ok(w.r.do(kit.Ev("AppendHist", "c", w.c, "e", e, "s", s))) {
			w.notePoint(e, s)
		}
	default:
		t := int64(w.rng.Intn(int(w.leo) + 2))
		if w.ok(w.r.do(kit.Ev("HistTrunc", "c", w.c, "t", t))) {
			w.cutHist(t)
		}
	}
	return true
}

// ---- aimed histories -------------------------------------------------------------------------

func (w *writer) appendClean(n int) {
	rs := w.batch(true, n)
	res := w.r.do(kit.Ev("Append", "c", w.c, "mode", "strict", "base", 0, "recs", recsJSON(rs)))
	if w.ok(res) && kit.Int(res, "base") > 0 {
		w.put(kit.Int(res, "base"), rs)
	}
}

// exFresh appends one fresh exact proposal at the log end.
func (w *writer) exFresh(n int, hw int64) {
	rs := w.batch(true, n)
	pid := w.nextP
	w.nextP++
	last := w.leo + int64(len(rs))
	res := w.r.do(kit.Ev("ExAppend", "c", w.c, "pid", pid, "b", w.leo, "recs", recsJSON(rs), "mode", []string{"strict", "alloc"}[w.rng.Intn(2)], "hw", hw))
	if w.ok(res) {
		w.props = append(w.props, propInfo{pid: pid, base: w.leo, last: last, recs: rs})
		w.put(w.leo+1, rs)
		if hw > w.ckpt {
			w.ckpt = hw
		}
	}
}

// histScript: two or three epochs with rows in between, then a cut of log and history below the
// start of a later epoch, then the history goes on.
// histScriptRuns alternates the script between its fixed core shape (no watermark offered, the cut
// strictly below the start of the last epoch point, so that point must disappear together with the
// rows) and the randomized variations around it.
var histScriptRuns int

func histScript(d doer, p probes, base int64, rng *rand.Rand) {
	histScriptRuns++
	core := histScriptRuns%2 == 1
	co := &coord{}
	c := chanNames[rng.Intn(2)]
	w := newWriter(d, "compat", p, rng, c, co, base, false, true)
	w.beginEpoch()
	w.appendClean(1 + rng.Intn(3))
	if !core && rng.Intn(2) == 0 {
		if hw := w.offerHW(1, w.leo); hw > 0 {
			if res := w.r.do(kit.Ev("CkptMono", "c", w.c, "hw", hw)); w.ok(res) && hw > w.ckpt {
				w.ckpt = hw
			}
		}
	}
	for n := 1 + rng.Intn(2); n > 0; n-- {
		if rng.Intn(2) == 0 {
			w.beginEpoch()
			w.appendClean(1 + rng.Intn(2))
		} else {
			w.applyEpoch()
		}
	}
	if rng.Intn(3) == 0 {
		w.appendClean(1)
	}
	// cut below the start of an epoch (never below an offered watermark: cutFloor)
	if len(w.hist) == 0 {
		return
	}
	pt := w.hist[len(w.hist)-1]
	if !core && len(w.hist) > 1 && rng.Intn(3) == 0 {
		pt = w.hist[len(w.hist)-2]
	}
	if core {
		w.truncLogAndHistory(pt.s - 1)
	} else {
		w.truncLogAndHistory(pt.s - int64(rng.Intn(2)))
	}
	for n := rng.Intn(3); n > 0; n-- {
		if !w.histStep() {
			break
		}
	}
	w.appendClean(1)
}

// shrinkScript: an exact channel, a retention floor recorded at the log end, a suffix
// replacement that ends below it, and the store reopened at every crash point after it.
func shrinkScript(d doer, p probes, base int64, rng *rand.Rand) {
	co := &coord{}
	c := chanNames[rng.Intn(2)]
	w := newWriter(d, "compat", p, rng, c, co, base, true, true)
	w.exFresh(1+rng.Intn(2), 0)
	if len(w.props) == 0 {
		return
	}
	hw := int64(0)
	if rng.Intn(2) == 0 {
		hw = w.offerHW(1, w.leo) // at or below the end of the prefix that is kept
	}
	w.exFresh(1+rng.Intn(2), hw)
	if rng.Intn(2) == 0 {
		w.exFresh(1, 0)
	}
	keepAt := w.props[0].last // the suffix after the first proposal goes
	// retention: adopt (and sometimes trim) at or below the kept prefix, after the last append
	t := 1 + rng.Int63n(keepAt)
	if res := w.r.do(kit.Ev("Adopt", "c", w.c, "through", t)); w.ok(res) && t > w.local {
		w.local = t
	}
	if rng.Intn(2) == 0 {
		res := w.r.do(kit.Ev("Trim", "c", w.c, "through", t, "lim", rng.Intn(2)))
		if w.ok(res) && kit.Int(res, "deleted") > 0 {
			for s := range w.rows {
				if s <= kit.Int(res, "through") {
					delete(w.rows, s)
				}
			}
		}
	}
	w.refreshLeo()
	// the replacement: shorter than the suffix it replaces
	keep := w.cutFloor(keepAt)
	old := w.leo
	var ps []any
	var infos []propInfo
	end := keep
	if n := old - keep - 1; n >= 1 && (n == 1 || rng.Intn(3) > 0) {
		rs := w.batch(true, 1)
		pid := w.nextP
		w.nextP++
		ps = append(ps, map[string]any{"pid": pid, "recs": recsJSON(rs)})
		infos = append(infos, propInfo{pid: pid, base: keep, last: keep + 1, recs: rs})
		end = keep + 1
	}
	if ps == nil {
		ps = []any{}
	}
	rhw := w.ckpt
	if end > w.ckpt && rng.Intn(2) == 0 {
		rhw = end
	}
	w.co.mu.Lock()
	if rhw > w.co.hwMax {
		w.co.hwMax = rhw
	}
	w.co.mu.Unlock()
	if keep == keepAt {
		res := w.r.do(kit.Ev("Replace", "c", w.c, "keep", keep, "ps", ps, "hw", rhw))
		if w.ok(res) {
			w.cutRows(keep)
			w.leo = keep
			for _, in := range infos {
				w.props = append(w.props, in)
				w.put(in.base+1, in.recs)
			}
			w.ckpt = rhw
		}
		w.setDurable()
	}
	// the store goes on (every call below is a crash point at which the store is reopened)
	w.refreshLeo()
	for n := 1 + rng.Intn(2); n > 0; n-- {
		w.exFresh(1, 0)
	}
}

// aimed runs the aimed histories with every crash point enumerated.
func (h *harness) aimed(rng *rand.Rand) {
	for i, n := 0, h.env.Pick(6, 40); i < n && h.rep.Violations() < 3; i++ {
		p, base := h.probes(rng)
		r, err := h.e.newRun("compat", p, uint64(9000+i))
		if err != nil {
			h.rep.Infra("aimed history %d: cannot open the store: %v", i, err)
			return
		}
		name := "epoch history"
		if i%2 == 0 {
			histScript(r, p, base, rng)
		} else {
			name = "shorter suffix replacement"
			shrinkScript(r, p, base, rng)
		}
		h.finishRun(r, fmt.Sprintf("aimed history %d (%s)", i, name))
	}
}

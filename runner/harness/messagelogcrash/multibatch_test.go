package messagelogcrash

// Multi-item StoreAppendBatch calls (specs/MessageLogCrash/MessageLogCrashB.tla: Batch,
// BatchCancelled): several exact proposals for one or more channels in ONE
// message.StoreAppendBatch call, which the commit coordinator commits as one physical group.
// For the crash property the whole call is ONE commit:
//
//   - a crash image taken at any file-system mutation during the call shows all of its items or
//     none of them (spec -> code: the image must be the projection before or after the step;
//     code -> spec: TLC explains every recovered store with one element of each channel's
//     commit sequence, and the call adds exactly one);
//   - an item the call reports Durable / AlreadyDurable is on disk when the call returns.  An item
//     that writes nothing itself (the retry of a proposal carried by the same call) depends on the
//     group's commit like the item it repeats.  This only shows when the group's commit does not
//     happen, so cancellation points are enumerated like crash points: the call is first made with
//     a context that reports cancellation at its 1st, 2nd, 3rd ... poll (Done / Err), as long as the
//     poll comes before the request reaches the commit coordinator (pkg/db/internal/commit; once it
//     is queued there a cancellation makes the outcome unknown and the commit asynchronous, which
//     is outside this check), and finally without cancellation.  After every cancelled attempt
//     that reports an item durable / already durable a power-loss image of the file system is
//     reopened and must hold that item's proposal (the property's last sentence, checked directly),
//     and TLC validates the attempt against BatchCancelled.
//
// The coordinator's SetCommitFunc hook (a failing physical commit) is reachable only from inside
// pkg/db/message; a file-system error injected below Pebble ends in Pebble's fatal-error path.  A
// reply cannot be observed before the group's WAL sync: StoreAppendBatch returns all replies
// together after the commit.  The cancelled context is the exported way to a refused commit.

import (
	"context"
	"errors"
	"fmt"
	"math/rand"
	"runtime"
	"strings"
	"sync/atomic"
	"time"

	"github.com/WuKongIM/WuKongIM/pkg/db/message"
	"github.com/cockroachdb/pebble/v2/vfs"
	"verif/runner/kit"
)

// ---- a context that is cancelled at its k-th poll -----------------------------------------------

const commitPkg = "/pkg/db/internal/commit."

type pollCtx struct {
	k         int64
	n         atomic.Int64
	fired     atomic.Bool
	inCommit  atomic.Bool
	closed    chan struct{}
	open      chan struct{}
	pollsSeen atomic.Int64
}

func newPollCtx(k int64) *pollCtx {
	c := &pollCtx{k: k, closed: make(chan struct{}), open: make(chan struct{})}
	close(c.closed)
	return c
}

func fromCommitCoordinator() bool {
	var pcs [48]uintptr
	n := runtime.Callers(3, pcs[:])
	frames := runtime.CallersFrames(pcs[:n])
	for {
		f, more := frames.Next()
		if strings.Contains(f.Function, commitPkg) {
			return true
		}
		if !more {
			return false
		}
	}
}

// poll reports whether the context is cancelled now.  Once cancelled it stays cancelled; once the
// commit coordinator was reached without a cancellation it never is.
func (c *pollCtx) poll() bool {
	if c.fired.Load() {
		return true
	}
	if c.inCommit.Load() {
		return false
	}
	if fromCommitCoordinator() {
		c.inCommit.Store(true)
		return false
	}
	c.pollsSeen.Add(1)
	if c.n.Add(1) >= c.k {
		c.fired.Store(true)
		return true
	}
	return false
}

func (c *pollCtx) Deadline() (time.Time, bool) { return time.Time{}, false }
func (c *pollCtx) Value(any) any               { return nil }
func (c *pollCtx) Done() <-chan struct{} {
	if c.poll() {
		return c.closed
	}
	return c.open
}
func (c *pollCtx) Err() error {
	if c.poll() {
		return context.Canceled
	}
	return nil
}

// ---- the call -------------------------------------------------------------------------------------

type batchItem struct {
	c    string
	pid  int64
	b    uint64
	recs []rec
	mode string
	hw   uint64
}

func batchItemsOf(k map[string]any) ([]batchItem, error) {
	var out []batchItem
	for _, x := range kit.List(k, "items") {
		m, ok := x.(map[string]any)
		if !ok {
			return nil, fmt.Errorf("Batch: item is not a record")
		}
		it := batchItem{c: kit.Str(m, "c"), pid: kit.Int(m, "pid"), b: uint64(kit.Int(m, "b")), recs: recsOfList(kit.List(m, "recs")),
			mode: kit.Str(m, "mode"), hw: uint64(kit.Int(m, "hw"))}
		if _, ok := chanDefs[it.c]; !ok || len(it.recs) == 0 || (it.mode != "strict" && it.mode != "alloc") {
			return nil, fmt.Errorf("Batch: bad item %s", kit.JSON(m))
		}
		out = append(out, it)
	}
	if len(out) == 0 {
		return nil, fmt.Errorf("Batch without items")
	}
	return out, nil
}

func batchItemsJSON(items []batchItem) []any {
	out := make([]any, len(items))
	for i, it := range items {
		out[i] = map[string]any{"c": it.c, "pid": it.pid, "b": int64(it.b), "recs": recsJSON(it.recs), "mode": it.mode, "hw": int64(it.hw)}
	}
	return out
}

// sealBatch seals the items of one call in order: a stored command is sent again byte for byte,
// the retry of an earlier item of the call likewise, a pipelined item (base above the log end) is
// chained on the latest earlier item of the call that ends at its base.
func (s *store) sealBatch(items []batchItem) ([]sealed, error) {
	sps := make([]sealed, len(items))
	leo := map[string]uint64{}
	for i, it := range items {
		if _, ok := leo[it.c]; !ok {
			v, err := s.compat[it.c].LEOWithError()
			if err != nil {
				return nil, err
			}
			leo[it.c] = v
		}
		if old, ok := s.issued[it.c][it.pid]; ok && old.base == it.b && sameRecs(old.recs, it.recs) && s.chainHolds(it.c, old) {
			sps[i] = old
			continue
		}
		reused := false
		for k := i - 1; k >= 0 && !reused; k-- {
			if items[k].c == it.c && items[k].pid == it.pid && items[k].b == it.b && sameRecs(items[k].recs, it.recs) {
				sps[i], reused = sps[k], true
			}
		}
		if reused {
			continue
		}
		prev, have := s.chain[it.c][it.b]
		if it.b > leo[it.c] {
			for k := i - 1; k >= 0; k-- {
				if items[k].c == it.c && sps[k].manifest.LastOffset == it.b && len(sps[k].entries) > 0 {
					prev, have = sps[k].entries[len(sps[k].entries)-1], true
					break
				}
			}
		}
		sp, err := seal(it.c, it.pid, it.b, it.recs, prev, have)
		if err != nil {
			return nil, err
		}
		sps[i] = sp
	}
	return sps, nil
}

// batchAttempt makes one StoreAppendBatch call; cancelAt > 0: with a context cancelled at that poll.
// fired = the call was told that its context is cancelled.
func (s *store) batchAttempt(items []batchItem, cancelAt int64) (reps []any, fired bool, err error) {
	sps, err := s.sealBatch(items)
	if err != nil {
		return nil, false, err
	}
	in := make([]message.AppendBatchItem, len(items))
	for i, it := range items {
		in[i] = message.AppendBatchItem{Store: s.compat[it.c], Records: compatRecords(it.c, it.recs, 0, exactEpoch), Committed: it.hw,
			Class: message.AppendBatchClassLeaderQuorum, ServerAllocatedMessageIDs: it.mode == "alloc", ExactBaseOffset: true,
			ExpectedBaseOffset: it.b, Proposal: sps[i].manifest}
	}
	var ctx context.Context = bg
	var pc *pollCtx
	if cancelAt > 0 {
		pc = newPollCtx(cancelAt)
		ctx = pc
	}
	results := message.StoreAppendBatch(ctx, in)
	if len(results) != len(items) {
		return nil, false, fmt.Errorf("StoreAppendBatch returned %d results for %d items", len(results), len(items))
	}
	fired = pc != nil && pc.fired.Load()
	reps = make([]any, len(items))
	for i, r := range results {
		o := outcomeName(r.Outcome)
		if r.Err != nil || o == "none" {
			cls := errClass(r.Err)
			switch {
			case r.Err != nil && errors.Is(r.Err, context.Canceled):
				cls = "cancelled"
			case cls == "":
				cls = "other: outcome " + fmt.Sprint(r.Outcome)
			}
			if strings.HasPrefix(cls, "other") {
				return nil, fired, fmt.Errorf("item %d: unexpected result: outcome %v err %v", i, r.Outcome, r.Err)
			}
			reps[i] = map[string]any{"err": cls, "out": "none", "base": 0, "last": 0}
			continue
		}
		if !fired || o == "already" {
			s.issued[items[i].c][items[i].pid] = sps[i]
		}
		if o == "durable" {
			if fired {
				// told to stop and committed all the same: legitimate for the code, not described by the model
				return nil, fired, fmt.Errorf("item %d reported durable by a call whose context was cancelled before the commit coordinator was reached", i)
			}
			for _, e := range sps[i].entries {
				s.chain[items[i].c][e.Index] = e
			}
		}
		reps[i] = map[string]any{"err": "", "out": o, "base": r.BaseOffset + 1, "last": r.LastOffset}
	}
	return reps, fired, nil
}

const maxCancelPolls = 400

// batch performs the call k: {"a":"Batch","items":[..]} plus either
//
//	"sweep": true   every cancellation point first (attempts that are not logged), then the call itself
//	"cancel": n     one attempt with the context cancelled at its n-th poll (logged by the caller as a call of its own)
func (s *store) batch(k map[string]any) (map[string]any, error) {
	if s.isTyped() {
		return nil, fmt.Errorf("Batch on the typed surface")
	}
	items, err := batchItemsOf(k)
	if err != nil {
		return nil, err
	}
	attempt := func(cancelAt int64) (map[string]any, bool, error) {
		reps, fired, err := s.batchAttempt(items, cancelAt)
		if err != nil {
			return nil, fired, err
		}
		if fired && s.afterCancelled != nil {
			s.afterCancelled(items, reps, cancelAt)
		}
		return map[string]any{"err": "", "items": reps, "cancelled": fired}, fired, nil
	}
	if kit.Bool(k, "sweep") {
		for n := int64(1); n <= maxCancelPolls; n++ {
			res, fired, err := attempt(n)
			if err != nil {
				return nil, err
			}
			if !fired {
				s.cancelPoints += n - 1
				return res, nil
			}
		}
		return nil, fmt.Errorf("Batch: the call still polls its context after %d cancelled attempts", maxCancelPolls)
	}
	res, _, err := attempt(kit.Int(k, "cancel"))
	return res, err
}

// ---- "reported durable" checked directly ---------------------------------------------------------

type claim struct {
	detail string
	replay map[string]any
}

// cancelledAttempt runs after a StoreAppendBatch call that was cancelled before its group reached
// the commit coordinator.  Every item it reports durable / already durable must be found after a
// power loss right now.
func (r *run) cancelledAttempt(items []batchItem, reps []any, cancelAt int64) {
	var claimed []int
	for i, x := range reps {
		if o := kit.Str(x.(map[string]any), "out"); o == "durable" || o == "already" {
			claimed = append(claimed, i)
		}
	}
	if len(claimed) == 0 {
		return
	}
	key := fmt.Sprintf("%v/%s", claimed, kit.JSON(batchItemsJSON(items)))
	r.mu.Lock()
	if r.claimSeen == nil {
		r.claimSeen = map[string]bool{}
	}
	seen := r.claimSeen[key]
	r.claimSeen[key] = true
	pos := len(r.events)
	r.mu.Unlock()
	if seen {
		return // the same items claimed by an earlier cancellation point of the same call
	}
	img := r.fs.mem.CrashClone(vfs.CrashCloneCfg{UnsyncedDataPercent: 0, RNG: r.rng})
	cold, err := r.recover(img)
	if err != nil {
		r.infraf("recovering the image after a cancelled call: %v", err)
		return
	}
	for _, i := range claimed {
		it := items[i]
		idx := -1
		for j, p := range r.p.pids {
			if p == it.pid {
				idx = j
			}
		}
		if idx < 0 {
			continue // not a probe command
		}
		cmds := kit.List(kit.Map(kit.Map(cold, it.c), "ex"), "cmds")
		if idx >= len(cmds) {
			continue
		}
		cm, _ := cmds[idx].(map[string]any)
		if kit.Int(cm, "p") == 1 && kit.Int(cm, "base") == int64(it.b) && kit.Int(cm, "last") == int64(it.b)+int64(len(it.recs)) {
			continue
		}
		r.mu.Lock()
		r.claims = append(r.claims, claim{
			detail: fmt.Sprintf("StoreAppendBatch (context cancelled at its poll %d, before the group reached the commit coordinator) reported item %d (channel %s, command %d, offsets %d..%d) as %s; after a power loss right after the call returned the store holds no such proposal (recovered: %s)",
				cancelAt, i, it.c, it.pid, it.b+1, it.b+uint64(len(it.recs)), kit.Str(reps[i].(map[string]any), "out"), kit.JSON(cm)),
			replay: map[string]any{"history": r.historyJSON(), "events_before_crash": pos, "call": map[string]any{"a": "Batch", "items": batchItemsJSON(items), "cancel": cancelAt},
				"replies": reps, "recovered": cold}})
		r.mu.Unlock()
	}
}

// checkClaims reports the claims of a run that the recovered store did not honour.
func (h *harness) checkClaims(r *run, what string) {
	r.mu.Lock()
	cs := r.claims
	r.claims = nil
	r.mu.Unlock()
	for _, c := range cs {
		h.rep.Violate("C09", "reported-durable", what+": "+c.detail, c.replay)
	}
}

// ---- driver (code -> spec) --------------------------------------------------------------------------

// batchWriter drives exact-only channels through multi-item calls.
type batchWriter struct {
	r     *run
	rng   *rand.Rand
	p     probes
	next  map[string]int64 // next id of a channel
	leo   map[string]int64
	hw    map[string]int64
	props map[string][]propInfo
	pid   map[string]int64
	keys  map[string]map[[2]string]bool
}

func newBatchWriter(r *run, p probes, base int64, rng *rand.Rand) *batchWriter {
	w := &batchWriter{r: r, rng: rng, p: p, next: map[string]int64{}, leo: map[string]int64{}, hw: map[string]int64{},
		props: map[string][]propInfo{}, pid: map[string]int64{}, keys: map[string]map[[2]string]bool{}}
	for _, c := range chanNames {
		w.next[c] = base
		for homeOf(w.next[c]) != c {
			w.next[c]++
		}
		w.pid[c] = 1
		w.keys[c] = map[[2]string]bool{}
	}
	return w
}

func (w *batchWriter) pick(pool []string) string {
	if k := w.rng.Intn(len(pool) + 1); k < len(pool) {
		return pool[k]
	}
	return ""
}

// fresh returns a record with an unused id of c and a key that is not stored in c nor in `not`.
func (w *batchWriter) fresh(c string, keyed bool, not ...rec) rec {
	for {
		r := rec{id: w.next[c], from: w.pick(w.p.froms), no: w.pick(w.p.nos), p: []int64{0, 1, 3, 4}[w.rng.Intn(4)]}
		if keyed && (r.from == "" || r.no == "") {
			r.from, r.no = w.p.froms[w.rng.Intn(len(w.p.froms))], fmt.Sprintf("k%d", r.id)
		}
		clash := r.from != "" && r.no != "" && w.keys[c][[2]string{r.from, r.no}]
		for _, x := range not {
			clash = clash || (r.from != "" && r.no != "" && x.from == r.from && x.no == r.no)
		}
		if clash {
			r.no = fmt.Sprintf("k%d", r.id)
		}
		w.next[c] += int64(len(chanNames))
		return r
	}
}

func (w *batchWriter) newPid(c string) int64 { p := w.pid[c]; w.pid[c]++; return p }

// call makes the (possibly swept) call and folds the replies into the writer's view.
func (w *batchWriter) call(items []batchItem, sweep bool) bool {
	final := map[string]any(nil)
	if sweep {
		for n := int64(1); n <= maxCancelPolls && final == nil; n++ {
			call := kit.Ev("Batch", "items", batchItemsJSON(items), "cancel", n)
			res := w.r.do(call)
			if kit.Str(res, "err") != "" {
				return false
			}
			call["rep"] = res // the reply, for the trace validator (it decides how the attempt is explained)
			w.r.crashPoint(refPoint, "") // nothing in flight: the reference image "after this attempt / before the next"
			if !kit.Bool(res, "cancelled") {
				final = res
				w.r.st.cancelPoints += n - 1
			}
		}
		if final == nil {
			w.r.infraf("Batch: still cancelled after %d polls", maxCancelPolls)
			return false
		}
	} else {
		call := kit.Ev("Batch", "items", batchItemsJSON(items), "cancel", 0)
		final = w.r.do(call)
		if kit.Str(final, "err") != "" {
			return false
		}
		call["rep"] = final
		w.r.crashPoint(refPoint, "")
	}
	for i, x := range kit.List(final, "items") {
		m := x.(map[string]any)
		it := items[i]
		last := int64(it.b) + int64(len(it.recs))
		switch kit.Str(m, "out") {
		case "durable":
			w.props[it.c] = append(w.props[it.c], propInfo{pid: it.pid, base: int64(it.b), last: last, recs: it.recs})
			if last > w.leo[it.c] {
				w.leo[it.c] = last
			}
			for _, r := range it.recs {
				if r.from != "" && r.no != "" {
					w.keys[it.c][[2]string{r.from, r.no}] = true
				}
			}
			fallthrough
		case "already":
			if int64(it.hw) > w.hw[it.c] {
				w.hw[it.c] = int64(it.hw)
			}
		}
	}
	return true
}

func (w *batchWriter) step() bool {
	c := chanNames[w.rng.Intn(len(chanNames))]
	leo := w.leo[c]
	mode := []string{"strict", "alloc"}[w.rng.Intn(2)]
	it := func(c string, pid, b int64, rs []rec, committed int64) batchItem {
		return batchItem{c: c, pid: pid, b: uint64(b), recs: rs, mode: mode, hw: uint64(committed)}
	}
	commit := func(last int64) int64 { // at or above the stored watermark, at or below the item's last offset
		if w.rng.Intn(3) > 0 || last <= w.hw[c] {
			return 0
		}
		return w.hw[c] + 1 + w.rng.Int63n(last-w.hw[c])
	}
	sweep := w.rng.Intn(2) == 0
	var items []batchItem
	switch x := w.rng.Intn(100); {
	case x < 30: // a proposal and its own retry in one call (the retry possibly with a committed value), possibly something chained
		r1 := w.fresh(c, false)
		first := it(c, w.newPid(c), leo, []rec{r1}, 0)
		if w.rng.Intn(3) == 0 {
			first.recs = append(first.recs, w.fresh(c, false, r1))
		}
		retry := first
		retry.hw = uint64(commit(leo + int64(len(first.recs))))
		items = []batchItem{first, retry}
		if w.rng.Intn(3) == 0 {
			next := it(c, w.newPid(c), leo+int64(len(first.recs)), []rec{w.fresh(c, false, first.recs...)}, 0)
			if w.rng.Intn(2) == 0 {
				items = []batchItem{first, next, retry}
			} else {
				items = append(items, next)
			}
		}
	case x < 55: // a pipelined chain of two or three
		n := 2 + w.rng.Intn(2)
		b := leo
		var used []rec
		for k := 0; k < n; k++ {
			r := w.fresh(c, false, used...)
			used = append(used, r)
			items = append(items, it(c, w.newPid(c), b, []rec{r}, commit(b+1)))
			b++
		}
	case x < 68: // the second pipelined proposal repeats the key of the first: refused, the first one is stored
		r1 := w.fresh(c, true)
		r2 := w.fresh(c, false)
		r2.from, r2.no = r1.from, r1.no
		items = []batchItem{it(c, w.newPid(c), leo, []rec{r1}, 0), it(c, w.newPid(c), leo+1, []rec{r2}, 0)}
	case x < 84: // two channels in one call, one of them possibly with a chain / a retry
		d := chanNames[0]
		if d == c {
			d = chanNames[1]
		}
		r1, rd := w.fresh(c, false), w.fresh(d, false)
		items = []batchItem{it(c, w.newPid(c), leo, []rec{r1}, commit(leo+1)), it(d, w.newPid(d), w.leo[d], []rec{rd}, 0)}
		switch w.rng.Intn(3) {
		case 0:
			items = append(items, it(c, w.newPid(c), leo+1, []rec{w.fresh(c, false, r1)}, 0))
		case 1:
			items = append(items, items[1])
		}
	case x < 94: // the replay of a stored proposal (possibly raising the watermark) next to a new one
		if len(w.props[c]) == 0 {
			return true
		}
		pr := w.props[c][w.rng.Intn(len(w.props[c]))]
		committed := int64(0)
		if pr.last > w.hw[c] && w.rng.Intn(2) == 0 {
			committed = w.hw[c] + 1 + w.rng.Int63n(pr.last-w.hw[c])
		}
		old := batchItem{c: c, pid: pr.pid, b: uint64(pr.base), recs: pr.recs, mode: "strict", hw: uint64(committed)}
		fresh := it(c, w.newPid(c), leo, []rec{w.fresh(c, false)}, 0)
		if w.rng.Intn(2) == 0 {
			items = []batchItem{old, fresh}
		} else {
			items = []batchItem{fresh, old}
		}
	default: // a gap behind the first item
		r1 := w.fresh(c, false)
		items = []batchItem{it(c, w.newPid(c), leo, []rec{r1}, 0), it(c, w.newPid(c), leo+2, []rec{w.fresh(c, false, r1)}, 0)}
	}
	return w.call(items, sweep)
}

const refPoint = "between-calls"

// callIsOneCommit checks, on a sequential history of multi-item calls, that the whole call is one
// commit for ALL of its channels: every store recovered from an image taken while a call was in
// flight equals, channel for channel, the store recovered before the call or the store recovered
// after it (the reference images taken while nothing was in flight), never a mixture (one
// channel with the call's commit, another one without).  TLC explains the same images channel
// by channel (Trace.tla); this is the cross-channel half.
func (h *harness) callIsOneCommit(r *run, what string) {
	refs := map[int][]map[string]any{} // position -> distinct recovered reference stores
	for _, im := range r.images {
		if im.cold != nil && im.err == "" && strings.HasPrefix(im.fsop, refPoint) {
			refs[im.pos] = append(refs[im.pos], im.cold)
		}
	}
	checked := 0
	for _, im := range r.images {
		if im.cold == nil || im.err != "" || im.pos == 0 || im.pos > len(r.events) {
			continue
		}
		// sequential history: the call in flight at position pos is the last Issue without a Reply
		last := r.events[im.pos-1]
		if last.reply || kit.Str(last.call, "a") != "Batch" {
			continue
		}
		before, after := refs[im.pos-1], refs[im.pos+1]
		if len(before) == 0 || len(after) == 0 {
			continue // (an attempt that was cancelled has no reference image of its own; it changes nothing)
		}
		ok := false
		for _, ref := range append(append([]map[string]any{}, before...), after...) {
			ok = ok || kit.Equal(ref, im.cold)
		}
		checked++
		if ok {
			continue
		}
		mixed := []string{}
		for _, c := range chanNames {
			isB, isA := false, false
			for _, ref := range before {
				isB = isB || kit.Equal(ref[c], im.cold[c])
			}
			for _, ref := range after {
				isA = isA || kit.Equal(ref[c], im.cold[c])
			}
			switch {
			case isB && isA:
				mixed = append(mixed, c+": unchanged by the call")
			case isB:
				mixed = append(mixed, c+": as before the call")
			case isA:
				mixed = append(mixed, c+": as after the call")
			default:
				mixed = append(mixed, c+": neither")
			}
		}
		h.rep.Violate("C09", "call-not-one-commit",
			fmt.Sprintf("%s: a crash before `%s` (%d%% of the unsynced data kept) while %s was in flight recovers a store that is neither the one before nor the one after the call (%s)",
				what, im.fsop, im.pct, kit.JSON(last.call), strings.Join(mixed, "; ")),
			map[string]any{"history": r.historyJSON(), "events_before_crash": im.pos, "image": im.fsop, "pct": im.pct, "recovered": im.cold})
		return
	}
	h.rep.AddExtra("crash_images_checked_whole_call_atomic", checked)
}

// batches: sequential histories of multi-item calls with every crash point and, for about half
// of the calls, every cancellation point enumerated.
func (h *harness) batches(rng *rand.Rand) {
	for i, n := 0, h.env.Pick(6, 40); i < n && h.rep.Violations() < 3; i++ {
		p, base := h.probes(rng)
		p.pids = nil
		for q := int64(1); q <= 16; q++ {
			p.pids = append(p.pids, q)
		}
		r, err := h.e.newRun("compat", p, uint64(12000+i))
		if err != nil {
			h.rep.Infra("batch history %d: cannot open the store: %v", i, err)
			return
		}
		w := newBatchWriter(r, p, base, rand.New(rand.NewSource(rng.Int63())))
		r.crashPoint(refPoint, "")
		for s, steps := 0, 3+rng.Intn(3); s < steps; s++ {
			if !w.step() {
				break
			}
		}
		h.rep.AddExtra("cancellation_points_enumerated", int(r.st.cancelPoints))
		h.finishRun(r, fmt.Sprintf("batch history %d", i))
		h.callIsOneCommit(r, fmt.Sprintf("batch history %d", i))
	}
}

package messagelogcrash

// One run = one mutation history executed on a fresh store over a crash-simulating file
// system.  Every file-system mutation of the engine is a crash point: before it is applied
// the run takes three images of the file system (vfs.MemFS.CrashClone keeping 0 %, 50 % and
// 100 % of the unsynced data: power loss with nothing / part / all of the page cache written
// back; the last one is also what a killed process leaves behind) together with the number of
// events (Issue / Reply) logged so far.  After the history every distinct image is opened as a
// store and projected.

import (
	"fmt"
	"math/rand/v2"
	"sort"
	"sync"
	"sync/atomic"
	"time"

	"github.com/cockroachdb/pebble/v2/vfs"
	"verif/runner/kit"
)

type event struct {
	reply bool
	op    int
	call  map[string]any // Issue
	res   map[string]any // Reply
}

type image struct {
	pos  int // number of events logged before the image was taken
	fsop string
	pct  int
	hash string
	fs   *vfs.MemFS
	cold map[string]any
	err  string
}

type env struct {
	mfs    *mountFS
	mounts atomic.Int64
	seed   uint64
	// statistics
	crashPoints atomic.Int64
	imagesTaken atomic.Int64
	imagesOpen  atomic.Int64
}

func (e *env) newMount(fs *crashFS) string {
	name := fmt.Sprintf("m%d", e.mounts.Add(1))
	e.mfs.mount(name, fs)
	return name
}

type run struct {
	e       *env
	surface string
	p       probes
	fs      *crashFS
	mount   string
	st      *store

	mu     sync.Mutex
	events []event
	images []*image
	seen   map[string]bool // pos/hash
	nops   int
	fsops  int
	rng    *rand.Rand

	// LEO pollers: at every crash point each of them performs one LEO() read before the image
	// is taken (so a log end published before its commit is durable is observed and logged)
	pollMu   sync.Mutex
	pollers  []*poller
	pollDead bool
	infra    []string
	finished atomic.Bool // no event is logged any more

	// multi-item calls (multibatch_test.go): items reported durable that a power-loss image did not hold
	claims    []claim
	claimSeen map[string]bool
}

type poller struct {
	c    string
	req  chan struct{}
	ack  chan struct{}
	quit chan struct{}
}

func (e *env) newRun(surface string, p probes, salt uint64) (*run, error) {
	r := &run{e: e, surface: surface, p: p, fs: newCrashFS(), seen: map[string]bool{},
		rng: rand.New(rand.NewPCG(e.seed, salt))}
	r.mount = e.newMount(r.fs)
	st, err := openStore("/"+r.mount, surface, p)
	if err != nil {
		e.mfs.unmount(r.mount)
		return nil, err
	}
	r.st = st
	st.afterCancelled = r.cancelledAttempt
	// the freshly created directories are made durable (a store whose directory entry is not
	// synced yet is not what the property is about)
	for _, d := range []string{"/", "/s"} {
		if f, err := r.fs.mem.OpenDir(d); err == nil {
			_ = f.Sync()
			_ = f.Close()
		}
	}
	r.fs.setHook(r.crashPoint)
	return r, nil
}

func (r *run) infraf(format string, a ...any) {
	r.mu.Lock()
	if len(r.infra) < 5 {
		r.infra = append(r.infra, fmt.Sprintf(format, a...))
	}
	r.mu.Unlock()
}

// crashPoint runs before every file-system mutation of the engine.
func (r *run) crashPoint(op, name string) {
	r.pollRound()
	r.mu.Lock()
	defer r.mu.Unlock()
	r.fsops++
	r.e.crashPoints.Add(1)
	pos := len(r.events)
	for _, pct := range []int{0, 50, 100} {
		m := r.fs.mem.CrashClone(vfs.CrashCloneCfg{UnsyncedDataPercent: pct, RNG: r.rng})
		h, err := imageHash(m)
		if err != nil {
			if len(r.infra) < 5 {
				r.infra = append(r.infra, fmt.Sprintf("hashing an image: %v", err))
			}
			continue
		}
		key := fmt.Sprintf("%d/%s", pos, h)
		if r.seen[key] {
			continue
		}
		r.seen[key] = true
		r.e.imagesTaken.Add(1)
		r.images = append(r.images, &image{pos: pos, fsop: op + " " + name, pct: pct, hash: h, fs: m})
	}
}

func (r *run) startPoller(c string) {
	p := &poller{c: c, req: make(chan struct{}), ack: make(chan struct{}, 1), quit: make(chan struct{})}
	r.pollMu.Lock()
	r.pollers = append(r.pollers, p)
	r.pollMu.Unlock()
	go func() {
		for {
			select {
			case <-p.quit:
				return
			case <-p.req:
				r.do(kit.Ev("Leo", "c", c))
				p.ack <- struct{}{}
			}
		}
	}()
}

func (r *run) stopPollers() {
	r.pollMu.Lock()
	for _, p := range r.pollers {
		close(p.quit)
	}
	r.pollers = nil
	r.pollMu.Unlock()
}

// pollRound lets every poller read the log end once.  The bounded wait only guards against a
// reader that blocks behind the very commit this crash point belongs to; it is no oracle.
func (r *run) pollRound() {
	r.pollMu.Lock()
	defer r.pollMu.Unlock()
	if r.pollDead {
		return
	}
	for _, p := range r.pollers {
		t := time.NewTimer(2 * time.Second)
		select {
		case p.req <- struct{}{}:
			select {
			case <-p.ack:
			case <-t.C:
				r.pollDead = true
			}
		case <-t.C:
			r.pollDead = true
		}
		t.Stop()
		if r.pollDead {
			return
		}
	}
}

// do issues one call, logs Issue before and Reply after it, and returns the reply.
func (r *run) do(call map[string]any) map[string]any {
	if r.finished.Load() {
		return map[string]any{"err": "closed"}
	}
	r.mu.Lock()
	r.nops++
	op := r.nops
	r.events = append(r.events, event{op: op, call: call})
	r.mu.Unlock()
	res, err := r.st.call(call)
	if r.finished.Load() {
		return map[string]any{"err": "closed"} // a straggler of a run that is already being evaluated
	}
	if err != nil {
		r.infraf("call %s: %v", kit.JSON(call), err)
		res = map[string]any{"err": "other: " + err.Error()}
	} else if cls, _ := res["err"].(string); len(cls) > 5 && cls[:5] == "other" {
		r.infraf("call %s: unexpected error %s", kit.JSON(call), cls)
	}
	res = kit.Canon(res).(map[string]any)
	r.mu.Lock()
	if !r.finished.Load() {
		r.events = append(r.events, event{reply: true, op: op, res: res})
	}
	r.mu.Unlock()
	return res
}

// finish takes the last crash point (everything replied), closes the store and recovers every
// image.  The images come back sorted by position.
func (r *run) finish(workers int) {
	r.stopPollers()
	r.crashPoint("end", "")
	r.fs.setHook(nil)
	r.mu.Lock()
	r.finished.Store(true)
	r.mu.Unlock()
	r.st.close()
	r.e.mfs.unmount(r.mount)
	r.infra = append(r.infra, r.st.infra...)

	byHash := map[string][]*image{}
	var order []string
	for _, im := range r.images {
		if _, ok := byHash[im.hash]; !ok {
			order = append(order, im.hash)
		}
		byHash[im.hash] = append(byHash[im.hash], im)
	}
	jobs := make(chan string)
	var wg sync.WaitGroup
	for w := 0; w < workers; w++ {
		wg.Add(1)
		go func() {
			defer wg.Done()
			for h := range jobs {
				ims := byHash[h]
				cold, err := r.recover(ims[0].fs)
				for _, im := range ims {
					im.cold, im.fs = cold, nil
					if err != nil {
						im.err = err.Error()
					}
				}
			}
		}()
	}
	for _, h := range order {
		jobs <- h
	}
	close(jobs)
	wg.Wait()
	sort.SliceStable(r.images, func(i, j int) bool { return r.images[i].pos < r.images[j].pos })
}

// recover opens the store on a crash image and projects every channel.
func (r *run) recover(m *vfs.MemFS) (map[string]any, error) {
	r.e.imagesOpen.Add(1)
	name := r.e.newMount(wrapClone(m))
	defer r.e.mfs.unmount(name)
	st, err := openStore("/"+name, r.surface, r.p)
	if err != nil {
		return nil, fmt.Errorf("the store does not open on the crash image: %w", err)
	}
	defer st.close()
	cold := st.cold()
	if len(st.infra) > 0 {
		return cold, fmt.Errorf("projection of the recovered store: %s", st.infra[0])
	}
	return cold, nil
}

// pendingAt returns the calls issued but not replied before position pos.
func (r *run) pendingAt(pos int) []map[string]any {
	open := map[int]map[string]any{}
	for _, ev := range r.events[:pos] {
		if ev.reply {
			delete(open, ev.op)
		} else {
			open[ev.op] = ev.call
		}
	}
	var out []map[string]any
	for _, c := range open {
		out = append(out, c)
	}
	return out
}

func (r *run) cfgJSON() map[string]any {
	return map[string]any{"surface": r.surface, "ids": r.p.ids, "froms": r.p.froms, "nos": r.p.nos, "pids": r.p.pids}
}

// record writes the run as one trace: Init, then the events in their logged order with a
// Recovered line for every distinct recovered projection at the position its image was taken.
func (r *run) record(rec *kit.Recorder) (lines, recovered int) {
	rec.Begin(map[string]any{"cfg": r.cfgJSON()}, nil)
	ii := 0
	emit := func(pos int) {
		seen := map[string]bool{}
		for ii < len(r.images) && r.images[ii].pos == pos {
			im := r.images[ii]
			ii++
			if im.cold == nil {
				continue
			}
			j := kit.JSON(im.cold)
			if seen[j] {
				continue
			}
			seen[j] = true
			rec.Step(map[string]any{"a": "Recovered", "at": im.fsop, "pct": im.pct}, im.cold)
			recovered++
			lines++
		}
	}
	for i, ev := range r.events {
		emit(i)
		if ev.reply {
			rec.Step(map[string]any{"a": "Reply", "op": ev.op, "res": ev.res}, nil)
		} else {
			rec.Step(map[string]any{"a": "Issue", "op": ev.op, "call": ev.call}, nil)
		}
		lines++
	}
	emit(len(r.events))
	return lines, recovered
}

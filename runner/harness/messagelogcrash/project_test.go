package messagelogcrash

// The projection of one channel of a (re)opened store: the MessageLog projection (copied from
// runner/harness/messagelog, which belongs to another check and is not importable), then the
// retention state and the exact-proposal view.

import (
	"errors"
	"fmt"

	"github.com/WuKongIM/WuKongIM/pkg/db/message"
	cc "github.com/WuKongIM/WuKongIM/pkg/db/message/channelcompat"
	"github.com/WuKongIM/WuKongIM/pkg/quorumlog"
	"verif/runner/kit"
)

type lease struct {
	t *message.ChannelLog
	k *message.ChannelStore
}

func (s *store) lease(c string) lease { return lease{t: s.typed[c], k: s.compat[c]} }

// ---- projection ---------------------------------------------------------------------------

// row is one observed message reduced to the specification's record; p = -1 when some field
// is not byte-identical to what was appended for (id, from, no).
type row struct {
	seq, id int64
	from    string
	no      string
	p       int64
}

func (r row) json() map[string]any {
	return map[string]any{"seq": r.seq, "id": r.id, "from": r.from, "no": r.no, "p": r.p}
}

func (s *store) rowTyped(c string, m message.Message) row {
	d := chanDefs[c]
	out := row{seq: int64(m.MessageSeq), id: int64(m.MessageID), from: m.FromUID, no: m.ClientMsgNo, p: -1}
	for _, p := range payOrder {
		pay := payloadFor(out.id, p)
		if string(pay) == string(m.Payload) && m.ServerTimestampMS == tsFor(out.id, p) && m.ChannelID == d.id && m.ChannelType == d.typ &&
			(len(pay) == 0 || m.PayloadHash == fnv64a(pay)) {
			out.p = p
			break
		}
	}
	return out
}

func (s *store) rowCompat(c string, m cc.Message) row {
	out := row{seq: int64(m.MessageSeq), id: int64(m.MessageID), from: m.FromUID, no: m.ClientMsgNo, p: -1}
	for _, p := range payOrder {
		want := compatMessage(c, rec{id: out.id, from: out.from, no: out.no, p: p})
		if sameCompat(want, m) {
			out.p = p
			break
		}
	}
	return out
}

const inf = ^uint64(0)

// stale maps a lookup error to the projection's marker: -1 for a detected stale index
// (ErrCorruptState), anything else is harness trouble.
func (s *store) stale(what string, err error) int64 {
	if errClass(err) == "rejected" {
		return -1
	}
	s.infra = append(s.infra, fmt.Sprintf("%s: %v", what, err))
	return -3
}

func seqsOf(rows []row) []int64 {
	out := make([]int64, len(rows))
	for i, r := range rows {
		out[i] = r.seq
	}
	return out
}

func (s *store) scan(c string, from uint64, limit int, reverse bool) ([]row, error) {
	l := s.lease(c)
	var out []row
	if s.isTyped() {
		var ms []message.Message
		var err error
		if reverse {
			ms, err = l.t.ReadReverse(bg, from, message.ReadOptions{Limit: limit})
		} else {
			ms, err = l.t.Read(bg, from, message.ReadOptions{Limit: limit})
		}
		if err != nil {
			return nil, err
		}
		for _, m := range ms {
			out = append(out, s.rowTyped(c, m))
		}
		return out, nil
	}
	ms, err := l.k.ListMessagesBySeq(bg, from, limit, 0, reverse)
	if err != nil {
		return nil, err
	}
	for _, m := range ms {
		out = append(out, s.rowCompat(c, m))
	}
	return out, nil
}

func (s *store) projectChan(c string) map[string]any {
	l := s.lease(c)
	var leo uint64
	var err error
	if s.isTyped() {
		leo, err = l.t.LEO(bg)
	} else {
		leo, err = l.k.LEOWithError()
	}
	if err != nil {
		s.infra = append(s.infra, fmt.Sprintf("LEO(%s): %v", c, err))
	}
	out := map[string]any{"isOpen": true, "leo": leo}

	// forward scan of everything; the point reads below are cross-checked against it
	fwd, err := s.scan(c, 1, 0, false)
	if err != nil {
		// an unreadable log: reported as a single row marker so that the comparison fails on "log"
		fwd = []row{{seq: s.stale("scan("+c+")", err), p: -1}}
	}
	bySeqRow := map[int64]row{}
	logRows := make([]any, len(fwd))
	for i, r := range fwd {
		bySeqRow[r.seq] = r
		logRows[i] = r.json()
	}
	// compat: the raw log records must be the bytes that were appended
	if !s.isTyped() && err == nil {
		recs, rerr := l.k.Read(0, 1<<30)
		if rerr != nil || len(recs) != len(fwd) {
			logRows = append(logRows, map[string]any{"seq": -2, "id": 0, "from": "", "no": "", "p": -1})
		} else {
			for i, rc := range recs {
				want := encodeCompat(compatMessage(c, rec{id: fwd[i].id, from: fwd[i].from, no: fwd[i].no, p: fwd[i].p}))
				if fwd[i].p >= 0 && (string(rc.Payload) != string(want) || int64(rc.Index) != fwd[i].seq || int64(rc.ID) != fwd[i].id) {
					m := fwd[i].json()
					m["p"] = -1
					logRows[i] = m
				}
			}
		}
	}
	out["log"] = logRows

	rev, err := s.scan(c, 0, 0, true)
	if err != nil {
		out["rev"] = []int64{s.stale("rev("+c+")", err)}
	} else {
		out["rev"] = seqsOf(rev)
	}

	lo := int64(1)
	if int64(leo)-3 > lo {
		lo = int64(leo) - 3
	}
	var window []int64
	for q := lo; q <= int64(leo); q++ {
		window = append(window, q)
	}

	// point reads by sequence over the window and one past the log end
	bySeq := []int64{}
	for _, q := range append(append([]int64{}, window...), int64(leo)+1) {
		var id int64
		var ok bool
		var got row
		if s.isTyped() {
			m, found, e := l.t.GetBySeq(bg, uint64(q))
			ok, err = found, e
			if found {
				got = s.rowTyped(c, m)
			}
		} else {
			m, found, e := l.k.GetMessageBySeq(uint64(q))
			ok, err = found, e
			if found {
				got = s.rowCompat(c, m)
			}
		}
		switch {
		case err != nil:
			id = s.stale(fmt.Sprintf("GetBySeq(%s,%d)", c, q), err)
		case ok:
			id = got.id
			if got != bySeqRow[q] {
				id = -2 // differs from the scanned row
			}
		}
		bySeq = append(bySeq, id)
	}
	out["bySeq"] = bySeq

	// message id index
	byID := []int64{}
	for _, id := range s.ids {
		var v int64
		var ok bool
		var got row
		if s.isTyped() {
			m, found, e := l.t.GetByMessageID(bg, uint64(id))
			ok, err = found, e
			if found {
				got = s.rowTyped(c, m)
			}
		} else {
			m, found, e := l.k.GetMessageByMessageID(uint64(id))
			ok, err = found, e
			if found {
				got = s.rowCompat(c, m)
			}
		}
		switch {
		case err != nil:
			v = s.stale(fmt.Sprintf("GetByMessageID(%s,%d)", c, id), err)
		case ok:
			v = got.seq
			if got != bySeqRow[got.seq] || got.id != id {
				v = -2
			}
		}
		byID = append(byID, v)
	}
	out["byId"] = byID

	// (sender, client number) index
	byKey := [][]int64{}
	for _, f := range s.froms {
		line := []int64{}
		for _, n := range s.nos {
			var v int64
			if s.isTyped() {
				hit, ok, e := l.t.LookupIdempotency(bg, message.IdempotencyKey{FromUID: f, ClientMsgNo: n})
				switch {
				case e != nil:
					v = s.stale(fmt.Sprintf("LookupIdempotency(%s,%s,%s)", c, f, n), e)
				case ok:
					v = int64(hit.MessageSeq)
					r := bySeqRow[v]
					if r.from != f || r.no != n || r.id != int64(hit.MessageID) || hit.Offset+1 != hit.MessageSeq {
						v = -2
					}
				}
			} else {
				d := chanDefs[c]
				ent, _, ok, e := l.k.LookupIdempotency(cc.IdempotencyKey{ChannelID: cc.ChannelID{ID: d.id, Type: d.typ}, FromUID: f, ClientMsgNo: n})
				switch {
				case e != nil:
					v = s.stale(fmt.Sprintf("LookupIdempotency(%s,%s,%s)", c, f, n), e)
				case ok:
					v = int64(ent.MessageSeq)
					r := bySeqRow[v]
					if r.from != f || r.no != n || r.id != int64(ent.MessageID) || ent.Offset+1 != ent.MessageSeq {
						v = -2
					}
				}
			}
			line = append(line, v)
		}
		byKey = append(byKey, line)
	}
	out["byKey"] = byKey

	// client number listing, newest first
	byNo := [][]int64{}
	for _, n := range s.nos {
		line := []int64{}
		if s.isTyped() {
			page, e := l.t.ListByClientMsgNo(bg, n, 0, 256)
			if e != nil {
				line = []int64{s.stale(fmt.Sprintf("ListByClientMsgNo(%s,%s)", c, n), e)}
			} else {
				for _, m := range page.Messages {
					r := s.rowTyped(c, m)
					if r != bySeqRow[r.seq] || r.no != n {
						line = append(line, -2)
					} else {
						line = append(line, r.seq)
					}
				}
			}
		} else {
			ms, _, _, e := l.k.ListMessagesByClientMsgNo(n, 0, 256)
			if e != nil {
				line = []int64{s.stale(fmt.Sprintf("ListMessagesByClientMsgNo(%s,%s)", c, n), e)}
			} else {
				for _, m := range ms {
					r := s.rowCompat(c, m)
					if r != bySeqRow[r.seq] || r.no != n {
						line = append(line, -2)
					} else {
						line = append(line, r.seq)
					}
				}
			}
		}
		byNo = append(byNo, line)
	}
	out["byNo"] = byNo

	// sender sequence index
	bySender := [][]int64{}
	for _, f := range s.froms {
		line := []int64{}
		probes := []uint64{}
		for _, q := range window {
			probes = append(probes, uint64(q))
		}
		probes = append(probes, inf)
		for _, t := range probes {
			var seq uint64
			var ok bool
			var e error
			if s.isTyped() {
				seq, ok, e = l.t.GetLastSenderMessageSeq(bg, f, t)
			} else {
				seq, ok, e = l.k.GetLastSenderMessageSeq(bg, f, t)
			}
			switch {
			case e != nil:
				line = append(line, s.stale(fmt.Sprintf("GetLastSenderMessageSeq(%s,%s,%d)", c, f, t), e))
			case ok:
				line = append(line, int64(seq))
			default:
				line = append(line, 0)
			}
		}
		bySender = append(bySender, line)
	}
	out["bySender"] = bySender

	// paged reads from every sequence of the window
	pages := []any{}
	for _, q := range window {
		f, e1 := s.scan(c, uint64(q), 2, false)
		r, e2 := s.scan(c, uint64(q), 2, true)
		pf, pr := seqsOf(f), seqsOf(r)
		if e1 != nil {
			pf = []int64{s.stale(fmt.Sprintf("Read(%s,%d)", c, q), e1)}
		}
		if e2 != nil {
			pr = []int64{s.stale(fmt.Sprintf("ReadReverse(%s,%d)", c, q), e2)}
		}
		for i, x := range f {
			if x != bySeqRow[x.seq] {
				pf[i] = -2
			}
		}
		for i, x := range r {
			if x != bySeqRow[x.seq] {
				pr[i] = -2
			}
		}
		pages = append(pages, map[string]any{"f": pf, "r": pr})
	}
	out["pages"] = pages

	// checkpoint register
	cp := map[string]any{"has": false, "hw": 0}
	if s.isTyped() {
		ck, ok, e := l.t.LoadCheckpoint(bg)
		if e != nil {
			s.infra = append(s.infra, fmt.Sprintf("LoadCheckpoint(%s): %v", c, e))
		} else if ok {
			cp = map[string]any{"has": true, "hw": ck.HW}
		}
	} else {
		ck, e := l.k.LoadCheckpoint()
		if e == nil {
			cp = map[string]any{"has": true, "hw": ck.HW}
		} else if !errors.Is(e, cc.ErrEmptyState) {
			s.infra = append(s.infra, fmt.Sprintf("LoadCheckpoint(%s): %v", c, e))
		}
	}
	out["cp"] = cp
	return out
}

// retention returns the durable retention state of a channel.
func (s *store) retention(c string) map[string]any {
	none := map[string]any{"has": false, "local": 0, "phys": 0, "rmax": 0}
	if s.isTyped() {
		st, ok, err := s.typed[c].LoadRetentionState(bg)
		if err != nil {
			s.infra = append(s.infra, fmt.Sprintf("LoadRetentionState(%s): %v", c, err))
			return none
		}
		if !ok {
			return none
		}
		return map[string]any{"has": true, "local": st.LocalRetentionThroughSeq, "phys": st.PhysicalRetentionThroughSeq, "rmax": st.RetainedMaxSeq}
	}
	st, err := s.compat[c].LoadRetentionState()
	if err != nil {
		s.infra = append(s.infra, fmt.Sprintf("LoadRetentionState(%s): %v", c, err))
		return none
	}
	if st.LocalRetentionThroughSeq == 0 {
		return none
	}
	return map[string]any{"has": true, "local": st.LocalRetentionThroughSeq, "phys": st.PhysicalRetentionThroughSeq, "rmax": st.RetainedMaxSeq}
}

func (s *store) pidOf(c string, cmd quorumlog.CommandID) int64 {
	for p := int64(1); p <= 256; p++ { // the drivers number their commands from 1
		if commandID(c, p) == cmd {
			return p
		}
	}
	return -9
}

// exact returns the exact-proposal view of a channel (compat surface): the frontier, the entry
// identities of the window of the last rows, and the proposal stored under every probe command.
func (s *store) exact(c string, m map[string]any) map[string]any {
	leo := kit.ToInt(m["leo"])
	lo := int64(1)
	if leo-3 > lo {
		lo = leo - 3
	}
	ents := []int64{}
	cmds := []any{}
	out := map[string]any{"ok": false, "leo": 0, "hw": 0, "tail": 0}
	if s.isTyped() {
		for q := lo; q <= leo; q++ {
			ents = append(ents, 0)
		}
		for range s.pids {
			cmds = append(cmds, map[string]any{"p": 0, "base": 0, "last": 0})
		}
		out["ents"], out["cmds"] = ents, cmds
		return out
	}
	st := s.compat[c]
	front, err := st.LoadDurableFrontier(bg)
	switch {
	case err == nil:
		out["ok"], out["leo"], out["hw"] = true, front.LEO, front.Committed
		if front.LEO > 0 {
			out["tail"] = s.pidOf(c, front.Manifest.CommandID)
			if front.TailIdentity.CommandID != front.Manifest.CommandID || front.TailIdentity.Index != front.LEO {
				out["tail"] = -2
			}
		}
	case errClass(err) != "rejected":
		s.infra = append(s.infra, fmt.Sprintf("LoadDurableFrontier(%s): %v", c, err))
	}
	rowsBySeq := map[int64]rec{}
	for _, r := range m["log"].([]any) {
		rm := r.(map[string]any)
		if kit.ToInt(rm["p"]) >= 0 {
			rowsBySeq[kit.ToInt(rm["seq"])] = rec{id: kit.ToInt(rm["id"]), from: rm["from"].(string), no: rm["no"].(string), p: kit.ToInt(rm["p"])}
		}
	}
	for q := lo; q <= leo; q++ {
		v := int64(0)
		rs, err := st.LoadDurableRecovery(bg, []uint64{uint64(q)})
		switch {
		case err == nil && len(rs.Entries) == 1 && rs.Entries[0].Present:
			id := rs.Entries[0].Identity
			v = s.pidOf(c, id.CommandID)
			if r, ok := rowsBySeq[q]; ok && !quorumlog.VerifyEntry(id, qlRecord(c, r, uint64(q))) {
				v = -2 // the identity does not certify the stored row
			}
		case err != nil && errClass(err) != "rejected":
			s.infra = append(s.infra, fmt.Sprintf("LoadDurableRecovery(%s,%d): %v", c, q, err))
		}
		ents = append(ents, v)
	}
	for _, p := range s.pids {
		e := map[string]any{"p": 0, "base": 0, "last": 0}
		pr, ok, err := st.LoadDurableProposal(bg, commandID(c, p), 1<<20, 1<<30)
		switch {
		case err != nil && errClass(err) == "rejected":
			e["p"] = -1
		case err != nil:
			s.infra = append(s.infra, fmt.Sprintf("LoadDurableProposal(%s,%d): %v", c, p, err))
		case ok:
			e = map[string]any{"p": 1, "base": pr.Manifest.BaseOffset, "last": pr.Manifest.LastOffset}
		}
		cmds = append(cmds, e)
	}
	out["ents"], out["cmds"] = ents, cmds
	return out
}

// cold is what a freshly opened store shows for every channel (specification: ColdProj).
func (s *store) cold() map[string]any {
	out := map[string]any{}
	for _, c := range chanNames {
		m := kit.Canon(s.projectChan(c)).(map[string]any)
		out[c] = map[string]any{"m": m, "ret": s.retention(c), "ex": s.exact(c, m), "eh": s.history(c)}
	}
	return kit.Canon(out).(map[string]any)
}

// clauses evaluates, on a cold projection, the two clauses of the property that need no
// history: the recovered log end is Max(last stored row, RetainedMaxSeq) and the committed
// watermark does not exceed it.  It returns a description of the first failing clause.
func clauses(cold map[string]any) string {
	for _, c := range chanNames {
		ch := kit.Map(cold, c)
		m := kit.Map(ch, "m")
		leo := kit.Int(m, "leo")
		last := int64(0)
		for _, r := range kit.List(m, "log") {
			if q := kit.Int(r.(map[string]any), "seq"); q > last {
				last = q
			}
		}
		want := last
		if ret := kit.Map(ch, "ret"); kit.Bool(ret, "has") && kit.Int(ret, "rmax") > want {
			want = kit.Int(ret, "rmax")
		}
		if leo != want {
			return fmt.Sprintf("%s: recovered log end %d, last stored row %d, retained max %d", c, leo, last, kit.Int(kit.Map(ch, "ret"), "rmax"))
		}
		if cp := kit.Map(m, "cp"); kit.Bool(cp, "has") && kit.Int(cp, "hw") > leo {
			return fmt.Sprintf("%s: committed watermark %d above the recovered log end %d", c, kit.Int(cp, "hw"), leo)
		}
		if d := historyClause(c, ch, leo); d != "" {
			return d
		}
	}
	return ""
}

package messagelogcrash

// The system under test: the real pkg/db message store opened, through the repository's
// verification hook, on an in-memory crash-simulating file system.  Two API surfaces of the
// same storage code, as in the MessageLog harness (specs/MessageLog):
//
//	"typed"   db.OpenNodeStore(..).Messages().Channel(..)  -> *message.ChannelLog
//	"compat"  message.Open(..).ForChannel(..)               -> *message.ChannelStore
//	          (the surface below pkg/channel/store; exact proposals, ReplaceRecoverySuffix and
//	          DiscardForRestore exist only here)
//
// The value mapping (records [id, from, no, p] -> real records, byte-identical read back) is
// the one of the MessageLog harness; the cold projection adds the retention state and the
// exact frontier / entry identities / proposals.

import (
	"context"
	"crypto/sha256"
	"encoding/binary"
	"errors"
	"fmt"

	"github.com/WuKongIM/WuKongIM/pkg/db"
	"github.com/WuKongIM/WuKongIM/pkg/db/message"
	cc "github.com/WuKongIM/WuKongIM/pkg/db/message/channelcompat"
	"github.com/WuKongIM/WuKongIM/pkg/quorumlog"
	"verif/runner/kit"
)

var bg = context.Background()

// Channel keys are chosen so that one key is a byte prefix of the other.
var chanDefs = map[string]struct {
	key string
	id  string
	typ uint8
}{
	"c1": {"vk/c1", "chan-c1", 2},
	"c2": {"vk/c1/2", "chan-c1-2", 1},
}

var chanNames = []string{"c1", "c2"}

// homeOf is the channel an id may be used on (specs/MessageLogCrash: Home).
func homeOf(id int64) string { return chanNames[id%2] }

// payload variants: size in bytes (9 = empty payload)
var paySizes = map[int64]int{0: 5, 1: 64, 2: 1, 3: 300, 4: 4096, 5: 20000, 9: 0}
var payOrder = []int64{0, 1, 2, 3, 4, 5, 9}

func payloadFor(id, p int64) []byte {
	n := paySizes[p]
	out := make([]byte, n)
	x := uint64(id)*0x9E3779B97F4A7C15 + uint64(p)*0xBF58476D1CE4E5B9 + 0x94D049BB133111EB
	for i := range out {
		x ^= x << 13
		x ^= x >> 7
		x ^= x << 17
		out[i] = byte(x >> 32)
	}
	return out
}

func tsFor(id, p int64) int64 { return 1_700_000_000_000 + id*1000 + p }

func fnv64a(b []byte) uint64 {
	h := uint64(14695981039346656037)
	for _, c := range b {
		h ^= uint64(c)
		h *= 1099511628211
	}
	return h
}

// rec is one record of the specification: [id, from, no, p].
type rec struct {
	id   int64
	from string
	no   string
	p    int64
}

func recOf(m map[string]any) rec {
	return rec{id: kit.Int(m, "id"), from: kit.Str(m, "from"), no: kit.Str(m, "no"), p: kit.Int(m, "p")}
}

func recsOfList(l []any) []rec {
	var out []rec
	for _, r := range l {
		out = append(out, recOf(r.(map[string]any)))
	}
	return out
}

func recsJSON(rs []rec) []any {
	out := make([]any, len(rs))
	for i, r := range rs {
		out[i] = map[string]any{"id": r.id, "from": r.from, "no": r.no, "p": r.p}
	}
	return out
}

// compat message: every durable field is a fixed function of (record, channel).
func compatMessage(c string, r rec) cc.Message {
	d := chanDefs[c]
	m := cc.Message{
		MessageID:         uint64(r.id),
		MsgKey:            fmt.Sprintf("mk-%d", r.id),
		Expire:            uint32(r.id%1000) + 7,
		ClientSeq:         uint64(r.id)*3 + uint64(r.p),
		ClientMsgNo:       r.no,
		StreamNo:          fmt.Sprintf("sn%d", r.p),
		StreamID:          uint64(r.id) + 100,
		Timestamp:         int32(1_700_000_000 + r.id%100000),
		ChannelID:         d.id,
		ChannelType:       d.typ,
		Topic:             "t/" + c,
		FromUID:           r.from,
		ServerTimestampMS: tsFor(r.id, r.p),
		Payload:           payloadFor(r.id, r.p),
	}
	if r.p%2 == 1 {
		m.Framer.RedDot = true
	}
	return m
}

func framerFlags(m cc.Message) byte {
	var f byte
	if m.Framer.NoPersist {
		f |= 1
	}
	if m.Framer.RedDot {
		f |= 2
	}
	if m.Framer.SyncOnce {
		f |= 4
	}
	if m.Framer.DUP {
		f |= 8
	}
	if m.Framer.HasServerVersion {
		f |= 16
	}
	if m.Framer.End {
		f |= 32
	}
	return f
}

// encodeCompat writes the durable message payload of the compat surface (the format decoded
// by message.decodeCompatibilityRecordPayload; there is no exported encoder).
func encodeCompat(m cc.Message) []byte {
	out := make([]byte, 0, 128+len(m.Payload))
	out = append(out, cc.DurableMessageCodecVersion)
	out = binary.BigEndian.AppendUint64(out, m.MessageID)
	out = append(out, framerFlags(m), byte(m.Setting), byte(m.StreamFlag), m.ChannelType)
	out = binary.BigEndian.AppendUint32(out, m.Expire)
	out = binary.BigEndian.AppendUint64(out, m.ClientSeq)
	out = binary.BigEndian.AppendUint64(out, m.StreamID)
	out = binary.BigEndian.AppendUint32(out, uint32(m.Timestamp))
	out = binary.BigEndian.AppendUint64(out, fnv64a(m.Payload))
	for _, s := range []string{m.MsgKey, m.ClientMsgNo, m.StreamNo, m.ChannelID, m.Topic, m.FromUID} {
		out = binary.BigEndian.AppendUint32(out, uint32(len(s)))
		out = append(out, s...)
	}
	out = binary.BigEndian.AppendUint32(out, uint32(len(m.Payload)))
	out = append(out, m.Payload...)
	if m.ServerTimestampMS != 0 {
		out = append(out, 'w', 'k', 't', 's')
		out = binary.BigEndian.AppendUint64(out, uint64(m.ServerTimestampMS))
	}
	return out
}

func sameCompat(a, b cc.Message) bool {
	return a.MessageID == b.MessageID && a.Framer == b.Framer && a.Setting == b.Setting && a.MsgKey == b.MsgKey &&
		a.Expire == b.Expire && a.ClientSeq == b.ClientSeq && a.ClientMsgNo == b.ClientMsgNo && a.StreamNo == b.StreamNo &&
		a.StreamID == b.StreamID && a.StreamFlag == b.StreamFlag && a.Timestamp == b.Timestamp && a.ChannelID == b.ChannelID &&
		a.ChannelType == b.ChannelType && a.Topic == b.Topic && a.FromUID == b.FromUID &&
		a.ServerTimestampMS == b.ServerTimestampMS && string(a.Payload) == string(b.Payload)
}

func errClass(err error) string {
	switch {
	case err == nil:
		return ""
	case errors.Is(err, db.ErrConflict), errors.Is(err, db.ErrCorruptState), errors.Is(err, db.ErrCorruptValue),
		errors.Is(err, cc.ErrCorruptState), errors.Is(err, cc.ErrCorruptValue):
		return "rejected"
	case errors.Is(err, db.ErrInvalidArgument), errors.Is(err, cc.ErrInvalidArgument):
		return "invalid"
	case errors.Is(err, db.ErrClosed), errors.Is(err, cc.ErrClosed):
		return "closed"
	}
	return "other: " + err.Error()
}

// ---- exact proposals ---------------------------------------------------------------------

const exactEpoch = 1

func commandID(c string, pid int64) quorumlog.CommandID {
	return quorumlog.CommandID(sha256.Sum256([]byte(fmt.Sprintf("verif-c09/%s/%d", c, pid))))
}

// qlRecord is the semantic content the store derives from a compat record when it computes
// the entry digests of a proposal.
func qlRecord(c string, r rec, seq uint64) quorumlog.Record {
	m := compatMessage(c, r)
	return quorumlog.Record{ID: m.MessageID, Index: seq, Epoch: exactEpoch, Setting: uint8(m.Setting), FromUID: m.FromUID,
		ClientMsgNo: m.ClientMsgNo, ServerTimestampMS: m.ServerTimestampMS, SyncOnce: m.Framer.SyncOnce, Payload: m.Payload}
}

// sealed is one proposal as offered to the store.
type sealed struct {
	pid      int64
	base     uint64
	recs     []rec
	manifest quorumlog.ProposalManifest
	entries  []quorumlog.EntryIdentity
}

// seal builds the manifest of command pid for recs placed after base, chained to prev (the
// identity at base; zero value at base 0, a placeholder when the caller knows of none).
func seal(c string, pid int64, base uint64, rs []rec, prev quorumlog.EntryIdentity, havePrev bool) (sealed, error) {
	m := quorumlog.ProposalManifest{Version: quorumlog.ProposalManifestVersion, ChannelEpoch: exactEpoch, LeaderTerm: 1, FenceVersion: 1,
		CommandID: commandID(c, pid), BaseOffset: base, LastOffset: base + uint64(len(rs)), PreviousIndex: base}
	if base > 0 {
		if havePrev {
			m.PreviousTerm, m.PreviousDigest = prev.LeaderTerm, prev.Digest
		} else {
			m.PreviousTerm = 1
			m.PreviousDigest = quorumlog.EntryDigest(sha256.Sum256([]byte("verif-c09/no-predecessor")))
		}
	}
	qs := make([]quorumlog.Record, len(rs))
	for i, r := range rs {
		qs[i] = qlRecord(c, r, base+uint64(i)+1)
	}
	sm, ents, ok := quorumlog.SealProposalManifest(m, qs)
	if !ok {
		return sealed{}, fmt.Errorf("cannot seal proposal %d at base %d", pid, base)
	}
	return sealed{pid: pid, base: base, recs: rs, manifest: sm, entries: ents}, nil
}

// ---- the store ------------------------------------------------------------------------------

type store struct {
	surface string
	root    string
	ns      *db.NodeStore
	eng     *message.Engine
	typed   map[string]*message.ChannelLog
	compat  map[string]*message.ChannelStore
	ids     []int64
	froms   []string
	nos     []string
	pids    []int64
	// chain[c][seq] = identity of the exactly appended entry at seq, as issued by this harness
	// (only touched by the goroutine that writes channel c)
	chain map[string]map[uint64]quorumlog.EntryIdentity
	// issued[c][pid] = the proposal last offered under that command identity
	issued map[string]map[int64]sealed
	infra  []string
	// multi-item calls (multibatch_test.go): told about every cancelled attempt; cancellation points enumerated
	afterCancelled func(items []batchItem, reps []any, cancelAt int64)
	cancelPoints   int64
}

type probes struct {
	ids   []int64
	froms []string
	nos   []string
	pids  []int64
}

func probesOf(cfg map[string]any) probes {
	var p probes
	for _, v := range kit.List(cfg, "ids") {
		p.ids = append(p.ids, kit.ToInt(v))
	}
	for _, v := range kit.List(cfg, "froms") {
		p.froms = append(p.froms, v.(string))
	}
	for _, v := range kit.List(cfg, "nos") {
		p.nos = append(p.nos, v.(string))
	}
	for _, v := range kit.List(cfg, "pids") {
		p.pids = append(p.pids, kit.ToInt(v))
	}
	return p
}

// openStore opens the store whose files live under the mount `root` ("/m12") and takes one
// lease per channel (reading the log end once, as the specification's OpenLease does).
func openStore(root, surface string, p probes) (*store, error) {
	s := &store{surface: surface, root: root, typed: map[string]*message.ChannelLog{}, compat: map[string]*message.ChannelStore{},
		ids: p.ids, froms: p.froms, nos: p.nos, pids: p.pids,
		chain: map[string]map[uint64]quorumlog.EntryIdentity{}, issued: map[string]map[int64]sealed{}}
	switch surface {
	case "typed":
		ns, err := db.OpenNodeStore(db.NodeStoreOptions{MessagePath: root + "/message", MetaPath: root + "/meta"})
		if err != nil {
			return nil, err
		}
		s.ns = ns
	case "compat":
		eng, err := message.Open(root + "/message")
		if err != nil {
			return nil, err
		}
		s.eng = eng
	default:
		return nil, fmt.Errorf("unknown surface %q", surface)
	}
	for _, c := range chanNames {
		d := chanDefs[c]
		s.chain[c] = map[uint64]quorumlog.EntryIdentity{}
		s.issued[c] = map[int64]sealed{}
		if s.isTyped() {
			l, err := s.ns.Messages().Channel(message.ChannelKey(d.key), message.ChannelID{ID: d.id, Type: d.typ})
			if err != nil {
				s.close()
				return nil, err
			}
			s.typed[c] = l
			if _, err := l.LEO(bg); err != nil {
				s.close()
				return nil, err
			}
		} else {
			l, err := s.eng.ForChannel(cc.ChannelKey(d.key), cc.ChannelID{ID: d.id, Type: d.typ})
			if err != nil {
				s.close()
				return nil, err
			}
			s.compat[c] = l
			if _, err := l.LEOWithError(); err != nil {
				s.close()
				return nil, err
			}
		}
	}
	return s, nil
}

func (s *store) isTyped() bool { return s.surface == "typed" }

func (s *store) close() {
	for _, l := range s.typed {
		_ = l.Close()
	}
	for _, l := range s.compat {
		_ = l.Close()
	}
	if s.ns != nil {
		_ = s.ns.Close()
	}
	if s.eng != nil {
		_ = s.eng.Close()
	}
	s.ns, s.eng = nil, nil
}

func (s *store) typedRecords(rs []rec) []message.Record {
	out := make([]message.Record, len(rs))
	for i, r := range rs {
		out[i] = message.Record{ID: uint64(r.id), ClientMsgNo: r.no, FromUID: r.from, Payload: payloadFor(r.id, r.p), ServerTimestampMS: tsFor(r.id, r.p)}
	}
	return out
}

func compatRecords(c string, rs []rec, base int64, epoch uint64) []cc.Record {
	out := make([]cc.Record, len(rs))
	for i, r := range rs {
		enc := encodeCompat(compatMessage(c, r))
		out[i] = cc.Record{ID: uint64(r.id), Payload: enc, SizeBytes: len(enc), Epoch: epoch}
		if base != 0 {
			out[i].Index = uint64(base + int64(i))
		}
	}
	return out
}

func appRes(err error, base, n int64) map[string]any {
	cls := errClass(err)
	if cls != "" || n == 0 {
		return map[string]any{"err": cls, "base": 0, "last": 0}
	}
	return map[string]any{"err": "", "base": base, "last": base + n - 1}
}

func errRes(err error) map[string]any { return map[string]any{"err": errClass(err)} }

func outcomeName(o quorumlog.AppendOutcome) string {
	switch o {
	case quorumlog.AppendOutcomeDurable:
		return "durable"
	case quorumlog.AppendOutcomeAlreadyDurable:
		return "already"
	}
	return "none"
}

// call performs the call k and returns the observed reply.
func (s *store) call(k map[string]any) (map[string]any, error) {
	a, c := kit.Str(k, "a"), kit.Str(k, "c")
	if a == "Batch" { // one StoreAppendBatch call with several items: multibatch_test.go
		return s.batch(k)
	}
	if _, ok := chanDefs[c]; !ok {
		return nil, fmt.Errorf("unknown channel %q", c)
	}
	t, q := s.typed[c], s.compat[c]
	switch a {
	case "Leo":
		var leo uint64
		var err error
		if s.isTyped() {
			leo, err = t.LEO(bg)
		} else {
			leo, err = q.LEOWithError()
		}
		if err != nil {
			return nil, err
		}
		return map[string]any{"leo": leo}, nil
	case "Append":
		rs := recsOfList(kit.List(k, "recs"))
		mode, base := kit.Str(k, "mode"), kit.Int(k, "base")
		if s.isTyped() {
			m, ok := map[string]message.AppendMode{"strict": message.AppendStrict, "alloc": message.AppendServerAllocatedMessageID, "trusted": message.AppendTrustedContiguous}[mode]
			if !ok {
				return nil, fmt.Errorf("mode %q", mode)
			}
			r, err := t.Append(bg, s.typedRecords(rs), message.AppendOptions{Mode: m, BaseSeq: uint64(base)})
			if err == nil && len(rs) > 0 && (r.Count != len(rs) || r.LastSeq != r.BaseSeq+uint64(len(rs))-1) {
				return map[string]any{"err": "", "base": r.BaseSeq, "last": r.LastSeq, "count": r.Count}, nil
			}
			return appRes(err, int64(r.BaseSeq), int64(len(rs))), nil
		}
		if base != 0 {
			return nil, fmt.Errorf("compat Append has no base")
		}
		in := compatRecords(c, rs, 0, 0)
		var off uint64
		var err error
		switch mode {
		case "strict":
			off, err = q.Append(in)
		case "alloc":
			off, err = q.AppendServerAllocated(in)
		case "trusted":
			off, err = q.AppendTrusted(in)
		default:
			return nil, fmt.Errorf("mode %q", mode)
		}
		return appRes(err, int64(off)+1, int64(len(rs))), nil
	case "Apply":
		rs := recsOfList(kit.List(k, "recs"))
		mode, base, hw := kit.Str(k, "mode"), kit.Int(k, "base"), kit.Int(k, "hw")
		if s.isTyped() {
			req := message.ApplyFetchRequest{BaseSeq: uint64(base), Records: s.typedRecords(rs)}
			if hw > 0 {
				req.Checkpoint = &message.Checkpoint{HW: uint64(hw)}
			}
			r, err := t.ApplyFetch(bg, req)
			return appRes(err, int64(r.BaseSeq), int64(len(rs))), nil
		}
		req := cc.ApplyFetchStoreRequest{Records: compatRecords(c, rs, base, 0)}
		if hw > 0 {
			h := uint64(hw)
			req.CheckpointHW = &h
		}
		var leo uint64
		var err error
		if mode == "strict" {
			leo, err = q.StoreApplyFetch(req)
		} else {
			leo, err = q.StoreApplyFetchTrusted(req)
		}
		return appRes(err, int64(leo)-int64(len(rs))+1, int64(len(rs))), nil
	case "Truncate":
		to := kit.Int(k, "to")
		var err error
		if s.isTyped() {
			err = t.TruncateFrom(bg, uint64(to)+1)
		} else {
			err = q.Truncate(uint64(to))
		}
		if err == nil {
			for seq := range s.chain[c] {
				if seq > uint64(to) {
					delete(s.chain[c], seq)
				}
			}
		}
		return errRes(err), nil
	case "Adopt":
		if s.isTyped() {
			return nil, fmt.Errorf("Adopt on the typed surface")
		}
		return errRes(q.AdoptRetentionBoundary(bg, uint64(kit.Int(k, "through")), "verif")), nil
	case "Trim":
		through, lim := kit.Int(k, "through"), kit.Int(k, "lim")
		var r message.RetentionTrimResult
		var err error
		if s.isTyped() {
			r, err = t.TrimPrefixThroughLimit(bg, uint64(through), message.RetentionTrimOptions{MaxMessages: int(lim)})
		} else {
			r, err = q.TrimMessagesThroughLimit(bg, uint64(through), message.RetentionTrimOptions{MaxMessages: int(lim)})
		}
		if err != nil {
			return map[string]any{"err": errClass(err), "deleted": 0, "through": 0, "more": false}, nil
		}
		return map[string]any{"err": "", "deleted": r.Deleted, "through": r.DeletedThroughSeq, "more": r.More}, nil
	case "Ckpt":
		hw := uint64(kit.Int(k, "hw"))
		if s.isTyped() {
			return errRes(t.StoreCheckpoint(bg, message.Checkpoint{HW: hw})), nil
		}
		return errRes(q.StoreCheckpoint(cc.Checkpoint{HW: hw})), nil
	case "CkptMono":
		hw := uint64(kit.Int(k, "hw"))
		if s.isTyped() {
			// visible watermark and log end as the caller knows them: the offered watermark itself
			// (the drivers only offer watermarks at or below a log end they were told)
			return errRes(t.StoreCheckpointMonotonic(bg, message.Checkpoint{HW: hw}, hw, hw)), nil
		}
		return errRes(q.StoreCheckpointHWMonotonic(bg, hw)), nil
	case "ExAppend":
		if s.isTyped() {
			return nil, fmt.Errorf("ExAppend on the typed surface")
		}
		pid, b, hw, mode := kit.Int(k, "pid"), uint64(kit.Int(k, "b")), uint64(kit.Int(k, "hw")), kit.Str(k, "mode")
		rs := recsOfList(kit.List(k, "recs"))
		var sp sealed
		if old, ok := s.issued[c][pid]; ok && old.base == b && sameRecs(old.recs, rs) && s.chainHolds(c, old) {
			sp = old // a replay: the identical request
		} else {
			prev, have := s.chain[c][b]
			var err error
			if sp, err = seal(c, pid, b, rs, prev, have); err != nil {
				return nil, err
			}
		}
		s.issued[c][pid] = sp
		results := message.StoreAppendBatch(bg, []message.AppendBatchItem{{
			Store: q, Records: compatRecords(c, rs, 0, exactEpoch), Committed: hw, Class: message.AppendBatchClassLeaderQuorum,
			ServerAllocatedMessageIDs: mode == "alloc", ExactBaseOffset: true, ExpectedBaseOffset: b, Proposal: sp.manifest}})
		if len(results) != 1 {
			return nil, fmt.Errorf("StoreAppendBatch returned %d results", len(results))
		}
		r := results[0]
		out := outcomeName(r.Outcome)
		if r.Err != nil || out == "none" {
			cls := errClass(r.Err)
			if cls == "" {
				cls = "other: outcome " + fmt.Sprint(r.Outcome)
			}
			return map[string]any{"err": cls, "out": "none", "base": 0, "last": 0}, nil
		}
		if out == "durable" {
			for _, e := range sp.entries {
				s.chain[c][e.Index] = e
			}
		}
		return map[string]any{"err": "", "out": out, "base": r.BaseOffset + 1, "last": r.LastOffset}, nil
	case "Replace":
		if s.isTyped() {
			return nil, fmt.Errorf("Replace on the typed surface")
		}
		keep, hw := uint64(kit.Int(k, "keep")), uint64(kit.Int(k, "hw"))
		front, err := q.LoadDurableFrontier(bg)
		if err != nil {
			return nil, fmt.Errorf("Replace: no frontier to fence on: %w", err)
		}
		req := message.ReplaceRecoverySuffixRequest{Expected: front, KeepThrough: keep, Committed: hw}
		base := keep
		prev, have := s.chain[c][keep]
		var sps []sealed
		for _, pj := range kit.List(k, "ps") {
			pm := pj.(map[string]any)
			rs := recsOfList(kit.List(pm, "recs"))
			sp, err := seal(c, kit.Int(pm, "pid"), base, rs, prev, have || base == 0)
			if err != nil {
				return nil, err
			}
			sps = append(sps, sp)
			req.Proposals = append(req.Proposals, message.RecoveryProposal{Manifest: sp.manifest, Records: compatRecords(c, rs, 0, exactEpoch)})
			base = sp.manifest.LastOffset
			prev, have = sp.entries[len(sp.entries)-1], true
		}
		r, err := q.ReplaceRecoverySuffix(bg, req)
		out := outcomeName(r.Outcome)
		if err != nil || out != "durable" {
			cls := errClass(err)
			if cls == "" {
				cls = "other: outcome " + fmt.Sprint(r.Outcome)
			}
			return map[string]any{"err": cls, "out": "none", "last": 0}, nil
		}
		for seq := range s.chain[c] {
			if seq > keep {
				delete(s.chain[c], seq)
			}
		}
		for _, sp := range sps {
			s.issued[c][sp.pid] = sp
			for _, e := range sp.entries {
				s.chain[c][e.Index] = e
			}
		}
		return map[string]any{"err": "", "out": "durable", "last": r.LastOffset}, nil
	case "Discard":
		if s.isTyped() {
			return nil, fmt.Errorf("Discard on the typed surface")
		}
		err := q.DiscardForRestore(bg)
		if err == nil {
			s.chain[c] = map[uint64]quorumlog.EntryIdentity{}
		}
		return errRes(err), nil
	}
	return s.callEpoch(k) // epoch history: history_epoch_test.go
}

func sameRecs(a, b []rec) bool {
	if len(a) != len(b) {
		return false
	}
	for i := range a {
		if a[i] != b[i] {
			return false
		}
	}
	return true
}

// chainHolds reports whether the entries of sp are still the harness's view of the channel.
func (s *store) chainHolds(c string, sp sealed) bool {
	for _, e := range sp.entries {
		if s.chain[c][e.Index] != e {
			return false
		}
	}
	return true
}

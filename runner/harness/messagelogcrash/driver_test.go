package messagelogcrash

// Seeded history generators (code -> spec).  A writer owns one channel and issues its
// mutations one after the other; it keeps a mirror of what the replies told it (rows, log
// end, adopted boundary, proposals) only to choose arguments and to stay inside the
// environment contracts of the specification:
//   - the server-allocated-id mode is offered ids that are not stored, the trusted mode ids
//     and (sender, client number) pairs that are not stored;
//   - a checkpoint watermark is offered at or below a log end a reply vouched for, and a
//     truncation / suffix replacement never goes below a watermark that was offered;
//   - an id is used on its home channel only; a typed truncation stays at or above the adopted
//     retention boundary.
// Whether the store behaved is decided by TLC on the recorded trace, never by the mirror.

import (
	"math/rand"
	"sync"

	"verif/runner/kit"
)

// coord is the per-channel state shared by the channel's writer and the watermark watcher.
type coord struct {
	mu      sync.Mutex
	durable int64 // a log end replies vouch for and no issued truncation goes below
	hwMax   int64 // largest watermark offered so far
}

type propInfo struct {
	pid        int64
	base, last int64
	recs       []rec
}

// doer issues one call and returns its reply (a crash-enumerating run, or the child process of
// a kill run).
type doer interface {
	do(call map[string]any) map[string]any
}

type writer struct {
	r      doer
	rng    *rand.Rand
	c      string
	co     *coord
	typed  bool
	exact  bool
	solo   bool // nobody else touches the channel (Replace / Discard allowed)
	leo    int64
	rows   map[int64]rec
	local  int64 // adopted retention boundary (0 = none)
	ckpt   int64 // checkpoint watermark as the replies imply it (0 = unknown/none)
	props  []propInfo
	nextID int64
	used   []int64
	nextP  int64
	froms  []string
	nos    []string
	gone   bool // the channel was discarded
	hist   []epochPoint // epoch history as the replies imply it (history_epoch_test.go)
}

func newWriter(r doer, surface string, p probes, rng *rand.Rand, c string, co *coord, idBase int64, exact, solo bool) *writer {
	w := &writer{r: r, rng: rng, c: c, co: co, typed: surface == "typed", exact: exact, solo: solo, rows: map[int64]rec{},
		nextID: idBase, nextP: 1, froms: p.froms, nos: p.nos}
	for homeOf(w.nextID) != c {
		w.nextID++
	}
	return w
}

func (w *writer) freshID() int64 {
	id := w.nextID
	w.nextID += 2
	w.used = append(w.used, id)
	return id
}

func (w *writer) pick(pool []string) string {
	k := w.rng.Intn(len(pool) + 1)
	if k == len(pool) {
		return ""
	}
	return pool[k]
}

func (w *writer) storedID(id int64) bool {
	for _, r := range w.rows {
		if r.id == id {
			return true
		}
	}
	return false
}

func (w *writer) storedKey(f, n string) bool {
	if f == "" || n == "" {
		return false
	}
	for _, r := range w.rows {
		if r.from == f && r.no == n {
			return true
		}
	}
	return false
}

func (w *writer) pay() int64 {
	x := w.rng.Intn(100)
	switch {
	case x < 40:
		return 0
	case x < 55:
		return 1
	case x < 65:
		return 2
	case x < 78:
		return 3
	case x < 88:
		return 4
	case x < 91:
		return 9 // the empty payload
	default:
		return 5
	}
}

// batch draws 1..3 records; clean = acceptable to every mode (fresh ids, keys not stored).
func (w *writer) batch(clean bool, max int) []rec {
	n := 1 + w.rng.Intn(max)
	var out []rec
	for i := 0; i < n; i++ {
		r := rec{id: w.freshID(), from: w.pick(w.froms), no: w.pick(w.nos), p: w.pay()}
		if !clean && len(w.used) > 1 && w.rng.Intn(6) == 0 {
			r.id = w.used[w.rng.Intn(len(w.used))]
		}
		if clean {
			dup := w.storedKey(r.from, r.no)
			for _, o := range out {
				if r.from != "" && r.no != "" && o.from == r.from && o.no == r.no {
					dup = true
				}
			}
			if dup {
				r.no = ""
			}
		}
		out = append(out, r)
	}
	return out
}

func (w *writer) envOK(mode string, rs []rec) bool {
	if mode == "strict" {
		return true
	}
	for _, r := range rs {
		if w.storedID(r.id) {
			return false
		}
		if mode == "trusted" && w.storedKey(r.from, r.no) {
			return false
		}
	}
	return true
}

func (w *writer) ok(res map[string]any) bool { return kit.Str(res, "err") == "" }

func (w *writer) setDurable() {
	w.co.mu.Lock()
	w.co.durable = w.leo
	w.co.mu.Unlock()
}

func (w *writer) put(base int64, rs []rec) {
	for i, r := range rs {
		w.rows[base+int64(i)] = r
	}
	w.leo = base + int64(len(rs)) - 1
	w.setDurable()
}

// offerHW registers a watermark offer at or below hi; 0 = none possible.
func (w *writer) offerHW(lo, hi int64) int64 {
	if hi < lo || hi < 1 {
		return 0
	}
	if lo < 1 {
		lo = 1
	}
	hw := lo + w.rng.Int63n(hi-lo+1)
	w.co.mu.Lock()
	if hw > w.co.hwMax {
		w.co.hwMax = hw
	}
	w.co.mu.Unlock()
	return hw
}

// cutFloor reserves a truncation target: the result is >= every watermark offered so far and
// from now on no watermark above it is offered until the reply is in.
func (w *writer) cutFloor(want int64) int64 {
	w.co.mu.Lock()
	defer w.co.mu.Unlock()
	if want < w.co.hwMax {
		want = w.co.hwMax
	}
	if want < w.co.durable {
		w.co.durable = want
	}
	return want
}

func (w *writer) refreshLeo() {
	res := w.r.do(kit.Ev("Leo", "c", w.c))
	w.leo = kit.Int(res, "leo")
	w.setDurable()
}

func (w *writer) cutRows(to int64) {
	for s := range w.rows {
		if s > to {
			delete(w.rows, s)
		}
	}
	var keep []propInfo
	for _, p := range w.props {
		if p.last <= to {
			keep = append(keep, p)
		}
	}
	w.props = keep
	w.cutHist(to)
}

// step issues one call of a plain (non-exact) channel.
func (w *writer) plainStep() {
	x := w.rng.Intn(100)
	switch {
	case x < 38: // append
		mode := []string{"strict", "strict", "alloc", "trusted"}[w.rng.Intn(4)]
		rs := w.batch(w.rng.Intn(4) > 0, 3)
		if !w.envOK(mode, rs) {
			mode = "strict"
		}
		base := int64(0)
		if w.typed && w.rng.Intn(5) == 0 {
			base = w.leo + int64(w.rng.Intn(3))
		}
		res := w.r.do(kit.Ev("Append", "c", w.c, "mode", mode, "base", base, "recs", recsJSON(rs)))
		if w.ok(res) && kit.Int(res, "base") > 0 {
			w.put(kit.Int(res, "base"), rs)
		}
	case x < 52: // follower apply with a watermark
		mode := "trusted"
		if !w.typed && w.rng.Intn(2) == 0 {
			mode = "strict"
		}
		rs := w.batch(true, 2)
		if w.rng.Intn(8) == 0 {
			rs = nil
		}
		if !w.envOK(mode, rs) {
			return
		}
		next := w.leo + int64(len(rs))
		hw := int64(0)
		if w.rng.Intn(3) > 0 {
			hw = w.offerHW(w.ckpt, w.leo) // at or below the log end already vouched for
			if w.rng.Intn(4) == 0 && next >= 1 {
				// the rows of this very call: durable together with the watermark (one commit)
				hw = next
				w.co.mu.Lock()
				if hw > w.co.hwMax {
					w.co.hwMax = hw
				}
				w.co.mu.Unlock()
			}
		}
		res := w.r.do(kit.Ev("Apply", "c", w.c, "mode", mode, "base", 0, "recs", recsJSON(rs), "hw", hw))
		if w.ok(res) {
			if len(rs) > 0 {
				w.put(kit.Int(res, "base"), rs)
			}
			if hw > w.ckpt {
				w.ckpt = hw
			}
		}
	case x < 60: // truncate
		want := w.leo - int64(w.rng.Intn(3))
		if w.rng.Intn(6) == 0 {
			want = w.leo + 1
		}
		if want < 0 {
			want = 0
		}
		to := w.cutFloor(want)
		if w.typed && to < w.local {
			to = w.local
		}
		res := w.r.do(kit.Ev(w.truncCall(to), "c", w.c, "to", to))
		if w.ok(res) && to < w.leo {
			w.cutRows(to)
			w.leo = to
		}
		w.setDurable()
	case x < 66: // adopt a boundary (compat)
		if w.typed {
			return
		}
		t := int64(w.rng.Intn(int(w.leo) + 2))
		res := w.r.do(kit.Ev("Adopt", "c", w.c, "through", t))
		if w.ok(res) && t > w.local {
			w.local = t
		}
		w.refreshLeo()
	case x < 80: // trim, page by page
		t := int64(1 + w.rng.Intn(int(w.leo)+1))
		if !w.typed && w.local > 0 && w.rng.Intn(4) > 0 {
			t = 1 + w.rng.Int63n(w.local)
		}
		lim := int64(w.rng.Intn(3))
		for page := 0; page < 4; page++ {
			res := w.r.do(kit.Ev("Trim", "c", w.c, "through", t, "lim", lim))
			if !w.ok(res) {
				break
			}
			if w.typed && t > w.local {
				w.local = t
			}
			if th := kit.Int(res, "through"); kit.Int(res, "deleted") > 0 {
				for s := range w.rows {
					if s <= th {
						delete(w.rows, s)
					}
				}
			}
			if !kit.Bool(res, "more") || w.rng.Intn(5) == 0 {
				break
			}
		}
		w.refreshLeo()
	case x < 90: // checkpoint
		hw := w.offerHW(1, w.leo)
		if hw == 0 {
			return
		}
		a := "Ckpt"
		if w.rng.Intn(2) == 0 {
			a = "CkptMono"
			if hw < w.ckpt {
				hw = w.offerHW(w.ckpt, w.leo)
				if hw == 0 {
					return
				}
			}
		}
		res := w.r.do(kit.Ev(a, "c", w.c, "hw", hw))
		if w.ok(res) && (a == "Ckpt" || hw > w.ckpt) {
			w.ckpt = hw
		}
	default:
		w.refreshLeo()
	}
}

func (w *writer) propEnds() []int64 {
	out := []int64{0}
	for _, p := range w.props {
		out = append(out, p.last)
	}
	return out
}

// exactStep issues one call of a channel kept in exact-proposal mode (compat surface).
func (w *writer) exactStep() {
	x := w.rng.Intn(100)
	switch {
	case x < 48: // a fresh proposal at the log end
		rs := w.batch(true, 2)
		mode := []string{"strict", "alloc"}[w.rng.Intn(2)]
		last := w.leo + int64(len(rs))
		hw := int64(0)
		if w.rng.Intn(2) == 0 {
			hw = w.offerHW(w.ckpt, w.leo)
			if w.rng.Intn(4) == 0 {
				hw = last
				w.co.mu.Lock()
				if hw > w.co.hwMax {
					w.co.hwMax = hw
				}
				w.co.mu.Unlock()
			}
		}
		pid := w.nextP
		w.nextP++
		res := w.r.do(kit.Ev("ExAppend", "c", w.c, "pid", pid, "b", w.leo, "recs", recsJSON(rs), "mode", mode, "hw", hw))
		if w.ok(res) {
			w.props = append(w.props, propInfo{pid: pid, base: w.leo, last: last, recs: rs})
			w.put(w.leo+1, rs)
			if hw > w.ckpt {
				w.ckpt = hw
			}
		}
	case x < 60: // replay of a stored proposal
		if len(w.props) == 0 {
			return
		}
		p := w.props[len(w.props)-1-w.rng.Intn(minInt(2, len(w.props)))]
		for i := range p.recs {
			if w.rows[p.base+1+int64(i)] != p.recs[i] {
				return // rows trimmed away: the replay's content cannot be offered faithfully
			}
		}
		hw := int64(0)
		if w.rng.Intn(2) == 0 {
			hw = w.offerHW(w.ckpt, p.last)
		}
		res := w.r.do(kit.Ev("ExAppend", "c", w.c, "pid", p.pid, "b", p.base, "recs", recsJSON(p.recs), "mode", "strict", "hw", hw))
		if w.ok(res) && hw > w.ckpt {
			w.ckpt = hw
		}
	case x < 66: // a gap or a conflicting range
		rs := w.batch(true, 1)
		ends := w.propEnds()
		b := w.leo + 1
		if w.rng.Intn(2) == 0 {
			b = ends[w.rng.Intn(len(ends))]
		}
		pid := w.nextP
		w.nextP++
		res := w.r.do(kit.Ev("ExAppend", "c", w.c, "pid", pid, "b", b, "recs", recsJSON(rs), "mode", "strict", "hw", 0))
		if w.ok(res) && kit.Str(res, "out") == "durable" {
			w.props = append(w.props, propInfo{pid: pid, base: b, last: b + int64(len(rs)), recs: rs})
			w.put(b+1, rs)
		}
	case x < 74: // truncate at a proposal boundary, sometimes inside a proposal
		ends := w.propEnds()
		want := ends[w.rng.Intn(len(ends))]
		if w.rng.Intn(5) == 0 && w.leo > 0 {
			want = w.leo - 1
		}
		to := w.cutFloor(want)
		res := w.r.do(kit.Ev(w.truncCall(to), "c", w.c, "to", to))
		if w.ok(res) && to < w.leo {
			w.cutRows(to)
			w.leo = to
		}
		w.setDurable()
	case x < 84: // suffix replacement
		if !w.solo {
			return
		}
		ends := w.propEnds()
		keep := w.cutFloor(ends[w.rng.Intn(len(ends))])
		isEnd := false
		for _, e := range ends {
			if e == keep {
				isEnd = true
			}
		}
		if !isEnd && w.rng.Intn(3) > 0 {
			return
		}
		var ps []any
		var infos []propInfo
		base := keep
		for i := w.rng.Intn(3); i > 0; i-- {
			rs := w.batch(true, 2)
			pid := w.nextP
			w.nextP++
			ps = append(ps, map[string]any{"pid": pid, "recs": recsJSON(rs)})
			infos = append(infos, propInfo{pid: pid, base: base, last: base + int64(len(rs)), recs: rs})
			base += int64(len(rs))
		}
		if ps == nil {
			ps = []any{}
		}
		hw := w.ckpt
		if base > w.ckpt && w.rng.Intn(2) == 0 {
			hw = w.ckpt + w.rng.Int63n(base-w.ckpt+1)
		}
		w.co.mu.Lock()
		if hw > w.co.hwMax {
			w.co.hwMax = hw
		}
		w.co.mu.Unlock()
		res := w.r.do(kit.Ev("Replace", "c", w.c, "keep", keep, "ps", ps, "hw", hw))
		if w.ok(res) {
			w.cutRows(keep)
			w.leo = keep
			for _, in := range infos {
				w.props = append(w.props, in)
				w.put(in.base+1, in.recs)
			}
			w.ckpt = hw
		}
		w.setDurable()
	case x < 92: // checkpoint
		hw := w.offerHW(w.ckpt, w.leo)
		if hw == 0 {
			return
		}
		res := w.r.do(kit.Ev("CkptMono", "c", w.c, "hw", hw))
		if w.ok(res) && hw > w.ckpt {
			w.ckpt = hw
		}
	case x < 96: // retention on an exact channel: rows go, identities stay
		if w.leo == 0 {
			return
		}
		t := 1 + w.rng.Int63n(w.leo)
		res := w.r.do(kit.Ev("Adopt", "c", w.c, "through", t))
		if w.ok(res) && t > w.local {
			w.local = t
		}
		res = w.r.do(kit.Ev("Trim", "c", w.c, "through", t, "lim", w.rng.Intn(2)))
		if w.ok(res) && kit.Int(res, "deleted") > 0 {
			for s := range w.rows {
				if s <= kit.Int(res, "through") {
					delete(w.rows, s)
				}
			}
		}
		w.refreshLeo()
	default:
		w.refreshLeo()
	}
}

func (w *writer) step() {
	if !w.typed && w.rng.Intn(6) == 0 && w.histStep() {
		return
	}
	if w.exact {
		w.exactStep()
	} else {
		w.plainStep()
	}
}

// discard runs the restore cleanup of the channel (compat surface, nobody else on the channel).
func (w *writer) discard() {
	res := w.r.do(kit.Ev("Discard", "c", w.c))
	if w.ok(res) {
		w.rows = map[int64]rec{}
		w.props, w.hist = nil, nil
		w.leo, w.local, w.ckpt = 0, 0, 0
		w.co.mu.Lock()
		w.co.durable, w.co.hwMax = 0, 0
		w.co.mu.Unlock()
	}
}

// watcher offers checkpoint watermarks concurrently with the writers.
func watcher(r doer, rng *rand.Rand, cos map[string]*coord, chans []string, n int, mono bool) {
	for i := 0; i < n; i++ {
		c := chans[rng.Intn(len(chans))]
		co := cos[c]
		if rng.Intn(3) == 0 {
			res := r.do(kit.Ev("Leo", "c", c))
			_ = res
			continue
		}
		co.mu.Lock()
		hi := co.durable
		hw := int64(0)
		if hi >= 1 {
			lo := int64(1)
			if mono && co.hwMax > lo && co.hwMax <= hi {
				lo = co.hwMax
			}
			hw = lo + rng.Int63n(hi-lo+1)
			if hw > co.hwMax {
				co.hwMax = hw
			}
		}
		co.mu.Unlock()
		if hw == 0 {
			r.do(kit.Ev("Leo", "c", c))
			continue
		}
		a := "CkptMono"
		if !mono && rng.Intn(2) == 0 {
			a = "Ckpt"
		}
		r.do(kit.Ev(a, "c", c, "hw", hw))
	}
}

func minInt(a, b int) int {
	if a < b {
		return a
	}
	return b
}

package slotfsm_test

// Conformance harness for specs/SlotFSM (property C13).
//
// Differential oracle: a command log is built from real payloads (exported
// fsm.Encode*Command functions, seeded generator over all command types, plus stale,
// conflicting, unowned and byte-mutated payloads) while it is applied ONE ENTRY AT A TIME to a
// reference state machine over a real metadb; the exported meta snapshot bytes after every
// entry are the reference metadata.  Each TLC behaviour (apply-batch partition x restarts x
// snapshot/restore schedule) is then executed on a fresh real state machine and the exported
// bytes are compared with the reference at the log position the specification determines.
// A seeded random driver does the same with longer logs and records what it observed for
// TLC to validate.  Exported API only.
//
// Hash slots the slot does not own: the database also holds hash slot 4 (empty) and hash slot 5
// (filled with the rows of another slot, written through a second state machine that owns it,
// as on a node that hosts several slots).  After EVERY command of the one-at-a-time run,
// accepted or refused, the exported content of hash slots 4 and 5 must be what it was before
// the command ("commands for hash slots the slot does not own are refused without side
// effects").  The generators include forwarded hash-slot-migration deltas (ApplyDelta for an
// owned hash slot h) that wrap every multi-item batch command kind with items for h, for other
// owned hash slots and for hash slots 4 / 5: only the items of h may take effect.

import (
	"bytes"
	"context"
	"encoding/binary"
	"encoding/hex"
	"encoding/json"
	"fmt"
	"math/rand"
	"os"
	"path/filepath"
	"sort"
	"strings"
	"testing"

	metadb "github.com/WuKongIM/WuKongIM/pkg/db/meta"
	"github.com/WuKongIM/WuKongIM/pkg/protocol/channelid"
	"github.com/WuKongIM/WuKongIM/pkg/slot/fsm"
	"github.com/WuKongIM/WuKongIM/pkg/slot/multiraft"
	"verif/runner/kit"
)

const (
	slotID   = 7
	property = "C13"
	baseMS   = int64(1750000000000)
)

const (
	seedSlot = 8 // the slot that owns hash slot 5 in the same database
	seedHS   = 5
)

var (
	ownedHS = []uint16{1, 2, 3}
	// 4 and 5 are never owned by the slot under test; they are exported to see side effects
	// there: 4 is empty, 5 holds rows of slot 8 (same channels and users as the generators use)
	foreignHS = []uint16{4, seedHS}
	allHS     = []uint16{1, 2, 3, 4, seedHS}
	bg        = context.Background()
)

// ---------------------------------------------------------------------------------------
// one replica: a metadb directory plus the state machine object over it

type world struct {
	root  string
	seq   *int
	dir   string
	db    *metadb.DB
	sm    multiraft.StateMachine
	empty []byte // exported metadata of an empty database
}

func newWorld(root string, seq *int) (*world, error) {
	w := &world{root: root, seq: seq}
	if err := w.newDir(); err != nil {
		return nil, err
	}
	b, err := w.export()
	if err != nil {
		return nil, err
	}
	w.empty = b
	return w, nil
}

func (w *world) newSM() error {
	sm, err := fsm.NewStateMachineWithHashSlots(w.db, slotID, ownedHS)
	if err != nil {
		return err
	}
	w.sm = sm
	return nil
}

func (w *world) open() error {
	db, err := metadb.Open(w.dir)
	if err != nil {
		return err
	}
	w.db = db
	if err := w.newSM(); err != nil {
		db.Close()
		w.db = nil
		return err
	}
	return nil
}

func (w *world) close() {
	if w.db != nil {
		_ = w.db.Close()
		w.db, w.sm = nil, nil
	}
}

// restart models a process restart: a new state machine object (no in-memory state) over
// the same database; with reopen the database itself is closed and opened again as well
// (pebble's open costs ~80 ms, so only some restarts pay for it).
func (w *world) restart(reopen bool) error {
	if !reopen {
		return w.newSM()
	}
	w.close()
	return w.open()
}

func (w *world) newDir() error {
	w.close()
	if w.dir != "" {
		_ = os.RemoveAll(w.dir)
	}
	*w.seq++
	w.dir = filepath.Join(w.root, fmt.Sprintf("w%d", *w.seq))
	return w.open()
}

// fresh gives the replica an empty database.  Opening a new pebble directory per case is too
// slow, so the hash slots and the slot's applied index are deleted through the exported
// metadb API instead; the result is verified to be indistinguishable from a new database
// (same exported bytes, applied index 0), otherwise a new directory is used.
func (w *world) fresh() error {
	if w.db != nil && w.empty != nil {
		ok := true
		for _, hs := range allHS {
			if err := w.db.DeleteHashSlotData(bg, hs); err != nil {
				ok = false
			}
		}
		if err := w.db.DeleteSlotData(bg, slotID); err != nil {
			ok = false
		}
		if err := w.db.DeleteSlotData(bg, seedSlot); err != nil {
			ok = false
		}
		if ok && w.newSM() == nil {
			b, err := w.export()
			d, derr := w.durable()
			if err == nil && derr == nil && d == 0 && bytes.Equal(b, w.empty) {
				return w.seedForeign()
			}
		}
	}
	if err := w.newDir(); err != nil {
		return err
	}
	return w.seedForeign()
}

// seedForeign fills hash slot 5 through a state machine of slot 8 that owns it: pending person
// directory tasks with their channel rows and runtime metadata, channel latest rows, a
// membership and a group runtime metadata row - the keys the generators of this harness use, so
// that a write that escapes into hash slot 5 creates, overwrites or deletes something there.
func (w *world) seedForeign() error {
	sm, err := fsm.NewStateMachineWithHashSlots(w.db, seedSlot, []uint16{seedHS})
	if err != nil {
		return err
	}
	meta := func(ch string, ct int64) metadb.ChannelRuntimeMeta {
		return metadb.ChannelRuntimeMeta{ChannelID: ch, ChannelType: ct, ChannelEpoch: 10, LeaderEpoch: 20, Replicas: []uint64{1, 2, 3},
			ISR: []uint64{1, 2}, Leader: 1, MinISR: 2, Status: 1, Features: 1, LeaseUntilMS: baseMS + 10000}
	}
	p2, p3 := channelid.EncodePersonChannel("u1", "u2"), channelid.EncodePersonChannel("u1", "u3")
	admit, err := fsm.EncodeAdmitPersonDirectoryTaskBatchCommandChecked([]fsm.PersonDirectoryAdmissionBatchItem{
		{HashSlot: seedHS, Task: metadb.PersonDirectoryTask{ChannelID: p2, ChannelType: 1, CommittedTail: 1, CreatedAt: baseMS}, RuntimeMeta: meta(p2, 1)},
		{HashSlot: seedHS, Task: metadb.PersonDirectoryTask{ChannelID: p3, ChannelType: 1, CommittedTail: 1, CreatedAt: baseMS}, RuntimeMeta: meta(p3, 1)}})
	if err != nil {
		return err
	}
	group, err := fsm.EncodeCreateChannelRuntimeMetaBatchCommandChecked([]fsm.CreateChannelRuntimeMetaBatchItem{{HashSlot: seedHS, Meta: meta("ga", 2)}})
	if err != nil {
		return err
	}
	member, err := fsm.EncodeEnsureUserChannelMembershipBatchCommandChecked([]fsm.UserChannelMembershipBatchItem{{HashSlot: seedHS,
		Membership: metadb.UserChannelMembership{UID: "u1", ChannelID: p2, ChannelType: 1, JoinSeq: 1, ActivatedAt: baseMS, UpdatedAt: baseMS}}})
	if err != nil {
		return err
	}
	lat := func(ch string) metadb.ChannelLatest {
		return metadb.ChannelLatest{ChannelID: ch, ChannelType: 2, LastMessageID: 90, LastMessageSeq: 3, LastAt: baseMS, FromUID: "u9", ClientMsgNo: "m9",
			Payload: []byte("seed"), UpdatedAt: baseMS}
	}
	datas := [][]byte{admit, group, member,
		fsm.EncodeUpsertChannelLatestBatchCommand([]fsm.ChannelLatestBatchItem{{HashSlot: seedHS, Latest: lat("ga")}, {HashSlot: seedHS, Latest: lat("gb")}})}
	cmds := make([]multiraft.Command, 0, len(datas))
	for i, d := range datas {
		cmds = append(cmds, multiraft.Command{SlotID: seedSlot, HashSlot: seedHS, Index: uint64(i + 1), Term: 1, Data: d})
	}
	if _, err := sm.(multiraft.BatchStateMachine).ApplyBatch(bg, cmds); err != nil {
		return fmt.Errorf("seed hash slot %d: %w", seedHS, err)
	}
	snap, err := w.db.ExportHashSlotSnapshot(bg, []uint16{seedHS})
	if err != nil {
		return err
	}
	if snap.Stats.EntryCount < 8 {
		return fmt.Errorf("seed hash slot %d: only %d entries were written", seedHS, snap.Stats.EntryCount)
	}
	return nil
}

func (w *world) destroy() {
	w.close()
	if w.dir != "" {
		_ = os.RemoveAll(w.dir)
	}
}

func (w *world) export() ([]byte, error) { return w.exportOf(allHS) }

func (w *world) exportOf(hs []uint16) ([]byte, error) {
	snap, err := w.db.ExportHashSlotSnapshot(bg, hs)
	if err != nil {
		return nil, err
	}
	return snap.Data, nil
}

func (w *world) durable() (uint64, error) {
	return w.sm.(multiraft.DurableAppliedStateMachine).DurableAppliedIndex(bg)
}

type cmdRec struct {
	HashSlot uint16
	Data     []byte
	Desc     string
}

// apply feeds log entries from..to (1-based, inclusive) as ONE ApplyBatch call.
func (w *world) apply(log []cmdRec, from, to int) (res [][]byte, err error, pan any) {
	cmds := make([]multiraft.Command, 0, to-from+1)
	for i := from; i <= to; i++ {
		cmds = append(cmds, multiraft.Command{SlotID: slotID, HashSlot: log[i].HashSlot, Index: uint64(i), Term: 1,
			Data: append([]byte(nil), log[i].Data...)})
	}
	defer func() {
		if r := recover(); r != nil {
			pan = r
		}
	}()
	res, err = w.sm.(multiraft.BatchStateMachine).ApplyBatch(bg, cmds)
	return res, err, nil
}

// ---------------------------------------------------------------------------------------
// seeded command generator; it reads the reference database to build guards that are
// current (valid), stale or conflicting

type gen struct {
	rng   *rand.Rand
	db    *metadb.DB
	now   int64
	theme string // command family drawn far more often in this log ("" = none)
	// echo: now and then the next command repeats the previous command's type on the same
	// hash slot / user / channel with other values (create-twice, upsert-twice, ... pairs that
	// must compose inside one write batch exactly as they do one at a time)
	echo                       bool
	lastGen                    int
	lastHS                     uint16
	lastUID, lastGroup, lastPC string
	deltaSeq                   uint64 // source index of the next forwarded batch delta (never repeated)
	// the (hash slot, channel, uids) of the last subscriber command: add / remove commands come
	// back to it more often than not, so that one uid is added, removed and added again (or
	// removed twice) by neighbouring log entries that an apply batch may or may not keep together
	subHS   uint16
	subCh   string
	subUIDs []string
	// queue: the rest of a scripted run of dependent commands; valid() hands these out before
	// it draws again (other kinds of the log may fall in between)
	queue []genFn
}

func (g *gen) subsTarget() (uint16, string, []string) {
	if g.subUIDs != nil && g.n(10) < 6 {
		uids := g.subUIDs
		if g.n(4) == 0 && len(uids) > 1 {
			uids = uids[:1+g.n(len(uids)-1)]
		}
		return g.subHS, g.subCh, append([]string(nil), uids...)
	}
	g.subHS, g.subCh, g.subUIDs = g.hs(), g.group(), g.uids()
	return g.subHS, g.subCh, append([]string(nil), g.subUIDs...)
}

func (g *gen) tick() int64 { g.now += 1000; return g.now }
func (g *gen) n(k int) int { return g.rng.Intn(k) }
func (g *gen) hs() uint16 {
	if g.echo && g.lastHS != 0 && g.n(10) < 8 {
		return g.lastHS
	}
	g.lastHS = g.drawHS()
	return g.lastHS
}

func (g *gen) drawHS() uint16 {
	if g.theme == "hsmig" && g.n(10) < 7 {
		return 3 // the hash slot the fence / outbox commands of this family address
	}
	if g.theme != "" && g.n(10) < 6 {
		return 1 // themed logs concentrate on one hash slot so that consecutive commands meet
	}
	switch r := g.n(100); {
	case r < 60:
		return 1
	case r < 85:
		return 2
	default:
		return 3
	}
}
func (g *gen) uid() string {
	if g.echo && g.lastUID != "" && g.n(10) < 8 {
		return g.lastUID
	}
	g.lastUID = []string{"u1", "u2", "u3"}[g.n(3)]
	if g.theme != "" && g.n(10) < 5 {
		g.lastUID = "u1"
	}
	return g.lastUID
}
func (g *gen) uids() []string {
	all := []string{"u1", "u2", "u3", "u4"}
	g.rng.Shuffle(len(all), func(i, j int) { all[i], all[j] = all[j], all[i] })
	return all[:1+g.n(3)]
}
func (g *gen) group() string {
	if g.echo && g.lastGroup != "" && g.n(10) < 8 {
		return g.lastGroup
	}
	g.lastGroup = []string{"ga", "gb"}[g.n(2)]
	if g.theme != "" && g.n(10) < 5 {
		g.lastGroup = "ga"
	}
	return g.lastGroup
}
func (g *gen) person() string { return channelid.EncodePersonChannel("u1", []string{"u2", "u3"}[g.n(2)]) }
func (g *gen) tok() string    { return fmt.Sprintf("t%d", g.n(4)) }

func (g *gen) runtimeMeta(hs uint16, ch string, ct int64) metadb.ChannelRuntimeMeta {
	cur, err := g.db.ForHashSlot(hs).GetChannelRuntimeMeta(bg, ch, ct)
	m := metadb.ChannelRuntimeMeta{ChannelID: ch, ChannelType: ct, ChannelEpoch: 10, LeaderEpoch: 20,
		Replicas: []uint64{1, 2, 3}, ISR: []uint64{1, 2}, Leader: 1, MinISR: 2, Status: 1, Features: 1,
		LeaseUntilMS: baseMS + 10000}
	if err == nil {
		m = cur
		m.Replicas = append([]uint64(nil), cur.Replicas...)
		m.ISR = append([]uint64(nil), cur.ISR...)
		switch g.n(7) {
		case 0:
			if m.ChannelEpoch > 1 {
				m.ChannelEpoch--
			}
		case 1:
			m.ChannelEpoch++
		case 2:
			if m.LeaderEpoch > 1 {
				m.LeaderEpoch--
			}
		case 3:
			m.LeaderEpoch++
		case 4: // same epochs, other leader: conflict
			if len(m.ISR) > 1 {
				for _, n := range m.ISR {
					if n != m.Leader {
						m.Leader = n
						break
					}
				}
			}
		case 5:
			m.LeaseUntilMS += int64(g.n(3)-1) * 500
		}
		if g.n(3) == 0 {
			m.RouteGeneration = 0
		}
		if g.n(4) == 0 {
			m.Status = uint8(1 + g.n(2))
		}
	}
	return m
}

type genFn func(g *gen) (uint16, []byte, string)

func ucm(g *gen) metadb.UserChannelMembership {
	ch, ct := g.group(), int64(2)
	if g.n(4) == 0 {
		ch, ct = g.person(), 1
	}
	return metadb.UserChannelMembership{UID: g.uid(), ChannelID: ch, ChannelType: ct, JoinSeq: uint64(g.n(5)),
		ReadSeq: uint64(g.n(8)), DeletedToSeq: uint64(g.n(4)), ActivatedAt: baseMS + int64(g.n(5))*10,
		SourceVersion: uint64(g.n(4)), UpdatedAt: baseMS + int64(g.n(6))*10}
}

func ucmd(g *gen) metadb.UserCMDChannelMembership {
	return metadb.UserCMDChannelMembership{UID: g.uid(), CommandChannelID: channelid.ToCommandChannel(g.group()), ChannelType: 2,
		StartSeq: uint64(g.n(5)), AckSeq: uint64(g.n(8)), UpdatedAt: baseMS + int64(g.n(6))*10}
}

func latest(g *gen) metadb.ChannelLatest {
	return metadb.ChannelLatest{ChannelID: g.group(), ChannelType: 2, LastMessageID: uint64(100 + g.n(6)), LastMessageSeq: uint64(1 + g.n(6)),
		LastAt: baseMS + int64(g.n(6)), FromUID: g.uid(), ClientMsgNo: fmt.Sprintf("m%d", g.n(3)), Payload: []byte(g.tok()), UpdatedAt: baseMS + int64(g.n(6))}
}

func event(g *gen) metadb.MessageEventAppend {
	types := []string{metadb.EventTypeStreamOpen, metadb.EventTypeStreamDelta, metadb.EventTypeStreamDelta, metadb.EventTypeStreamSnapshot,
		metadb.EventTypeStreamClose, metadb.EventTypeStreamError, metadb.EventTypeStreamCancel, metadb.EventTypeStreamFinish}
	return metadb.MessageEventAppend{ChannelID: "ga", ChannelType: 2, ClientMsgNo: fmt.Sprintf("m%d", g.n(2)), EventID: fmt.Sprintf("e%d", g.n(6)),
		EventKey: []string{"", "main", "k2"}[g.n(3)], EventType: types[g.n(len(types))], Visibility: []string{"", "public", "private"}[g.n(3)],
		OccurredAt: baseMS + int64(g.n(5)), Payload: []byte(fmt.Sprintf(`{"t":"%s"}`, g.tok())), UpdatedAt: baseMS + int64(g.n(5))}
}

func taskGuard(t metadb.ChannelMigrationTask) metadb.ChannelMigrationTaskGuard {
	return metadb.ChannelMigrationTaskGuard{ChannelID: t.ChannelID, ChannelType: t.ChannelType, TaskID: t.TaskID, ExpectedStatus: t.Status,
		ExpectedPhase: t.Phase, ExpectedOwnerNodeID: t.OwnerNodeID, ExpectedOwnerLeaseUntilMS: t.OwnerLeaseUntilMS, ExpectedUpdatedAtMS: t.UpdatedAtMS}
}

func runtimeGuard(m metadb.ChannelRuntimeMeta) metadb.ChannelMigrationRuntimeGuard {
	return metadb.ChannelMigrationRuntimeGuard{ChannelID: m.ChannelID, ChannelType: m.ChannelType, ExpectedChannelEpoch: m.ChannelEpoch,
		ExpectedLeaderEpoch: m.LeaderEpoch, ExpectedLeader: m.Leader, ExpectedFenceToken: m.WriteFenceToken, ExpectedFenceVersion: m.WriteFenceVersion}
}

// migration emits the next plausible command of the channel-migration workflow for one
// channel of one hash slot, with guards taken from the reference database (sometimes stale).
func migration(g *gen) (uint16, []byte, string) {
	// mostly one channel of one hash slot, so that consecutive commands meet
	hs, ch, ct := uint16(1), "ga", int64(2)
	if g.n(5) == 0 {
		hs, ch = uint16(1+g.n(2)), g.group()
	}
	st := g.db.ForHashSlot(hs)
	now := g.tick()
	meta, merr := st.GetChannelRuntimeMeta(bg, ch, ct)
	if merr != nil {
		meta = metadb.ChannelRuntimeMeta{ChannelID: ch, ChannelType: ct, ChannelEpoch: 10, LeaderEpoch: 20}
	}
	task, active, _ := st.GetActiveChannelMigrationTask(bg, ch, ct)
	if !active || g.n(5) == 0 {
		tid := fmt.Sprintf("T%d", g.n(4))
		t := metadb.ChannelMigrationTask{TaskID: tid, Kind: metadb.ChannelMigrationKindReplicaReplace, Status: metadb.ChannelMigrationStatusPending,
			Phase: metadb.ChannelMigrationPhaseValidate, ChannelID: ch, ChannelType: ct, SourceNode: 2, TargetNode: 4, DesiredLeader: 1,
			BaseChannelEpoch: meta.ChannelEpoch, BaseLeaderEpoch: meta.LeaderEpoch, CreatedAtMS: now, UpdatedAtMS: now}
		if g.n(2) == 0 {
			t.Kind, t.SourceNode, t.TargetNode, t.DesiredLeader = metadb.ChannelMigrationKindLeaderTransfer, 1, 2, 2
			t.Status, t.Phase = metadb.ChannelMigrationStatusRunning, metadb.ChannelMigrationPhaseProbeTarget
		}
		if g.n(2) == 0 {
			return hs, fsm.EncodeCreateChannelMigrationTaskCommand(t), "CreateMigrationTask " + tid
		}
		return hs, fsm.EncodeCreateChannelMigrationTaskWithRuntimeGuardCommand(metadb.ChannelMigrationTaskCreate{Task: t, RuntimeGuard: runtimeGuard(meta)}), "CreateMigrationTaskGuarded " + tid
	}
	if g.n(7) == 0 { // stale guard
		task.UpdatedAtMS -= 1
	}
	tg, rg := taskGuard(task), runtimeGuard(meta)
	lt := task.Kind != metadb.ChannelMigrationKindReplicaReplace
	switch g.n(12) {
	case 0:
		return hs, fsm.EncodeClaimChannelMigrationTaskCommand(metadb.ChannelMigrationTaskClaim{Guard: tg, Status: metadb.ChannelMigrationStatusRunning,
			Phase: task.Phase, OwnerNodeID: uint64(1 + g.n(2)), OwnerLeaseUntilMS: now + 5000, NowMS: now, UpdatedAtMS: now}), "ClaimMigrationTask"
	case 1, 2, 3: // task-only advance to a phase from which the fenced steps are possible, or to a terminal status
		phases := []metadb.ChannelMigrationPhase{metadb.ChannelMigrationPhaseAddLearner, metadb.ChannelMigrationPhaseWarmCatchUp,
			metadb.ChannelMigrationPhasePromoteAndRemove, metadb.ChannelMigrationPhaseVerifyMembership}
		if lt {
			phases = []metadb.ChannelMigrationPhase{metadb.ChannelMigrationPhaseWriteFence, metadb.ChannelMigrationPhaseDrainLeader,
				metadb.ChannelMigrationPhaseCommitLeaderMeta, metadb.ChannelMigrationPhaseVerifyNewLeader}
		}
		adv := metadb.ChannelMigrationTaskAdvance{Guard: tg, Status: metadb.ChannelMigrationStatusRunning, Phase: phases[g.n(len(phases))], UpdatedAtMS: now,
			Attempt: uint32(g.n(3))}
		switch g.n(7) {
		case 0, 4:
			adv.Status, adv.CompletedAtMS = metadb.ChannelMigrationStatusCompleted, now
		case 1:
			adv.Status, adv.CompletedAtMS, adv.LastError = metadb.ChannelMigrationStatusFailed, now, "boom"
		case 2:
			adv.Status, adv.BlockerCode = metadb.ChannelMigrationStatusBlocked, "lag"
		case 3:
			adv.CutoverProof = metadb.ChannelMigrationCutoverProof{CutoverLEO: 100, CutoverHW: 99, DrainedLeaderNode: meta.Leader, DrainedRuntimeGeneration: 2,
				DrainedChannelEpoch: meta.ChannelEpoch, DrainedLeaderEpoch: meta.LeaderEpoch, DrainedFenceVersion: meta.WriteFenceVersion}
		}
		return hs, fsm.EncodeAdvanceChannelMigrationTaskCommand(adv), fmt.Sprintf("AdvanceMigrationTask ->%d/%d", adv.Status, adv.Phase)
	case 4:
		ph := metadb.ChannelMigrationPhaseCutoverFence
		if lt {
			ph = metadb.ChannelMigrationPhaseDrainLeader
		}
		if g.n(3) == 0 {
			ph = task.Phase
		}
		return hs, fsm.EncodeSetChannelWriteFenceCommand(metadb.ChannelMigrationFenceRequest{Guard: tg, RuntimeGuard: rg, Status: metadb.ChannelMigrationStatusRunning,
			Phase: ph, FenceReason: 1, FenceUntilMS: now + 5000, UpdatedAtMS: now}), "SetChannelWriteFence"
	case 5:
		ph := metadb.ChannelMigrationPhaseWarmCatchUp
		if lt {
			ph = metadb.ChannelMigrationPhaseWriteFence
		}
		return hs, fsm.EncodeResetChannelWriteFenceToPreCutoverCommand(metadb.ChannelMigrationResetFenceRequest{Guard: tg, RuntimeGuard: rg,
			Status: metadb.ChannelMigrationStatusRunning, Phase: ph, NowMS: meta.WriteFenceUntilMS + 1 + int64(g.n(2))*-2, UpdatedAtMS: now}), "ResetChannelWriteFence"
	case 6:
		return hs, fsm.EncodeCommitChannelLeaderTransferCommand(metadb.ChannelMigrationLeaderTransferRequest{Guard: tg, RuntimeGuard: rg,
			Status: metadb.ChannelMigrationStatusRunning, Phase: metadb.ChannelMigrationPhaseVerifyNewLeader, DesiredLeader: task.TargetNode,
			NextLeaderEpoch: meta.LeaderEpoch + 1, LeaseUntilMS: now + 9000, NowMS: now, UpdatedAtMS: now}), "CommitChannelLeaderTransfer"
	case 7:
		return hs, fsm.EncodeAddChannelLearnerCommand(metadb.ChannelMigrationAddLearnerRequest{Guard: tg, RuntimeGuard: rg, Status: metadb.ChannelMigrationStatusRunning,
			Phase: metadb.ChannelMigrationPhaseBootstrapTarget, TargetNode: task.TargetNode, UpdatedAtMS: now}), "AddChannelLearner"
	case 8:
		return hs, fsm.EncodePromoteLearnerAndRemoveReplicaCommand(metadb.ChannelMigrationPromoteLearnerRequest{Guard: tg, RuntimeGuard: rg,
			Status: metadb.ChannelMigrationStatusRunning, Phase: metadb.ChannelMigrationPhaseVerifyMembership, SourceNode: task.SourceNode, TargetNode: task.TargetNode,
			NowMS: now, UpdatedAtMS: now}), "PromoteLearnerAndRemoveReplica"
	case 9:
		return hs, fsm.EncodeClearChannelWriteFenceCommand(metadb.ChannelMigrationClearFenceRequest{Guard: tg, RuntimeGuard: rg, Status: metadb.ChannelMigrationStatusCompleted,
			Phase: metadb.ChannelMigrationPhaseClearFence, UpdatedAtMS: now, CompletedAtMS: now}), "ClearChannelWriteFence"
	default:
		return hs, fsm.EncodeAbortChannelMigrationCommand(metadb.ChannelMigrationAbortRequest{Guard: tg, RuntimeGuard: rg, Status: metadb.ChannelMigrationStatusAborted,
			Phase: task.Phase, UpdatedAtMS: now, CompletedAtMS: now, LastError: "abort"}), "AbortChannelMigration"
	}
}

func gcTasks(g *gen) (uint16, []byte, string) {
	before := g.now + 1
	if g.n(3) == 0 {
		before = g.now - 3000
	}
	hs := uint16(1)
	if g.n(5) == 0 {
		hs = 2
	}
	return hs, fsm.EncodeGarbageCollectTerminalChannelMigrationTasksCommand(metadb.ChannelMigrationTaskGCRequest{BeforeMS: before, Limit: 1 + g.n(3)}), "GCMigrationTasks"
}

// otherHS draws the hash slot of an extra item of a forwarded batch: mostly one the slot does not
// own (4: empty, 5: rows of another slot), sometimes another owned one.
func (g *gen) otherHS(h uint16) uint16 {
	switch r := g.n(10); {
	case r < 4:
		return 4
	case r < 8:
		return seedHS
	}
	if o := ownedHS[g.n(len(ownedHS))]; o != h {
		return o
	}
	return seedHS
}

// deltaBatch wraps a multi-item batch command into a forwarded hash-slot-migration delta for the
// owned hash slot h, as the source slot's outbox does (stageMigrationOutbox stores the WHOLE
// original command for every migrating hash slot it touches).  items(h, others) builds the inner
// command from the hash slots of its items: h (left out one time in four), one or two others.
// Only the items of h may take effect on the receiving slot.
func deltaBatch(g *gen, name string, items func(hs []uint16) ([]byte, error)) (uint16, []byte, string) {
	h := g.hs()
	var hss []uint16
	if g.n(4) != 0 {
		hss = append(hss, h)
	}
	hss = append(hss, g.otherHS(h))
	if g.n(3) == 0 {
		hss = append(hss, g.otherHS(h))
	}
	inner, err := items(hss)
	if err != nil || inner == nil {
		return 0, nil, ""
	}
	g.deltaSeq++
	return h, fsm.EncodeApplyDeltaCommand(9, 100+g.deltaSeq, h, inner), "DeltaBatch(" + name + ")"
}

// personFor: the person channel the seeded hash slot holds a pending task for, most of the time.
func (g *gen) personFor(hs uint16) string {
	if hs == seedHS && g.n(4) != 0 {
		return channelid.EncodePersonChannel("u1", "u2")
	}
	return g.person()
}

type weighted struct {
	w  int
	fn genFn
}

var generators = []weighted{
	{1, func(g *gen) (uint16, []byte, string) { return g.hs(), fsm.EncodeNoopCommand(), "Noop" }},
	{3, func(g *gen) (uint16, []byte, string) {
		return g.hs(), fsm.EncodeUpsertUserCommand(metadb.User{UID: g.uid(), Token: g.tok(), DeviceFlag: int64(g.n(3)), DeviceLevel: int64(g.n(2))}), "UpsertUser"
	}},
	{2, func(g *gen) (uint16, []byte, string) {
		return g.hs(), fsm.EncodeCreateUserCommand(metadb.User{UID: g.uid(), Token: g.tok(), DeviceFlag: int64(g.n(3))}), "CreateUser"
	}},
	{2, func(g *gen) (uint16, []byte, string) {
		return g.hs(), fsm.EncodeUpsertDeviceCommand(metadb.Device{UID: g.uid(), DeviceFlag: int64(g.n(2)), Token: g.tok(), DeviceLevel: int64(g.n(2))}), "UpsertDevice"
	}},
	{3, func(g *gen) (uint16, []byte, string) {
		return g.hs(), fsm.EncodeUpsertChannelCommand(metadb.Channel{ChannelID: g.group(), ChannelType: 2, Ban: int64(g.n(2)), SendBan: int64(g.n(2)), AllowStranger: int64(g.n(2)), Large: int64(g.n(2))}), "UpsertChannel"
	}},
	{3, func(g *gen) (uint16, []byte, string) {
		return g.hs(), fsm.EncodeCreateChannelCommand(metadb.Channel{ChannelID: g.group(), ChannelType: 2, Ban: int64(g.n(2)), Large: int64(g.n(2))}), "CreateChannel"
	}},
	{3, func(g *gen) (uint16, []byte, string) {
		return g.hs(), fsm.EncodePatchChannelBusinessFlagsCommand(g.group(), 2, metadb.ChannelBusinessFlags{Ban: int64(g.n(2)), Disband: int64(g.n(2)), SendBan: int64(g.n(2))}), "PatchChannelBusinessFlags"
	}},
	{2, func(g *gen) (uint16, []byte, string) { return g.hs(), fsm.EncodeDeleteChannelCommand(g.group(), 2), "DeleteChannel" }},
	{6, func(g *gen) (uint16, []byte, string) {
		hs := g.hs()
		return hs, fsm.EncodeUpsertChannelRuntimeMetaCommand(g.runtimeMeta(hs, g.group(), 2)), "UpsertChannelRuntimeMeta"
	}},
	{1, func(g *gen) (uint16, []byte, string) {
		return g.hs(), fsm.EncodeDeleteChannelRuntimeMetaCommand(g.group(), 2), "DeleteChannelRuntimeMeta"
	}},
	{4, func(g *gen) (uint16, []byte, string) {
		hs, ch := g.hs(), g.group()
		req := metadb.ChannelRetentionAdvance{ChannelID: ch, ChannelType: 2, ExpectedChannelEpoch: 10, ExpectedLeaderEpoch: 20, ExpectedLeader: 1,
			ExpectedLeaseUntilMS: baseMS + 10000, RetentionThroughSeq: uint64(g.n(30)), RetentionUpdatedAtMS: g.tick()}
		if cur, err := g.db.ForHashSlot(hs).GetChannelRuntimeMeta(bg, ch, 2); err == nil && g.n(5) != 0 {
			req.ExpectedChannelEpoch, req.ExpectedLeaderEpoch, req.ExpectedLeader, req.ExpectedLeaseUntilMS = cur.ChannelEpoch, cur.LeaderEpoch, cur.Leader, cur.LeaseUntilMS
		}
		return hs, fsm.EncodeAdvanceChannelRetentionThroughSeqCommand(req), "AdvanceChannelRetention"
	}},
	{3, func(g *gen) (uint16, []byte, string) {
		n := 1 + g.n(3)
		items := make([]fsm.CreateChannelRuntimeMetaBatchItem, 0, n)
		for i := 0; i < n; i++ {
			hs := g.hs()
			ch, ct := g.group(), int64(2)
			if g.n(3) == 0 {
				ch, ct = g.person(), 1
			}
			items = append(items, fsm.CreateChannelRuntimeMetaBatchItem{HashSlot: hs, Meta: g.runtimeMeta(hs, ch, ct)})
		}
		data, err := fsm.EncodeCreateChannelRuntimeMetaBatchCommandChecked(items)
		if err != nil {
			return 0, nil, ""
		}
		return items[0].HashSlot, data, "CreateChannelRuntimeMetaBatch"
	}},
	{5, func(g *gen) (uint16, []byte, string) {
		var v []uint64
		if g.n(2) == 0 {
			v = []uint64{uint64(g.n(5))}
		}
		hs, ch, uids := g.subsTarget()
		return hs, fsm.EncodeAddSubscribersCommand(ch, 2, uids, v...), "AddSubscribers"
	}},
	{4, func(g *gen) (uint16, []byte, string) {
		var v []uint64
		if g.n(2) == 0 {
			v = []uint64{uint64(g.n(5))}
		}
		hs, ch, uids := g.subsTarget()
		return hs, fsm.EncodeRemoveSubscribersCommand(ch, 2, uids, v...), "RemoveSubscribers"
	}},
	{3, func(g *gen) (uint16, []byte, string) {
		ms := []metadb.UserChannelMembership{ucm(g)}
		if g.n(2) == 0 {
			ms = append(ms, ucm(g))
		}
		return g.hs(), fsm.EncodeUpsertUserChannelMembershipsCommand(ms), "UpsertUserChannelMemberships"
	}},
	{2, func(g *gen) (uint16, []byte, string) {
		m := ucm(g)
		m.Tombstone, m.TombstoneAt = true, baseMS+int64(g.n(6))*10
		return g.hs(), fsm.EncodeDeleteUserChannelMembershipsCommand([]metadb.UserChannelMembership{m}), "DeleteUserChannelMemberships"
	}},
	{2, func(g *gen) (uint16, []byte, string) {
		return g.hs(), fsm.EncodeAdvanceUserChannelMembershipReadSeqCommand([]metadb.UserChannelMembership{ucm(g)}), "AdvanceUserChannelMembershipReadSeq"
	}},
	{2, func(g *gen) (uint16, []byte, string) {
		return g.hs(), fsm.EncodeHideUserChannelMembershipCommand([]metadb.UserChannelMembership{ucm(g)}), "HideUserChannelMembership"
	}},
	{2, func(g *gen) (uint16, []byte, string) {
		return g.hs(), fsm.EncodeActivateUserChannelMembershipCommand([]metadb.UserChannelMembership{ucm(g)}), "ActivateUserChannelMembership"
	}},
	{2, func(g *gen) (uint16, []byte, string) {
		return g.hs(), fsm.EncodeUpsertUserCMDChannelMembershipsCommand([]metadb.UserCMDChannelMembership{ucmd(g)}), "UpsertUserCMDChannelMemberships"
	}},
	{2, func(g *gen) (uint16, []byte, string) {
		return g.hs(), fsm.EncodeAdvanceUserCMDChannelMembershipAcksCommand([]metadb.UserCMDChannelMembership{ucmd(g)}), "AdvanceUserCMDChannelMembershipAcks"
	}},
	{2, func(g *gen) (uint16, []byte, string) {
		m := ucmd(g)
		m.Tombstone, m.TombstoneAt = true, baseMS+int64(g.n(6))*10
		return g.hs(), fsm.EncodeTombstoneUserCMDChannelMembershipsCommand([]metadb.UserCMDChannelMembership{m}), "TombstoneUserCMDChannelMemberships"
	}},
	{3, func(g *gen) (uint16, []byte, string) { return g.hs(), fsm.EncodeUpsertChannelLatestCommand(latest(g)), "UpsertChannelLatest" }},
	{3, func(g *gen) (uint16, []byte, string) {
		items := []fsm.ChannelLatestBatchItem{{HashSlot: g.hs(), Latest: latest(g)}, {HashSlot: g.hs(), Latest: latest(g)}}
		return items[0].HashSlot, fsm.EncodeUpsertChannelLatestBatchCommand(items), "UpsertChannelLatestBatch"
	}},
	{5, func(g *gen) (uint16, []byte, string) { return 1, fsm.EncodeAppendMessageEventCommand(event(g)), "AppendMessageEvent" }},
	{3, func(g *gen) (uint16, []byte, string) {
		evs := []metadb.MessageEventAppend{event(g), event(g)}
		if g.n(2) == 0 {
			evs = append(evs, event(g))
		}
		return 1, fsm.EncodeAppendMessageEventsCommand(evs), "AppendMessageEventsBatch"
	}},
	{3, func(g *gen) (uint16, []byte, string) {
		hs, ch := g.hs(), g.person()
		m := g.runtimeMeta(hs, ch, 1)
		data, err := fsm.EncodeAdmitPersonDirectoryTaskBatchCommandChecked([]fsm.PersonDirectoryAdmissionBatchItem{{HashSlot: hs,
			Task: metadb.PersonDirectoryTask{ChannelID: ch, ChannelType: 1, CommittedTail: uint64(g.n(5)), CreatedAt: baseMS + int64(g.n(4))}, RuntimeMeta: m}})
		if err != nil {
			return 0, nil, ""
		}
		return hs, data, "AdmitPersonDirectoryTaskBatch"
	}},
	{3, func(g *gen) (uint16, []byte, string) {
		hs, ch := g.hs(), g.person()
		left, right, _ := channelid.DecodePersonChannel(ch)
		m := metadb.UserChannelMembership{UID: []string{left, right}[g.n(2)], ChannelID: ch, ChannelType: 1, JoinSeq: uint64(g.n(3)), ActivatedAt: baseMS + int64(g.n(4)), UpdatedAt: baseMS + int64(g.n(4))}
		data, err := fsm.EncodeEnsureUserChannelMembershipBatchCommandChecked([]fsm.UserChannelMembershipBatchItem{{HashSlot: hs, Membership: m}})
		if err != nil {
			return 0, nil, ""
		}
		return hs, data, "EnsureUserChannelMembershipBatch"
	}},
	{3, func(g *gen) (uint16, []byte, string) {
		hs := g.hs()
		data, err := fsm.EncodeCompletePersonDirectoryTaskBatchCommandChecked([]fsm.PersonDirectoryCompletionBatchItem{{HashSlot: hs, ChannelID: g.person(), ChannelType: 1, Generation: uint64(1 + g.n(2))}})
		if err != nil {
			return 0, nil, ""
		}
		return hs, data, "CompletePersonDirectoryTaskBatch"
	}},
	{2, func(g *gen) (uint16, []byte, string) {
		return g.hs(), fsm.EncodeBindPluginUserCommand(metadb.PluginUserBinding{UID: g.uid(), PluginNo: fmt.Sprintf("p%d", g.n(2)), CreatedAtMS: baseMS + int64(g.n(3)), UpdatedAtMS: baseMS + int64(g.n(5))}), "BindPluginUser"
	}},
	{2, func(g *gen) (uint16, []byte, string) {
		return g.hs(), fsm.EncodeUnbindPluginUserCommand(g.uid(), fmt.Sprintf("p%d", g.n(2))), "UnbindPluginUser"
	}},
	{14, migration},
	{4, gcTasks},
	// hash-slot migration maintenance commands as ordinary log entries of this slot
	{2, func(g *gen) (uint16, []byte, string) {
		hs := g.hs()
		inner := fsm.EncodeUpsertUserCommand(metadb.User{UID: g.uid(), Token: g.tok()})
		return hs, fsm.EncodeApplyDeltaCommand(9, uint64(1+g.n(3)), hs, inner), "ApplyDelta"
	}},
	{3, func(g *gen) (uint16, []byte, string) { return 3, fsm.EncodeEnterFenceCommandForTarget(3, 9), "EnterFence" }},
	{1, func(g *gen) (uint16, []byte, string) {
		return 3, fsm.EncodeAckHashSlotMigrationOutboxCommand(3, slotID, 9, uint64(1+g.n(6))), "AckMigrationOutbox"
	}},
	{1, func(g *gen) (uint16, []byte, string) {
		return 3, fsm.EncodeCleanupHashSlotMigrationOutboxCommand(3, slotID, 9, uint64(1+g.n(8))), "CleanupMigrationOutbox"
	}},
	// forwarded deltas that wrap each multi-item batch command kind, items spanning the delta's
	// hash slot, other owned hash slots and hash slots the slot does not own
	{2, func(g *gen) (uint16, []byte, string) {
		return deltaBatch(g, "UpsertChannelLatestBatch", func(hs []uint16) ([]byte, error) {
			items := make([]fsm.ChannelLatestBatchItem, 0, len(hs))
			for _, h := range hs {
				items = append(items, fsm.ChannelLatestBatchItem{HashSlot: h, Latest: latest(g)})
			}
			return fsm.EncodeUpsertChannelLatestBatchCommand(items), nil
		})
	}},
	{2, func(g *gen) (uint16, []byte, string) {
		return deltaBatch(g, "CreateChannelRuntimeMetaBatch", func(hs []uint16) ([]byte, error) {
			items := make([]fsm.CreateChannelRuntimeMetaBatchItem, 0, len(hs))
			for _, h := range hs {
				ch, ct := g.group(), int64(2)
				if g.n(3) == 0 {
					ch, ct = g.person(), 1
				}
				items = append(items, fsm.CreateChannelRuntimeMetaBatchItem{HashSlot: h, Meta: g.runtimeMeta(h, ch, ct)})
			}
			return fsm.EncodeCreateChannelRuntimeMetaBatchCommandChecked(items)
		})
	}},
	{2, func(g *gen) (uint16, []byte, string) {
		return deltaBatch(g, "AdmitPersonDirectoryTaskBatch", func(hs []uint16) ([]byte, error) {
			items := make([]fsm.PersonDirectoryAdmissionBatchItem, 0, len(hs))
			for _, h := range hs {
				ch := g.person()
				items = append(items, fsm.PersonDirectoryAdmissionBatchItem{HashSlot: h,
					Task: metadb.PersonDirectoryTask{ChannelID: ch, ChannelType: 1, CommittedTail: uint64(g.n(5)), CreatedAt: baseMS + int64(g.n(4))}, RuntimeMeta: g.runtimeMeta(h, ch, 1)})
			}
			return fsm.EncodeAdmitPersonDirectoryTaskBatchCommandChecked(items)
		})
	}},
	{2, func(g *gen) (uint16, []byte, string) {
		return deltaBatch(g, "EnsureUserChannelMembershipBatch", func(hs []uint16) ([]byte, error) {
			items := make([]fsm.UserChannelMembershipBatchItem, 0, len(hs))
			for _, h := range hs {
				ch := g.person()
				left, right, _ := channelid.DecodePersonChannel(ch)
				items = append(items, fsm.UserChannelMembershipBatchItem{HashSlot: h, Membership: metadb.UserChannelMembership{UID: []string{left, right}[g.n(2)],
					ChannelID: ch, ChannelType: 1, JoinSeq: uint64(g.n(3)), ActivatedAt: baseMS + int64(g.n(4)), UpdatedAt: baseMS + int64(g.n(4))}})
			}
			return fsm.EncodeEnsureUserChannelMembershipBatchCommandChecked(items)
		})
	}},
	{2, func(g *gen) (uint16, []byte, string) {
		return deltaBatch(g, "CompletePersonDirectoryTaskBatch", func(hs []uint16) ([]byte, error) {
			items := make([]fsm.PersonDirectoryCompletionBatchItem, 0, len(hs))
			for _, h := range hs {
				ch := g.personFor(h)
				gen := uint64(1 + g.n(2))
				// aim at the generation of a task that is pending in that hash slot
				if m, err := g.db.ForHashSlot(h).GetChannelRuntimeMeta(bg, ch, 1); err == nil && m.DirectoryGeneration != 0 && g.n(4) != 0 {
					gen = m.DirectoryGeneration
				}
				items = append(items, fsm.PersonDirectoryCompletionBatchItem{HashSlot: h, ChannelID: ch, ChannelType: 1, Generation: gen})
			}
			return fsm.EncodeCompletePersonDirectoryTaskBatchCommandChecked(items)
		})
	}},
	{6, subsChurn},
}

// family of each generator above, by position
var famOf = []string{"user", "user", "user", "user", "channel", "channel", "channel", "channel", "runtime", "runtime", "runtime", "runtime",
	"subs", "subs", "member", "member", "member", "member", "member", "cmdmember", "cmdmember", "cmdmember", "latest", "latest",
	"event", "event", "person", "person", "person", "plugin", "plugin", "migration", "migration", "hsmig", "hsmig", "hsmig", "hsmig",
	"deltabatch", "deltabatch", "deltabatch", "deltabatch", "deltabatch", "subs"}

var families = []string{"user", "channel", "runtime", "subs", "member", "cmdmember", "latest", "event", "person", "plugin", "migration", "migration", "migration", "hsmig", "hsmig", "deltabatch", "deltabatch"}

func (g *gen) weight(i int) int {
	if g.theme != "" && famOf[i] == g.theme {
		return generators[i].w * 12
	}
	return generators[i].w
}

// subsChurn scripts a run of subscriber commands on ONE channel row that exists: the channel is
// upserted, a uid set is added, then removed / added again two to four times (plain commands,
// no mutation version, so none of them is refused).  Whether the remove and the re-add of a uid
// that an earlier apply batch made durable share a batch is up to the schedule; the channel's
// subscriber count and rows must come out as in the one-at-a-time run.
func subsChurn(g *gen) (uint16, []byte, string) {
	hs, ch, uids := g.hs(), g.group(), g.uids()
	g.subHS, g.subCh, g.subUIDs = hs, ch, uids
	sub := func() []string {
		if g.n(3) == 0 && len(uids) > 1 {
			return append([]string(nil), uids[:1+g.n(len(uids)-1)]...)
		}
		return append([]string(nil), uids...)
	}
	g.queue = append(g.queue, func(g *gen) (uint16, []byte, string) {
		return hs, fsm.EncodeAddSubscribersCommand(ch, 2, sub()), "AddSubscribers"
	})
	add := false
	for k := 2 + g.n(3); k > 0; k-- {
		if g.n(5) == 0 { // now and then the same direction twice (remove twice / add twice)
			add = !add
		}
		if add {
			g.queue = append(g.queue, func(g *gen) (uint16, []byte, string) {
				return hs, fsm.EncodeAddSubscribersCommand(ch, 2, sub()), "AddSubscribers"
			})
		} else {
			g.queue = append(g.queue, func(g *gen) (uint16, []byte, string) {
				return hs, fsm.EncodeRemoveSubscribersCommand(ch, 2, sub()), "RemoveSubscribers"
			})
		}
		add = !add
	}
	if _, err := g.db.ForHashSlot(hs).GetChannel(bg, ch, 2); err == nil && g.n(3) != 0 {
		// the channel row exists already: start with the first add
		fn := g.queue[0]
		g.queue = g.queue[1:]
		return fn(g)
	}
	return hs, fsm.EncodeUpsertChannelCommand(metadb.Channel{ChannelID: ch, ChannelType: 2, Ban: int64(g.n(2)), Large: int64(g.n(2))}), "UpsertChannel"
}

// valid: the next command of a scripted run if there is one, else a fresh draw.
func (g *gen) valid() cmdRec {
	if len(g.queue) > 0 {
		fn := g.queue[0]
		g.queue = g.queue[1:]
		if hs, data, desc := fn(g); data != nil {
			return cmdRec{HashSlot: hs, Data: data, Desc: desc}
		}
	}
	return g.draw()
}

func (g *gen) draw() cmdRec {
	if len(famOf) != len(generators) {
		panic("famOf out of date")
	}
	total := 0
	for i := range generators {
		total += g.weight(i)
	}
	if g.lastGen > 0 && g.n(100) < 15 {
		g.echo = true
		hs, data, desc := generators[g.lastGen-1].fn(g)
		g.echo = false
		if data != nil {
			return cmdRec{HashSlot: hs, Data: data, Desc: desc}
		}
	}
	for {
		r := g.n(total)
		for i, w := range generators {
			if r < g.weight(i) {
				if hs, data, desc := w.fn(g); data != nil {
					g.lastGen = i + 1
					return cmdRec{HashSlot: hs, Data: data, Desc: desc}
				}
				break
			}
			r -= g.weight(i)
		}
	}
}

// mutate returns a byte-level corruption of a valid payload.
func (g *gen) mutate(data []byte) []byte {
	out := append([]byte(nil), data...)
	switch g.n(6) {
	case 0:
		if len(out) > 2 {
			out = out[:2+g.n(len(out)-2)]
		}
	case 1:
		out = append(out, byte(g.n(256)), byte(g.n(256)), byte(g.n(256)))
	case 2:
		out[0] = byte(2 + g.n(250))
	case 3:
		if len(out) > 1 {
			out[1] = byte(g.n(256))
		}
	default:
		for k := 0; k <= g.n(3); k++ {
			out[g.n(len(out))] ^= byte(1 << uint(g.n(8)))
		}
	}
	return out
}

func decodes(c cmdRec) bool {
	_, err := fsm.DecodeCommandHashSlots(c.Data, c.HashSlot)
	return err == nil
}

// malformed: a payload the decoder rejects (arbitrary bytes or a corrupted real command).
func (g *gen) malformed() cmdRec {
	for {
		c := g.draw()
		switch g.n(8) {
		case 0:
			c.Data = nil
		case 1:
			c.Data = []byte{1}
		case 2:
			c.Data = make([]byte, 1+g.n(12))
			g.rng.Read(c.Data)
		default:
			c.Data = g.mutate(c.Data)
		}
		if !decodes(c) {
			c.Desc = "malformed(" + c.Desc + ")"
			return c
		}
	}
}

// unowned: a well-formed command addressed to (or carrying an item for) a hash slot that
// this slot does not own.
func (g *gen) unowned() cmdRec {
	u := foreignHS[g.n(len(foreignHS))] // 4 (empty) or 5 (rows of another slot)
	switch g.n(4) {
	case 0:
		items := []fsm.ChannelLatestBatchItem{{HashSlot: g.hs(), Latest: latest(g)}, {HashSlot: u, Latest: latest(g)}}
		return cmdRec{HashSlot: items[0].HashSlot, Data: fsm.EncodeUpsertChannelLatestBatchCommand(items), Desc: "unowned-item(UpsertChannelLatestBatch)"}
	case 1:
		for {
			c := g.draw()
			if fsmIsDeltaOrMaintenance(c.Data) {
				continue
			}
			c.HashSlot, c.Desc = 0, "unowned-hs0("+c.Desc+")"
			return c
		}
	default:
		for {
			c := g.draw()
			if fsmIsDeltaOrMaintenance(c.Data) {
				continue
			}
			c.HashSlot, c.Desc = u, fmt.Sprintf("unowned-hs%d(%s)", u, c.Desc)
			return c
		}
	}
}

// apply-delta and source-side maintenance commands are admitted without the ownership check by
// design (they belong to property C39); they are not used as "unowned" probes.
func fsmIsDeltaOrMaintenance(data []byte) bool {
	return len(data) >= 2 && data[0] == 1 && data[1] >= 20 && data[1] <= 23
}

// stale: accepted, never changes metadata (conditional mutation on a row that never exists).
func (g *gen) stale() cmdRec {
	hs := g.hs()
	switch g.n(3) {
	case 0:
		return cmdRec{HashSlot: hs, Data: fsm.EncodeAdvanceChannelRetentionThroughSeqCommand(metadb.ChannelRetentionAdvance{ChannelID: "ghost", ChannelType: 2,
			ExpectedChannelEpoch: 1, ExpectedLeaderEpoch: 1, ExpectedLeader: 1, RetentionThroughSeq: 5, RetentionUpdatedAtMS: g.tick()}), Desc: "stale(AdvanceRetention ghost)"}
	case 1:
		now := g.tick()
		return cmdRec{HashSlot: hs, Data: fsm.EncodeClaimChannelMigrationTaskCommand(metadb.ChannelMigrationTaskClaim{Guard: metadb.ChannelMigrationTaskGuard{ChannelID: "ghost", ChannelType: 2,
			TaskID: "TX", ExpectedStatus: metadb.ChannelMigrationStatusPending, ExpectedPhase: metadb.ChannelMigrationPhaseValidate}, Status: metadb.ChannelMigrationStatusRunning,
			Phase: metadb.ChannelMigrationPhaseValidate, OwnerNodeID: 1, OwnerLeaseUntilMS: now + 10, NowMS: now, UpdatedAtMS: now}), Desc: "stale(Claim ghost)"}
	default:
		now := g.tick()
		return cmdRec{HashSlot: hs, Data: fsm.EncodeAdvanceChannelMigrationTaskCommand(metadb.ChannelMigrationTaskAdvance{Guard: metadb.ChannelMigrationTaskGuard{ChannelID: "ghost", ChannelType: 2,
			TaskID: "TX", ExpectedStatus: metadb.ChannelMigrationStatusPending, ExpectedPhase: metadb.ChannelMigrationPhaseValidate}, Status: metadb.ChannelMigrationStatusRunning,
			Phase: metadb.ChannelMigrationPhaseValidate, UpdatedAtMS: now}), Desc: "stale(Advance ghost)"}
	}
}

// ---------------------------------------------------------------------------------------
// a log with its reference run

type caseLog struct {
	kinds []string // 1-based (kinds[0] unused)
	cmds  []cmdRec // 1-based
	ref   [][]byte // ref[i]: exported metadata after entries 1..i applied one at a time
	// refAll / refOwned: the same for all exported hash slots (owned 1-3, not owned 4-5) and for
	// the owned ones alone.  ref is refAll, unless the one-at-a-time run itself wrote into a hash
	// slot the slot does not own (reported there, under its own signature): the state machine's
	// snapshots do not carry such rows, so from then on the schedules are compared on the owned
	// hash slots only.
	refAll, refOwned [][]byte
	leaked           bool
}

func (c *caseLog) n() int { return len(c.cmds) - 1 }

// scope: the hash slots whose exported content is compared with the reference.
func (c *caseLog) scope() []uint16 {
	if c.leaked {
		return ownedHS
	}
	return allHS
}

// sigName: the command family of a description, without the wrappers of the generators.
func sigName(desc string) string {
	for {
		i := strings.Index(desc, "(")
		if i < 0 || !strings.HasSuffix(desc, ")") {
			break
		}
		if head := desc[:i]; head == "DeltaBatch" {
			return "delta:" + sigName(desc[i+1:len(desc)-1])
		} else if head != "mutated" && !strings.HasPrefix(head, "unowned-") && head != "malformed" && head != "stale" {
			break
		}
		desc = desc[i+1 : len(desc)-1]
	}
	if i := strings.IndexAny(desc, " ("); i >= 0 {
		desc = desc[:i]
	}
	return desc
}

func (c *caseLog) describe() []any {
	out := []any{}
	for i := 1; i <= c.n(); i++ {
		out = append(out, map[string]any{"i": i, "kind": c.kinds[i], "hash_slot": c.cmds[i].HashSlot, "cmd": c.cmds[i].Desc, "data": hex.EncodeToString(c.cmds[i].Data)})
	}
	return out
}

type harness struct {
	t     *testing.T
	env   kit.Env
	rep   *kit.Report
	rng   *rand.Rand
	root  string
	seq   int
	refW  *world // reference replica (one entry at a time)
	repW  *world // replica under test
	seen  map[string]bool // violation signatures already reported
	cache map[string]*cachedLog
}

type cachedLog struct {
	cl   *caseLog
	uses int
}

func (h *harness) worlds() error {
	var err error
	if h.refW == nil {
		if h.refW, err = newWorld(h.root, &h.seq); err != nil {
			return err
		}
	}
	if h.repW == nil {
		if h.repW, err = newWorld(h.root, &h.seq); err != nil {
			return err
		}
	}
	return nil
}

// logFor returns a log for the kinds; a log is shared by at most three schedules.
func (h *harness) logFor(kinds []string) *caseLog {
	key := strings.Join(kinds, "")
	if c := h.cache[key]; c != nil && c.uses < 3 {
		c.uses++
		return c.cl
	}
	cl, _ := h.buildLog(kinds)
	if cl != nil {
		h.cache[key] = &cachedLog{cl: cl, uses: 1}
	}
	return cl
}

func (h *harness) violate(kind, sig, detail string, replay any) {
	if h.seen[sig] {
		h.rep.AddExtra("violations_suppressed_same_signature", 1)
		return
	}
	h.seen[sig] = true
	h.rep.ViolateSig(property, kind, detail, sig, replay)
}

// buildLog draws real commands for the given kinds while applying them one at a time to a
// reference replica.  The refusal part of the property is checked here directly.
func (h *harness) buildLog(kinds []string) (*caseLog, bool) {
	if err := h.worlds(); err != nil {
		h.rep.Infra("open db: %v", err)
		return nil, false
	}
	ref := h.refW
	if err := ref.fresh(); err != nil {
		h.rep.Infra("reset reference db: %v", err)
		return nil, false
	}
	g := &gen{rng: h.rng, db: ref.db, now: baseMS}
	if h.rng.Intn(10) < 7 {
		g.theme = families[h.rng.Intn(len(families))]
	}
	cl := &caseLog{kinds: append([]string{""}, kinds...), cmds: make([]cmdRec, 1, len(kinds)+1)}
	cur, err := ref.export()
	if err != nil {
		h.rep.Infra("export: %v", err)
		return nil, false
	}
	curOwned, err1 := ref.exportOf(ownedHS)
	curForeign, err2 := ref.exportOf(foreignHS)
	if err1 != nil || err2 != nil {
		h.rep.Infra("export: %v %v", err1, err2)
		return nil, false
	}
	cl.refAll, cl.refOwned = append(cl.refAll, cur), append(cl.refOwned, curOwned)
	for i := 1; i <= len(kinds); i++ {
		kind := kinds[i-1]
		for attempt := 0; ; attempt++ {
			if attempt > 200 {
				h.rep.Infra("generator cannot produce a command of kind %s", kind)
				return nil, false
			}
			var c cmdRec
			switch kind {
			case "A":
				c = g.valid()
				if g.n(8) == 0 { // byte-mutated but still decodable payloads
					m := c
					m.Data = g.mutate(c.Data)
					if decodes(m) {
						c = m
						c.Desc = "mutated(" + c.Desc + ")"
					}
				}
			case "S":
				c = g.stale()
			case "U":
				c = g.unowned()
			case "M":
				c = g.malformed()
			}
			cl.cmds = append(cl.cmds[:i], c)
			d0, _ := ref.durable()
			_, aerr, pan := ref.apply(cl.cmds, i, i)
			after, xerr := ref.export()
			if xerr != nil {
				h.rep.Infra("export: %v", xerr)
				return nil, false
			}
			d1, _ := ref.durable()
			replay := map[string]any{"log": cl.describe(), "at": i}
			// Hash slots the slot does not own keep their content whatever the command was and
			// whether it was accepted or refused.  The run goes on after a report (one report per
			// command family); the schedules of this log are then compared on the owned hash slots.
			afterForeign, ferr := ref.exportOf(foreignHS)
			if ferr != nil {
				h.rep.Infra("export: %v", ferr)
				return nil, false
			}
			if pan == nil && !bytes.Equal(afterForeign, curForeign) {
				outcome := "accepted"
				if aerr != nil {
					outcome = fmt.Sprintf("refused (%v)", aerr)
				}
				h.violate("unowned", "unowned-hash-slot-written:"+sigName(c.Desc), fmt.Sprintf("entry %d (%s, command hash slot %d) was %s and changed metadata of a hash slot that slot %d (owning %v) does not own: %s",
					i, c.Desc, c.HashSlot, outcome, slotID, ownedHS, diffSnap(curForeign, afterForeign)), replay)
				cl.leaked = true
				curForeign = afterForeign
				if aerr != nil {
					return nil, false
				}
			}
			if pan != nil {
				h.violate("crash", "panic:"+kind, fmt.Sprintf("ApplyBatch panicked on a %s command (%s): %v", kind, c.Desc, pan), replay)
				return nil, false
			}
			if aerr != nil {
				// refused: no side effects, whatever the reason
				if !bytes.Equal(after, cur) || d1 != d0 {
					h.violate("refusal", "refused-with-side-effect:"+kind, fmt.Sprintf("entry %d (%s) was refused (%v) but metadata or applied index changed: %s durable %d->%d",
						i, c.Desc, aerr, diffSnap(cur, after), d0, d1), replay)
					return nil, false
				}
				if kind == "U" || kind == "M" {
					break
				}
				h.rep.AddExtra("generator_redraws_refused", 1)
				continue // an "A"/"S" candidate that the state machine refuses: draw another one
			}
			switch kind {
			case "U":
				h.violate("refusal", "unowned-accepted", fmt.Sprintf("entry %d (%s) for a hash slot this slot does not own was accepted", i, c.Desc), replay)
				return nil, false
			case "M":
				h.violate("refusal", "malformed-accepted", fmt.Sprintf("entry %d (%s) does not decode but was accepted", i, c.Desc), replay)
				return nil, false
			case "S":
				if !bytes.Equal(after, cur) {
					h.rep.AddExtra("cases_discarded_generator", 1)
					return nil, true // generator assumption broken (not a property matter): drop the case
				}
			}
			cur = after
			break
		}
		curOwned, err = ref.exportOf(ownedHS)
		if err != nil {
			h.rep.Infra("export: %v", err)
			return nil, false
		}
		cl.refAll, cl.refOwned = append(cl.refAll, cur), append(cl.refOwned, curOwned)
	}
	cl.ref = cl.refAll
	if cl.leaked {
		cl.ref = cl.refOwned
	}
	return cl, true
}

// obsPos maps exported metadata to a log position: want if the bytes are the reference
// metadata after `want` entries, else the first position whose reference metadata they equal,
// else -1.
func (c *caseLog) obsPos(b []byte, want int) int {
	if want >= 0 && want < len(c.ref) && bytes.Equal(b, c.ref[want]) {
		return want
	}
	for j := range c.ref {
		if bytes.Equal(b, c.ref[j]) {
			return j
		}
	}
	return -1
}

// replica under test with the bookkeeping of the runtime around it
type replica struct {
	w     *world
	cl    *caseLog
	p     int // log entries the runtime has fed (its applied index)
	hw    int // highest entry ever applied to the current database
	snaps map[int][]byte
	rng   *rand.Rand
	mmb   bool // the last ApplyBatch carried >= 2 channel-migration task commands of one channel
	ahead string // set when the durable applied index was found above every entry ever fed
	cib   int    // hash slot h+1 if the last ApplyBatch carried CleanupMigrationOutbox(h) followed by another command for h (0 = no)
}

// cleanupThenCommand: does the batch hold a hash-slot-migration cleanup command that is
// followed, in the same batch, by another command for the same hash slot?  Returns hs+1 or 0.
func cleanupThenCommand(cmds []cmdRec, from, to int) int {
	for i := from; i <= to; i++ {
		d := cmds[i].Data
		if len(d) >= 2 && d[0] == 1 && d[1] == 23 {
			for j := i + 1; j <= to; j++ {
				if cmds[j].HashSlot == cmds[i].HashSlot {
					return int(cmds[i].HashSlot) + 1
				}
			}
		}
	}
	return 0
}

func isChannelMigrationCmd(data []byte) bool { return len(data) >= 2 && data[0] == 1 && data[1] >= 30 && data[1] <= 41 }

// migrationChannel returns the channel a channel-migration task command addresses ("*" for the
// garbage-collection command, which ranges over every channel of its hash slot).
func migrationChannel(data []byte) string {
	if !isChannelMigrationCmd(data) || len(data) < 7 {
		return ""
	}
	if data[1] == 40 {
		return "*"
	}
	var v struct {
		ChannelID string
		Guard     struct{ ChannelID string }
		Task      struct{ ChannelID string }
	}
	if json.Unmarshal(data[7:], &v) != nil {
		return ""
	}
	for _, c := range []string{v.ChannelID, v.Guard.ChannelID, v.Task.ChannelID} {
		if c != "" {
			return c
		}
	}
	return ""
}

// multiMigrationBatch: do entries from..to hold two channel-migration task commands that meet
// on one channel of one hash slot?
func multiMigrationBatch(cmds []cmdRec, from, to int) bool {
	type key struct {
		hs uint16
		ch string
	}
	seen := map[key]int{}
	perHS := map[uint16]int{}
	gc := map[uint16]bool{}
	for i := from; i <= to; i++ {
		ch := migrationChannel(cmds[i].Data)
		if ch == "" {
			continue
		}
		hs := cmds[i].HashSlot
		perHS[hs]++
		if ch == "*" {
			gc[hs] = true
		} else {
			seen[key{hs, ch}]++
		}
	}
	for k, n := range seen {
		if n >= 2 || (gc[k.hs] && n >= 1) {
			return true
		}
	}
	return false
}


func (h *harness) newReplica(cl *caseLog) (*replica, error) {
	if err := h.worlds(); err != nil {
		return nil, err
	}
	if err := h.repW.fresh(); err != nil {
		return nil, err
	}
	return &replica{w: h.repW, cl: cl, snaps: map[int][]byte{}, rng: h.rng}, nil
}

func (r *replica) refused(i int) bool { return r.cl.kinds[i] == "U" || r.cl.kinds[i] == "M" }

// observe returns the position the metadata stands for.  While the runtime is replaying
// entries the database already contains (p < hw) the metadata is legitimately ahead of p and
// is not judged.
func (r *replica) observe(want int) (int, []byte, error) {
	b, err := r.w.exportOf(r.cl.scope())
	if err != nil {
		return 0, nil, err
	}
	if r.p < r.hw {
		return want, b, nil
	}
	return r.cl.obsPos(b, want), b, nil
}

type stepOut struct {
	err     bool
	called  bool
	trimmed bool
	pan     any
	applyE  error
}

func (r *replica) applyBatch(from, to int) stepOut {
	out := stepOut{}
	f := from
	if r.p+1 > f {
		f, out.trimmed = r.p+1, true
	}
	if f > to {
		return out
	}
	out.called = true
	r.mmb = multiMigrationBatch(r.cl.cmds, f, to)
	r.cib = cleanupThenCommand(r.cl.cmds, f, to)
	_, err, pan := r.w.apply(r.cl.cmds, f, to)
	out.pan, out.applyE = pan, err
	if pan != nil || err != nil {
		out.err = true
		return out
	}
	r.p = to
	if to > r.hw {
		r.hw = to
	}
	return out
}

// crashRestart reopens the database and resumes from the durable applied index.
func (r *replica) crashRestart() (int, error) {
	if err := r.w.restart(r.rng.Intn(4) == 0); err != nil {
		return 0, err
	}
	d, err := r.w.durable()
	if err != nil {
		return 0, err
	}
	if int(d) > r.hw {
		// the durable applied index claims entries that were never fed: the runtime would skip them
		r.ahead = fmt.Sprintf("durable applied index %d after a restart, but only entries up to %d were ever applied to this database", d, r.hw)
		d = uint64(r.hw)
	}
	r.p = int(d)
	return int(d), nil
}

// catchUp feeds entries p+1..to one at a time, skipping refused ones.
func (r *replica) catchUp(to int) (int, error, any) {
	for i := r.p + 1; i <= to; i++ {
		if r.refused(i) {
			r.p = i
			continue
		}
		if o := r.applyBatch(i, i); o.err {
			return i, o.applyE, o.pan
		}
	}
	return 0, nil, nil
}

func (r *replica) snapshot(idx int) error {
	s, err := r.w.sm.Snapshot(bg)
	if err != nil {
		return err
	}
	r.snaps[idx] = append([]byte(nil), s.Data...)
	return nil
}

func (r *replica) restore(idx int, fresh bool) error {
	data, ok := r.snaps[idx]
	if !ok {
		return fmt.Errorf("no snapshot at %d", idx)
	}
	if fresh {
		if err := r.w.fresh(); err != nil {
			return err
		}
	}
	if err := r.w.sm.Restore(bg, multiraft.Snapshot{Index: uint64(idx), Term: 1, Data: append([]byte(nil), data...)}); err != nil {
		return err
	}
	r.p, r.hw = idx, idx
	return nil
}

// finish feeds the rest of the log one entry at a time, then restarts from the durable index
// and replays once more; both times the metadata must be the reference metadata of the whole log.
func (h *harness) finish(r *replica, replay map[string]any) bool {
	n := r.cl.n()
	for round := 0; round < 2; round++ {
		if round == 1 {
			if _, err := r.crashRestart(); err != nil {
				h.rep.Infra("restart: %v", err)
				return false
			}
			if r.ahead != "" {
				h.violate("durable", "durable-ahead", r.ahead, replay)
				return false
			}
		}
		if at, err, pan := r.catchUp(n); err != nil || pan != nil {
			h.violate("replay", "replay-error", fmt.Sprintf("entry %d (%s), accepted by the one-at-a-time run, failed when fed again: err=%v panic=%v", at, r.cl.cmds[at].Desc, err, pan), replay)
			return false
		}
		b, err := r.w.exportOf(r.cl.scope())
		if err != nil {
			h.rep.Infra("export: %v", err)
			return false
		}
		if !bytes.Equal(b, r.cl.ref[n]) {
			what := []string{"after completing the log", "after a final restart and replay from the durable applied index"}[round]
			h.violate("final", r.sigFor(r.cl.ref[n], b), fmt.Sprintf("metadata %s differs from the one-at-a-time run: %s", what, diffSnap(r.cl.ref[n], b)), replay)
			return false
		}
	}
	return true
}

// sigFor names a divergence by the tables whose rows differ (stable across schedules and hash
// slots).
//
// Known finding "channel-migration-multi-command-batch" (known-findings.json): matched only when
// the ApplyBatch that was just executed carried >= 2 channel-migration task commands of one
// channel AND the difference is confined to channel-migration task rows / index entries
// (table 9).  Reproduction on the unchanged tree (slot 7 owning hash slots {1,2,3}, empty metadb):
//   task = ChannelMigrationTask{TaskID:"T1", Kind:ReplicaReplace, Status:Pending, Phase:Validate, ChannelID:"ga",
//          ChannelType:2, SourceNode:2, TargetNode:4, DesiredLeader:1, CreatedAtMS:t, UpdatedAtMS:t}
//   adv  = ChannelMigrationTaskAdvance{Guard:<task>, Status:Completed, Phase:ClearFence, UpdatedAtMS:t+1000, CompletedAtMS:t+1000}
//   (1) ApplyBatch([Create(task), Advance(adv)]) leaves the channel's active-task index entry behind; Apply, Apply deletes it.
//   (2) ApplyBatch([Create(task), Advance(adv), Create(T2 same channel)]) answers stale_meta for T2 and does not store it; one at a time stores T2.
//   (3) Apply(Create), then ApplyBatch([Advance(adv), GarbageCollect{BeforeMS:t+5000}]) keeps T1; one at a time deletes row and terminal index.
// Cause: commit-time operations of pkg/db/meta (stageUpsertChannelMigrationTask, ensureChannelMigrationActiveAvailable,
// DeleteTerminalChannelMigrationTasksBefore) read the committed database instead of the batch overlay, and the stage-time
// reservation Batch.migrationActive is never released.
//
// Known finding "hashslot-migration-cleanup-then-command-batch": matched only when the ApplyBatch
// that was just executed carried CleanupMigrationOutbox(h) followed by another command for hash
// slot h AND every differing key belongs to hash slot h.  Reproduction (slot 7 owning {1,2,3}):
//   Apply(EnterFenceForTarget(3, 9)) at index 1, then
//   (a) ApplyBatch([Cleanup(3, 7, 9, through 1), EnterFenceForTarget(3, 9)]): the second fence is a no-op (no state, no outbox row);
//       one at a time it creates the migration state and its outbox row.
//   (b) ApplyBatch([Cleanup(3, 7, 9, through 1), UpsertUser for hash slot 3]): the write is answered hash_slot_fenced and dropped;
//       one at a time it is applied.
// Cause: applyMigrationOutboxCleanup deletes the state from the batch-local pendingStates map instead of leaving a tombstone,
// so later commands of the batch load the still-committed (fenced) state from the database.
func (r *replica) sigFor(want, got []byte) string {
	if r.cib != 0 {
		all := true
		for _, k := range diffKeys(want, got) {
			if len(k) < 4 || int(binary.BigEndian.Uint16([]byte(k[2:4]))) != r.cib-1 {
				all = false
			}
		}
		if all {
			return "hashslot-migration-cleanup-then-command-batch"
		}
	}
	tabs := diffTables(want, got)
	only9 := len(tabs) > 0
	for _, t := range tabs {
		if t != "row9" && t != "idx9" {
			only9 = false
		}
	}
	if r.mmb && only9 {
		return "channel-migration-multi-command-batch"
	}
	return "diverge:" + strings.Join(tabs, "+")
}

// ---------------------------------------------------------------------------------------
// snapshot payload diagnostics

func parseSnap(b []byte) map[string]string {
	out := map[string]string{}
	if len(b) < 4+2+2+8+4 {
		return out
	}
	body := b[:len(b)-4]
	body = body[6:]
	n := int(binary.BigEndian.Uint16(body[:2]))
	body = body[2:]
	if len(body) < n*2+8 {
		return out
	}
	body = body[n*2:]
	cnt := binary.BigEndian.Uint64(body[:8])
	body = body[8:]
	for i := uint64(0); i < cnt; i++ {
		kl, a := binary.Uvarint(body)
		if a <= 0 {
			return out
		}
		body = body[a:]
		vl, a2 := binary.Uvarint(body)
		if a2 <= 0 || uint64(len(body[a2:])) < kl+vl {
			return out
		}
		body = body[a2:]
		out[string(body[:kl])] = string(body[kl : kl+vl])
		body = body[kl+vl:]
	}
	return out
}

func diffKeys(want, got []byte) []string {
	a, b := parseSnap(want), parseSnap(got)
	keys := map[string]bool{}
	for k, v := range a {
		if w, ok := b[k]; !ok || w != v {
			keys[k] = true
		}
	}
	for k := range b {
		if _, ok := a[k]; !ok {
			keys[k] = true
		}
	}
	out := make([]string, 0, len(keys))
	for k := range keys {
		out = append(out, k)
	}
	sort.Strings(out)
	return out
}

func diffSnap(want, got []byte) string {
	a, b := parseSnap(want), parseSnap(got)
	var parts []string
	for _, k := range diffKeys(want, got) {
		_, ina := a[k]
		_, inb := b[k]
		switch {
		case ina && !inb:
			parts = append(parts, "missing key "+hex.EncodeToString([]byte(k)))
		case !ina && inb:
			parts = append(parts, "extra key "+hex.EncodeToString([]byte(k)))
		default:
			parts = append(parts, fmt.Sprintf("key %s: value %s, reference %s", hex.EncodeToString([]byte(k)), hex.EncodeToString([]byte(b[k])), hex.EncodeToString([]byte(a[k]))))
		}
		if len(parts) >= 3 {
			break
		}
	}
	if len(parts) == 0 {
		return "identical"
	}
	return fmt.Sprintf("%d keys differ: %s", len(diffKeys(want, got)), strings.Join(parts, "; "))
}

// diffTables: the key prefixes (hash-slot space and table) of the differing keys, as a short
// stable label.  Keys are opaque here; the first 12 bytes cover domain, partition, space and
// table id of the repository's key codec.
func diffTables(want, got []byte) []string {
	set := map[string]bool{}
	for _, k := range diffKeys(want, got) {
		// key codec: domain(1) partition-kind(1) hash-slot(2) space(1) table-id(4) ...
		label := "other"
		if len(k) >= 9 {
			sp := map[byte]string{0x10: "row", 0x11: "idx", 0x12: "sys"}[k[4]]
			if sp == "sys" {
				label = "sys"
			} else if sp != "" {
				label = fmt.Sprintf("%s%d", sp, binary.BigEndian.Uint32([]byte(k[5:9])))
			}
		}
		set[label] = true
	}
	out := make([]string, 0, len(set))
	for k := range set {
		out = append(out, k)
	}
	sort.Strings(out)
	return out
}

// ---------------------------------------------------------------------------------------
// spec -> code: replay one TLC behaviour

func kindsOf(ev map[string]any) []string {
	var out []string
	for _, k := range kit.List(kit.Map(ev, "cfg"), "kinds") {
		s, _ := k.(string)
		out = append(out, s)
	}
	return out
}

func (h *harness) replayBehaviour(bi int, b kit.Behaviour) {
	kinds := kindsOf(b.Steps[0].Ev)
	cl := h.logFor(kinds)
	if cl == nil {
		return
	}
	r, err := h.newReplica(cl)
	if err != nil {
		h.rep.Infra("open db: %v", err)
		return
	}
	replay := map[string]any{"behaviour": b, "log": cl.describe()}
	specPos := 0
	for si, st := range b.Steps[1:] {
		a := kit.Str(st.Ev, "a")
		h.rep.Cover(a)
		wantErr := kit.Bool(kit.Map(st.Ev, "res"), "err")
		wantPos := int(kit.Int(st.St.(map[string]any), "pos"))
		replay["step"] = si + 1
		gotErr := false
		switch a {
		case "ApplyBatch":
			from, to := int(kit.Int(st.Ev, "from")), int(kit.Int(st.Ev, "to"))
			o := r.applyBatch(from, to)
			if o.pan != nil {
				h.violate("crash", "panic:batch", fmt.Sprintf("step %d ApplyBatch(%d..%d) panicked: %v", si+1, from, to, o.pan), replay)
				return
			}
			gotErr = o.err
			if !o.called || o.trimmed {
				if gotErr != wantErr {
					h.rep.AddExtra("cases_desynchronised", 1)
					return
				}
				gotErr = wantErr
			}
			if gotErr != wantErr {
				sig := "batch-refused-unexpectedly"
				if !gotErr {
					sig = "batch-with-refused-entry-accepted"
				}
				h.violate("reply", sig, fmt.Sprintf("step %d ApplyBatch(%d..%d): error=%v (%v), specification: error=%v; entries: %s", si+1, from, to, gotErr, o.applyE, wantErr, descRange(cl, from, to)), replay)
				return
			}
		case "Skip":
			if specPos+1 > r.p {
				r.p = specPos + 1
			}
		case "Restart":
			d := int(kit.Int(st.Ev, "d"))
			if kit.Str(st.Ev, "mode") == "crash" {
				if _, err := r.crashRestart(); err != nil {
					h.rep.Infra("restart: %v", err)
					return
				}
				if r.ahead != "" {
					h.violate("durable", "durable-ahead", fmt.Sprintf("step %d: %s", si+1, r.ahead), replay)
					return
				}
				if at, err, pan := r.catchUp(d); err != nil || pan != nil {
					h.violate("replay", "replay-error", fmt.Sprintf("step %d: after a restart entry %d (%s), accepted before, failed when replayed: err=%v panic=%v", si+1, at, cl.cmds[at].Desc, err, pan), replay)
					return
				}
			} else if err := r.w.restart(h.rng.Intn(4) == 0); err != nil {
				h.rep.Infra("restart: %v", err)
				return
			}
		case "Snapshot":
			if err := r.snapshot(int(kit.Int(st.Ev, "idx"))); err != nil {
				h.violate("reply", "snapshot-error", fmt.Sprintf("step %d Snapshot failed: %v", si+1, err), replay)
				return
			}
		case "Restore":
			if err := r.restore(int(kit.Int(st.Ev, "idx")), kit.Bool(st.Ev, "fresh")); err != nil {
				h.violate("reply", "restore-error", fmt.Sprintf("step %d Restore failed: %v", si+1, err), replay)
				return
			}
		default:
			h.rep.Infra("unknown action %q", a)
			return
		}
		obs, bts, err := r.observe(wantPos)
		if err != nil {
			h.rep.Infra("export: %v", err)
			return
		}
		if obs != wantPos {
			where := fmt.Sprintf("equals the one-at-a-time metadata after %d entries", obs)
			if obs < 0 {
				where = "equals the one-at-a-time metadata at no log position"
			}
			h.violate("state", r.sigFor(cl.ref[wantPos], bts), fmt.Sprintf("step %d %s: metadata %s, expected after %d entries: %s", si+1, kit.JSON(kit.CloneEv(st.Ev)), where, wantPos,
				diffSnap(cl.ref[wantPos], bts)), replay)
			return
		}
		specPos = wantPos
	}
	delete(replay, "step")
	h.finish(r, replay)
	h.rep.Replayed(len(b.Steps) - 1)
	if bi == 0 {
		h.rep.Sample(map[string]any{"behaviour": b, "log": cl.describe()})
	}
}

func descRange(cl *caseLog, from, to int) string {
	var parts []string
	for i := from; i <= to && i <= cl.n(); i++ {
		parts = append(parts, fmt.Sprintf("%d:%s/%s", i, cl.kinds[i], cl.cmds[i].Desc))
	}
	return strings.Join(parts, ", ")
}

// ---------------------------------------------------------------------------------------
// code -> spec: seeded random driver, recorded for TLC

func (h *harness) drive(rec *kit.Recorder) {
	n := 8 + h.rng.Intn(13)
	kinds := make([]string, n)
	for i := range kinds {
		switch r := h.rng.Intn(100); {
		case r < 80:
			kinds[i] = "A"
		case r < 86:
			kinds[i] = "S"
		case r < 93:
			kinds[i] = "U"
		default:
			kinds[i] = "M"
		}
	}
	cl, _ := h.buildLog(kinds)
	if cl == nil {
		return
	}
	r, err := h.newReplica(cl)
	if err != nil {
		h.rep.Infra("open db: %v", err)
		return
	}
	// The steps are buffered: a trace is handed to TLC only if the driver itself saw no metadata
	// divergence (a divergence is reported here, with a signature, so that known findings can be
	// told from new ones; the runner's trace stage cannot do that).
	var buf []kit.Step
	emit := func(ev map[string]any, gotErr bool) bool {
		obs, bts, err := r.observe(r.p)
		if err != nil {
			h.rep.Infra("export: %v", err)
			return false
		}
		ev["res"] = map[string]any{"err": gotErr}
		buf = append(buf, kit.Step{Ev: ev, St: map[string]any{"pos": obs}})
		h.rep.Cover(kit.Str(ev, "a"))
		if obs != r.p {
			h.violate("state", r.sigFor(cl.ref[r.p], bts), fmt.Sprintf("driver step %d %s: metadata differs from the one-at-a-time run after %d entries: %s", len(buf), kit.JSON(ev), r.p,
				diffSnap(cl.ref[r.p], bts)), map[string]any{"log": cl.describe(), "steps": buf})
			return false
		}
		return true
	}
	snapIdx := []int{}
	for step := 0; step < 3*n && (r.p < n || step < n); step++ {
		dice := h.rng.Intn(100)
		switch {
		case r.p < n && r.refused(r.p+1) && dice < 55:
			r.p++
			if !emit(kit.Ev("Skip"), false) {
				return
			}
		case r.p < n && dice < 70:
			k := 1 + h.rng.Intn(6)
			if r.p+k > n {
				k = n - r.p
			}
			from, to := r.p+1, r.p+k
			o := r.applyBatch(from, to)
			if o.pan != nil {
				h.violate("crash", "panic:batch", fmt.Sprintf("ApplyBatch(%d..%d) panicked: %v", from, to, o.pan), map[string]any{"log": cl.describe()})
				return
			}
			if !emit(kit.Ev("ApplyBatch", "from", from, "to", to), o.err) {
				return
			}
		case dice < 80:
			d, err := r.crashRestart()
			if err != nil {
				h.rep.Infra("restart: %v", err)
				return
			}
			if r.ahead != "" {
				h.violate("durable", "durable-ahead", r.ahead, map[string]any{"log": cl.describe(), "steps": buf})
				return
			}
			if !emit(kit.Ev("Restart", "d", d, "mode", "crash"), false) {
				return
			}
		case dice < 84:
			if err := r.w.restart(h.rng.Intn(4) == 0); err != nil {
				h.rep.Infra("restart: %v", err)
				return
			}
			if !emit(kit.Ev("Restart", "d", r.p, "mode", "clean"), false) {
				return
			}
		case dice < 92:
			if r.p == 0 || r.p < r.hw {
				continue
			}
			if _, dup := r.snaps[r.p]; dup {
				continue
			}
			if err := r.snapshot(r.p); err != nil {
				h.violate("reply", "snapshot-error", fmt.Sprintf("Snapshot failed: %v", err), map[string]any{"log": cl.describe()})
				return
			}
			snapIdx = append(snapIdx, r.p)
			if !emit(kit.Ev("Snapshot", "idx", r.p), false) {
				return
			}
		default:
			if len(snapIdx) == 0 {
				continue
			}
			idx, fresh := snapIdx[h.rng.Intn(len(snapIdx))], h.rng.Intn(2) == 0
			if err := r.restore(idx, fresh); err != nil {
				h.violate("reply", "restore-error", fmt.Sprintf("Restore failed: %v", err), map[string]any{"log": cl.describe()})
				return
			}
			if !emit(kit.Ev("Restore", "idx", idx, "fresh", fresh), false) {
				return
			}
		}
	}
	if !h.finish(r, map[string]any{"log": cl.describe(), "steps": buf}) {
		return
	}
	rec.Begin(map[string]any{"cfg": map[string]any{"kinds": kinds}}, map[string]any{"pos": 0})
	for _, st := range buf {
		rec.Step(st.Ev, st.St)
	}
}

// ---------------------------------------------------------------------------------------

func TestVerifSlotFSM(t *testing.T) {
	env, ok := kit.LoadEnv()
	if !ok {
		t.Skip("not started by the verif runner")
	}
	if env.Property != "" && env.Property != property {
		t.Skip("other property")
	}
	rep := kit.NewReport(env, "slotfsm")
	rec, err := kit.NewRecorder(env.TraceFile)
	if err != nil {
		t.Fatal(err)
	}
	// tmpfs when there is one (the subject is the logic, not fsync); the directory is removed at the end
	root, rerr := os.MkdirTemp("/dev/shm", "verif-slotfsm-")
	if rerr != nil {
		root = t.TempDir()
	}
	defer os.RemoveAll(root)
	h := &harness{t: t, env: env, rep: rep, rng: env.Rand(), root: root, seen: map[string]bool{}, cache: map[string]*cachedLog{}}
	defer func() {
		if h.refW != nil {
			h.refW.destroy()
		}
		if h.repW != nil {
			h.repW.destroy()
		}
	}()

	behs, err := kit.LoadBehaviours(env.BehFile)
	if err != nil {
		rep.Infra("load behaviours: %v", err)
	}
	for bi, b := range behs {
		if len(b.Steps) == 0 || kit.Str(b.Steps[0].Ev, "a") != "Init" {
			rep.Infra("behaviour %d does not start with Init", bi)
			continue
		}
		h.replayBehaviour(bi, b)
	}

	traces := env.Pick(60, 500)
	for i := 0; i < traces; i++ {
		h.drive(rec)
	}
	if err := rec.Close(); err != nil {
		rep.Infra("trace file: %v", err)
	}
	if err := rep.Finish(rec); err != nil {
		t.Fatal(err)
	}
}

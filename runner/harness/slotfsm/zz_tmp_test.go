package slotfsm_test

import (
	"testing"
	"time"
	"fmt"
	"os"
	"math/rand"
)

func TestTmpTiming(t *testing.T) {
	if os.Getenv("TMPTIMING") == "" { t.Skip() }
	root, _ := os.MkdirTemp("/dev/shm", "x"); defer os.RemoveAll(root)
	seq := 0
	t0 := time.Now()
	var ws []*world
	for i := 0; i < 10; i++ { w, err := newWorld(root, &seq); if err != nil { t.Fatal(err) }; ws = append(ws, w) }
	fmt.Println("open x10", time.Since(t0))
	w := ws[0]
	g := &gen{rng: rand.New(rand.NewSource(1)), db: w.db, now: baseMS}
	log := []cmdRec{{}}
	for i := 0; i < 50; i++ { log = append(log, g.valid()) }
	t0 = time.Now()
	for i := 1; i <= 50; i++ { w.apply(log, i, i) }
	fmt.Println("apply x50", time.Since(t0))
	t0 = time.Now()
	for i := 1; i <= 50; i++ { w.export() }
	fmt.Println("export x50", time.Since(t0))
	t0 = time.Now()
	for i := 1; i <= 10; i++ { w.reopen() }
	fmt.Println("reopen x10", time.Since(t0))
	t0 = time.Now()
	for _, w := range ws { w.destroy() }
	fmt.Println("destroy x10", time.Since(t0))
}

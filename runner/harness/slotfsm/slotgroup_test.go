package slotfsm_test

// Concurrent two-slot stage of the C13 check (specs/SlotFSM/SlotGroup.tla).
//
// One node hosts two slot state machines over ONE metadb: slot 7 owning hash slots {1,2,3}
// (commands from the generators of slotfsm_test.go) and slot 8 owning hash slot {5} (a small
// generator of its own).  Commands of the two slots touch disjoint hash slots, so the outcome
// of each command - its ApplyBatch result and the exported metadata of its slot's hash slots -
// must be the outcome of the one-at-a-time run of that slot's log, whatever the other slot
// applies at the same time and whether or not the store coalesced the two commits.
//
// Per case: two slot logs of kinds V (valid, effective) / S (stale no-op: guard misses at commit,
// ErrNotFound) / C (conflicting: commit-time guard ErrConflict) are drawn as real payloads while
// they are applied one command at a time to a reference replica (differential oracle: result
// bytes and exported snapshot bytes per slot after every entry; the kind of every command is
// verified there, so a legitimately stale command is compared with the stale result and not with
// ok).  The schedule (TLC behaviours of SimGroup.tla, then a seeded driver with longer logs) is
// executed on two real replicas: "a" lets both slots call ApplyBatch concurrently (ApplyPair, two
// goroutines released together), "b" applies strictly sequentially.  After every step reply and
// exported bytes are compared with the specification's expectation, and whenever the two
// replicas have consumed the same prefix of a slot's log their exported bytes are compared with
// each other (the module's differential oracle).  Exported API only.
//
// Known finding "commit-group-foreign-guard-error" (known-findings.json): matched when, and only
// when, in an ApplyPair step slot X's command is of kind V, slot Y's command is of kind S or C
// (verified on the reference replica: answered stale_meta by a refused commit, the durable applied
// index of Y did not move), Y is answered and stored as the specification says, and X is answered
// fsm.ApplyResultStaleMeta with a nil error while the exported metadata of X's hash slots is
// byte-identical to what it was before the step (not applied).  Cause: the metadb group-commit
// coordinator (pkg/db/internal/commit Coordinator.commit) fails EVERY coalesced request with the
// Build error of one of them (reqs.completeAll); fsm.ApplyBatch maps the foreign ErrNotFound /
// ErrStaleMeta / ErrAlreadyExists to stale_meta for its own valid command.  Timing dependent
// (coalescing window 500us): a run that does not hit it reports nothing.  After a hit the command
// is applied again alone on the same replica (it must then take effect) and the schedule goes on.
// Any other deviation is an ordinary violation.

import (
	"bytes"
	"encoding/hex"
	"fmt"
	"os"
	"sync"
	"testing"

	metadb "github.com/WuKongIM/WuKongIM/pkg/db/meta"
	"github.com/WuKongIM/WuKongIM/pkg/slot/fsm"
	"github.com/WuKongIM/WuKongIM/pkg/slot/multiraft"
	"verif/runner/kit"
)

const groupSig = "commit-group-foreign-guard-error"

var (
	gSlotIDs = [2]uint64{slotID, seedSlot}
	gHS      = [2][]uint16{ownedHS, {seedHS}}
	gIdle    = []uint16{4} // owned by nobody, written by nobody
)

// one real replica of the node: a metadb with the two state machines over it
type gnode struct {
	w    *world
	sms  [2]multiraft.BatchStateMachine
	pos  [2]int // entries of each slot's log fed so far
	base [2]int // raft index of the entry before log entry 1 (setup commands)
}

type gout struct {
	res []byte
	err error
	pan any
}

func (n *gnode) applyRaw(s int, index uint64, c cmdRec) (o gout) {
	defer func() {
		if r := recover(); r != nil {
			o.pan = r
		}
	}()
	res, err := n.sms[s].ApplyBatch(bg, []multiraft.Command{{SlotID: multiraft.SlotID(gSlotIDs[s]), HashSlot: c.HashSlot, Index: index, Term: 1,
		Data: append([]byte(nil), c.Data...)}})
	o.err = err
	if err == nil && len(res) == 1 {
		o.res = res[0]
	} else if err == nil {
		o.err = fmt.Errorf("ApplyBatch returned %d results for 1 command", len(res))
	}
	return o
}

func (n *gnode) exports() (own [2][]byte, idle []byte, err error) {
	for s := 0; s < 2; s++ {
		if own[s], err = n.w.exportOf(gHS[s]); err != nil {
			return
		}
	}
	idle, err = n.w.exportOf(gIdle)
	return
}

func (n *gnode) durableOf(s int) uint64 {
	d, _ := n.w.db.SlotAppliedIndex(bg, gSlotIDs[s])
	return d
}

// setup gives the replica an empty database seeded as every world of this harness is (hash slot 5
// holds slot 8's rows, applied at indexes 1..4 of slot 8), creates the two state machines and
// stores the runtime metadata row ("gz", 2) in hash slot 1 through slot 7 (index 1): the row the
// conflicting commands of slot 7 aim at; no generator touches it.
func (n *gnode) setup() error {
	if err := n.w.fresh(); err != nil {
		return err
	}
	n.sms[0] = n.w.sm.(multiraft.BatchStateMachine)
	sm8, err := fsm.NewStateMachineWithHashSlots(n.w.db, seedSlot, []uint16{seedHS})
	if err != nil {
		return err
	}
	n.sms[1] = sm8.(multiraft.BatchStateMachine)
	n.pos, n.base = [2]int{}, [2]int{1, 4}
	gz := metadb.ChannelRuntimeMeta{ChannelID: "gz", ChannelType: 2, ChannelEpoch: 10, LeaderEpoch: 20, Replicas: []uint64{1, 2, 3},
		ISR: []uint64{1, 2}, Leader: 1, MinISR: 2, Status: 1, Features: 1, LeaseUntilMS: baseMS + 10000}
	o := n.applyRaw(0, 1, cmdRec{HashSlot: 1, Data: fsm.EncodeUpsertChannelRuntimeMetaCommand(gz)})
	if o.err != nil || o.pan != nil || string(o.res) != fsm.ApplyResultOK {
		return fmt.Errorf("seed gz row: res=%q err=%v panic=%v", o.res, o.err, o.pan)
	}
	return nil
}

// ---------------------------------------------------------------------------------------
// the case: two logs with their one-at-a-time reference run

type gcase struct {
	kinds [2][]string // 1-based
	cmds  [2][]cmdRec // 1-based
	res   [2][][]byte // reference result of entry i
	ref   [2][][]byte // ref[s][i]: exported bytes of slot s's hash slots after entries 1..i of ITS log
	nv    [2][]int    // nv[s][i]: number of V entries among 1..i
	idle  []byte      // exported bytes of hash slot 4
}

func (c *gcase) describe() any {
	out := map[string]any{}
	for s := 0; s < 2; s++ {
		var l []any
		for i := 1; i < len(c.cmds[s]); i++ {
			l = append(l, map[string]any{"i": i, "kind": c.kinds[s][i], "hash_slot": c.cmds[s][i].HashSlot, "cmd": c.cmds[s][i].Desc,
				"reference_result": string(c.res[s][i]), "data": hex.EncodeToString(c.cmds[s][i].Data)})
		}
		out[fmt.Sprintf("slot%d", gSlotIDs[s])] = l
	}
	return out
}

// nvOf maps exported bytes of slot s to the number of effective commands they contain (-1: the
// bytes are the reference metadata of no position).
func (c *gcase) nvOf(s int, b []byte, want int) int {
	if want >= 0 && want < len(c.ref[s]) && bytes.Equal(b, c.ref[s][want]) {
		return c.nv[s][want]
	}
	for j := range c.ref[s] {
		if bytes.Equal(b, c.ref[s][j]) {
			return c.nv[s][j]
		}
	}
	return -1
}

type ghar struct {
	*harness
	refN, a, b *gnode
	ctr        int // makes the valid commands of slot 8 effective (never repeats a value)
	// statistics for the evidence file
	pairRounds, bothValid, bothValidOK, oneMiss, hits, healed, seqSteps, replicaCompares int
}

func (g *ghar) nodes() error {
	for _, p := range []**gnode{&g.refN, &g.a, &g.b} {
		if *p == nil {
			w, err := newWorld(g.root, &g.seq)
			if err != nil {
				return err
			}
			*p = &gnode{w: w}
		}
	}
	return nil
}

// draw8 builds a command of the given kind for slot 8 (hash slot 5), reading the reference
// database for current values.
func (g *ghar) draw8(gn *gen, kind string) cmdRec {
	st := gn.db.ForHashSlot(seedHS)
	g.ctr++
	switch kind {
	case "S":
		c := gn.stale()
		c.HashSlot = seedHS
		return c
	case "C":
		ch := []string{"ga", "gb"}[gn.n(2)]
		cur, err := st.GetChannelRuntimeMeta(bg, ch, 2)
		if err != nil {
			ch = "ga"
			cur, err = st.GetChannelRuntimeMeta(bg, ch, 2)
		}
		if err == nil {
			for _, nd := range cur.ISR {
				if nd != cur.Leader { // same epochs, another leader
					m := cur
					m.Replicas, m.ISR = append([]uint64(nil), cur.Replicas...), append([]uint64(nil), cur.ISR...)
					m.Leader = nd
					return cmdRec{HashSlot: seedHS, Data: fsm.EncodeUpsertChannelRuntimeMetaCommand(m), Desc: "conflict(UpsertChannelRuntimeMeta " + ch + " other leader)"}
				}
			}
		}
		c := gn.stale()
		c.HashSlot = seedHS
		return c
	}
	switch gn.n(5) {
	case 0:
		return cmdRec{HashSlot: seedHS, Data: fsm.EncodeUpsertUserCommand(metadb.User{UID: []string{"u1", "u2", "u7"}[gn.n(3)], Token: fmt.Sprintf("g%d", g.ctr), DeviceFlag: int64(gn.n(3))}), Desc: "UpsertUser"}
	case 1:
		ch := []string{"ga", "gb", "gc"}[gn.n(3)]
		m := metadb.ChannelRuntimeMeta{ChannelID: ch, ChannelType: 2, ChannelEpoch: 10, LeaderEpoch: 20, Replicas: []uint64{1, 2, 3}, ISR: []uint64{1, 2},
			Leader: 1, MinISR: 2, Status: 1, Features: 1, LeaseUntilMS: baseMS + 10000}
		if cur, err := st.GetChannelRuntimeMeta(bg, ch, 2); err == nil {
			m = cur
			m.Replicas, m.ISR = append([]uint64(nil), cur.Replicas...), append([]uint64(nil), cur.ISR...)
			m.LeaderEpoch++
		}
		return cmdRec{HashSlot: seedHS, Data: fsm.EncodeUpsertChannelRuntimeMetaCommand(m), Desc: "UpsertChannelRuntimeMeta " + ch}
	case 2:
		return cmdRec{HashSlot: seedHS, Data: fsm.EncodeUpsertChannelLatestCommand(metadb.ChannelLatest{ChannelID: []string{"ga", "gb", "gc"}[gn.n(3)], ChannelType: 2,
			LastMessageID: uint64(1000 + g.ctr), LastMessageSeq: uint64(10 + g.ctr), LastAt: baseMS + int64(g.ctr), FromUID: "u1", ClientMsgNo: fmt.Sprintf("g%d", g.ctr),
			Payload: []byte("p"), UpdatedAt: baseMS + int64(g.ctr)}), Desc: "UpsertChannelLatest"}
	case 3:
		return cmdRec{HashSlot: seedHS, Data: fsm.EncodeUpsertChannelCommand(metadb.Channel{ChannelID: []string{"ga", "gb"}[gn.n(2)], ChannelType: 2, Ban: int64(g.ctr % 2), Large: int64(gn.n(2)),
			AllowStranger: int64(g.ctr / 2 % 2)}), Desc: "UpsertChannel"}
	default:
		return cmdRec{HashSlot: seedHS, Data: fsm.EncodeUpsertDeviceCommand(metadb.Device{UID: "u1", DeviceFlag: int64(gn.n(2)), Token: fmt.Sprintf("g%d", g.ctr), DeviceLevel: int64(gn.n(2))}), Desc: "UpsertDevice"}
	}
}

// draw7 builds a command of the given kind for slot 7 from the generators of the sequential
// stage.  Forwarded deltas and hash-slot-migration maintenance commands are left to that stage
// (they carry in-memory replay state, and one delta kind is a known finding of its own).
func (g *ghar) draw7(gn *gen, kind string) cmdRec {
	switch kind {
	case "S":
		return gn.stale()
	case "C":
		cur, err := gn.db.ForHashSlot(1).GetChannelRuntimeMeta(bg, "gz", 2)
		if err != nil {
			return gn.stale()
		}
		m := cur
		m.Replicas, m.ISR = append([]uint64(nil), cur.Replicas...), append([]uint64(nil), cur.ISR...)
		m.Leader = 2
		if cur.Leader == 2 {
			m.Leader = 1
		}
		return cmdRec{HashSlot: 1, Data: fsm.EncodeUpsertChannelRuntimeMetaCommand(m), Desc: "conflict(UpsertChannelRuntimeMeta gz other leader)"}
	}
	for {
		c := gn.valid()
		if fsmIsDeltaOrMaintenance(c.Data) {
			continue
		}
		return c
	}
}

// build draws the two logs while applying them one command at a time (slot 7's entry i, then
// slot 8's entry i) to the reference replica.  ok=false with a nil case: dropped (generator).
func (g *ghar) build(kinds [2][]string) *gcase {
	if err := g.nodes(); err != nil {
		g.rep.Infra("open db: %v", err)
		return nil
	}
	ref := g.refN
	if err := ref.setup(); err != nil {
		g.rep.Infra("set up reference db: %v", err)
		return nil
	}
	gn := &gen{rng: g.rng, db: ref.w.db, now: baseMS}
	if g.rng.Intn(10) < 6 {
		gn.theme = families[g.rng.Intn(len(families))]
		if gn.theme == "hsmig" || gn.theme == "deltabatch" {
			gn.theme = "runtime"
		}
	}
	c := &gcase{}
	own, idle, err := ref.exports()
	if err != nil {
		g.rep.Infra("export: %v", err)
		return nil
	}
	c.idle = idle
	for s := 0; s < 2; s++ {
		c.kinds[s] = append([]string{""}, kinds[s]...)
		c.cmds[s] = make([]cmdRec, 1, len(kinds[s])+1)
		c.res[s] = [][]byte{nil}
		c.ref[s] = [][]byte{own[s]}
		c.nv[s] = []int{0}
	}
	n := len(kinds[0])
	if len(kinds[1]) > n {
		n = len(kinds[1])
	}
	for i := 1; i <= n; i++ {
		for s := 0; s < 2; s++ {
			if i > len(kinds[s]) {
				continue
			}
			kind := kinds[s][i-1]
			for attempt := 0; ; attempt++ {
				if attempt > 300 {
					g.rep.AddExtra("cases_discarded_generator", 1)
					return nil
				}
				var cmd cmdRec
				if s == 0 {
					cmd = g.draw7(gn, kind)
				} else {
					cmd = g.draw8(gn, kind)
				}
				d0 := ref.durableOf(s)
				o := ref.applyRaw(s, uint64(ref.base[s]+i), cmd)
				after, idleAfter, xerr := ref.exports()
				if xerr != nil {
					g.rep.Infra("export: %v", xerr)
					return nil
				}
				d1 := ref.durableOf(s)
				replay := map[string]any{"logs_so_far": c.describe(), "slot": gSlotIDs[s], "entry": i, "cmd": cmd.Desc, "data": hex.EncodeToString(cmd.Data)}
				if o.pan != nil {
					g.violate("crash", "group:panic-sequential", fmt.Sprintf("slot %d: ApplyBatch panicked on %s (applied alone): %v", gSlotIDs[s], cmd.Desc, o.pan), replay)
					return nil
				}
				if !bytes.Equal(after[1-s], c.ref[1-s][len(c.ref[1-s])-1]) || !bytes.Equal(idleAfter, c.idle) {
					// (the sequential stage checks this for slot 7 after every command as well)
					g.violate("unowned", "unowned-hash-slot-written:"+sigName(cmd.Desc), fmt.Sprintf("slot %d entry %d (%s), applied alone, changed metadata of hash slots the slot does not own: %s",
						gSlotIDs[s], i, cmd.Desc, diffSnap(c.ref[1-s][len(c.ref[1-s])-1], after[1-s])), replay)
					return nil
				}
				prev := c.ref[s][i-1]
				changed := !bytes.Equal(after[s], prev)
				if o.err != nil {
					if changed || d1 != d0 {
						g.violate("refusal", "refused-with-side-effect:group", fmt.Sprintf("slot %d entry %d (%s) was refused (%v) but metadata or applied index changed", gSlotIDs[s], i, cmd.Desc, o.err), replay)
						return nil
					}
					continue // refused candidate: draw another one
				}
				stale := string(o.res) == fsm.ApplyResultStaleMeta
				okKind := false
				switch kind {
				case "V":
					okKind = changed && !stale
				default:
					// a guard miss of the commit: answered stale_meta, nothing written, durable index left behind
					okKind = !changed && stale && d1 == d0
				}
				if !okKind {
					if changed {
						// an effective command cannot be taken back: it stays in the log as a V entry would,
						// but the kind asked for was S/C -> the case is dropped
						g.rep.AddExtra("cases_discarded_generator", 1)
						return nil
					}
					g.rep.AddExtra("group_generator_redraws", 1)
					continue
				}
				c.cmds[s] = append(c.cmds[s], cmd)
				c.res[s] = append(c.res[s], append([]byte(nil), o.res...))
				c.ref[s] = append(c.ref[s], after[s])
				v := c.nv[s][i-1]
				if kind == "V" {
					v++
				}
				c.nv[s] = append(c.nv[s], v)
				break
			}
		}
	}
	return c
}

// ---------------------------------------------------------------------------------------
// executing a schedule

type gstep struct {
	a     string // ApplyOne | ApplyPair
	r     string // replica "a" | "b"
	slots []int  // 0-based slot numbers
	res   [2]string
	nv    map[string][2]int
	raw   any
}

func ownRes(kind string) string {
	if kind == "V" {
		return "ok"
	}
	return "stale"
}

func class(o gout) string {
	switch {
	case o.pan != nil:
		return "panic"
	case o.err != nil:
		return "error"
	case string(o.res) == fsm.ApplyResultStaleMeta:
		return "stale"
	}
	return "ok"
}

func (g *ghar) run(c *gcase, steps []gstep, replay map[string]any) bool {
	if err := g.a.setup(); err != nil {
		g.rep.Infra("set up replica a: %v", err)
		return false
	}
	if err := g.b.setup(); err != nil {
		g.rep.Infra("set up replica b: %v", err)
		return false
	}
	nodes := map[string]*gnode{"a": g.a, "b": g.b}
	for si, st := range steps {
		n := nodes[st.r]
		if n == nil {
			g.rep.Infra("unknown replica %q", st.r)
			return false
		}
		g.rep.Cover(st.a)
		replay["step"] = si + 1
		before, _, err := n.exports()
		if err != nil {
			g.rep.Infra("export: %v", err)
			return false
		}
		var outs [2]gout
		idx := [2]int{}
		for _, s := range st.slots {
			idx[s] = n.pos[s] + 1
			if idx[s] >= len(c.cmds[s]) {
				g.rep.Infra("step %d applies entry %d of slot %d, the log has %d", si+1, idx[s], gSlotIDs[s], len(c.cmds[s])-1)
				return false
			}
		}
		switch {
		case st.a == "ApplyOne" && len(st.slots) == 1:
			s := st.slots[0]
			outs[s] = n.applyRaw(s, uint64(n.base[s]+idx[s]), c.cmds[s][idx[s]])
			g.seqSteps++
		case st.a == "ApplyPair" && len(st.slots) == 2:
			var wg sync.WaitGroup
			start := make(chan struct{})
			for _, s := range st.slots {
				wg.Add(1)
				go func(s int) {
					defer wg.Done()
					<-start
					outs[s] = n.applyRaw(s, uint64(n.base[s]+idx[s]), c.cmds[s][idx[s]])
				}(s)
			}
			close(start)
			wg.Wait()
			g.pairRounds++
		default:
			g.rep.Infra("unknown step %q over %v", st.a, st.slots)
			return false
		}
		for _, s := range st.slots {
			n.pos[s] = idx[s]
		}
		after, idleAfter, err := n.exports()
		if err != nil {
			g.rep.Infra("export: %v", err)
			return false
		}
		// classify the round
		kindOf := func(s int) string { return c.kinds[s][idx[s]] }
		conforms := func(s int) bool {
			return outs[s].pan == nil && outs[s].err == nil && class(outs[s]) == st.res[s] && bytes.Equal(outs[s].res, c.res[s][idx[s]]) &&
				bytes.Equal(after[s], c.ref[s][idx[s]]) && c.nvOf(s, after[s], idx[s]) == st.nv[st.r][s]
		}
		pairKinds := ""
		if st.a == "ApplyPair" {
			pairKinds = kindOf(0) + kindOf(1)
			switch {
			case pairKinds == "VV":
				g.bothValid++
			case kindOf(0) == "V" || kindOf(1) == "V":
				g.oneMiss++
			}
		}
		// the known pattern, exactly
		if st.a == "ApplyPair" {
			for x := 0; x < 2; x++ {
				y := 1 - x
				if kindOf(x) == "V" && kindOf(y) != "V" && conforms(y) &&
					outs[x].pan == nil && outs[x].err == nil && string(outs[x].res) == fsm.ApplyResultStaleMeta && bytes.Equal(after[x], before[x]) &&
					bytes.Equal(idleAfter, c.idle) {
					g.hits++
					dx := n.durableOf(x)
					g.violate("group", groupSig, fmt.Sprintf("replica %s step %d: slots %d and %d applied one command each concurrently. Slot %d entry %d (%s, hash slot %d) is valid - applied alone on the same data it answers %q and changes the metadata - but was answered %q (nil error) and NOT applied (exported metadata of hash slots %v unchanged, durable applied index of the slot %d, command index %d), while slot %d's entry %d (%s) legitimately missed its guard (%q). The group-commit coordinator failed both coalesced write batches with the guard error of one.",
						st.r, si+1, gSlotIDs[0], gSlotIDs[1], gSlotIDs[x], idx[x], c.cmds[x][idx[x]].Desc, c.cmds[x][idx[x]].HashSlot, c.res[x][idx[x]], outs[x].res, gHS[x], dx, n.base[x]+idx[x],
						gSlotIDs[y], idx[y], c.cmds[y][idx[y]].Desc, outs[y].res), replay)
					// the runtime would move on; here the command is applied again, alone, so that the
					// schedule can go on from equal replicas: now it must take effect
					h := n.applyRaw(x, uint64(n.base[x]+idx[x]), c.cmds[x][idx[x]])
					healed, _, herr := n.exports()
					if herr != nil {
						g.rep.Infra("export: %v", herr)
						return false
					}
					if h.pan != nil || h.err != nil || !bytes.Equal(h.res, c.res[x][idx[x]]) || !bytes.Equal(healed[x], c.ref[x][idx[x]]) || !bytes.Equal(healed[y], after[y]) {
						g.violate("group", "group:reapply-differs", fmt.Sprintf("replica %s step %d: slot %d entry %d (%s), refused together with the neighbour's stale command, was applied again alone: result %q err=%v panic=%v, reference %q; metadata: %s",
							st.r, si+1, gSlotIDs[x], idx[x], c.cmds[x][idx[x]].Desc, h.res, h.err, h.pan, c.res[x][idx[x]], diffSnap(c.ref[x][idx[x]], healed[x])), replay)
						return false
					}
					g.healed++
					outs[x], after = h, healed
				}
			}
		}
		// everything else is judged against the specification
		for _, s := range st.slots {
			o := outs[s]
			what := fmt.Sprintf("replica %s step %d %s: slot %d entry %d (%s %s)", st.r, si+1, st.a, gSlotIDs[s], idx[s], kindOf(s), c.cmds[s][idx[s]].Desc)
			with := ""
			if st.a == "ApplyPair" {
				t := 1 - s
				with = fmt.Sprintf("; applied concurrently by slot %d: entry %d (%s %s) -> %s %q err=%v", gSlotIDs[t], idx[t], kindOf(t), c.cmds[t][idx[t]].Desc, class(outs[t]), outs[t].res, outs[t].err)
			}
			switch {
			case o.pan != nil:
				g.violate("crash", "group:panic", fmt.Sprintf("%s: ApplyBatch panicked: %v%s", what, o.pan, with), replay)
				return false
			case o.err != nil:
				g.violate("reply", "group:error", fmt.Sprintf("%s: ApplyBatch failed (%v); applied alone the command is accepted with result %q%s", what, o.err, c.res[s][idx[s]], with), replay)
				return false
			case class(o) != st.res[s] || !bytes.Equal(o.res, c.res[s][idx[s]]):
				g.violate("reply", "group:result-differs", fmt.Sprintf("%s: result %q, specification %s (one-at-a-time result %q)%s", what, o.res, st.res[s], c.res[s][idx[s]], with), replay)
				return false
			}
		}
		for s := 0; s < 2; s++ {
			wantPos := n.pos[s]
			if got := c.nvOf(s, after[s], wantPos); got != st.nv[st.r][s] || !bytes.Equal(after[s], c.ref[s][wantPos]) {
				g.violate("state", "group:rows-differ", fmt.Sprintf("replica %s step %d %s over slots %v: exported metadata of slot %d's hash slots %v holds %d effective commands of its log, specification %d (after %d entries): %s",
					st.r, si+1, st.a, slotIDs(st.slots), gSlotIDs[s], gHS[s], got, st.nv[st.r][s], wantPos, diffSnap(c.ref[s][wantPos], after[s])), replay)
				return false
			}
		}
		if !bytes.Equal(idleAfter, c.idle) {
			g.violate("unowned", "group:idle-hash-slot-written", fmt.Sprintf("replica %s step %d %s: hash slot 4, owned by neither slot, changed: %s", st.r, si+1, st.a, diffSnap(c.idle, idleAfter)), replay)
			return false
		}
		if pairKinds == "VV" {
			g.bothValidOK++
		}
		// two replicas that consumed the same prefix of a slot's log hold the same bytes for it
		other := nodes[map[string]string{"a": "b", "b": "a"}[st.r]]
		otherOwn, _, err := other.exports()
		if err != nil {
			g.rep.Infra("export: %v", err)
			return false
		}
		for s := 0; s < 2; s++ {
			if other.pos[s] != n.pos[s] {
				continue
			}
			g.replicaCompares++
			if !bytes.Equal(otherOwn[s], after[s]) {
				g.violate("state", "group:replicas-differ", fmt.Sprintf("step %d: replicas a and b both applied entries 1..%d of slot %d's log (a: slots concurrently, b: one command at a time) and hold different metadata for hash slots %v: %s",
					si+1, n.pos[s], gSlotIDs[s], gHS[s], diffSnap(otherOwn[s], after[s])), replay)
				return false
			}
		}
	}
	delete(replay, "step")
	return true
}

func slotIDs(ss []int) []uint64 {
	out := make([]uint64, 0, len(ss))
	for _, s := range ss {
		out = append(out, gSlotIDs[s])
	}
	return out
}

// ---------------------------------------------------------------------------------------
// spec -> code: one TLC behaviour of SimGroup.tla

func strList(v any) []string {
	l, _ := v.([]any)
	out := make([]string, 0, len(l))
	for _, x := range l {
		s, _ := x.(string)
		out = append(out, s)
	}
	return out
}

func (g *ghar) replayGroup(bi int, b kit.Behaviour) {
	logs := kit.List(kit.Map(b.Steps[0].Ev, "cfg"), "logs")
	if len(logs) != 2 {
		g.rep.Infra("behaviour %d: cfg.logs has %d logs", bi, len(logs))
		return
	}
	kinds := [2][]string{strList(logs[0]), strList(logs[1])}
	c := g.build(kinds)
	if c == nil {
		return
	}
	var steps []gstep
	for _, st := range b.Steps[1:] {
		gs := gstep{a: kit.Str(st.Ev, "a"), r: kit.Str(st.Ev, "r"), nv: map[string][2]int{}, raw: st}
		for _, s := range kit.List(st.Ev, "slots") {
			gs.slots = append(gs.slots, int(kit.ToInt(s))-1)
		}
		rs := strList(st.Ev["res"])
		if len(rs) != 2 {
			g.rep.Infra("behaviour %d: malformed res", bi)
			return
		}
		gs.res = [2]string{rs[0], rs[1]}
		nv := kit.Map(st.St.(map[string]any), "nv")
		for r := range nv {
			l := kit.List(nv, r)
			if len(l) != 2 {
				g.rep.Infra("behaviour %d: malformed nv", bi)
				return
			}
			gs.nv[r] = [2]int{int(kit.ToInt(l[0])), int(kit.ToInt(l[1]))}
		}
		steps = append(steps, gs)
	}
	replay := map[string]any{"behaviour": b, "logs": c.describe()}
	if g.run(c, steps, replay) {
		g.rep.Replayed(len(steps))
		if bi == 0 {
			g.rep.Sample(map[string]any{"behaviour": b, "logs": c.describe()})
		}
	}
}

// ---------------------------------------------------------------------------------------
// seeded driver: longer logs, one ApplyPair per round on replica a, the same two entries one at a
// time on replica b (order drawn).  In every round one slot (drawn) applies a valid command and
// the other a valid one, a stale no-op or a conflicting one.  The expectation is the
// specification's with GroupFailsTogether = FALSE: Own(kind) per command, nv = number of V
// entries consumed (SlotGroup.tla Step with gf = FALSE; three lines, transcribed here).
func (g *ghar) drive(ci int) {
	rounds := 10 + g.rng.Intn(9)
	var kinds [2][]string
	for i := 0; i < rounds; i++ {
		x := g.rng.Intn(2)
		k := [2]string{}
		k[x] = "V"
		switch r := g.rng.Intn(100); {
		case r < 36:
			k[1-x] = "V"
		case r < 70:
			k[1-x] = "S"
		default:
			k[1-x] = "C"
		}
		kinds[0], kinds[1] = append(kinds[0], k[0]), append(kinds[1], k[1])
	}
	c := g.build(kinds)
	if c == nil {
		return
	}
	nv := map[string][2]int{"a": {}, "b": {}}
	cp := func() map[string][2]int { return map[string][2]int{"a": nv["a"], "b": nv["b"]} }
	bump := func(r string, s, i int) {
		if kinds[s][i] == "V" {
			v := nv[r]
			v[s]++
			nv[r] = v
		}
	}
	var steps []gstep
	var script []any
	add := func(st gstep) {
		steps = append(steps, st)
		script = append(script, map[string]any{"a": st.a, "r": st.r, "slots": slotIDs(st.slots), "res": st.res, "nv": st.nv})
	}
	for i := 0; i < rounds; i++ {
		bump("a", 0, i)
		bump("a", 1, i)
		add(gstep{a: "ApplyPair", r: "a", slots: []int{0, 1}, res: [2]string{ownRes(kinds[0][i]), ownRes(kinds[1][i])}, nv: cp()})
		first := g.rng.Intn(2)
		for _, s := range []int{first, 1 - first} {
			bump("b", s, i)
			res := [2]string{"-", "-"}
			res[s] = ownRes(kinds[s][i])
			add(gstep{a: "ApplyOne", r: "b", slots: []int{s}, res: res, nv: cp()})
		}
	}
	replay := map[string]any{"driver_case": ci, "logs": c.describe(), "steps": script}
	if g.run(c, steps, replay) {
		g.rep.AddExtra("driver_cases_completed", 1)
		g.rep.AddExtra("driver_steps", len(steps))
	}
}

func TestVerifSlotFSMGroup(t *testing.T) {
	env, ok := kit.LoadEnv()
	if !ok {
		t.Skip("not started by the verif runner")
	}
	if env.Property != "" && env.Property != property {
		t.Skip("other property")
	}
	rep := kit.NewReport(env, "slotfsm-group")
	root, rerr := os.MkdirTemp("/dev/shm", "verif-slotgroup-")
	if rerr != nil {
		root = t.TempDir()
	}
	defer os.RemoveAll(root)
	h := &harness{t: t, env: env, rep: rep, rng: env.Rand(), root: root, seen: map[string]bool{}, cache: map[string]*cachedLog{}}
	g := &ghar{harness: h}
	defer func() {
		for _, n := range []*gnode{g.refN, g.a, g.b} {
			if n != nil {
				n.w.destroy()
			}
		}
	}()

	behs, err := kit.LoadBehaviours(env.BehFile)
	if err != nil {
		rep.Infra("load behaviours: %v", err)
	}
	for bi, b := range behs {
		if len(b.Steps) == 0 || kit.Str(b.Steps[0].Ev, "a") != "Init" {
			rep.Infra("behaviour %d does not start with Init", bi)
			continue
		}
		g.replayGroup(bi, b)
	}
	cases := env.Pick(14, 150)
	for i := 0; i < cases; i++ {
		g.drive(i)
	}

	rep.Extra("concurrent_rounds", g.pairRounds)
	rep.Extra("concurrent_rounds_both_valid", g.bothValid)
	rep.Extra("concurrent_rounds_both_valid_all_applied", g.bothValidOK)
	rep.Extra("concurrent_rounds_valid_with_guard_miss", g.oneMiss)
	rep.Extra("concurrent_rounds_known_pattern_hit", g.hits)
	rep.Extra("known_pattern_hits_reapplied_ok", g.healed)
	rep.Extra("sequential_steps", g.seqSteps)
	rep.Extra("replica_byte_comparisons", g.replicaCompares)
	// non-vacuity: concurrent rounds ran, and every round whose two commands are valid was answered and
	// stored as the specification says (a run that reported a violation stops its case early)
	rep.SelfTest("concurrent_rounds_ran", g.pairRounds > 0 && g.bothValid > 0 && g.oneMiss > 0)
	if rep.Violations() == 0 || (g.hits > 0 && len(h.seen) == 1 && h.seen[groupSig]) {
		rep.SelfTest("both_valid_rounds_all_applied", g.bothValid == g.bothValidOK)
	}
	if err := rep.Finish(nil); err != nil {
		t.Fatal(err)
	}
}

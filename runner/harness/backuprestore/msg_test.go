package backuprestore

// The message side of the system under test: two real message stores (source, target)
// opened through pkg/channel/store.NewMessageDBFactory on in-memory file systems (the
// repository's verification hook, pkg/verifhook.SetFS), driven through exported API only.
//
// Value mapping.  Row `seq` of model channel c stands for `unit` real rows
// (seq-1)*unit+1 .. seq*unit ("unit" = 1024 / cfg.ps when the behaviour's page size is below
// the log bound, so that the model's pages are the code's 1024-row install batches; 1
// otherwise).  Every field of a real row is a fixed function of (channel, real sequence).

import (
	"bytes"
	"context"
	"crypto/sha256"
	"encoding/binary"
	"errors"
	"fmt"
	"hash/crc32"
	"io"
	"runtime"
	"sort"
	"strconv"
	"strings"

	ch "github.com/WuKongIM/WuKongIM/pkg/channel"
	"github.com/WuKongIM/WuKongIM/pkg/channel/store"
	messagedb "github.com/WuKongIM/WuKongIM/pkg/db/message"
	"github.com/WuKongIM/WuKongIM/pkg/quorumlog"
	"verif/runner/kit"
)

var bg = context.Background()

const (
	msgHashSlot  = uint16(5)
	chanEpoch    = uint64(7)
	installBatch = 1024 // pkg/db/message: backupImportBatchMessages
	cursorName   = "verif"
)

type chanDef struct {
	name string
	idx  int
	id   ch.ChannelID
	key  ch.ChannelKey
}

// The storage key of the first channel is a byte prefix of the second one's.
var chanDefs = func() map[string]chanDef {
	out := map[string]chanDef{}
	for i, d := range []struct{ n, id string }{{"c1", "g1"}, {"c2", "g1x"}} {
		id := ch.ChannelID{ID: d.id, Type: 2}
		out[d.n] = chanDef{name: d.n, idx: i + 1, id: id, key: ch.ChannelKeyForID(id)}
	}
	return out
}()

var chanNames = []string{"c1", "c2"}

func chanByID(id string) (chanDef, bool) {
	for _, d := range chanDefs {
		if d.id.ID == id {
			return d, true
		}
	}
	return chanDef{}, false
}

// ---- real rows ---------------------------------------------------------------------------

func rowID(d chanDef, r uint64) uint64 { return uint64(d.idx)*10_000_000 + r }
func rowFrom(r uint64) string          { return "u" + strconv.FormatUint(r%3, 10) }
func rowNo(r uint64) string            { return "n" + strconv.FormatUint(r, 10) }
func rowTS(r uint64) int64             { return 1_700_000_000_000 + int64(r) }

func rowPayload(d chanDef, r uint64) []byte {
	n := 12 + int(r%7)*9
	if r%257 == 3 {
		n = 3000
	}
	out := make([]byte, n)
	x := uint64(d.idx)*0x9E3779B97F4A7C15 + r*0xBF58476D1CE4E5B9 + 0x94D049BB133111EB
	for i := range out {
		x ^= x << 13
		x ^= x >> 7
		x ^= x << 17
		out[i] = byte(x >> 32)
	}
	return out
}

func realRecord(d chanDef, r uint64) ch.Record {
	p := rowPayload(d, r)
	return ch.Record{ID: rowID(d, r), Index: r, Epoch: chanEpoch, Setting: uint8(r % 2), FromUID: rowFrom(r), ClientMsgNo: rowNo(r),
		ServerTimestampMS: rowTS(r), SyncOnce: r%5 == 0, Payload: p, SizeBytes: len(p)}
}

// wellFormed reports whether a message read back is exactly the row the harness wrote at r.
func wellFormed(d chanDef, m ch.Message, r uint64) bool {
	w := realRecord(d, r)
	return m.MessageSeq == r && m.MessageID == w.ID && m.ChannelID == d.id.ID && m.ChannelType == d.id.Type && m.Setting == w.Setting &&
		m.FromUID == w.FromUID && m.ClientMsgNo == w.ClientMsgNo && m.ServerTimestampMS == w.ServerTimestampMS && m.SyncOnce == w.SyncOnce &&
		bytes.Equal(m.Payload, w.Payload)
}

// probe record: carries the idempotency key of real row keyRow, a fresh message id and a
// payload of its own.
func probeRecord(d chanDef, keyRow uint64, n int) ch.Record {
	p := []byte(fmt.Sprintf("probe-%s-%d-%d", d.name, keyRow, n))
	return ch.Record{ID: uint64(d.idx)*10_000_000 + 9_000_000 + uint64(n), Epoch: chanEpoch, FromUID: rowFrom(keyRow), ClientMsgNo: rowNo(keyRow),
		ServerTimestampMS: rowTS(keyRow) + 5, Payload: p, SizeBytes: len(p)}
}

func errClass(err error) string {
	switch {
	case err == nil:
		return ""
	case errors.Is(err, context.Canceled):
		return "canceled"
	case errors.Is(err, ch.ErrLogConflict), errors.Is(err, ch.ErrInvalidConfig):
		return "rejected"
	}
	// the adapter passes the storage layer's error values through unchanged
	s := err.Error()
	for _, k := range []string{"corrupt", "checksum", "conflict", "invalid argument", "unexpected EOF", "EOF"} {
		if strings.Contains(s, k) {
			return "rejected"
		}
	}
	return "other: " + s
}

// ---- one store ---------------------------------------------------------------------------

type msgStore struct {
	mount string
	fs    *crashFS
	f     *store.MessageDBFactory
}

func (w *world) openMsgStore(fs *crashFS) (*msgStore, error) {
	m := &msgStore{fs: fs, mount: w.newMount(fs)}
	// the factory hides why an engine does not open: open the engine once directly first
	eng, err := messagedb.Open("/" + m.mount + "/message")
	if err != nil {
		w.mfs.unmount(m.mount)
		return nil, fmt.Errorf("open message store: %w", err)
	}
	if err := eng.Close(); err != nil {
		w.mfs.unmount(m.mount)
		return nil, fmt.Errorf("close message store: %w", err)
	}
	m.f = store.NewMessageDBFactory("/" + m.mount + "/message")
	if _, _, _, err := m.f.ListChannelsPage(bg, "", 1); err != nil {
		w.mfs.unmount(m.mount)
		return nil, fmt.Errorf("open message store: %w", err)
	}
	return m, nil
}

// benignClose: a backup stream releases its engine snapshot in its writer goroutine right
// after the last byte was handed over, i.e. possibly a moment after the reader saw EOF; an
// engine closed in that moment reports the snapshot as leaked (and is closed all the same).
func benignClose(err error) bool {
	return err == nil || strings.Contains(err.Error(), "leaked snapshots")
}

func settle() {
	for i := 0; i < 200; i++ {
		runtime.Gosched()
	}
}

func (m *msgStore) reopen() error {
	settle()
	if err := m.f.Close(); !benignClose(err) {
		return err
	}
	m.f = store.NewMessageDBFactory("/" + m.mount + "/message")
	_, _, _, err := m.f.ListChannelsPage(bg, "", 1)
	return err
}

func (m *msgStore) close(w *world) {
	if m == nil {
		return
	}
	if m.f != nil {
		settle()
		_ = m.f.Close()
	}
	w.mfs.unmount(m.mount)
}

func (m *msgStore) with(d chanDef, fn func(cs store.ChannelStore) error) error {
	cs, err := m.f.ChannelStore(d.key, d.id)
	if err != nil {
		return err
	}
	err = fn(cs)
	if cerr := cs.Close(); err == nil {
		err = cerr
	}
	return err
}

func (m *msgStore) catalog() (map[string]bool, error) {
	out := map[string]bool{}
	var cursor ch.ChannelKey
	for {
		entries, next, more, err := m.f.ListChannelsPage(bg, cursor, 100)
		if err != nil {
			return nil, err
		}
		for _, e := range entries {
			if d, ok := chanByID(e.ID.ID); ok && e.Key == d.key && e.ID == d.id {
				out[d.name] = true
			} else {
				out["?"+string(e.Key)] = true
			}
		}
		if !more {
			return out, nil
		}
		cursor = next
	}
}

// cuts computes the backup cuts the way pkg/cluster does for a local snapshot: every channel
// of the catalog at min(checkpoint HW, LEO), log start = min(adopted retention boundary, hw).
func (m *msgStore) cuts() ([]store.BackupChannelCut, error) {
	cat, err := m.catalog()
	if err != nil {
		return nil, err
	}
	var cuts []store.BackupChannelCut
	for _, n := range chanNames {
		if !cat[n] {
			continue
		}
		d := chanDefs[n]
		var st store.InitialState
		var rs store.RetentionState
		if err := m.with(d, func(cs store.ChannelStore) error {
			var e error
			if st, e = cs.Load(bg); e != nil {
				return e
			}
			rs, e = cs.LoadRetentionState(bg)
			return e
		}); err != nil {
			return nil, err
		}
		hw := min(st.HW, st.LEO)
		cuts = append(cuts, store.BackupChannelCut{Key: d.key, ID: d.id, Epoch: chanEpoch, LogStartOffset: min(rs.LocalRetentionThroughSeq, hw), HW: hw})
	}
	return cuts, nil
}

// cutOrders returns every order in which the cuts can be handed to the exporter (the cluster
// layer passes them in fence order, not in storage-key order).
func cutOrders(cuts []store.BackupChannelCut) [][]store.BackupChannelCut {
	var out [][]store.BackupChannelCut
	var rec func(cur, rest []store.BackupChannelCut)
	rec = func(cur, rest []store.BackupChannelCut) {
		if len(rest) == 0 {
			out = append(out, append([]store.BackupChannelCut{}, cur...))
			return
		}
		for i := range rest {
			next := append(append([]store.BackupChannelCut{}, rest[:i]...), rest[i+1:]...)
			rec(append(cur, rest[i]), next)
		}
	}
	rec(nil, cuts)
	return out
}

func cutNames(cuts []store.BackupChannelCut) string {
	var ns []string
	for _, c := range cuts {
		if d, ok := chanByID(c.ID.ID); ok {
			ns = append(ns, d.name)
		} else {
			ns = append(ns, "?"+c.ID.ID)
		}
	}
	return strings.Join(ns, ",")
}

// exportOne takes one export of the given cuts (in the order given) through one of the two
// exported entry points and reads the stream to its end.
func (m *msgStore) exportOne(withStats bool, cuts []store.BackupChannelCut) ([]byte, store.BackupSnapshotStats, error) {
	req := store.BackupSnapshotRequest{HashSlot: msgHashSlot, Channels: append([]store.BackupChannelCut{}, cuts...)}
	var rd io.ReadCloser
	var stats store.BackupSnapshotStats
	var err error
	if withStats {
		rd, stats, err = m.f.OpenBackupSnapshotWithStats(bg, req)
	} else {
		rd, err = m.f.OpenBackupSnapshot(bg, req)
	}
	if err != nil {
		return nil, stats, err
	}
	data, err := io.ReadAll(rd)
	if cerr := rd.Close(); err == nil {
		err = cerr
	}
	return data, stats, err
}

// exportDiffer: two exports of the same cut disagree (bytes or statistics).
type exportDiffer struct{ what string }

func (e *exportDiffer) Error() string { return "exports of one cut differ: " + e.what }

// export takes the export of the store at the cut pkg/cluster would choose through BOTH
// exported entry points (OpenBackupSnapshot, OpenBackupSnapshotWithStats - the one the cluster
// backup path uses) with the channel cuts handed over in EVERY order.  The content of a
// backup is a function of the cut, not of the entry point or of the order of the request:
// all streams must be byte-identical and all returned statistics equal.  `prefer` selects
// which of them is handed on (to be verified, imported, compared); the choice rotates over a
// run so that every entry point / order also goes through the restore steps.
func (m *msgStore) export(prefer int) ([]byte, store.BackupSnapshotStats, []store.BackupChannelCut, error) {
	none := store.BackupSnapshotStats{}
	cuts, err := m.cuts()
	if err != nil {
		return nil, none, nil, err
	}
	if len(cuts) == 0 {
		return nil, none, nil, errNoChannel
	}
	orders := cutOrders(cuts)
	type one struct {
		name  string
		data  []byte
		stats store.BackupSnapshotStats
		with  bool
	}
	var all []one
	for _, o := range orders {
		for _, with := range []bool{true, false} {
			name := "OpenBackupSnapshot"
			if with {
				name = "OpenBackupSnapshotWithStats"
			}
			name += "(cuts " + cutNames(o) + ")"
			data, stats, err := m.exportOne(with, o)
			if err != nil {
				if len(all) == 0 {
					return nil, none, cuts, err // the first one decides whether the cut is refused
				}
				return nil, none, cuts, &exportDiffer{fmt.Sprintf("%s succeeded, %s failed: %v", all[0].name, name, err)}
			}
			all = append(all, one{name: name, data: data, stats: stats, with: with})
		}
	}
	pick := all[((prefer%len(all))+len(all))%len(all)]
	var refStats *one
	for i := range all {
		x := &all[i]
		if !bytes.Equal(x.data, pick.data) {
			return pick.data, pick.stats, cuts, &exportDiffer{fmt.Sprintf("%s and %s produced different streams (%d and %d bytes; restorable: %v and %v)",
				pick.name, x.name, len(pick.data), len(x.data), restorable(pick.data), restorable(x.data))}
		}
		if x.with {
			if refStats == nil {
				refStats = x
			} else if x.stats != refStats.stats {
				return pick.data, pick.stats, cuts, &exportDiffer{fmt.Sprintf("%s returned %+v, %s returned %+v", refStats.name, refStats.stats, x.name, x.stats)}
			}
		}
	}
	return pick.data, refStats.stats, cuts, nil
}

// restorable: the stream passes the verification the cluster layer runs before a restore.
func restorable(data []byte) bool {
	_, err := messagedb.ReplayBackupSnapshotReader(bg, bytes.NewReader(data), int64(len(data)),
		func(messagedb.BackupSnapshotBoundary) error { return nil }, func(messagedb.BackupSnapshotRecord) error { return nil })
	return err == nil
}

var errNoChannel = errors.New("no channel in the catalog")

// ---- the source ----------------------------------------------------------------------------

type sealed struct {
	base, last uint64
	manifest   ch.ProposalManifest
	entries    []ch.EntryIdentity
}

type msgSource struct {
	*msgStore
	unit  uint64
	leo   map[string]uint64   // real log end
	props map[string][]sealed // proposals in log order
	chain map[string]map[uint64]ch.EntryIdentity
}

func commandID(d chanDef, pid int) quorumlog.CommandID {
	return quorumlog.CommandID(sha256.Sum256([]byte(fmt.Sprintf("verif-c11/%s/%d", d.name, pid))))
}

func (s *msgSource) appendProposal(d chanDef, n uint64) (base, last uint64, err error) {
	b := s.leo[d.name]
	recs := make([]ch.Record, n)
	for i := range recs {
		recs[i] = realRecord(d, b+uint64(i)+1)
	}
	m := ch.ProposalManifest{Version: ch.ProposalManifestVersion, ChannelEpoch: chanEpoch, LeaderTerm: 1, FenceVersion: 1,
		CommandID: commandID(d, len(s.props[d.name])+1), BaseOffset: b, LastOffset: b + n, PreviousIndex: b}
	if b > 0 {
		prev := s.chain[d.name][b]
		m.PreviousTerm, m.PreviousDigest = prev.LeaderTerm, prev.Digest
	}
	sm, ents, ok := ch.SealProposalManifest(m, recs)
	if !ok {
		return 0, 0, fmt.Errorf("cannot seal a proposal at base %d", b)
	}
	var res store.AppendLeaderResult
	err = s.with(d, func(cs store.ChannelStore) error {
		var e error
		res, e = cs.AppendLeader(bg, store.AppendLeaderRequest{Records: recs, ExactBaseOffset: true, ExpectedBaseOffset: b, Proposal: sm, ServerAllocatedMessageIDs: true})
		return e
	})
	if err != nil {
		return 0, 0, err
	}
	if res.Outcome != store.AppendOutcomeDurable {
		return 0, 0, fmt.Errorf("append outcome %v", res.Outcome)
	}
	s.leo[d.name] = b + n
	s.props[d.name] = append(s.props[d.name], sealed{base: b, last: b + n, manifest: sm, entries: ents})
	for _, e := range ents {
		s.chain[d.name][e.Index] = e
	}
	return res.BaseOffset, res.LastOffset, nil
}

// ---- stream parsing (format of pkg/db/message/backup_snapshot.go) ------------------------

type rowSpan struct {
	seq        uint64
	start, end int
}

type chanSpan struct {
	key     string
	start   int // first byte of the channel block
	hwOff   int // offset of the checkpoint's HW field
	hw      uint64
	metaEnd int // first byte after the message count
	rows    []rowSpan
	end     int
}

type streamLayout struct {
	hashSlot uint16
	chans    []chanSpan
	bodyEnd  int // start of the trailer
}

type cursor struct {
	b   []byte
	pos int
	err error
}

func (c *cursor) need(n int) bool {
	if c.err != nil {
		return false
	}
	if n < 0 || c.pos+n > len(c.b) {
		c.err = io.ErrUnexpectedEOF
		return false
	}
	return true
}
func (c *cursor) skip(n int) {
	if c.need(n) {
		c.pos += n
	}
}
func (c *cursor) uvarint() uint64 {
	if c.err != nil {
		return 0
	}
	v, n := binary.Uvarint(c.b[c.pos:])
	if n <= 0 {
		c.err = io.ErrUnexpectedEOF
		return 0
	}
	c.pos += n
	return v
}
func (c *cursor) bytes() []byte {
	n := int(c.uvarint())
	if !c.need(n) {
		return nil
	}
	out := c.b[c.pos : c.pos+n]
	c.pos += n
	return out
}
func (c *cursor) u64() uint64 {
	if !c.need(8) {
		return 0
	}
	v := binary.BigEndian.Uint64(c.b[c.pos:])
	c.pos += 8
	return v
}

func parseMsgStream(data []byte) (streamLayout, error) {
	var l streamLayout
	if len(data) < 16 || string(data[:4]) != "WKMB" {
		return l, errors.New("not a message backup stream")
	}
	l.bodyEnd = len(data) - 4
	c := &cursor{b: data[:l.bodyEnd], pos: 6}
	l.hashSlot = binary.BigEndian.Uint16(data[6:8])
	n := int(binary.BigEndian.Uint32(data[8:12]))
	c.pos = 12
	for i := 0; i < n; i++ {
		cs := chanSpan{start: c.pos}
		cs.key = string(c.bytes())
		_ = c.bytes() // id
		c.skip(1)     // type
		cs.hwOff = c.pos + 16
		c.skip(16)
		cs.hw = c.u64()
		sys := int(c.uvarint())
		for j := 0; j < sys; j++ {
			_ = c.bytes()
			_ = c.bytes()
		}
		rows := int(c.uvarint())
		cs.metaEnd = c.pos
		for j := 0; j < rows; j++ {
			r := rowSpan{start: c.pos}
			r.seq = c.u64()
			_ = c.bytes()
			_ = c.bytes()
			r.end = c.pos
			cs.rows = append(cs.rows, r)
		}
		cs.end = c.pos
		if c.err != nil {
			return l, c.err
		}
		l.chans = append(l.chans, cs)
	}
	if c.pos != l.bodyEnd {
		return l, fmt.Errorf("%d trailing bytes", l.bodyEnd-c.pos)
	}
	return l, nil
}

func withCRC(body []byte) []byte {
	out := append([]byte{}, body...)
	return binary.BigEndian.AppendUint32(out, crc32.ChecksumIEEE(body))
}

func cut(data []byte, from, to int) []byte {
	out := append([]byte{}, data[:from]...)
	return append(out, data[to:]...)
}

// msgVariant builds the named mutation of a good stream at record boundaries.
func msgVariant(data []byte, v string, pick func(n int) int) ([]byte, error) {
	if v == "ok" {
		return data, nil
	}
	l, err := parseMsgStream(data)
	if err != nil {
		return nil, err
	}
	if len(l.chans) == 0 {
		return nil, errors.New("stream without channels")
	}
	body, trailer := data[:l.bodyEnd], data[l.bodyEnd:]
	last := l.chans[len(l.chans)-1]
	// the last install page of the stream: the last row batch of the last channel, or its
	// whole block when it carries no rows
	lastFrom, lastTo := last.start, last.end
	if n := len(last.rows); n > 0 {
		first := ((n - 1) / installBatch) * installBatch
		lastFrom, lastTo = last.rows[first].start, last.end
	}
	switch v {
	case "trunc":
		var cuts []int
		cuts = append(cuts, 12)
		for _, c := range l.chans {
			cuts = append(cuts, c.metaEnd)
			for i, r := range c.rows {
				if (i+1)%installBatch == 0 || i == len(c.rows)-1 {
					cuts = append(cuts, r.end)
				}
			}
		}
		// every candidate but the complete body (that one with the trailer dropped is also a truncation)
		return append([]byte{}, data[:cuts[pick(len(cuts))]]...), nil
	case "dropLast":
		return append(cut(body, lastFrom, lastTo), trailer...), nil
	case "dropLastFix":
		return withCRC(cut(body, lastFrom, lastTo)), nil
	case "swapFix":
		if len(l.chans) >= 2 {
			a, b := l.chans[len(l.chans)-2], l.chans[len(l.chans)-1]
			out := append([]byte{}, body[:a.start]...)
			out = append(out, body[b.start:b.end]...)
			out = append(out, body[a.start:a.end]...)
			return withCRC(out), nil
		}
		for i := len(l.chans) - 1; i >= 0; i-- {
			c := l.chans[i]
			if n := len(c.rows); n >= 2 {
				a, b := c.rows[n-2], c.rows[n-1]
				out := append([]byte{}, body[:a.start]...)
				out = append(out, body[b.start:b.end]...)
				out = append(out, body[a.start:a.end]...)
				out = append(out, body[b.end:]...)
				return withCRC(out), nil
			}
		}
		return nil, errors.New("swapFix: nothing to swap")
	case "hwLowFix":
		for i := len(l.chans) - 1; i >= 0; i-- {
			c := l.chans[i]
			if n := len(c.rows); n > 0 {
				out := append([]byte{}, body...)
				lo := c.rows[n-1].seq - 1
				binary.BigEndian.PutUint64(out[c.hwOff:], lo)
				// keep the checkpoint well-formed (log start <= hw)
				if ls := binary.BigEndian.Uint64(out[c.hwOff-8:]); ls > lo {
					binary.BigEndian.PutUint64(out[c.hwOff-8:], lo)
				}
				return withCRC(out), nil
			}
		}
		return nil, errors.New("hwLowFix: no channel with rows")
	case "otherSlot":
		out := append([]byte{}, body...)
		binary.BigEndian.PutUint16(out[6:], l.hashSlot+1)
		return withCRC(out), nil
	}
	return nil, fmt.Errorf("unknown stream variant %q", v)
}

// ---- the message world ---------------------------------------------------------------------

type msgWorld struct {
	w        *world
	unit     uint64
	maxLen   int
	api      string
	src      *msgSource
	tgt      *msgStore
	exported []byte
	expStats store.BackupSnapshotStats
	layout   streamLayout
	// knowledge about the export, taken from the source at export time
	expHW   map[string]uint64 // real watermark of every exported channel
	expPhys map[string]uint64
	expRmax map[string]uint64
	probes  int
	infra   []string
}

func (w *world) newMsgWorld(cfg map[string]any, maxLen int) (*msgWorld, error) {
	m := &msgWorld{w: w, unit: 1, maxLen: maxLen, api: kit.Str(cfg, "api")}
	if ps := kit.Int(cfg, "ps"); ps > 0 && int(ps) < maxLen {
		if installBatch%int(ps) != 0 {
			return nil, fmt.Errorf("page size %d does not divide %d", ps, installBatch)
		}
		m.unit = uint64(installBatch / int(ps))
	}
	if u := kit.Int(cfg, "unit"); u > 0 {
		m.unit = uint64(u)
	}
	st, err := w.openMsgStore(newCrashFS())
	if err != nil {
		return nil, err
	}
	m.src = &msgSource{msgStore: st, unit: m.unit, leo: map[string]uint64{}, props: map[string][]sealed{}, chain: map[string]map[uint64]ch.EntryIdentity{}}
	for _, n := range chanNames {
		m.src.chain[n] = map[uint64]ch.EntryIdentity{}
	}
	if m.tgt, err = w.openMsgStore(newCrashFS()); err != nil {
		m.src.close(w)
		return nil, err
	}
	return m, nil
}

func (m *msgWorld) close() {
	m.src.close(m.w)
	m.tgt.close(m.w)
}

func (m *msgWorld) infraf(format string, a ...any) {
	if len(m.infra) < 5 {
		m.infra = append(m.infra, fmt.Sprintf(format, a...))
	}
}

// toModel converts a real sequence to model units: exact multiples only (-1 otherwise).
func (m *msgWorld) toModel(r uint64) int64 {
	if r%m.unit != 0 {
		return -1
	}
	return int64(r / m.unit)
}

// leoModel converts a real log end of channel c: up to the exported watermark in units,
// above it one model row per appended probe row.
func (m *msgWorld) leoModel(c string, r uint64) int64 {
	hw, ok := m.expHW[c]
	if ok && r > hw {
		return int64(hw/m.unit) + int64(r-hw)
	}
	return m.toModel(r)
}

func statsJSON(channels, messages uint64) map[string]any {
	return map[string]any{"channels": channels, "messages": messages}
}

func (m *msgWorld) statsModel(s store.BackupSnapshotStats) map[string]any {
	msgs := int64(s.MessageCount)
	if s.MessageCount%m.unit != 0 {
		msgs = -1
	} else {
		msgs = int64(s.MessageCount / m.unit)
	}
	return map[string]any{"channels": s.ChannelCount, "messages": msgs}
}

var noStats = map[string]any{"channels": 0, "messages": 0}

// ---- calls on the source --------------------------------------------------------------------

func (m *msgWorld) srcCall(ev map[string]any) (map[string]any, error) {
	a := kit.Str(ev, "a")
	d, ok := chanDefs[kit.Str(ev, "c")]
	if !ok && a != "Export" {
		return nil, fmt.Errorf("unknown channel %q", kit.Str(ev, "c"))
	}
	u := m.unit
	switch a {
	case "SrcAppend":
		base, last, err := m.src.appendProposal(d, uint64(kit.Int(ev, "n"))*u)
		if err != nil {
			return nil, err
		}
		return map[string]any{"base": m.toModel(base-1) + 1, "last": m.toModel(last)}, nil
	case "SrcCommit":
		hw := uint64(kit.Int(ev, "hw")) * u
		var st store.InitialState
		err := m.src.with(d, func(cs store.ChannelStore) error {
			if e := cs.StoreCheckpoint(bg, ch.Checkpoint{HW: hw}); e != nil {
				return e
			}
			var e error
			st, e = cs.Load(bg)
			return e
		})
		if err != nil {
			return nil, err
		}
		return map[string]any{"hw": m.toModel(st.HW)}, nil
	case "SrcAdopt":
		var rmax uint64
		err := m.src.with(d, func(cs store.ChannelStore) error {
			var e error
			rmax, e = cs.AdoptRetentionBoundary(bg, uint64(kit.Int(ev, "through"))*u, cursorName)
			return e
		})
		if err != nil {
			return nil, err
		}
		return map[string]any{"rmax": m.toModel(rmax)}, nil
	case "SrcTrim":
		var res store.RetentionTrimResult
		err := m.src.with(d, func(cs store.ChannelStore) error {
			rs, e := cs.LoadRetentionState(bg)
			if e != nil {
				return e
			}
			res, e = cs.TrimMessagesThrough(bg, rs.LocalRetentionThroughSeq, store.RetentionTrimOptions{})
			return e
		})
		if err != nil {
			return nil, err
		}
		return map[string]any{"deleted": m.toModel(uint64(res.Deleted)), "through": m.toModel(res.DeletedThroughSeq)}, nil
	case "Export":
		return m.export()
	}
	return nil, fmt.Errorf("unknown source call %q", a)
}

func (m *msgWorld) export() (map[string]any, error) {
	data, stats, cuts, err := m.src.export(m.w.nextExport())
	if err != nil {
		var d *exportDiffer
		if errors.As(err, &d) {
			return map[string]any{"err": d.Error(), "stats": noStats}, nil
		}
		if cls := errClass(err); cls == "rejected" {
			return map[string]any{"err": "rejected", "stats": noStats}, nil
		}
		return nil, err
	}
	l, err := parseMsgStream(data)
	if err != nil {
		return nil, fmt.Errorf("exported stream does not parse: %w", err)
	}
	m.exported, m.expStats, m.layout = data, stats, l
	m.expHW, m.expPhys, m.expRmax = map[string]uint64{}, map[string]uint64{}, map[string]uint64{}
	// the statistics returned with the stream (signed evidence of the backup) against what the
	// source holds at the cut: hash slot, number of rows and greatest message id (the number of
	// channels and the number of rows in model units are part of the reply the model predicts)
	var rows, maxID uint64
	var counts []uint64
	for _, c := range cuts {
		d, _ := chanByID(c.ID.ID)
		m.expHW[d.name] = c.HW
		var rs store.RetentionState
		if err := m.src.with(d, func(cs store.ChannelStore) error { var e error; rs, e = cs.LoadRetentionState(bg); return e }); err != nil {
			return nil, err
		}
		m.expPhys[d.name], m.expRmax[d.name] = rs.PhysicalRetentionThroughSeq, rs.RetainedMaxSeq
		n := uint64(0)
		if c.HW > rs.PhysicalRetentionThroughSeq {
			n = c.HW - rs.PhysicalRetentionThroughSeq
			maxID = max(maxID, rowID(d, c.HW))
		}
		rows += n
		counts = append(counts, n)
	}
	m.w.count("exports", 1)
	if len(counts) >= 2 {
		m.w.count("exports_of_several_channels", 1)
		for _, n := range counts[1:] {
			if n != counts[0] {
				m.w.count("exports_of_several_channels_with_unequal_row_counts", 1)
				break
			}
		}
	}
	if stats.HashSlot != msgHashSlot || stats.MessageCount != rows || stats.MaxMessageID != maxID || stats.ChannelCount != uint64(len(cuts)) {
		return map[string]any{"err": fmt.Sprintf("export statistics %+v, the cut holds hash slot %d, %d channels, %d rows, greatest message id %d", stats, msgHashSlot, len(cuts), rows, maxID),
			"stats": m.statsModel(stats)}, nil
	}
	return map[string]any{"err": "", "stats": m.statsModel(stats)}, nil
}

// ---- verification and import -----------------------------------------------------------------

// verify is what the cluster layer does before it touches live storage: replay the stream
// without a target and compare the hash slot it names.
func (m *msgWorld) verify(data []byte) (map[string]any, error) {
	seen := map[string]bool{}
	stats, err := messagedb.ReplayBackupSnapshotReader(bg, bytes.NewReader(data), int64(len(data)),
		func(b messagedb.BackupSnapshotBoundary) error {
			if seen[b.ChannelKey] {
				return errors.New("duplicate channel: conflict")
			}
			seen[b.ChannelKey] = true
			return nil
		},
		func(messagedb.BackupSnapshotRecord) error { return nil })
	if err != nil {
		if cls := errClass(err); cls != "rejected" {
			return nil, err
		}
		return map[string]any{"err": "rejected", "stats": noStats}, nil
	}
	if stats.HashSlot != msgHashSlot {
		return map[string]any{"err": "rejected", "stats": noStats}, nil
	}
	return map[string]any{"err": "", "stats": m.statsModel(stats)}, nil
}

// runImport performs one import call on the target.  stopAfter >= 0 abandons it after that
// many install batches became durable: the context is cancelled when the batch's WAL sync
// starts, the call then fails at its next look at the context.  Returns the call's error.
func (m *msgWorld) runImport(data []byte, stopAfter int, onFS func(op, name string)) (store.BackupSnapshotStats, error) {
	ctx, cancel := context.WithCancel(bg)
	defer cancel()
	if stopAfter == 0 {
		cancel()
	}
	syncs := 0
	m.tgt.fs.setHook(func(op, name string) {
		if onFS != nil {
			onFS(op, name)
		}
		if op == "sync" && strings.HasSuffix(name, ".log") {
			syncs++
			if stopAfter > 0 && syncs == stopAfter {
				cancel()
			}
		}
	})
	defer m.tgt.fs.setHook(nil)
	if m.api == "bytes" {
		return m.tgt.f.ImportBackupSnapshot(ctx, data)
	}
	return m.tgt.f.ImportBackupSnapshotReader(ctx, bytes.NewReader(data), int64(len(data)))
}

// pagesOf is the number of install batches of the exported stream.
func (m *msgWorld) pagesOf() int {
	n := 0
	for _, c := range m.layout.chans {
		n += 1 + (len(c.rows)+installBatch-1)/installBatch
	}
	return n
}

// pagesPresent counts the install batches visible in a projection of the target (meta pages
// = channels in the catalog, row pages = present units / page size).
func (m *msgWorld) pagesPresent(proj map[string]any) int {
	ps := installBatch / int(m.unit)
	n := 0
	t := kit.Map(proj, "t")
	for _, c := range chanNames {
		p := kit.Map(t, c)
		if kit.Bool(p, "cat") {
			n++
		}
		rows := 0
		hw := int64(m.expHW[c] / m.unit)
		for _, r := range kit.List(p, "rows") {
			if v := kit.ToInt(r); v >= 1 && v <= hw {
				rows++
			}
		}
		n += (rows + ps - 1) / ps
	}
	return n
}

// ---- probes on the target ----------------------------------------------------------------------

func (m *msgWorld) touch(d chanDef) (map[string]any, error) {
	var st store.InitialState
	err := m.tgt.with(d, func(cs store.ChannelStore) error {
		var e error
		if st, e = cs.Load(bg); e != nil {
			return e
		}
		// a lookup loads the channel's negative membership filter as well
		if il, ok := cs.(store.IdempotencyLookup); ok {
			_, _, e = il.LookupIdempotency(bg, "nobody", "nothing")
		}
		return e
	})
	if err != nil {
		return nil, err
	}
	return map[string]any{"leo": m.leoModel(d.name, st.LEO)}, nil
}

func (m *msgWorld) tgtAppend(d chanDef, k int64) (map[string]any, error) {
	m.probes++
	rec := probeRecord(d, uint64(k)*m.unit, m.probes)
	var res store.AppendLeaderResult
	var aerr error
	err := m.tgt.with(d, func(cs store.ChannelStore) error {
		res, aerr = cs.AppendLeader(bg, store.AppendLeaderRequest{Records: []ch.Record{rec}, ServerAllocatedMessageIDs: true})
		return nil
	})
	if err != nil {
		return nil, err
	}
	if aerr != nil {
		if cls := errClass(aerr); cls != "rejected" {
			return nil, aerr
		}
		return map[string]any{"err": "rejected", "base": 0}, nil
	}
	if res.BaseOffset != res.LastOffset {
		return map[string]any{"err": "", "base": -1}, nil
	}
	return map[string]any{"err": "", "base": m.leoModel(d.name, res.BaseOffset)}, nil
}

func (m *msgWorld) reexport() (map[string]any, error) {
	data, _, _, err := m.tgt.export(m.w.nextExport())
	same := err == nil && bytes.Equal(data, m.exported)
	var d *exportDiffer
	if err != nil && !errors.As(err, &d) && errClass(err) != "rejected" && !errors.Is(err, errNoChannel) {
		return nil, err
	}
	return map[string]any{"same": same}, nil
}

// audit reads the exact frontier, every entry identity up to the watermark and every
// proposal of every exported channel from the target and compares them with what the
// harness issued on the source.
func (m *msgWorld) audit() (map[string]any, error) {
	out := map[string]any{}
	for _, n := range chanNames {
		hw, ok := m.expHW[n]
		if !ok {
			continue
		}
		d := chanDefs[n]
		res := map[string]any{"leo": -1, "hw": -1, "idents": []int64{}, "props": []int64{}}
		err := m.tgt.with(d, func(cs store.ChannelStore) error {
			idx := make([]uint64, 0, hw+1)
			for r := uint64(1); r <= hw+1; r++ {
				idx = append(idx, r)
			}
			rl, ok := cs.(store.ExactRecoveryStateLoader)
			if !ok {
				return errors.New("target store has no exact recovery loader")
			}
			st, e := rl.LoadExactRecoveryState(bg, idx)
			if e != nil {
				if errClass(e) == "rejected" {
					res["leo"], res["hw"] = -2, -2
					return nil
				}
				return e
			}
			res["leo"], res["hw"] = m.toModel(st.LEO), m.toModel(st.HW)
			// identities per unit: all of a unit's real rows present and equal to the issued chain
			good := map[int64]int{}
			for _, p := range st.Entries {
				if p.Index > hw {
					if p.Present {
						good[-1]++ // an identity above the watermark
					}
					continue
				}
				if p.Present && p.Identity == m.src.chain[n][p.Index] {
					good[int64((p.Index-1)/m.unit)+1]++
				}
			}
			var ids []int64
			for k, c := range good {
				if k == -1 || uint64(c) == m.unit {
					ids = append(ids, k)
				}
			}
			sort.Slice(ids, func(i, j int) bool { return ids[i] < ids[j] })
			if ids == nil {
				ids = []int64{}
			}
			res["idents"] = ids
			// frontier: manifest and tail identity of the proposal ending at the watermark
			if hw > 0 && (st.TailIdentity != m.src.chain[n][hw]) {
				res["leo"] = -3
			}
			pl, ok := cs.(store.ExactProposalLookup)
			if !ok {
				return errors.New("target store has no exact proposal lookup")
			}
			props := []int64{}
			for _, sp := range m.src.props[n] {
				p, present, e := pl.LoadExactProposal(bg, store.ExactProposalRequest{CommandID: sp.manifest.CommandID, MaxRecords: 1 << 20, MaxBytes: 1 << 30})
				if e != nil {
					if errClass(e) == "rejected" {
						// rows of the proposal were trimmed: the manifest is still there, its records are not
						if sp.last <= hw && sp.base < m.expPhys[n] {
							props = append(props, m.toModel(sp.last))
						}
						continue
					}
					return e
				}
				if present && p.Manifest == sp.manifest {
					props = append(props, m.toModel(sp.last))
				}
			}
			res["props"] = props
			return nil
		})
		if err != nil {
			return nil, err
		}
		out[n] = res
	}
	return out, nil
}

// discard is the cluster layer's cleanup: every channel of the catalog is handed to
// DiscardRestoreChannels.
func (m *msgWorld) discard(onFS func(op, name string)) error {
	cat, err := m.tgt.catalog()
	if err != nil {
		return err
	}
	var bs []store.RestoreChannelBoundary
	for _, n := range chanNames {
		if cat[n] {
			bs = append(bs, store.RestoreChannelBoundary{ID: chanDefs[n].id})
		}
	}
	if onFS != nil {
		m.tgt.fs.setHook(onFS)
		defer m.tgt.fs.setHook(nil)
	}
	return m.tgt.f.DiscardRestoreChannels(bg, bs)
}

// ---- projection of the target ---------------------------------------------------------------------

func (m *msgWorld) project() map[string]any { return m.projectStore(m.tgt) }

func (m *msgWorld) projectStore(st *msgStore) map[string]any {
	t := map[string]any{}
	cat, err := st.catalog()
	if err != nil {
		m.infraf("catalog: %v", err)
		cat = map[string]bool{}
	}
	for k := range cat {
		if strings.HasPrefix(k, "?") {
			m.infraf("unknown channel %s in the target's catalog", k)
		}
	}
	for _, n := range chanNames {
		t[n] = m.projectChan(st, chanDefs[n], cat[n])
	}
	return map[string]any{"kind": "msg", "t": t}
}

func (m *msgWorld) projectChan(st *msgStore, d chanDef, inCat bool) map[string]any {
	u := m.unit
	out := map[string]any{"cat": inCat}
	zeros := func(n int) []int64 { return make([]int64, n) }
	err := st.with(d, func(cs store.ChannelStore) error {
		is, e := cs.Load(bg)
		if e != nil {
			return fmt.Errorf("Load: %w", e)
		}
		out["leo"], out["hw"] = m.leoModel(d.name, is.LEO), m.toModel(is.HW)
		rs, e := cs.LoadRetentionState(bg)
		if e != nil {
			return fmt.Errorf("LoadRetentionState: %w", e)
		}
		out["ret"] = []int64{m.toModel(rs.LocalRetentionThroughSeq), m.toModel(rs.PhysicalRetentionThroughSeq), m.toModel(rs.RetainedMaxSeq)}

		// every row of the log, raw and as a committed read
		var msgs []ch.Message
		from := uint64(1)
		for {
			r, e := cs.ReadCommitted(bg, store.ReadCommittedRequest{FromSeq: from, Limit: 4096, MaxBytes: 64 << 20})
			if e != nil {
				return fmt.Errorf("ReadCommitted: %w", e)
			}
			if len(r.Messages) == 0 {
				break
			}
			msgs = append(msgs, r.Messages...)
			from = r.Messages[len(r.Messages)-1].MessageSeq + 1
		}
		hw, exported := m.expHW[d.name]
		count := map[int64]int{}
		bad := false
		var app []int64
		for _, msg := range msgs {
			if exported && msg.MessageSeq > hw {
				// a row above the exported watermark: only probe rows may be there
				k := int64(-1)
				if strings.HasPrefix(msg.ClientMsgNo, "n") {
					if r, e := strconv.ParseUint(msg.ClientMsgNo[1:], 10, 64); e == nil && r%u == 0 && strings.HasPrefix(string(msg.Payload), "probe-") {
						k = int64(r / u)
					}
				}
				app = append(app, k)
				continue
			}
			if !wellFormed(d, msg, msg.MessageSeq) {
				bad = true
				continue
			}
			count[int64((msg.MessageSeq-1)/u)+1]++
		}
		rows := []int64{}
		for k, c := range count {
			if uint64(c) == u {
				rows = append(rows, k)
			} else {
				bad = true
			}
		}
		sort.Slice(rows, func(i, j int) bool { return rows[i] < rows[j] })
		if bad {
			rows = append(rows, -1)
		}
		// appended probe rows continue the model's row list right above the watermark
		for i := range app {
			rows = append(rows, int64(hw/u)+int64(i)+1)
		}
		out["rows"] = rows
		// the raw replication log must show the same sequences
		rl, e := cs.ReadLog(bg, store.ReadLogRequest{FromOffset: 1, MaxBytes: 1 << 30})
		if e != nil {
			return fmt.Errorf("ReadLog: %w", e)
		}
		if len(rl.Records) != len(msgs) {
			out["rows"] = append(rows, -2)
		} else {
			for i, r := range rl.Records {
				if r.Index != msgs[i].MessageSeq || r.ID != msgs[i].MessageID {
					out["rows"] = append(rows, -2)
					break
				}
			}
		}

		// idempotency lookups: the key of row k (last real row of the unit), sampled rows of every unit
		il, _ := cs.(store.IdempotencyLookup)
		ml, _ := cs.(store.MessageLookup)
		if il == nil || ml == nil {
			return errors.New("target store has no lookup surface")
		}
		keys := zeros(m.maxLen + 1)
		for k := 1; k <= m.maxLen+1; k++ {
			r := uint64(k) * u
			hit, ok, e := il.LookupIdempotency(bg, rowFrom(r), rowNo(r))
			if e != nil {
				if errClass(e) != "rejected" {
					return fmt.Errorf("LookupIdempotency: %w", e)
				}
				keys[k-1] = -3
				continue
			}
			if !ok {
				continue
			}
			s := hit.Message.MessageSeq
			switch {
			case exported && s > hw:
				keys[k-1] = int64(hw/u) + int64(s-hw)
			case s == r && wellFormed(d, hit.Message, r):
				keys[k-1] = int64(k)
				// the other rows of the unit answer as well
				for _, q := range sampleUnit(uint64(k), u) {
					h2, ok2, e2 := il.LookupIdempotency(bg, rowFrom(q), rowNo(q))
					if e2 != nil || !ok2 || h2.Message.MessageSeq != q {
						keys[k-1] = -2
					}
				}
			default:
				keys[k-1] = -2
			}
		}
		out["keys"] = keys
		ids := zeros(m.maxLen)
		for s := 1; s <= m.maxLen; s++ {
			r := uint64(s) * u
			msg, ok, e := ml.LookupMessageByID(bg, rowID(d, r))
			if e != nil {
				if errClass(e) != "rejected" {
					return fmt.Errorf("LookupMessageByID: %w", e)
				}
				ids[s-1] = -3
				continue
			}
			if !ok {
				continue
			}
			if msg.MessageSeq == r && wellFormed(d, msg, r) {
				ids[s-1] = int64(s)
				for _, q := range sampleUnit(uint64(s), u) {
					m2, ok2, e2 := ml.LookupMessageByID(bg, rowID(d, q))
					if e2 != nil || !ok2 || m2.MessageSeq != q {
						ids[s-1] = -2
					}
				}
			} else {
				ids[s-1] = -2
			}
		}
		out["ids"] = ids
		return nil
	})
	if err != nil {
		m.infraf("project %s: %v", d.name, err)
	}
	return out
}

// sampleUnit returns real rows of model row k other than its last one (all of them for small units).
func sampleUnit(k, u uint64) []uint64 {
	lo := (k-1)*u + 1
	var out []uint64
	if u <= 8 {
		for r := lo; r < k*u; r++ {
			out = append(out, r)
		}
		return out
	}
	for _, f := range []uint64{0, 1, u / 3, u / 2, u - 2} {
		out = append(out, lo+f)
	}
	return out
}

package backuprestore

import (
	"testing"

	"github.com/WuKongIM/WuKongIM/pkg/verifhook"
	"verif/runner/kit"
)

func TestDbg(t *testing.T) {
	w := newWorld()
	defer verifhook.SetFS(nil)
	m, err := w.newMsgWorld(map[string]any{"kind": "msg", "api": "reader", "ps": 1024}, 4)
	if err != nil {
		t.Fatal(err)
	}
	for _, ev := range []map[string]any{kit.Ev("SrcAppend", "c", "c1", "n", 2), kit.Ev("SrcCommit", "c", "c1", "hw", 2), kit.Ev("SrcAppend", "c", "c2", "n", 1), kit.Ev("Export")} {
		if _, err := m.srcCall(ev); err != nil {
			t.Fatal(err)
		}
	}
	for round := 0; round < 3; round++ {
		if err := m.tgt.reopen(); err != nil {
			t.Fatal(err)
		}
		stats, err := m.runImport(m.exported, 1, func(op, name string) { t.Logf("round %d  %s %s", round, op, name) })
		t.Logf("round %d -> %+v %v  pages=%d", round, stats, err, m.pagesPresent(m.project()))
		_ = m.discard(nil)
	}
}

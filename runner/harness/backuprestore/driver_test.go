package backuprestore

// Seeded random driver (code -> spec).  A scenario builds a random source history, exports it
// and restores it with rejected streams, cancelled imports, retries, cleanups and probes;
// imports and cleanups may also lose power: while the call runs, an image of the target's
// in-memory file system is taken before every file-system mutation of the engine
// (vfs.MemFS.CrashClone keeping 0 %, 50 % or 100 % of the unsynced data).  Images are opened
// as stores and what they hold is recorded as the crash state; the scenario goes on from one
// of them.  Every observed step is written to the trace for validation by TLC.
//
// Lines inside a multi-step call carry st = {"mid": "y"}: nothing can be read from the store
// at that instant, Trace.tla then checks the reply only.

import (
	"fmt"
	"math/rand/v2"
	"strings"

	"github.com/cockroachdb/pebble/v2/vfs"
	"verif/runner/kit"
)

const driverMaxLen = 4 // Trace.cfg: MaxLen

var midState = map[string]any{"mid": "y"}

// ---- power-loss support of the two sides -----------------------------------------------------

func syncDirs(fs *crashFS) {
	for _, d := range []string{"/", "/s"} {
		if f, err := fs.mem.OpenDir(d); err == nil {
			_ = f.Sync()
			_ = f.Close()
		}
	}
}

func (m *msgWorld) targetFS() *crashFS { return m.tgt.fs }
func (m *msgWorld) adoptImage(img *vfs.MemFS) error {
	m.tgt.close(m.w)
	st, err := m.w.openMsgStore(wrapClone(img))
	if err != nil {
		return err
	}
	m.tgt = st
	return nil
}
func (m *msgWorld) projectImage(img *vfs.MemFS) (map[string]any, error) {
	st, err := m.w.openMsgStore(wrapClone(img))
	if err != nil {
		return nil, err
	}
	defer st.close(m.w)
	return m.projectStore(st), nil
}
func (m *msgWorld) discardCall(onFS func(op, name string)) error { return m.discard(onFS) }

func (m *metaWorld) targetFS() *crashFS { return m.tgt.fs }
func (m *metaWorld) adoptImage(img *vfs.MemFS) error {
	m.tgt.close(m.w)
	st, err := m.w.openMetaStore(wrapClone(img))
	if err != nil {
		return err
	}
	m.tgt = st
	return nil
}
func (m *metaWorld) projectImage(img *vfs.MemFS) (map[string]any, error) {
	st, err := m.w.openMetaStore(wrapClone(img))
	if err != nil {
		return nil, err
	}
	defer st.close(m.w)
	return m.projectStore(st), nil
}
func (m *metaWorld) discardCall(onFS func(op, name string)) error { return m.discard(onFS) }

type crashSide interface {
	side
	targetFS() *crashFS
	adoptImage(img *vfs.MemFS) error
	projectImage(img *vfs.MemFS) (map[string]any, error)
	discardCall(onFS func(op, name string)) error
}

// ---- one scenario --------------------------------------------------------------------------------

type scenario struct {
	r      *runner
	rng    *rand.Rand
	kind   string
	api    string
	ps     int
	unit   int
	s      crashSide
	msg    *msgWorld
	meta   *metaWorld
	steps  []kit.Step
	traces int
	failed bool

	// model-level shadow of the source, in model units (what the guards of the specification need)
	leo, hw, local, phys map[string]int
	ends                 map[string][]int
	users                []int64
	exported             bool
	expRows              map[string][2]int // exported rows (phys, hw] per exported channel
	appended             int
	lastProj             map[string]any
}

func (sc *scenario) infra(format string, a ...any) {
	sc.failed = true
	sc.r.rep.Infra("driver [%s/%s/ps=%d]: %s", sc.kind, sc.api, sc.ps, fmt.Sprintf(format, a...))
}

func (sc *scenario) add(ev map[string]any, res any, st any) {
	e := kit.CloneEv(ev)
	e["res"] = res
	sc.steps = append(sc.steps, kit.Step{Ev: e, St: st})
	sc.r.rep.Cover("drv:" + kit.Str(ev, "a"))
}

// observe projects the live target and records the step.
func (sc *scenario) observe(ev map[string]any, res any) {
	proj := canonMap(sc.s.project())
	if inf := sc.s.takeInfra(); len(inf) > 0 {
		sc.infra("%s: %s", kit.JSON(ev), inf[0])
		return
	}
	sc.lastProj = proj
	sc.add(ev, res, proj)
}

// emit writes the steps recorded so far (plus extra ones) as one trace.
func (sc *scenario) emit(rec *kit.Recorder, extra ...kit.Step) {
	all := append(append([]kit.Step{}, sc.steps...), extra...)
	if len(all) < 2 {
		return
	}
	init := kit.CloneEv(all[0].Ev)
	rec.Begin(init, all[0].St)
	for _, st := range all[1:] {
		rec.Step(st.Ev, st.St)
	}
	sc.traces++
}

func (sc *scenario) call(ev map[string]any) bool {
	res, err := sc.s.call(ev)
	if err != nil {
		sc.infra("%s: %v", kit.JSON(ev), err)
		return false
	}
	sc.observe(ev, res)
	return !sc.failed
}

// ---- source phase ------------------------------------------------------------------------------

func (sc *scenario) buildMsg() bool {
	n := 3 + sc.rng.IntN(6)
	for i := 0; i < n && !sc.failed; i++ {
		c := chanNames[sc.rng.IntN(2)]
		switch sc.rng.IntN(8) {
		case 0, 1, 2:
			k := 1 + sc.rng.IntN(2)
			if sc.leo[c]+k > driverMaxLen {
				continue
			}
			if !sc.call(kit.Ev("SrcAppend", "c", c, "n", k)) {
				return false
			}
			sc.leo[c] += k
			sc.ends[c] = append(sc.ends[c], sc.leo[c])
		case 3, 4:
			// commit through a proposal end (mostly) or through any offset
			var cand []int
			for _, e := range sc.ends[c] {
				if e > sc.hw[c] {
					cand = append(cand, e)
				}
			}
			if sc.rng.IntN(6) == 0 {
				cand = nil
				for h := sc.hw[c] + 1; h <= sc.leo[c]; h++ {
					cand = append(cand, h)
				}
			}
			if len(cand) == 0 {
				continue
			}
			h := cand[sc.rng.IntN(len(cand))]
			if !sc.call(kit.Ev("SrcCommit", "c", c, "hw", h)) {
				return false
			}
			sc.hw[c] = h
		case 5, 6:
			if sc.hw[c] <= sc.local[c] {
				continue
			}
			t := sc.local[c] + 1 + sc.rng.IntN(sc.hw[c]-sc.local[c])
			if !sc.call(kit.Ev("SrcAdopt", "c", c, "through", t)) {
				return false
			}
			sc.local[c] = t
		case 7:
			if sc.local[c] <= sc.phys[c] {
				continue
			}
			if !sc.call(kit.Ev("SrcTrim", "c", c)) {
				return false
			}
			sc.phys[c] = sc.local[c]
		}
	}
	if sc.leo["c1"]+sc.leo["c2"] == 0 {
		if !sc.call(kit.Ev("SrcAppend", "c", "c1", "n", 1)) {
			return false
		}
		sc.leo["c1"], sc.ends["c1"] = 1, []int{1}
	}
	return !sc.failed
}

func (sc *scenario) buildMeta() bool {
	n := 2 + sc.rng.IntN(6)
	for i := 0; i < n && !sc.failed; i++ {
		k := 1 + sc.rng.IntN(driverMaxLen)
		switch sc.rng.IntN(6) {
		case 0, 1, 2:
			v := int64(sc.rng.IntN(3))
			if sc.users[k-1] == v {
				continue
			}
			if !sc.call(kit.Ev("MetaPut", "k", k, "v", v)) {
				return false
			}
			sc.users[k-1] = v
		case 3:
			if sc.meta.srcRt {
				continue
			}
			if !sc.call(kit.Ev("MetaPutRt")) {
				return false
			}
			sc.meta.srcRt = true
		case 4:
			if sc.meta.tgtUsers[k-1] != 0 {
				continue
			}
			v := int64(1 + sc.rng.IntN(2))
			if !sc.call(kit.Ev("MetaTgtPut", "k", k, "v", v)) {
				return false
			}
			sc.meta.tgtUsers[k-1] = v
		case 5:
			if sc.meta.tgtRt {
				continue
			}
			if !sc.call(kit.Ev("MetaTgtPutRt")) {
				return false
			}
			sc.meta.tgtRt = true
		}
	}
	return !sc.failed
}

func (sc *scenario) export() bool {
	res, err := sc.s.call(kit.Ev("Export"))
	if err != nil {
		sc.infra("Export: %v", err)
		return false
	}
	sc.observe(kit.Ev("Export"), res)
	if kit.Str(res, "err") != "" {
		return false // refused (a cut inside a proposal): the scenario ends with the refusal on record
	}
	sc.exported = true
	if sc.kind == "msg" {
		sc.expRows = map[string][2]int{}
		for _, c := range chanNames {
			if sc.leo[c] > 0 {
				sc.expRows[c] = [2]int{sc.phys[c], sc.hw[c]}
			}
		}
	}
	return !sc.failed
}

// ---- guards of the specification, from what the driver knows --------------------------------------

func (sc *scenario) applicable(v string) bool {
	if sc.kind == "meta" {
		return v != "swapFix" && v != "hwLowFix"
	}
	switch v {
	case "swapFix":
		if len(sc.expRows) >= 2 {
			return true
		}
		for _, r := range sc.expRows {
			if r[1]-r[0] >= 2 {
				return true
			}
		}
		return false
	case "hwLowFix":
		for _, r := range sc.expRows {
			if r[1] > r[0] {
				return true
			}
		}
		return false
	}
	return true
}

// complete: the target holds exactly the exported content (the specification's Complete),
// judged from the projection; appended probe rows do not count.
func (sc *scenario) complete(proj map[string]any) bool {
	if sc.kind == "meta" {
		us := kit.List(proj, "users")
		if len(us) != driverMaxLen {
			return false
		}
		for i, u := range us {
			if kit.ToInt(u) != sc.users[i] {
				return false
			}
		}
		return kit.Bool(proj, "rt") == (sc.api == "bytes" && sc.meta.srcRt)
	}
	t := kit.Map(proj, "t")
	for _, c := range chanNames {
		p := kit.Map(t, c)
		r, exported := sc.expRows[c]
		if kit.Bool(p, "cat") != exported {
			return false
		}
		var have []int64
		for _, x := range kit.List(p, "rows") {
			if v := kit.ToInt(x); !exported || v <= int64(r[1]) {
				have = append(have, v)
			}
		}
		want := 0
		if exported {
			want = r[1] - r[0]
		}
		if len(have) != want {
			return false
		}
		for i, v := range have {
			if v != int64(r[0]+1+i) {
				return false
			}
		}
	}
	return true
}

func (sc *scenario) appendedRows(proj map[string]any) int {
	n := 0
	t := kit.Map(proj, "t")
	for c, r := range sc.expRows {
		for _, x := range kit.List(kit.Map(t, c), "rows") {
			if kit.ToInt(x) > int64(r[1]) {
				n++
			}
		}
	}
	return n
}

func canonMap(v map[string]any) map[string]any {
	m, _ := kit.Canon(v).(map[string]any)
	return m
}

func (sc *scenario) projectImage(img *vfs.MemFS) (map[string]any, error) {
	p, err := sc.s.projectImage(img)
	return canonMap(p), err
}

// ---- image capture -------------------------------------------------------------------------------

type image struct {
	fs  *vfs.MemFS
	op  string
	pct int
}

func (sc *scenario) capture(images *[]image) func(op, name string) {
	fs := sc.s.targetFS()
	return func(op, name string) {
		// metadata images keep synced data only: how many pages an image holds is then the number of
		// completed WAL syncs (a metadata projection does not tell a cleared slot from an untouched one)
		pct := []int{0, 0, 50, 100}[sc.rng.IntN(4)]
		if sc.kind == "meta" {
			pct = 0
		}
		*images = append(*images, image{fs: fs.mem.CrashClone(vfs.CrashCloneCfg{UnsyncedDataPercent: pct, RNG: sc.rng}), op: op + " " + name, pct: pct})
	}
}

// ---- target phase -------------------------------------------------------------------------------------

// pagesIn is the number of install pages a projection shows (message kind).
func (sc *scenario) pagesIn(proj map[string]any) int { return sc.msg.pagesPresent(proj) }

// pagesDurable tells how many pages of the current import attempt an observed target state
// shows, given the state before the attempt and the number of WAL syncs seen (a hint: large
// batches can make the engine sync its log more than once).  Any page prefix is a legal crash
// state; which one it is only selects the lines written to the trace, TLC then checks that the
// observed state is exactly that prefix.
func (sc *scenario) pagesDurable(before, proj map[string]any, syncs, n int) int {
	if sc.kind == "msg" {
		// the last page of the stream that is present now and was not before; without one, as many
		// leading pages as were already there (at most the number of syncs seen)
		pages := sc.msgPages()
		k := 0
		for i, pg := range pages {
			if pg.present(proj) && !pg.present(before) {
				k = i + 1
			}
		}
		if k == 0 {
			for k < len(pages) && k < syncs && pages[k].present(proj) {
				k++
			}
		}
		return k
	}
	match := func(k int) bool { return kit.Diff(sc.metaExpect(before, k), proj) == "" }
	if syncs <= n && match(syncs) {
		return syncs
	}
	for k := 0; k <= n; k++ {
		if match(k) {
			return k
		}
	}
	return min(syncs, n)
}

// msgPage is one install page of the exported message stream: the catalogue entry of a channel
// or a batch of its rows (model units).
type msgPage struct {
	c    string
	rows []int64 // empty for a metadata page
}

func (pg msgPage) present(proj map[string]any) bool {
	p := kit.Map(kit.Map(proj, "t"), pg.c)
	if len(pg.rows) == 0 {
		return kit.Bool(p, "cat")
	}
	have := map[int64]bool{}
	for _, x := range kit.List(p, "rows") {
		have[kit.ToInt(x)] = true
	}
	for _, r := range pg.rows {
		if !have[r] {
			return false
		}
	}
	return true
}

func (sc *scenario) msgPages() []msgPage {
	var out []msgPage
	for _, c := range chanNames {
		r, ok := sc.expRows[c]
		if !ok {
			continue
		}
		out = append(out, msgPage{c: c})
		var cur []int64
		for s := r[0] + 1; s <= r[1]; s++ {
			cur = append(cur, int64(s))
			if len(cur) == sc.ps || s == r[1] {
				out = append(out, msgPage{c: c, rows: cur})
				cur = nil
			}
		}
	}
	return out
}

// metaExpect is the metadata target after k pages of the exported stream were installed over
// the state `before` (clear, then cfg.ps entries per page in key order; one page for the
// byte-slice import).
func (sc *scenario) metaExpect(before map[string]any, k int) map[string]any {
	out := map[string]any{"kind": "meta", "other": kit.Bool(before, "other"), "rt": kit.Bool(before, "rt")}
	users := make([]int64, driverMaxLen)
	for i, u := range kit.List(before, "users") {
		if i < driverMaxLen {
			users[i] = kit.ToInt(u)
		}
	}
	if k >= 1 {
		for i := range users {
			users[i] = 0
		}
		out["rt"] = false
		if sc.api == "bytes" {
			copy(users, sc.users)
			out["rt"] = sc.meta.srcRt
		} else {
			set := 0
			for i, v := range sc.users {
				if v != 0 && set < (k-1)*sc.ps {
					users[i] = v
					set++
				}
			}
		}
	}
	out["users"] = users
	return canonMap(out)
}

// importLines returns the trace lines of an import of which `k` pages became durable out of n.
func importLines(k, n int, doneStats any, pageTypes []string) []kit.Step {
	out := []kit.Step{{Ev: kit.Ev("BeginImport", "v", "ok", "res", map[string]any{"err": ""}), St: midState}}
	for i := 1; i <= k; i++ {
		res := map[string]any{"done": false, "stats": noStats}
		if i == n {
			res = map[string]any{"done": true, "stats": doneStats}
		}
		out = append(out, kit.Step{Ev: kit.Ev("ImportPage", "i", i, "t", pageTypes[i-1], "res", res), St: midState})
	}
	return out
}

// pageTypes lists the page kinds of the exported stream in install order.
func (sc *scenario) pageTypes() []string {
	if sc.kind == "meta" {
		if sc.api == "bytes" {
			return []string{"all"}
		}
		out := []string{"clear"}
		n := 0
		for _, v := range sc.users {
			if v != 0 {
				n++
			}
		}
		for i := 0; i < (n+sc.ps-1)/sc.ps; i++ {
			out = append(out, "set")
		}
		return out
	}
	var out []string
	for _, c := range chanNames {
		r, ok := sc.expRows[c]
		if !ok {
			continue
		}
		out = append(out, "meta")
		for i := 0; i < (r[1]-r[0]+sc.ps-1)/sc.ps; i++ {
			out = append(out, "rows")
		}
	}
	return out
}

func (sc *scenario) setRetry(lines []kit.Step, retry bool) {
	lines[0].Ev["retry"] = retry
}

func (sc *scenario) doImport(rec *kit.Recorder, attempts *int) bool {
	data, err := sc.s.variantBytes("ok", nil)
	if err != nil {
		sc.infra("variant ok: %v", err)
		return false
	}
	types := sc.pageTypes()
	n := len(types)
	if n != sc.s.pages() {
		sc.infra("the exported stream has %d install pages, the driver expected %d", sc.s.pages(), n)
		return false
	}
	retry := *attempts > 0
	*attempts++
	mode := sc.rng.IntN(5) // 0,1 complete  2 cancelled  3,4 power loss
	switch {
	case mode <= 1:
		out, err := sc.s.importBytes(data, -1, nil)
		if err != nil || kit.Str(out, "err") != "" {
			sc.infra("import failed: %v %v", err, out)
			return false
		}
		lines := importLines(n, n, out["stats"], types)
		sc.setRetry(lines, retry)
		proj := canonMap(sc.s.project())
		lines[len(lines)-1].St = proj
		sc.lastProj = proj
		sc.steps = append(sc.steps, lines...)
		sc.r.rep.Cover("drv:Import")
		// a restore that returned is durable: power is lost right after the call, nothing unsynced survives
		if mode == 1 {
			img := sc.s.targetFS().mem.CrashClone(vfs.CrashCloneCfg{})
			if err := sc.s.adoptImage(img); err != nil {
				sc.infra("power-loss image after a completed import does not open: %v", err)
				return false
			}
			sc.observe(kit.Ev("Restart", "how", "power loss after the import returned"), map[string]any{"ok": true})
			sc.r.rep.Cover("drv:PowerLossAfterImport")
		}
	case mode == 2:
		k := sc.rng.IntN(n) // 0 .. n-1 pages
		syncs := 0
		out, err := sc.s.importBytes(data, k, func(op, name string) {
			if op == "sync" && strings.HasSuffix(name, ".log") {
				syncs++
			}
		})
		if err != nil {
			sc.infra("cancelled import: %v", err)
			return false
		}
		before := sc.lastProj
		kind := []string{"abort", "restart"}[sc.rng.IntN(2)]
		if kind == "restart" {
			if err := sc.s.restart(); err != nil {
				sc.infra("restart: %v", err)
				return false
			}
		}
		if kit.Str(out, "err") == "rejected" {
			sc.infra("a good stream was rejected: %v", out)
			return false
		}
		proj := canonMap(sc.s.project())
		sc.lastProj = proj
		if kit.Str(out, "err") == "" {
			// completed before it looked at the context again
			lines := importLines(n, n, out["stats"], types)
			sc.setRetry(lines, retry)
			if kind == "restart" {
				lines = append(lines, kit.Step{Ev: kit.Ev("Restart", "res", map[string]any{"ok": true}), St: proj})
			} else {
				lines[len(lines)-1].St = proj
			}
			sc.steps = append(sc.steps, lines...)
			break
		}
		k = min(sc.pagesDurable(before, proj, syncs, n), n-1)
		lines := importLines(k, n, nil, types)
		sc.setRetry(lines, retry)
		lines = append(lines, kit.Step{Ev: kit.Ev("Crash", "kind", kind, "after", k, "how", fmt.Sprintf("cancelled (%d WAL syncs)", syncs), "res", map[string]any{"ok": true}), St: proj})
		sc.steps = append(sc.steps, lines...)
		sc.r.rep.Cover("drv:ImportCancelled")
	default:
		before := sc.lastProj
		var images []image
		syncsAt := []int{}
		syncs := 0
		cap := sc.capture(&images)
		out, err := sc.s.importBytes(data, -1, func(op, name string) {
			cap(op, name)
			syncsAt = append(syncsAt, syncs)
			if op == "sync" && strings.HasSuffix(name, ".log") {
				syncs++
			}
		})
		if err != nil || kit.Str(out, "err") != "" {
			sc.infra("import failed: %v %v", err, out)
			return false
		}
		if len(images) == 0 {
			sc.infra("an import without a single file-system mutation")
			return false
		}
		sc.r.rep.AddExtra("power_loss_images", len(images))
		// validate some images as traces of their own, continue from one of them
		pickN := sc.r.env.Pick(2, 6)
		chosen := sc.rng.IntN(len(images))
		for j := pickN; j >= 0; j-- {
			i := chosen
			if j > 0 {
				if i = sc.rng.IntN(len(images)); i == chosen {
					continue
				}
			}
			img := images[i]
			proj, err := sc.projectImage(img.fs)
			if err != nil {
				sc.infra("power-loss image before %q does not open: %v", img.op, err)
				return false
			}
			if inf := sc.s.takeInfra(); len(inf) > 0 {
				sc.infra("power-loss image before %q: %s", img.op, inf[0])
				return false
			}
			k := sc.pagesDurable(before, proj, syncsAt[i], n)
			var lines []kit.Step
			if k >= n {
				lines = importLines(n, n, out["stats"], types)
				lines = append(lines, kit.Step{Ev: kit.Ev("Restart", "res", map[string]any{"ok": true}), St: proj})
			} else {
				lines = importLines(k, n, nil, types)
				lines = append(lines, kit.Step{Ev: kit.Ev("Crash", "kind", "restart", "after", k, "how", fmt.Sprintf("power loss before %s keeping %d%% of the unsynced data (%d WAL syncs done)", img.op, img.pct, syncsAt[i]), "res", map[string]any{"ok": true}), St: proj})
			}
			sc.setRetry(lines, retry)
			if j > 0 {
				sc.emit(rec, lines...)
				continue
			}
			if err := sc.s.adoptImage(img.fs); err != nil {
				sc.infra("power-loss image before %q does not open: %v", img.op, err)
				return false
			}
			sc.lastProj = proj
			sc.steps = append(sc.steps, lines...)
		}
		sc.r.rep.Cover("drv:ImportPowerLoss")
	}
	return !sc.failed
}

// discardLines derives the cleanup steps that lead from one projection to another (message
// kind): rows vanish from the front, then the catalogue entry.
func (sc *scenario) discardLines(before, after map[string]any) []kit.Step {
	var out []kit.Step
	ok := map[string]any{"ok": true}
	for _, c := range chanNames {
		b, a := kit.Map(kit.Map(before, "t"), c), kit.Map(kit.Map(after, "t"), c)
		hw := int64(0)
		if r, exported := sc.expRows[c]; exported {
			hw = int64(r[1])
		}
		left := map[int64]bool{}
		for _, x := range kit.List(a, "rows") {
			left[kit.ToInt(x)] = true
		}
		gone := int64(0) // highest restored row that vanished
		for _, x := range kit.List(b, "rows") {
			if v := kit.ToInt(x); !left[v] && v <= hw && v > gone {
				gone = v
			}
		}
		switch {
		case len(kit.List(b, "rows")) > 0 && len(left) == 0:
			out = append(out, kit.Step{Ev: kit.Ev("DiscardRows", "c", c, "through", 0, "res", ok), St: midState})
		case gone > 0:
			out = append(out, kit.Step{Ev: kit.Ev("DiscardRows", "c", c, "through", gone, "res", ok), St: midState})
		}
		if kit.Bool(b, "cat") && !kit.Bool(a, "cat") {
			out = append(out, kit.Step{Ev: kit.Ev("DiscardMeta", "c", c, "res", ok), St: midState})
		}
	}
	return out
}

func (sc *scenario) doDiscard(rec *kit.Recorder) bool {
	before := sc.lastProj
	nothing := true
	if sc.kind == "msg" {
		for _, c := range chanNames {
			if kit.Bool(kit.Map(kit.Map(before, "t"), c), "cat") {
				nothing = false
			}
		}
	} else {
		for _, u := range kit.List(before, "users") {
			if kit.ToInt(u) != 0 {
				nothing = false
			}
		}
		if kit.Bool(before, "rt") {
			nothing = false
		}
	}
	if nothing {
		return true // the specification's Discard is not enabled on an empty target
	}
	if sc.rng.IntN(3) > 0 {
		if err := sc.s.discardCall(nil); err != nil {
			sc.infra("discard: %v", err)
			return false
		}
		sc.observe(kit.Ev("Discard"), map[string]any{"ok": true})
		if sc.rng.IntN(2) == 0 && !sc.failed {
			img := sc.s.targetFS().mem.CrashClone(vfs.CrashCloneCfg{})
			if err := sc.s.adoptImage(img); err != nil {
				sc.infra("power-loss image after a completed discard does not open: %v", err)
				return false
			}
			sc.observe(kit.Ev("Restart", "how", "power loss after the discard returned"), map[string]any{"ok": true})
		}
		return !sc.failed
	}
	var images []image
	if err := sc.s.discardCall(sc.capture(&images)); err != nil {
		sc.infra("discard: %v", err)
		return false
	}
	if len(images) == 0 {
		sc.infra("a discard without a single file-system mutation")
		return false
	}
	sc.r.rep.AddExtra("power_loss_images", len(images))
	pickN := sc.r.env.Pick(2, 6)
	chosen := sc.rng.IntN(len(images))
	for j := pickN; j >= 0; j-- {
		i := chosen
		if j > 0 {
			if i = sc.rng.IntN(len(images)); i == chosen {
				continue
			}
		}
		proj, err := sc.projectImage(images[i].fs)
		if err != nil {
			sc.infra("power-loss image before %q does not open: %v", images[i].op, err)
			return false
		}
		if inf := sc.s.takeInfra(); len(inf) > 0 {
			sc.infra("power-loss image before %q: %s", images[i].op, inf[0])
			return false
		}
		var lines []kit.Step
		if sc.kind == "msg" {
			lines = sc.discardLines(before, proj)
		} else if kit.Diff(before, proj) != "" {
			lines = []kit.Step{{Ev: kit.Ev("Discard", "res", map[string]any{"ok": true}), St: midState}}
		}
		lines = append(lines, kit.Step{Ev: kit.Ev("Restart", "res", map[string]any{"ok": true}), St: proj})
		if j > 0 {
			sc.emit(rec, lines...)
			continue
		}
		if err := sc.s.adoptImage(images[i].fs); err != nil {
			sc.infra("power-loss image before %q does not open: %v", images[i].op, err)
			return false
		}
		sc.lastProj = proj
		sc.steps = append(sc.steps, lines...)
	}
	sc.r.rep.Cover("drv:DiscardPowerLoss")
	return !sc.failed
}

var msgBad = []string{"trunc", "dropLast", "dropLastFix", "swapFix", "hwLowFix", "otherSlot"}
var metaBad = []string{"trunc", "dropLast", "dropLastFix", "otherSlot"}

func (sc *scenario) restore(rec *kit.Recorder) {
	attempts := 0
	ops := 6 + sc.rng.IntN(8)
	for i := 0; i < ops && !sc.failed; i++ {
		switch sc.rng.IntN(12) {
		case 0, 1, 2, 3:
			if attempts >= 8 {
				continue
			}
			if !sc.doImport(rec, &attempts) {
				return
			}
		case 4:
			bad := msgBad
			if sc.kind == "meta" {
				bad = metaBad
			}
			v := bad[sc.rng.IntN(len(bad))]
			if !sc.applicable(v) {
				continue
			}
			data, err := sc.s.variantBytes(v, func(n int) int { return sc.rng.IntN(n) })
			if err != nil {
				sc.infra("variant %s: %v", v, err)
				return
			}
			res, err := sc.s.verifyBytes(data)
			if err != nil {
				sc.infra("verify %s: %v", v, err)
				return
			}
			sc.observe(kit.Ev("Verify", "v", v), res)
		case 5:
			bad := msgBad
			if sc.kind == "meta" {
				bad = metaBad
			}
			v := bad[sc.rng.IntN(len(bad))]
			// the byte-slice message import installs what precedes the invalid part of a
			// checksum-valid stream (reported finding): the driver keeps to streams whose checksum fails
			if !sc.applicable(v) || (sc.kind == "msg" && (v == "otherSlot" || (sc.api == "bytes" && strings.HasSuffix(v, "Fix")))) || attempts >= 8 {
				continue
			}
			data, err := sc.s.variantBytes(v, func(n int) int { return sc.rng.IntN(n) })
			if err != nil {
				sc.infra("variant %s: %v", v, err)
				return
			}
			out, err := sc.s.importBytes(data, -1, nil)
			if err != nil {
				sc.infra("import %s: %v", v, err)
				return
			}
			sc.observe(kit.Ev("BeginImport", "v", v, "retry", attempts > 0), map[string]any{"err": out["err"]})
			attempts++
		case 6:
			if !sc.doDiscard(rec) {
				return
			}
		case 7:
			if sc.kind != "msg" {
				continue
			}
			c := chanNames[sc.rng.IntN(2)]
			res, err := sc.msg.touch(chanDefs[c])
			if err != nil {
				sc.infra("touch: %v", err)
				return
			}
			sc.observe(kit.Ev("Touch", "c", c), res)
		case 8:
			if sc.kind != "msg" || !sc.complete(sc.lastProj) || sc.appended >= 3 {
				continue
			}
			var cs []string
			for _, c := range chanNames {
				if _, ok := sc.expRows[c]; ok {
					cs = append(cs, c)
				}
			}
			c := cs[sc.rng.IntN(len(cs))]
			k := int64(1 + sc.rng.IntN(driverMaxLen+1))
			res, err := sc.msg.tgtAppend(chanDefs[c], k)
			if err != nil {
				sc.infra("append: %v", err)
				return
			}
			sc.appended++
			sc.observe(kit.Ev("Append", "c", c, "k", k), res)
		case 9:
			res, err := sc.s.call(kit.Ev("Reexport"))
			if err != nil {
				sc.infra("reexport: %v", err)
				return
			}
			sc.observe(kit.Ev("Reexport"), res)
		case 10:
			if sc.kind != "msg" || !sc.complete(sc.lastProj) || sc.appendedRows(sc.lastProj) > 0 {
				continue
			}
			res, err := sc.s.call(kit.Ev("Audit"))
			if err != nil {
				sc.infra("audit: %v", err)
				return
			}
			sc.observe(kit.Ev("Audit"), res)
		case 11:
			if err := sc.s.restart(); err != nil {
				sc.infra("restart: %v", err)
				return
			}
			sc.observe(kit.Ev("Restart"), map[string]any{"ok": true})
		}
	}
}

func (r *runner) scenario(rec *kit.Recorder, idx int, kind, api string, ps int) {
	sc := &scenario{r: r, rng: rand.New(rand.NewPCG(uint64(r.env.Seed)*7919+17, uint64(idx))), kind: kind, api: api, ps: ps,
		leo: map[string]int{}, hw: map[string]int{}, local: map[string]int{}, phys: map[string]int{}, ends: map[string][]int{},
		users: make([]int64, driverMaxLen)}
	cfg := map[string]any{"kind": kind, "api": api, "ps": ps}
	s, err := r.newSide(cfg, driverMaxLen)
	if err != nil {
		r.rep.Infra("driver: cannot open the stores: %v", err)
		return
	}
	defer func() { sc.s.close() }()
	sc.s = s.(crashSide)
	sc.msg, _ = s.(*msgWorld)
	sc.meta, _ = s.(*metaWorld)
	syncDirs(sc.s.targetFS())
	if sc.meta != nil {
		sc.meta.tgtUsers = make([]int64, driverMaxLen)
	}
	proj := canonMap(sc.s.project())
	sc.lastProj = proj
	sc.steps = append(sc.steps, kit.Step{Ev: map[string]any{"a": "Init", "cfg": cfg, "maxLen": driverMaxLen}, St: proj})

	ok := false
	if kind == "msg" {
		ok = sc.buildMsg()
	} else {
		ok = sc.buildMeta()
	}
	if ok && sc.export() {
		// the rmax finding (log end above the exported watermark) makes every later observation of
		// the log end differ: such a history is recorded up to its export only
		if sc.msg != nil {
			for c, hw := range sc.msg.expHW {
				if sc.msg.expRmax[c] > hw {
					r.rep.AddExtra("driver_histories_with_known_finding", 1)
					ok = false
				}
			}
		}
		if ok {
			sc.restore(rec)
		}
	}
	if !sc.failed {
		sc.emit(rec)
	}
	r.rep.AddExtra("driver_traces", sc.traces)
}

func (r *runner) drive(rec *kit.Recorder) {
	n := r.env.Pick(36, 200)
	apis := []string{"reader", "bytes"}
	for i := 0; i < n && r.rep.Violations() < 5; i++ {
		kind := "msg"
		if i%3 == 2 {
			kind = "meta"
		}
		// page size 1024 = whole logs fit one install batch; 1 and 2 = 1024- and 512-row units
		ps := 1024
		if i%7 == 3 {
			ps = 2
		}
		if r.env.Thorough() && i%7 == 5 {
			ps = 1
		}
		r.scenario(rec, i, kind, apis[(i/2)%2], ps)
	}
}

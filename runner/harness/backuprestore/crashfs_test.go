package backuprestore

// (Same construction as runner/harness/messagelogcrash/crashfs_test.go, copied because harness
// packages do not import each other.)
//
// crashFS wraps pebble's crash-simulating in-memory file system.  Every call that changes
// the file system (file write, file/directory sync, create, rename, remove, link) first runs
// the hook `before`: that is where a run takes its power-loss images (vfs.MemFS.CrashClone),
// i.e. the crash points are exactly the instants between two file-system mutations of the
// engine, including those issued by Pebble's own goroutines while a commit is in flight.
//
// The hook runs before the call is handed to the MemFS, so no MemFS lock is held while the
// clone is taken (CrashClone blocks new modifications and waits for those already running).

import (
	"io"
	"os"
	"path"
	"strings"
	"sync"
	"sync/atomic"

	"github.com/cockroachdb/pebble/v2/vfs"
)

type crashFS struct {
	vfs.FS
	mem    *vfs.MemFS
	before atomic.Pointer[func(op, name string)]
}

func newCrashFS() *crashFS {
	m := vfs.NewCrashableMem()
	return &crashFS{FS: m, mem: m}
}

// wrapClone makes a crash image usable as the file system of a reopened store.
func wrapClone(m *vfs.MemFS) *crashFS { return &crashFS{FS: m, mem: m} }

func (f *crashFS) setHook(h func(op, name string)) {
	if h == nil {
		f.before.Store(nil)
		return
	}
	f.before.Store(&h)
}

func (f *crashFS) hook(op, name string) {
	if h := f.before.Load(); h != nil {
		(*h)(op, name)
	}
}

func (f *crashFS) Unwrap() vfs.FS { return f.FS }

func (f *crashFS) wrap(file vfs.File, name string, err error) (vfs.File, error) {
	if err != nil || file == nil {
		return file, err
	}
	return &crashFile{File: file, fs: f, name: name}, nil
}

func (f *crashFS) Create(name string, c vfs.DiskWriteCategory) (vfs.File, error) {
	f.hook("create", name)
	file, err := f.FS.Create(name, c)
	return f.wrap(file, name, err)
}

func (f *crashFS) OpenReadWrite(name string, c vfs.DiskWriteCategory, opts ...vfs.OpenOption) (vfs.File, error) {
	file, err := f.FS.OpenReadWrite(name, c, opts...)
	return f.wrap(file, name, err)
}

func (f *crashFS) ReuseForWrite(oldname, newname string, c vfs.DiskWriteCategory) (vfs.File, error) {
	f.hook("reuse", newname)
	file, err := f.FS.ReuseForWrite(oldname, newname, c)
	return f.wrap(file, newname, err)
}

func (f *crashFS) OpenDir(name string) (vfs.File, error) {
	file, err := f.FS.OpenDir(name)
	return f.wrap(file, name, err)
}

func (f *crashFS) Link(oldname, newname string) error {
	f.hook("link", newname)
	return f.FS.Link(oldname, newname)
}

func (f *crashFS) Remove(name string) error {
	f.hook("remove", name)
	return f.FS.Remove(name)
}

func (f *crashFS) RemoveAll(name string) error {
	f.hook("removeall", name)
	return f.FS.RemoveAll(name)
}

func (f *crashFS) Rename(oldname, newname string) error {
	f.hook("rename", newname)
	return f.FS.Rename(oldname, newname)
}

type crashFile struct {
	vfs.File
	fs   *crashFS
	name string
}

func (c *crashFile) Write(p []byte) (int, error) {
	c.fs.hook("write", c.name)
	return c.File.Write(p)
}

func (c *crashFile) WriteAt(p []byte, off int64) (int, error) {
	c.fs.hook("write", c.name)
	return c.File.WriteAt(p, off)
}

func (c *crashFile) Sync() error {
	c.fs.hook("sync", c.name)
	return c.File.Sync()
}

func (c *crashFile) SyncData() error {
	c.fs.hook("sync", c.name)
	return c.File.SyncData()
}

func (c *crashFile) SyncTo(length int64) (bool, error) {
	c.fs.hook("sync", c.name)
	return c.File.SyncTo(length)
}

// mountFS is the one file system handed to the repository's verification hook.  It routes
// "/<mount>/rest" to the crashFS registered under <mount>, as "/s/rest".  A store and the
// crash images taken from it therefore live in separate in-memory file systems with the same
// internal layout, and several of them can be open at the same time.
type mountFS struct {
	mu     sync.RWMutex
	mounts map[string]*crashFS
	root   *crashFS // everything outside the mounts (the parent directory of the mount points)
}

func newMountFS() *mountFS {
	m := vfs.NewMem()
	return &mountFS{mounts: map[string]*crashFS{}, root: &crashFS{FS: m, mem: m}}
}

func (m *mountFS) mount(name string, fs *crashFS) {
	m.mu.Lock()
	m.mounts[name] = fs
	m.mu.Unlock()
}

func (m *mountFS) unmount(name string) {
	m.mu.Lock()
	delete(m.mounts, name)
	m.mu.Unlock()
}

func (m *mountFS) route(name string) (*crashFS, string, error) {
	p := strings.TrimPrefix(name, "/")
	mnt, rest := p, ""
	if i := strings.IndexByte(p, '/'); i >= 0 {
		mnt, rest = p[:i], p[i:]
	}
	m.mu.RLock()
	fs := m.mounts[mnt]
	m.mu.RUnlock()
	if fs == nil {
		return m.root, name, nil
	}
	return fs, "/s" + rest, nil
}

func (m *mountFS) Create(name string, c vfs.DiskWriteCategory) (vfs.File, error) {
	fs, p, err := m.route(name)
	if err != nil {
		return nil, err
	}
	return fs.Create(p, c)
}

func (m *mountFS) Link(oldname, newname string) error {
	fs, o, err := m.route(oldname)
	if err != nil {
		return err
	}
	_, n, err := m.route(newname)
	if err != nil {
		return err
	}
	return fs.Link(o, n)
}

func (m *mountFS) Open(name string, opts ...vfs.OpenOption) (vfs.File, error) {
	fs, p, err := m.route(name)
	if err != nil {
		return nil, err
	}
	return fs.Open(p, opts...)
}

func (m *mountFS) OpenReadWrite(name string, c vfs.DiskWriteCategory, opts ...vfs.OpenOption) (vfs.File, error) {
	fs, p, err := m.route(name)
	if err != nil {
		return nil, err
	}
	return fs.OpenReadWrite(p, c, opts...)
}

func (m *mountFS) OpenDir(name string) (vfs.File, error) {
	fs, p, err := m.route(name)
	if err != nil {
		return nil, err
	}
	return fs.OpenDir(p)
}

func (m *mountFS) Remove(name string) error {
	fs, p, err := m.route(name)
	if err != nil {
		return err
	}
	return fs.Remove(p)
}

func (m *mountFS) RemoveAll(name string) error {
	fs, p, err := m.route(name)
	if err != nil {
		return err
	}
	return fs.RemoveAll(p)
}

func (m *mountFS) Rename(oldname, newname string) error {
	fs, o, err := m.route(oldname)
	if err != nil {
		return err
	}
	_, n, err := m.route(newname)
	if err != nil {
		return err
	}
	return fs.Rename(o, n)
}

func (m *mountFS) ReuseForWrite(oldname, newname string, c vfs.DiskWriteCategory) (vfs.File, error) {
	fs, o, err := m.route(oldname)
	if err != nil {
		return nil, err
	}
	_, n, err := m.route(newname)
	if err != nil {
		return nil, err
	}
	return fs.ReuseForWrite(o, n, c)
}

func (m *mountFS) MkdirAll(dir string, perm os.FileMode) error {
	fs, p, err := m.route(dir)
	if err != nil {
		return err
	}
	return fs.MkdirAll(p, perm)
}

func (m *mountFS) Lock(name string) (io.Closer, error) {
	fs, p, err := m.route(name)
	if err != nil {
		return nil, err
	}
	return fs.Lock(p)
}

func (m *mountFS) List(dir string) ([]string, error) {
	fs, p, err := m.route(dir)
	if err != nil {
		return nil, err
	}
	return fs.List(p)
}

func (m *mountFS) Stat(name string) (vfs.FileInfo, error) {
	fs, p, err := m.route(name)
	if err != nil {
		return nil, err
	}
	return fs.Stat(p)
}

func (m *mountFS) GetDiskUsage(path string) (vfs.DiskUsage, error) {
	fs, p, err := m.route(path)
	if err != nil {
		return vfs.DiskUsage{}, err
	}
	return fs.GetDiskUsage(p)
}

func (m *mountFS) PathBase(p string) string       { return path.Base(p) }
func (m *mountFS) PathJoin(elem ...string) string { return path.Join(elem...) }
func (m *mountFS) PathDir(p string) string        { return path.Dir(p) }
func (m *mountFS) Unwrap() vfs.FS                 { return nil }

package backuprestore

// The metadata side: two real slot metadata stores (pkg/db/meta) on in-memory file systems.
//
// Value mapping.  Key k of the model stands for `unit` users "a<k>-<j>" of hash slot A with
// token "tok-<v>"; the runtime-meta row is ChannelRuntimeMeta of channel "rt" in slot A; the
// other hash slot B of each database holds one user that nothing may touch.
//
//	cfg.api = "reader"  OpenBackupHashSlotSnapshot  -> ImportHashSlotSnapshotReaderForRestoreWithStats
//	cfg.api = "bytes"   ExportHashSlotSnapshot      -> ImportHashSlotSnapshot
//
// The second pair is the complete slot snapshot (runtime rows included) used by slot state
// machine snapshots; the first is the semantic backup stream of a restore.

import (
	"bytes"
	"context"
	"encoding/binary"
	"errors"
	"fmt"
	"io"
	"strings"

	metadb "github.com/WuKongIM/WuKongIM/pkg/db/meta"
	"verif/runner/kit"
)

const (
	slotA          = uint16(3)
	slotB          = uint16(4)
	metaBatch      = 1024 // pkg/db/meta: slotSnapshotImportBatchEntries
	entriesPerUser = 1
)

type metaStore struct {
	mount string
	fs    *crashFS
	db    *metadb.DB
}

func (w *world) openMetaStore(fs *crashFS) (*metaStore, error) {
	m := &metaStore{fs: fs, mount: w.newMount(fs)}
	db, err := metadb.Open("/" + m.mount + "/meta")
	if err != nil {
		return nil, err
	}
	m.db = db
	return m, nil
}

func (m *metaStore) reopen() error {
	settle()
	if err := m.db.Close(); !benignClose(err) {
		return err
	}
	db, err := metadb.Open("/" + m.mount + "/meta")
	m.db = db
	return err
}

func (m *metaStore) close(w *world) {
	if m == nil {
		return
	}
	if m.db != nil {
		settle()
		_ = m.db.Close()
	}
	w.mfs.unmount(m.mount)
}

type metaWorld struct {
	w        *world
	unit     int
	maxLen   int
	api      string
	src, tgt *metaStore
	exported []byte
	entries  uint64
	infra    []string
	// driver bookkeeping
	srcRt, tgtRt bool
	tgtUsers     []int64
}

func userName(k, j int) string { return fmt.Sprintf("a%d-%04d", k, j) }
func token(v int64) string     { return fmt.Sprintf("tok-%d", v) }

func (w *world) newMetaWorld(cfg map[string]any, maxLen int) (*metaWorld, error) {
	m := &metaWorld{w: w, unit: 1, maxLen: maxLen, api: kit.Str(cfg, "api")}
	if ps := int(kit.Int(cfg, "ps")); ps > 0 && ps < maxLen && m.api == "reader" {
		if metaBatch%ps != 0 {
			return nil, fmt.Errorf("page size %d does not divide %d", ps, metaBatch)
		}
		m.unit = metaBatch / ps
	}
	if u := kit.Int(cfg, "unit"); u > 0 {
		m.unit = int(u)
	}
	var err error
	if m.src, err = w.openMetaStore(newCrashFS()); err != nil {
		return nil, err
	}
	if m.tgt, err = w.openMetaStore(newCrashFS()); err != nil {
		m.src.close(w)
		return nil, err
	}
	if err := m.src.db.ForHashSlot(slotB).UpsertUser(bg, metadb.User{UID: "src-other", Token: "s"}); err != nil {
		return nil, err
	}
	if err := m.tgt.db.ForHashSlot(slotB).UpsertUser(bg, metadb.User{UID: "tgt-other", Token: "t"}); err != nil {
		return nil, err
	}
	return m, nil
}

func (m *metaWorld) close() {
	m.src.close(m.w)
	m.tgt.close(m.w)
}

func (m *metaWorld) infraf(format string, a ...any) {
	if len(m.infra) < 5 {
		m.infra = append(m.infra, fmt.Sprintf(format, a...))
	}
}

func (m *metaWorld) put(st *metaStore, k int, v int64) error {
	sh := st.db.ForHashSlot(slotA)
	for j := 1; j <= m.unit; j++ {
		var err error
		if v == 0 {
			err = sh.DeleteUser(bg, userName(k, j))
			if errors.Is(err, metadb.ErrNotFound) {
				err = nil
			}
		} else {
			err = sh.UpsertUser(bg, metadb.User{UID: userName(k, j), Token: token(v), DeviceFlag: int64(k), DeviceLevel: int64(j % 3)})
		}
		if err != nil {
			return err
		}
	}
	return nil
}

func (m *metaWorld) putRt(st *metaStore) error {
	return st.db.ForHashSlot(slotA).UpsertChannelRuntimeMeta(bg, metadb.ChannelRuntimeMeta{ChannelID: "rt", ChannelType: 2, ChannelEpoch: 3, LeaderEpoch: 4,
		Replicas: []uint64{1}, ISR: []uint64{1}, Leader: 1, MinISR: 1, Status: 2})
}

func (m *metaWorld) exportFrom(st *metaStore, slot uint16) ([]byte, uint64, error) {
	if m.api == "bytes" {
		snap, err := st.db.ExportHashSlotSnapshot(bg, []uint16{slot})
		return snap.Data, uint64(snap.Stats.EntryCount), err
	}
	rd, err := st.db.OpenBackupHashSlotSnapshot(bg, []uint16{slot})
	if err != nil {
		return nil, 0, err
	}
	data, err := io.ReadAll(rd)
	if cerr := rd.Close(); err == nil {
		err = cerr
	}
	if err != nil {
		return nil, 0, err
	}
	l, err := parseMetaStream(data)
	return data, l.count, err
}

// entriesModel converts an entry count of a stream into model entries.  The runtime row of
// a complete snapshot (and its index entries) is not counted by the model: the count is
// taken over user rows, which the harness knows.
func (m *metaWorld) usersIn(data []byte) int64 {
	l, err := parseMetaStream(data)
	if err != nil {
		return -1
	}
	n := 0
	for _, e := range l.entries {
		if bytes.Contains(data[e.start:e.end], []byte("tok-")) {
			n++
		}
	}
	if n%m.unit != 0 {
		return -1
	}
	return int64(n / m.unit)
}

// ---- stream parsing (format of pkg/db/meta/snapshot.go) -------------------------------------

type metaEntry struct{ start, end int }

type metaLayout struct {
	slots    []uint16
	count    uint64
	countOff int
	entries  []metaEntry
	bodyEnd  int
}

func parseMetaStream(data []byte) (metaLayout, error) {
	var l metaLayout
	if len(data) < 20 || string(data[:4]) != "WKDB" {
		return l, errors.New("not a metadata snapshot stream")
	}
	l.bodyEnd = len(data) - 4
	n := int(binary.BigEndian.Uint16(data[6:8]))
	pos := 8
	for i := 0; i < n; i++ {
		l.slots = append(l.slots, binary.BigEndian.Uint16(data[pos:]))
		pos += 2
	}
	l.countOff = pos
	l.count = binary.BigEndian.Uint64(data[pos:])
	c := &cursor{b: data[:l.bodyEnd], pos: pos + 8}
	for i := uint64(0); i < l.count; i++ {
		e := metaEntry{start: c.pos}
		kl, vl := int(c.uvarint()), int(c.uvarint())
		c.skip(kl)
		c.skip(vl)
		e.end = c.pos
		if c.err != nil {
			return l, c.err
		}
		l.entries = append(l.entries, e)
	}
	if c.pos != l.bodyEnd {
		return l, fmt.Errorf("%d trailing bytes", l.bodyEnd-c.pos)
	}
	return l, nil
}

func (m *metaWorld) variant(v string, pick func(n int) int) ([]byte, error) {
	data := m.exported
	if v == "ok" {
		return data, nil
	}
	if v == "otherSlot" {
		other, _, err := m.exportFrom(m.src, slotB)
		return other, err
	}
	l, err := parseMetaStream(data)
	if err != nil {
		return nil, err
	}
	body, trailer := data[:l.bodyEnd], data[l.bodyEnd:]
	// last install page: the last batch of entries; a stream without entries loses the tail
	// of its header instead
	from, to := l.bodyEnd-4, l.bodyEnd
	if n := len(l.entries); n > 0 {
		first := ((n - 1) / metaBatch) * metaBatch
		from, to = l.entries[first].start, l.entries[n-1].end
	}
	switch v {
	case "trunc":
		cuts := []int{l.countOff + 8}
		for i, e := range l.entries {
			if (i+1)%metaBatch == 0 || i == len(l.entries)-1 {
				cuts = append(cuts, e.end)
			}
		}
		return append([]byte{}, data[:cuts[pick(len(cuts))]]...), nil
	case "dropLast":
		return append(cut(body, from, to), trailer...), nil
	case "dropLastFix":
		return withCRC(cut(body, from, to)), nil
	}
	return nil, fmt.Errorf("unknown metadata stream variant %q", v)
}

// ---- calls ------------------------------------------------------------------------------------

func metaErrClass(err error) string {
	switch {
	case err == nil:
		return ""
	case errors.Is(err, context.Canceled):
		return "canceled"
	case errors.Is(err, metadb.ErrInvalidArgument), errors.Is(err, metadb.ErrChecksumMismatch), errors.Is(err, metadb.ErrCorruptValue):
		return "rejected"
	}
	s := err.Error()
	for _, k := range []string{"corrupt", "checksum", "invalid argument", "EOF"} {
		if strings.Contains(s, k) {
			return "rejected"
		}
	}
	return "other: " + s
}

func (m *metaWorld) export() (map[string]any, error) {
	data, n, err := m.exportFrom(m.src, slotA)
	if err != nil {
		return nil, err
	}
	m.exported, m.entries = data, n
	return map[string]any{"err": "", "stats": map[string]any{"channels": 0, "messages": m.usersIn(data)}}, nil
}

func (m *metaWorld) verify(data []byte) (map[string]any, error) {
	if m.api == "bytes" {
		// the byte-slice snapshot has no separate verifier: it is decoded by a scratch import
		scratch, err := m.w.openMetaStore(newCrashFS())
		if err != nil {
			return nil, err
		}
		defer scratch.close(m.w)
		err = scratch.db.ImportHashSlotSnapshot(bg, metadb.SlotSnapshot{HashSlots: []uint16{slotA}, Data: data})
		if err != nil {
			if metaErrClass(err) != "rejected" {
				return nil, err
			}
			return map[string]any{"err": "rejected", "stats": noStats}, nil
		}
		return map[string]any{"err": "", "stats": map[string]any{"channels": 0, "messages": m.usersIn(data)}}, nil
	}
	_, err := metadb.VerifyBackupHashSlotSnapshotReader(bg, []uint16{slotA}, bytes.NewReader(data), int64(len(data)))
	if err != nil {
		if metaErrClass(err) != "rejected" {
			return nil, err
		}
		return map[string]any{"err": "rejected", "stats": noStats}, nil
	}
	return map[string]any{"err": "", "stats": map[string]any{"channels": 0, "messages": m.usersIn(data)}}, nil
}

func (m *metaWorld) runImport(data []byte, stopAfter int, onFS func(op, name string)) error {
	ctx, cancel := context.WithCancel(bg)
	defer cancel()
	if stopAfter == 0 {
		cancel()
	}
	syncs := 0
	m.tgt.fs.setHook(func(op, name string) {
		if onFS != nil {
			onFS(op, name)
		}
		if op == "sync" && strings.HasSuffix(name, ".log") {
			syncs++
			if stopAfter > 0 && syncs == stopAfter {
				cancel()
			}
		}
	})
	defer m.tgt.fs.setHook(nil)
	if m.api == "bytes" {
		return m.tgt.db.ImportHashSlotSnapshot(ctx, metadb.SlotSnapshot{HashSlots: []uint16{slotA}, Data: data})
	}
	_, err := m.tgt.db.ImportHashSlotSnapshotReaderForRestoreWithStats(ctx, []uint16{slotA}, bytes.NewReader(data), int64(len(data)), false)
	return err
}

func (m *metaWorld) pagesOf() int {
	if m.api == "bytes" {
		return 1
	}
	return 1 + (int(m.entries)+metaBatch-1)/metaBatch
}

func (m *metaWorld) reexport() (map[string]any, error) {
	data, _, err := m.exportFrom(m.tgt, slotA)
	if err != nil {
		return nil, err
	}
	return map[string]any{"same": bytes.Equal(data, m.exported)}, nil
}

func (m *metaWorld) discard(onFS func(op, name string)) error {
	if onFS != nil {
		m.tgt.fs.setHook(onFS)
		defer m.tgt.fs.setHook(nil)
	}
	return m.tgt.db.DeleteHashSlotData(bg, slotA)
}

func (m *metaWorld) project() map[string]any { return m.projectStore(m.tgt) }

func (m *metaWorld) projectStore(st *metaStore) map[string]any {
	users := make([]int64, m.maxLen)
	seen := map[string]metadb.User{}
	var cur metadb.UserCursor
	for {
		page, next, done, err := st.db.ForHashSlot(slotA).ListUsersPage(bg, cur, 2000)
		if err != nil {
			m.infraf("ListUsersPage: %v", err)
			break
		}
		for _, u := range page {
			seen[u.UID] = u
		}
		if done || len(page) == 0 {
			break
		}
		cur = next
	}
	known := 0
	for k := 1; k <= m.maxLen; k++ {
		vals := map[int64]int{}
		for j := 1; j <= m.unit; j++ {
			u, ok := seen[userName(k, j)]
			if !ok {
				vals[0]++
				continue
			}
			known++
			v := int64(-1)
			for _, c := range []int64{1, 2} {
				if u.Token == token(c) && u.DeviceFlag == int64(k) && u.DeviceLevel == int64(j%3) {
					v = c
				}
			}
			// the point read agrees with the scan
			if g, err := st.db.ForHashSlot(slotA).GetUser(bg, u.UID); err != nil || g != u {
				v = -1
			}
			vals[v]++
		}
		users[k-1] = -1
		for v, c := range vals {
			if c == m.unit {
				users[k-1] = v
			}
		}
	}
	if known != len(seen) {
		users = append(users, -2) // a user the harness never wrote
	}
	_, rtErr := st.db.ForHashSlot(slotA).GetChannelRuntimeMeta(bg, "rt", 2)
	rt := rtErr == nil
	if rtErr != nil && !errors.Is(rtErr, metadb.ErrNotFound) {
		m.infraf("GetChannelRuntimeMeta: %v", rtErr)
	}
	other := false
	if page, _, _, err := st.db.ForHashSlot(slotB).ListUsersPage(bg, metadb.UserCursor{}, 10); err == nil {
		other = len(page) == 1 && page[0].UID == "tgt-other" && page[0].Token == "t"
	} else {
		m.infraf("ListUsersPage(other slot): %v", err)
	}
	return map[string]any{"kind": "meta", "users": users, "rt": rt, "other": other}
}

// pagesPresent cannot be read off a metadata projection (a cleared slot and an untouched
// empty one look alike); the caller compares projections instead.

package backuprestore

// Conformance harness for specs/BackupRestore (property C11).
//
// (a) Every TLC behaviour is replayed on real stores: a source and a target message store
// behind pkg/channel/store.MessageDBFactory, or two pkg/db/meta databases, all on in-memory
// file systems handed to the engines through the repository's verification hook.  After
// every call the reply and the projection of the target are compared with the
// specification's.  A run of ImportPage steps is one real import call; an import that the
// behaviour abandons after k pages is cancelled when the k-th install batch reaches its WAL
// sync (its context is then cancelled and the call fails at its next look at it).
// (b) A seeded random driver restores random histories with power-loss crashes taken as
// images of the in-memory file system between any two file-system mutations of an import or
// a cleanup, and records what it observed for validation by TLC (Trace.tla).

import (
	"fmt"
	"sort"
	"strings"
	"sync/atomic"
	"testing"

	"github.com/WuKongIM/WuKongIM/pkg/verifhook"
	"verif/runner/kit"
)

const (
	propID   = "C11"
	sigRmax  = "restore-log-end-above-exported-watermark"
	sigBytes = "bytes-import-partially-applies-invalid-stream"
)

type world struct {
	mfs     *mountFS
	mounts  atomic.Int64
	exports int            // exports taken so far: rotates the entry point / cut order handed on
	counts  map[string]int // shape counters, reported as extras
}

func (w *world) nextExport() int {
	w.exports++
	return w.exports - 1
}

func (w *world) count(k string, n int) {
	if w.counts == nil {
		w.counts = map[string]int{}
	}
	w.counts[k] += n
}

func newWorld() *world {
	w := &world{mfs: newMountFS()}
	verifhook.SetFS(w.mfs)
	return w
}

func (w *world) newMount(fs *crashFS) string {
	name := fmt.Sprintf("m%d", w.mounts.Add(1))
	w.mfs.mount(name, fs)
	return name
}

// side is what the replay needs from either kind of world.
type side interface {
	call(ev map[string]any) (map[string]any, error) // source building and simple target calls
	variantBytes(v string, pick func(int) int) ([]byte, error)
	verifyBytes(data []byte) (map[string]any, error)
	importBytes(data []byte, stopAfter int, onFS func(op, name string)) (map[string]any, error)
	pages() int
	restart() error
	project() map[string]any
	takeInfra() []string
	knownFinding(ev map[string]any, diff string) string
	close()
}

// ---- message side -------------------------------------------------------------------------

func (m *msgWorld) call(ev map[string]any) (map[string]any, error) {
	a := kit.Str(ev, "a")
	switch a {
	case "SrcAppend", "SrcCommit", "SrcAdopt", "SrcTrim", "Export":
		return m.srcCall(ev)
	case "Touch":
		return m.touch(chanDefs[kit.Str(ev, "c")])
	case "Append":
		return m.tgtAppend(chanDefs[kit.Str(ev, "c")], kit.Int(ev, "k"))
	case "Reexport":
		return m.reexport()
	case "Audit":
		return m.audit()
	case "Discard":
		if err := m.discard(nil); err != nil {
			return nil, err
		}
		return map[string]any{"ok": true}, nil
	}
	return nil, fmt.Errorf("unknown call %q", a)
}

func (m *msgWorld) variantBytes(v string, pick func(int) int) ([]byte, error) {
	return msgVariant(m.exported, v, pick)
}
func (m *msgWorld) verifyBytes(data []byte) (map[string]any, error) { return m.verify(data) }

func (m *msgWorld) importBytes(data []byte, stopAfter int, onFS func(op, name string)) (map[string]any, error) {
	stats, err := m.runImport(data, stopAfter, onFS)
	cls := errClass(err)
	if strings.HasPrefix(cls, "other") {
		return nil, err
	}
	out := map[string]any{"err": cls, "stats": noStats}
	if err == nil {
		out["stats"] = m.statsModel(stats)
		if stats.HashSlot != msgHashSlot {
			out["err"] = "wrong hash slot reported"
		}
	}
	return out, nil
}
func (m *msgWorld) pages() int     { return m.pagesOf() }
func (m *msgWorld) restart() error { return m.tgt.reopen() }
func (m *msgWorld) takeInfra() []string {
	out := m.infra
	m.infra = nil
	return out
}

// The one finding on the unchanged tree: the exported retention state carries the source's
// RetainedMaxSeq verbatim; when that is above the exported watermark (an uncommitted suffix
// existed when the retention boundary was adopted) the restored channel reports a log end
// above its watermark with no row there.
func (m *msgWorld) knownFinding(ev map[string]any, diff string) string {
	// Second finding: the byte-slice import verifies the checksum of the whole stream but
	// validates and installs channel by channel, so a checksum-valid stream with an invalid later
	// part is refused after its earlier channels were installed.
	if m.api == "bytes" && kit.Str(ev, "a") == "BeginImport" && strings.HasSuffix(kit.Str(ev, "v"), "Fix") && strings.HasPrefix(diff, ".t.") {
		return sigBytes
	}
	for c, hw := range m.expHW {
		if m.expRmax[c] > hw {
			a := kit.Str(ev, "a")
			if strings.Contains(diff, ".leo") || a == "Touch" || a == "Append" || a == "Audit" {
				return sigRmax
			}
		}
	}
	return ""
}

// ---- metadata side ------------------------------------------------------------------------

func (m *metaWorld) call(ev map[string]any) (map[string]any, error) {
	a := kit.Str(ev, "a")
	ok := map[string]any{"ok": true}
	switch a {
	case "MetaPut":
		return ok, m.put(m.src, int(kit.Int(ev, "k")), kit.Int(ev, "v"))
	case "MetaPutRt":
		return ok, m.putRt(m.src)
	case "MetaTgtPut":
		return ok, m.put(m.tgt, int(kit.Int(ev, "k")), kit.Int(ev, "v"))
	case "MetaTgtPutRt":
		return ok, m.putRt(m.tgt)
	case "Export":
		return m.export()
	case "Reexport":
		return m.reexport()
	case "Discard":
		return ok, m.discard(nil)
	}
	return nil, fmt.Errorf("unknown call %q", a)
}
func (m *metaWorld) variantBytes(v string, pick func(int) int) ([]byte, error) {
	return m.variant(v, pick)
}
func (m *metaWorld) verifyBytes(data []byte) (map[string]any, error) { return m.verify(data) }
func (m *metaWorld) importBytes(data []byte, stopAfter int, onFS func(op, name string)) (map[string]any, error) {
	err := m.runImport(data, stopAfter, onFS)
	cls := metaErrClass(err)
	if strings.HasPrefix(cls, "other") {
		return nil, err
	}
	out := map[string]any{"err": cls, "stats": noStats}
	if err == nil {
		out["stats"] = map[string]any{"channels": 0, "messages": m.usersIn(data)}
	}
	return out, nil
}
func (m *metaWorld) pages() int     { return m.pagesOf() }
func (m *metaWorld) restart() error { return m.tgt.reopen() }
func (m *metaWorld) takeInfra() []string {
	out := m.infra
	m.infra = nil
	return out
}
func (m *metaWorld) knownFinding(map[string]any, string) string { return "" }

// ---- replay ---------------------------------------------------------------------------------

type runner struct {
	t     *testing.T
	env   kit.Env
	rep   *kit.Report
	w     *world
	known map[string]bool
	rng   func(int) int
}

func (r *runner) newSide(cfg map[string]any, maxLen int) (side, error) {
	switch kit.Str(cfg, "kind") {
	case "msg":
		return r.w.newMsgWorld(cfg, maxLen)
	case "meta":
		return r.w.newMetaWorld(cfg, maxLen)
	}
	return nil, fmt.Errorf("unknown kind %q", kit.Str(cfg, "kind"))
}

func (r *runner) violate(s side, kind, detail string, ev map[string]any, diff string, replay map[string]any) {
	if sig := s.knownFinding(ev, diff); sig != "" {
		r.rep.AddExtra("known_finding_hits", 1)
		if r.known[sig] {
			return
		}
		r.known[sig] = true
		r.rep.ViolateSig(propID, kind, detail, sig, replay)
		return
	}
	r.rep.Violate(propID, kind, detail, replay)
}

// replay returns false when the behaviour was abandoned (divergence, harness trouble, or a
// crash point that could not be hit).
func (r *runner) replay(bi int, b kit.Behaviour) bool {
	if len(b.Steps) == 0 || kit.Str(b.Steps[0].Ev, "a") != "Init" {
		r.rep.Infra("behaviour %d does not start with Init", bi)
		return false
	}
	cfg := kit.Map(b.Steps[0].Ev, "cfg")
	s, err := r.newSide(cfg, int(kit.Int(b.Steps[0].Ev, "maxLen")))
	if err != nil {
		r.rep.Infra("behaviour %d: cannot open the stores: %v", bi, err)
		return false
	}
	defer s.close()
	tag := fmt.Sprintf("[%s/%s/ps=%d]", kit.Str(cfg, "kind"), kit.Str(cfg, "api"), kit.Int(cfg, "ps"))

	check := func(si int, res map[string]any) bool {
		st := b.Steps[si]
		call := kit.JSON(kit.CloneEv(st.Ev))
		if res != nil {
			if d := kit.Diff(st.Ev["res"], res); d != "" {
				r.violate(s, "reply", fmt.Sprintf("%s step %d %s: %s", tag, si, call, d), st.Ev, d,
					map[string]any{"behaviour": kit.Behaviour{Steps: b.Steps[:si+1]}, "step": si, "observed": res, "observed_state": s.project()})
				return false
			}
		}
		proj := s.project()
		if inf := s.takeInfra(); len(inf) > 0 {
			r.rep.Infra("behaviour %d step %d %s: %s", bi, si, call, inf[0])
			return false
		}
		if d := kit.Diff(st.St, proj); d != "" {
			r.violate(s, "state", fmt.Sprintf("%s after step %d %s: %s", tag, si, call, d), st.Ev, d,
				map[string]any{"behaviour": kit.Behaviour{Steps: b.Steps[:si+1]}, "step": si, "observed": proj})
			return false
		}
		return true
	}

	for si := 1; si < len(b.Steps); si++ {
		ev := b.Steps[si].Ev
		a := kit.Str(ev, "a")
		r.rep.Cover(a)
		var res map[string]any
		var err error
		switch a {
		case "Verify":
			var data []byte
			if data, err = s.variantBytes(kit.Str(ev, "v"), r.rng); err == nil {
				res, err = s.verifyBytes(data)
			}
		case "BeginImport":
			v := kit.Str(ev, "v")
			var data []byte
			if data, err = s.variantBytes(v, r.rng); err != nil {
				break
			}
			if v != "ok" {
				var out map[string]any
				if out, err = s.importBytes(data, -1, nil); err == nil {
					res = map[string]any{"err": out["err"]}
				}
				break
			}
			// one real call: the ImportPage steps that follow, up to completion or a crash
			k := 0
			for si+1+k < len(b.Steps) && kit.Str(b.Steps[si+1+k].Ev, "a") == "ImportPage" {
				k++
			}
			end := si + k // index of the last ImportPage step (si when there is none)
			done := k > 0 && kit.Bool(kit.Map(b.Steps[end].Ev, "res"), "done")
			crash := end+1 < len(b.Steps) && kit.Str(b.Steps[end+1].Ev, "a") == "Crash"
			switch {
			case done:
				out, e := s.importBytes(data, -1, nil)
				if e != nil {
					err = e
					break
				}
				if cls := kit.Str(out, "err"); cls != "" {
					// the call as a whole was refused or failed: reported against its first step
					res = map[string]any{"err": cls}
					break
				}
				for i := si + 1; i <= end; i++ {
					r.rep.Cover("ImportPage")
				}
				if !check(end, map[string]any{"done": true, "stats": out["stats"]}) {
					return false
				}
				si = end
				continue
			case crash:
				out, e := s.importBytes(data, k, nil)
				if e != nil {
					err = e
					break
				}
				kind := kit.Str(b.Steps[end+1].Ev, "kind")
				if kind == "restart" {
					if e := s.restart(); e != nil {
						err = e
						break
					}
				}
				if kit.Str(out, "err") == "" {
					// the call completed before it saw the cancellation: not the schedule asked for
					r.rep.AddExtra("crash_points_missed", 1)
					r.rep.Extra("crash_point_missed_example", fmt.Sprintf("%s behaviour %d: cancelled at WAL sync %d of %d pages, the call completed", tag, bi, k, s.pages()))
					return false
				}
				if kit.Str(out, "err") == "rejected" {
					res = map[string]any{"err": "rejected"}
					break
				}
				for i := si + 1; i <= end; i++ {
					r.rep.Cover("ImportPage")
				}
				r.rep.Cover("Crash")
				// any page prefix is a legal crash state; only the one asked for continues the behaviour
				proj := s.project()
				want := b.Steps[end+1].St
				if kit.Diff(want, proj) != "" {
					for j := si; j <= end; j++ {
						if kit.Diff(b.Steps[j].St, proj) == "" {
							r.rep.AddExtra("crash_points_missed", 1)
							r.rep.Extra("crash_point_missed_example", fmt.Sprintf("%s behaviour %d: cancelled at WAL sync %d, the target holds %d pages of this attempt", tag, bi, k, j-si))
							return false
						}
					}
				}
				if !check(end+1, nil) {
					return false
				}
				r.rep.AddExtra("crash_points_hit", 1)
				si = end + 1
				continue
			default:
				// the behaviour ends inside the import: nothing observable is left
				r.rep.Replayed(si)
				return true
			}
		case "Restart":
			if err = s.restart(); err == nil {
				res = map[string]any{"ok": true}
			}
		case "ImportPage", "Crash", "DiscardRows", "DiscardMeta":
			err = fmt.Errorf("%s outside the shape the generator produces", a)
		default:
			res, err = s.call(ev)
		}
		if err != nil {
			r.rep.Infra("behaviour %d step %d %s %s: %v", bi, si, tag, kit.JSON(kit.CloneEv(ev)), err)
			return false
		}
		if !check(si, res) {
			return false
		}
	}
	r.rep.Replayed(len(b.Steps) - 1)
	if bi == 0 {
		r.rep.Sample(kit.Behaviour{Steps: b.Steps[:min(len(b.Steps), 8)]})
	}
	return true
}

func sortedKeys(m map[string]bool) []string {
	out := make([]string, 0, len(m))
	for k := range m {
		out = append(out, k)
	}
	sort.Strings(out)
	return out
}

func TestVerifBackupRestore(t *testing.T) {
	env, ok := kit.LoadEnv()
	if !ok {
		t.Skip("not started by the verif runner")
	}
	rep := kit.NewReport(env, "backuprestore")
	rec, err := kit.NewRecorder(env.TraceFile)
	if err != nil {
		t.Fatal(err)
	}
	rng := env.Rand()
	r := &runner{t: t, env: env, rep: rep, w: newWorld(), known: map[string]bool{}, rng: func(n int) int { return rng.Intn(n) }}
	defer verifhook.SetFS(nil)

	behs, err := kit.LoadBehaviours(env.BehFile)
	if err != nil {
		rep.Infra("load behaviours: %v", err)
	}
	heavy := 0
	for bi, b := range behs {
		// behaviours whose page size needs 1024-row units are expensive: a bounded number per run
		if len(b.Steps) > 0 {
			cfg := kit.Map(b.Steps[0].Ev, "cfg")
			if ps := kit.Int(cfg, "ps"); ps > 0 && ps < kit.Int(b.Steps[0].Ev, "maxLen") && kit.Str(cfg, "api") != "" {
				heavy++
				if heavy > env.Pick(60, 1500) {
					rep.AddExtra("paged_behaviours_skipped", 1)
					continue
				}
			}
		}
		r.replay(bi, b)
		if rep.Violations() >= 5 {
			break
		}
	}

	r.drive(rec)

	if err := rec.Close(); err != nil {
		rep.Infra("trace file: %v", err)
	}
	rep.Extra("known_findings_seen", sortedKeys(r.known))
	for k, n := range r.w.counts {
		rep.AddExtra(k, n)
	}
	if err := rep.Finish(rec); err != nil {
		t.Fatal(err)
	}
}

// Package rpcpending is the conformance harness of property C26, second sentence ("Each
// concurrent RPC call receives exactly its own response or an error, never another call's
// response, including across timeouts, cancellations and connection loss") for
// /repo/pkg/transport.  Exported API only (Client, Server, ClientConfig.Dialer), no hook.
//
// A real Server on loopback runs a handler that echoes the request payload.  Every request
// carries a unique token, so a misdelivered response is visible at the caller.  The client's
// sockets are wrapped (ClientConfig.Dialer) so that the harness can hold a connection's
// reads and writes and close it.
//
//	Method A (replay): the coarse steps of specs/RpcPending/Sim.tla (Call, Respond through a
//	  gated handler, Cancel, Reset, Hold/Open of reads and writes) are enacted one by one,
//	  waiting for quiescence after each, and the reply of every call is compared.
//	Method B (random): free-running concurrent callers with random deadlines, cancellations,
//	  handler delays/errors and connection resets; every Call / Server / Done / Return event is
//	  logged under one lock and the histories are validated by TLC (specs/RpcPending/Trace.tla).
//	  Returned payloads are kept and compared again later (a response buffer that is recycled
//	  under the caller shows up as another call's bytes).
//
// Verdicts: a VIOLATION is a call that returned a response (payload or remote handler error)
// that is not its own, or its own response before its handler produced it, or twice.  Any other
// disagreement with the specification's expectation in a replay (an error where a response was
// expected, a call that does not return) is reported as infrastructure trouble.
package rpcpending

import (
	"bytes"
	"context"
	"errors"
	"fmt"
	"math/rand"
	"net"
	"os"
	"runtime"
	"strings"
	"sync"
	"testing"
	"time"

	"github.com/WuKongIM/WuKongIM/pkg/transport"
	"verif/runner/kit"
)

const (
	prop            = "C26"
	svcID    uint16 = 7
	srvNode         = transport.NodeID(2)
	waitLong        = 60 * time.Second
)

// ---- tokens --------------------------------------------------------------------------

func tokenOf(name string) []byte {
	n := 24 + len(name)*37%200
	var b bytes.Buffer
	b.WriteString(name)
	b.WriteByte('|')
	x := uint32(2166136261)
	for _, ch := range []byte(name) {
		x = (x ^ uint32(ch)) * 16777619
	}
	for b.Len() < n {
		x = x*1664525 + 1013904223
		b.WriteByte("abcdefghijklmnopqrstuvwxyz0123456789"[x>>24%36])
	}
	return b.Bytes()
}

func failOf(name string) string { return "fail:" + string(tokenOf(name)[:len(name)+9]) }

func nameIn(b []byte) string {
	if i := bytes.IndexByte(b, '|'); i > 0 && i < 40 {
		return string(b[:i])
	}
	return ""
}

// classify turns the result of Client.Call into the specification's reply record.
func classify(payload []byte, err error) map[string]any {
	if err == nil {
		n := nameIn(payload)
		if n != "" && bytes.Equal(payload, tokenOf(n)) {
			return map[string]any{"kind": "resp", "tok": n}
		}
		return map[string]any{"kind": "resp", "tok": fmt.Sprintf("garbled(%q)", trunc(payload, 48))}
	}
	var re transport.RemoteError
	if errors.As(err, &re) && strings.HasPrefix(re.Message, "fail:") {
		n := nameIn([]byte(re.Message[5:]))
		if n != "" && re.Message == failOf(n) {
			return map[string]any{"kind": "rerr", "tok": n}
		}
		return map[string]any{"kind": "rerr", "tok": fmt.Sprintf("garbled(%q)", trunc([]byte(re.Message), 48))}
	}
	return map[string]any{"kind": "err", "tok": ""}
}

func trunc(b []byte, n int) []byte {
	if len(b) > n {
		return b[:n]
	}
	return b
}

// ---- gated socket ----------------------------------------------------------------------

type gateConn struct {
	net.Conn
	mu          sync.Mutex
	cond        *sync.Cond
	holdR       bool
	holdW       bool
	dead        bool
	blockedW    int // Write calls parked at the gate
	ownerClosed chan struct{}
	once        sync.Once
}

func newGateConn(c net.Conn) *gateConn {
	g := &gateConn{Conn: c, ownerClosed: make(chan struct{})}
	g.cond = sync.NewCond(&g.mu)
	return g
}

func (g *gateConn) wait(hold *bool) error {
	g.mu.Lock()
	defer g.mu.Unlock()
	for *hold && !g.dead {
		g.cond.Wait()
	}
	if g.dead {
		return net.ErrClosed
	}
	return nil
}

func (g *gateConn) Read(b []byte) (int, error) {
	if err := g.wait(&g.holdR); err != nil {
		return 0, err
	}
	n, err := g.Conn.Read(b)
	if err == nil {
		// data that arrived while the harness holds reads stays "on the wire"
		if werr := g.wait(&g.holdR); werr != nil {
			return 0, werr
		}
	}
	return n, err
}

func (g *gateConn) Write(b []byte) (int, error) {
	g.mu.Lock()
	g.blockedW++
	g.cond.Broadcast()
	g.mu.Unlock()
	err := g.wait(&g.holdW)
	g.mu.Lock()
	g.blockedW--
	g.mu.Unlock()
	if err != nil {
		return 0, err
	}
	return g.Conn.Write(b)
}

// awaitBlockedWrite waits until the connection's writer is parked at the write gate.
func (g *gateConn) awaitBlockedWrite(d time.Duration) bool {
	deadline := time.Now().Add(d)
	g.mu.Lock()
	defer g.mu.Unlock()
	for !(g.holdW && g.blockedW > 0) && !g.dead {
		if time.Now().After(deadline) {
			return false
		}
		t := time.AfterFunc(50*time.Millisecond, func() { g.mu.Lock(); g.cond.Broadcast(); g.mu.Unlock() })
		g.cond.Wait()
		t.Stop()
	}
	return !g.dead
}

// Close is what the transport calls when it shuts the connection down.
func (g *gateConn) Close() error {
	g.mu.Lock()
	g.dead = true
	g.cond.Broadcast()
	g.mu.Unlock()
	g.once.Do(func() { close(g.ownerClosed) })
	return g.Conn.Close()
}

// kill is the injected connection loss.
func (g *gateConn) kill() {
	g.mu.Lock()
	g.dead = true
	g.cond.Broadcast()
	g.mu.Unlock()
	_ = g.Conn.Close()
}

func (g *gateConn) set(hold *bool, v bool) {
	g.mu.Lock()
	*hold = v
	g.cond.Broadcast()
	g.mu.Unlock()
}

// ---- world -------------------------------------------------------------------------------

type park struct {
	arrived chan struct{}
	release chan bool
}

type world struct {
	srv *transport.Server
	cli *transport.Client

	mu    sync.Mutex
	conns []*gateConn
	parks map[string]*park // gated mode: handler of token name parks here

	gated    bool
	onServer func(name string)
	onDone   func(name string, ok bool)
	behave   func(name string) (time.Duration, bool) // free mode: delay and outcome of the handler
}

func (w *world) park(name string) *park {
	w.mu.Lock()
	defer w.mu.Unlock()
	p := w.parks[name]
	if p == nil {
		p = &park{arrived: make(chan struct{}), release: make(chan bool, 1)}
		w.parks[name] = p
	}
	return p
}

func (w *world) handler(ctx context.Context, payload []byte) ([]byte, error) {
	name := nameIn(payload)
	if w.onServer != nil {
		w.onServer(name)
	}
	ok := true
	if w.gated {
		p := w.park(name)
		close(p.arrived)
		ok = <-p.release
	} else if w.behave != nil {
		d, o := w.behave(name)
		if d > 0 {
			time.Sleep(d)
		}
		ok = o
	}
	if w.onDone != nil {
		w.onDone(name, ok)
	}
	if !ok {
		return nil, errors.New(failOf(name))
	}
	return payload, nil
}

func newWorld(gated bool, pool int) (*world, error) {
	w := &world{gated: gated, parks: map[string]*park{}}
	srv, err := transport.NewServer(transport.ServerConfig{NodeID: srvNode, Limits: transport.DefaultLimits()})
	if err != nil {
		return nil, err
	}
	if err := srv.Handle(svcID, w.handler, transport.ServiceOptions{Concurrency: 64, QueueSize: 4096, MaxQueueBytes: 64 << 20}); err != nil {
		srv.Stop()
		return nil, err
	}
	if err := srv.ListenAndServe("127.0.0.1:0"); err != nil {
		srv.Stop()
		return nil, err
	}
	addr := srv.Addr()
	cli, err := transport.NewClient(transport.ClientConfig{
		NodeID:    1,
		Discovery: discovery{srvNode: addr},
		PoolSize:  pool,
		Limits:    transport.DefaultLimits(),
		Dialer: func(network, addr string, timeout time.Duration) (net.Conn, error) {
			c, err := net.DialTimeout(network, addr, timeout)
			if err != nil {
				return nil, err
			}
			g := newGateConn(c)
			w.mu.Lock()
			w.conns = append(w.conns, g)
			w.mu.Unlock()
			return g, nil
		},
	})
	if err != nil {
		srv.Stop()
		return nil, err
	}
	w.srv, w.cli = srv, cli
	return w, nil
}

type discovery map[transport.NodeID]string

func (d discovery) Resolve(id transport.NodeID) (string, error) {
	if a, ok := d[id]; ok {
		return a, nil
	}
	return "", transport.ErrNodeNotFound
}

func (w *world) current() *gateConn {
	w.mu.Lock()
	defer w.mu.Unlock()
	if len(w.conns) == 0 {
		return nil
	}
	return w.conns[len(w.conns)-1]
}

func (w *world) stop() {
	w.mu.Lock()
	for _, p := range w.parks {
		select {
		case p.release <- true:
		default:
		}
	}
	conns := append([]*gateConn(nil), w.conns...)
	w.mu.Unlock()
	for _, c := range conns {
		c.set(&c.holdR, false)
		c.set(&c.holdW, false)
	}
	w.cli.Stop()
	w.srv.Stop()
}

// ---- Method A: replay ----------------------------------------------------------------------

type rcall struct {
	name   string
	cancel context.CancelFunc
	done   chan map[string]any
	got    map[string]any // set once returned
}

type replay struct {
	w     *world
	rep   *kit.Report
	b     kit.Behaviour
	calls map[string]*rcall
	okSet map[string]bool // handlers released with ok
	noSet map[string]bool // handlers released with an error
	held  string          // the call issued while writes are held (its frame sits in the socket's Write)
	bad   bool
}

func (r *replay) violate(step int, detail string, obs any) {
	r.bad = true
	r.rep.Violate(prop, "reply", fmt.Sprintf("step %d %s: %s", step, kit.JSON(r.b.Steps[step].Ev), detail),
		map[string]any{"behaviour": r.b, "step": step, "observed": obs})
}

func (r *replay) diverge(step int, detail string) {
	r.bad = true
	r.rep.Infra("replay diverged from the specification without breaking the property: step %d %s: %s", step, kit.JSON(r.b.Steps[step].Ev), detail)
}

// judge applies the property to a returned call, whatever the specification expected.
func (r *replay) judge(step int, c *rcall) bool {
	kind, tok := kit.Str(c.got, "kind"), kit.Str(c.got, "tok")
	if kind == "err" {
		return true
	}
	if tok != c.name {
		r.violate(step, fmt.Sprintf("call %s returned a response that is not its own: %s", c.name, kit.JSON(c.got)), c.got)
		return false
	}
	if (kind == "resp" && !r.okSet[c.name]) || (kind == "rerr" && !r.noSet[c.name]) {
		r.violate(step, fmt.Sprintf("call %s returned %s although its handler has not produced that response", c.name, kit.JSON(c.got)), c.got)
		return false
	}
	return true
}

func (r *replay) await(step int, name string) bool {
	c := r.calls[name]
	if c == nil {
		r.rep.Infra("replay: return of unknown call %s", name)
		r.bad = true
		return false
	}
	if c.got != nil {
		r.diverge(step, "call "+name+" had already returned "+kit.JSON(c.got))
		return false
	}
	select {
	case c.got = <-c.done:
		return r.judge(step, c)
	case <-time.After(waitLong):
		if os.Getenv("VERIF_DEBUG_STACKS") != "" {
			buf := make([]byte, 1<<20)
			fmt.Fprintf(os.Stderr, "%s\n", buf[:runtime.Stack(buf, true)])
			r.w.mu.Lock()
			for i, c := range r.w.conns {
				c.mu.Lock()
				fmt.Fprintf(os.Stderr, "DBG conn %d dead=%v holdR=%v holdW=%v local=%v\n", i, c.dead, c.holdR, c.holdW, c.Conn.LocalAddr())
				c.mu.Unlock()
			}
			r.w.mu.Unlock()
		}
		r.diverge(step, "call "+name+" did not return")
		return false
	}
}

// sweep looks for calls that returned although the specification does not expect it (yet).
func (r *replay) sweep(step int) {
	for _, c := range r.calls {
		if c.got != nil {
			continue
		}
		select {
		case c.got = <-c.done:
			if r.judge(step, c) {
				r.diverge(step, "call "+c.name+" returned "+kit.JSON(c.got)+" although the specification has it waiting")
			}
		default:
		}
	}
}

func (r *replay) rets(step int, ev map[string]any) {
	for _, x := range kit.List(ev, "rets") {
		m := x.(map[string]any)
		name := kit.Str(m, "c")
		if !r.await(step, name) {
			return
		}
		want := kit.Map(m, "res")
		if d := kit.Diff(want, r.calls[name].got); d != "" {
			r.diverge(step, "reply of "+name+": "+d)
			return
		}
	}
}

func (r *replay) arrived(step int, name string) bool {
	select {
	case <-r.w.park(name).arrived:
		return true
	case <-time.After(waitLong):
		r.diverge(step, "the handler of "+name+" was not entered")
		return false
	}
}

func runReplay(b kit.Behaviour, rep *kit.Report) (clean bool) {
	w, err := newWorld(true, 1)
	if err != nil {
		rep.Infra("replay: cannot start transport: %v", err)
		return
	}
	defer w.stop()
	r := &replay{w: w, rep: rep, b: b, calls: map[string]*rcall{}, okSet: map[string]bool{}, noSet: map[string]bool{}}
	for si := 1; si < len(b.Steps) && !r.bad; si++ {
		ev := b.Steps[si].Ev
		a := kit.Str(ev, "a")
		rep.Cover("replay." + a)
		switch a {
		case "Call":
			name := kit.Str(ev, "c")
			ctx, cancel := context.WithCancel(context.Background())
			c := &rcall{name: name, cancel: cancel, done: make(chan map[string]any, 1)}
			r.calls[name] = c
			go func() {
				p, err := w.cli.Call(ctx, srvNode, 0, transport.PriorityRPC, svcID, tokenOf(name))
				c.done <- classify(p, err)
			}()
			if kit.Bool(ev, "reach") {
				if !r.arrived(si, name) {
					return
				}
			} else {
				// writes are held: the request must have reached the socket before the next step
				if g := w.current(); g == nil || !g.awaitBlockedWrite(waitLong) {
					r.diverge(si, "the request of "+name+" did not reach the held socket")
					return
				}
				r.held = name
			}
		case "Respond":
			name := kit.Str(ev, "c")
			ok := kit.Bool(ev, "ok")
			if ok {
				r.okSet[name] = true
			} else {
				r.noSet[name] = true
			}
			r.w.park(name).release <- ok
			r.rets(si, ev)
		case "Cancel":
			r.calls[kit.Str(ev, "c")].cancel()
			r.rets(si, ev)
		case "Reset":
			g := w.current()
			if g == nil {
				rep.Infra("replay: Reset without a connection")
				return
			}
			g.kill()
			r.held = ""
			select {
			case <-g.ownerClosed:
			case <-time.After(waitLong):
				r.diverge(si, "the client did not shut the lost connection down")
				return
			}
			r.rets(si, ev)
		case "HoldWrites":
			g := w.current()
			g.set(&g.holdW, true)
		case "OpenWrites":
			g := w.current()
			g.set(&g.holdW, false)
			// The frame that was parked inside Write is past the writer's context check and is sent
			// even if its caller has given up meanwhile (the specification drops it; no caller can
			// tell).  Wait for it to arrive, so that the writer is idle before the next step.
			if r.held != "" {
				if !r.arrived(si, r.held) {
					return
				}
				r.held = ""
			}
			for _, x := range kit.List(ev, "reach") {
				if !r.arrived(si, x.(string)) {
					return
				}
			}
		case "HoldReads":
			g := w.current()
			g.set(&g.holdR, true)
		case "OpenReads":
			g := w.current()
			g.set(&g.holdR, false)
			r.rets(si, ev)
		default:
			rep.Infra("replay: unknown action %q", a)
			return
		}
		if !r.bad {
			r.sweep(si)
		}
	}
	if r.bad {
		return
	}
	// drain: everything that is still waiting must end with its own response or an error
	last := len(b.Steps) - 1
	w.mu.Lock()
	for name, p := range w.parks {
		select {
		case p.release <- true:
			r.okSet[name] = true
		default:
		}
	}
	w.mu.Unlock()
	// requests that never reached the server park later: release those too
	for name := range r.calls {
		if !r.okSet[name] && !r.noSet[name] {
			r.okSet[name] = true
			select {
			case w.park(name).release <- true:
			default:
			}
		}
	}
	if g := w.current(); g != nil {
		g.set(&g.holdR, false)
		g.set(&g.holdW, false)
	}
	for _, c := range r.calls {
		if c.got != nil {
			continue
		}
		select {
		case c.got = <-c.done:
			r.judge(last, c)
		case <-time.After(waitLong):
			r.diverge(last, "call "+c.name+" did not return during the final drain")
			return
		}
	}
	return !r.bad
}

// ---- Method B: free-running histories -------------------------------------------------------

type logger struct {
	mu                            sync.Mutex
	rec                           *kit.Recorder
	called, served, ok, fail, ret map[string]bool
	closed                        bool
}

func newLogger(rec *kit.Recorder) *logger {
	return &logger{rec: rec, called: map[string]bool{}, served: map[string]bool{}, ok: map[string]bool{},
		fail: map[string]bool{}, ret: map[string]bool{}}
}

func (l *logger) proj() map[string]any {
	return map[string]any{"called": len(l.called), "served": len(l.served), "ok": len(l.ok), "fail": len(l.fail), "ret": len(l.ret)}
}

func (l *logger) begin() {
	l.mu.Lock()
	l.rec.Begin(map[string]any{}, l.proj())
	l.mu.Unlock()
}

// log writes one event; upd mutates the history sets under the same lock.
func (l *logger) log(ev map[string]any, upd func()) {
	l.mu.Lock()
	if l.closed { // the history is over (a late timer or a handler that outlived its connection)
		l.mu.Unlock()
		return
	}
	if upd != nil {
		upd()
	}
	l.rec.Step(ev, l.proj())
	l.mu.Unlock()
}

type kept struct {
	name    string
	payload []byte
}

func runHistory(rep *kit.Report, rec *kit.Recorder, seed int64, workers, perWorker, pool int, prefix string) {
	w, err := newWorld(false, pool)
	if err != nil {
		rep.Infra("history: cannot start transport: %v", err)
		return
	}
	lg := newLogger(rec)
	lg.begin()
	w.onServer = func(name string) {
		lg.log(kit.Ev("Server", "c", name), func() { lg.served[name] = true })
	}
	w.onDone = func(name string, ok bool) {
		lg.log(kit.Ev("Done", "c", name, "ok", ok), func() {
			if ok {
				lg.ok[name] = true
			} else {
				lg.fail[name] = true
			}
		})
	}
	w.behave = func(name string) (time.Duration, bool) {
		x := uint32(seed)
		for _, ch := range []byte(name) {
			x = (x ^ uint32(ch)) * 16777619
		}
		d := time.Duration(0)
		if x%4 != 0 {
			d = time.Duration(x>>8%3000) * time.Microsecond
		}
		return d, x>>3%8 != 0
	}
	var wg sync.WaitGroup
	var keepMu sync.Mutex
	var keeps []kept
	var bad sync.Once
	stop := make(chan struct{})
	// connection resets
	var rwg sync.WaitGroup
	rwg.Add(1)
	go func() {
		defer rwg.Done()
		rng := rand.New(rand.NewSource(seed*31 + 7))
		for {
			select {
			case <-stop:
				return
			case <-time.After(time.Duration(3+rng.Intn(25)) * time.Millisecond):
			}
			w.mu.Lock()
			var live []*gateConn
			for _, c := range w.conns {
				c.mu.Lock()
				if !c.dead {
					live = append(live, c)
				}
				c.mu.Unlock()
			}
			w.mu.Unlock()
			if len(live) > 0 {
				g := live[rng.Intn(len(live))]
				lg.log(kit.Ev("Reset"), nil)
				g.kill()
			}
		}
	}()
	for wi := 0; wi < workers; wi++ {
		wg.Add(1)
		go func(wi int) {
			defer wg.Done()
			rng := rand.New(rand.NewSource(seed*1000 + int64(wi)))
			for i := 0; i < perWorker; i++ {
				name := fmt.Sprintf("%sw%dn%d", prefix, wi, i)
				tok := tokenOf(name)
				var ctx context.Context
				var cancel context.CancelFunc
				switch r := rng.Intn(10); {
				case r < 5:
					ctx, cancel = context.WithTimeout(context.Background(), time.Duration(100+rng.Intn(4000))*time.Microsecond)
				case r < 7:
					ctx, cancel = context.WithCancel(context.Background())
					d := time.Duration(rng.Intn(3000)) * time.Microsecond
					c2 := cancel
					time.AfterFunc(d, func() {
						lg.log(kit.Ev("Cancel", "c", name), nil)
						c2()
					})
				default:
					ctx, cancel = context.WithTimeout(context.Background(), 20*time.Second)
				}
				lg.log(kit.Ev("Call", "c", name), func() { lg.called[name] = true })
				p, err := w.cli.Call(ctx, srvNode, uint64(rng.Intn(8)), transport.PriorityRPC, svcID, tok)
				res := classify(p, err)
				lg.log(kit.Ev("Return", "c", name, "res", res), func() { lg.ret[name] = true })
				cancel()
				rep.Cover("history." + kit.Str(res, "kind"))
				if k := kit.Str(res, "kind"); k != "err" && kit.Str(res, "tok") != name {
					bad.Do(func() {
						rep.Violate(prop, "history", fmt.Sprintf("call %s returned a response that is not its own: %s", name, kit.JSON(res)),
							map[string]any{"call": name, "returned": res, "seed": seed})
					})
				}
				if err == nil {
					keepMu.Lock()
					keeps = append(keeps, kept{name, p})
					keepMu.Unlock()
				}
			}
		}(wi)
	}
	wg.Wait()
	close(stop)
	rwg.Wait()
	lg.mu.Lock()
	lg.closed = true
	lg.mu.Unlock()
	// the payloads handed to the callers must still be what they were
	for _, k := range keeps {
		if !bytes.Equal(k.payload, tokenOf(k.name)) {
			rep.Violate(prop, "history", fmt.Sprintf("the payload returned to call %s later reads as %q (its own response was %q): the caller was handed bytes that another response overwrote",
				k.name, trunc(k.payload, 48), trunc(tokenOf(k.name), 48)), map[string]any{"call": k.name, "seed": seed})
			break
		}
	}
	w.stop()
}

func TestVerifRpcPending(t *testing.T) {
	env, ok := kit.LoadEnv()
	if !ok {
		t.Skip("not started by the verif runner")
	}
	rep := kit.NewReport(env, "rpcpending")
	rec, err := kit.NewRecorder(env.TraceFile)
	if err != nil {
		t.Fatal(err)
	}
	behs, err := kit.LoadBehaviours(env.BehFile)
	if err != nil {
		rep.Infra("load behaviours: %v", err)
	}
	diverged := 0
	for bi, b := range behs {
		if len(b.Steps) == 0 || kit.Str(b.Steps[0].Ev, "a") != "Init" {
			rep.Infra("behaviour %d does not start with Init", bi)
			continue
		}
		if !runReplay(b, rep) {
			if diverged++; diverged >= 3 {
				break
			}
		}
		rep.Replayed(len(b.Steps) - 1)
		if bi == 0 {
			rep.Sample(b)
		}
		if rep.Violations() >= 3 {
			break
		}
	}
	rng := env.Rand()
	for i, n := 0, env.Pick(12, 40); i < n; i++ {
		runHistory(rep, rec, rng.Int63n(1<<40), 8+rng.Intn(40), env.Pick(12, 24), 1+rng.Intn(2), fmt.Sprintf("h%d", i))
	}
	if err := rec.Close(); err != nil {
		rep.Infra("trace file: %v", err)
	}
	if err := rep.Finish(rec); err != nil {
		t.Fatal(err)
	}
}

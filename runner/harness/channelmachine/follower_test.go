package channelmachine

// Follower level of the C06 harness: the reactor's follower-side and checkpoint paths.
//
// A real reactor.Group (real worker pools, memory store) is driven with ApplyMeta and Tick
// events only.  Every blocking effect runs on the real worker pools but ends in a gate of this
// harness: the store wrapper holds Load / ApplyFollower / StoreCheckpoint calls, the scripted
// transport holds Pull RPCs, the scripted quorum log holds Install calls.  The harness answers
// (releases) them one by one, so a completion can be held back until after a metadata fence
// change, exactly like a slow disk or network would.  The reactor is configured with hour-long
// replication / checkpoint / probe intervals and Tick events carry a clock far in the future:
// every timed decision is taken in a Tick, every immediate one in the turn of the event that
// caused it, which makes the schedule a function of the harness's calls (no sleeps, no
// wall-clock in oracles; waiting happens on channels fed by the gates and by the observer
// that the group calls after it has queued a worker result).
//
// State is observed through the exported Group.RetentionView and Group.RuntimeProbe.

import (
	"context"
	"errors"
	"fmt"
	"math/rand"
	"sort"
	"sync"
	"time"

	ch "github.com/WuKongIM/WuKongIM/pkg/channel"
	"github.com/WuKongIM/WuKongIM/pkg/channel/reactor"
	"github.com/WuKongIM/WuKongIM/pkg/channel/replication"
	"github.com/WuKongIM/WuKongIM/pkg/channel/store"
	"github.com/WuKongIM/WuKongIM/pkg/channel/transport"
	"github.com/WuKongIM/WuKongIM/pkg/channel/worker"
	"verif/runner/kit"
)

// Signatures of the known findings of this level (matched against known-findings.json).
const (
	sigLoadingLeaderSwitch = "C06:apply-meta-during-store-load-accepts-same-epoch-leader-switch"
	sigHWBelowCheckpoint   = "C06:follower-adopts-leader-hw-below-its-checkpoint"
	sigHWRegressInFence    = "C06:follower-hw-decreases-within-one-fence-on-lower-leader-hw"
)

const gateWait = 60 * time.Second

// ---- gates ------------------------------------------------------------------------------

type gateCall struct {
	kind  string // "load" | "apply" | "ckpt" | "pull" | "install"
	node  ch.NodeID
	pull  transport.PullRequest
	apply store.ApplyFollowerRequest
	ckpt  ch.Checkpoint
	auth  replication.Authority
	resp  chan gateReply
}

type gateReply struct {
	err  error
	pull transport.PullResponse
	inst replication.Installed
}

type world struct {
	calls   chan *gateCall
	results chan worker.TaskKind
	closed  chan struct{}
	once    sync.Once
	stash   []*gateCall
}

func newWorld() *world {
	return &world{calls: make(chan *gateCall, 256), results: make(chan worker.TaskKind, 4096), closed: make(chan struct{})}
}

func (w *world) close() { w.once.Do(func() { close(w.closed) }) }

// gate parks the calling worker until the harness answers.
func (w *world) gate(c *gateCall) gateReply {
	c.resp = make(chan gateReply, 1)
	select {
	case w.calls <- c:
	case <-w.closed:
		return gateReply{err: ch.ErrClosed}
	}
	select {
	case r := <-c.resp:
		return r
	case <-w.closed:
		return gateReply{err: ch.ErrClosed}
	}
}

// next returns the next parked call of the given kind accepted by match.
func (w *world) next(kind string, match func(*gateCall) bool) (*gateCall, error) {
	for i, c := range w.stash {
		if c.kind == kind && (match == nil || match(c)) {
			w.stash = append(w.stash[:i], w.stash[i+1:]...)
			return c, nil
		}
	}
	timer := time.NewTimer(gateWait)
	defer timer.Stop()
	for {
		select {
		case c := <-w.calls:
			if c.kind == kind && (match == nil || match(c)) {
				return c, nil
			}
			w.stash = append(w.stash, c)
		case <-timer.C:
			return nil, infraf("no %s call reached the gate within %s", kind, gateWait)
		}
	}
}

// stray reports parked calls nobody asked for (a schedule the harness does not know).
func (w *world) stray() error {
	for {
		select {
		case c := <-w.calls:
			w.stash = append(w.stash, c)
			continue
		default:
		}
		break
	}
	if len(w.stash) > 0 {
		return infraf("unexpected %s call at the gate", w.stash[0].kind)
	}
	return nil
}

// awaitResult waits until the group has queued a worker result of the kind.
func (w *world) awaitResult(kind worker.TaskKind) error {
	timer := time.NewTimer(gateWait)
	defer timer.Stop()
	for {
		select {
		case k := <-w.results:
			if k == kind {
				return nil
			}
		case <-timer.C:
			return infraf("no worker result of kind %d within %s", kind, gateWait)
		}
	}
}

// observer: the group calls ObserveWorkerResult right after the result is in the mailbox.
type gateObserver struct{ w *world }

func (o gateObserver) SetReactorMailboxDepth(int, string, int)             {}
func (o gateObserver) SetWorkerQueueDepth(string, int)                    {}
func (o gateObserver) ObserveAppendBatch(int, int, time.Duration)         {}
func (o gateObserver) ObserveAppendLatency(ch.CommitMode, time.Duration)  {}
func (o gateObserver) ObserveWorkerResult(kind worker.TaskKind, _ error, _ time.Duration) {
	select {
	case o.w.results <- kind:
	default:
	}
}

// store wrapper
type gatedFactory struct {
	inner *store.MemoryFactory
	w     *world
}

func (f *gatedFactory) ChannelStore(key ch.ChannelKey, id ch.ChannelID) (store.ChannelStore, error) {
	cs, err := f.inner.ChannelStore(key, id)
	if err != nil {
		return nil, err
	}
	return &gatedStore{ChannelStore: cs, w: f.w}, nil
}

type gatedStore struct {
	store.ChannelStore
	w *world
}

func (s *gatedStore) Load(context.Context) (store.InitialState, error) {
	if r := s.w.gate(&gateCall{kind: "load"}); r.err != nil {
		return store.InitialState{}, r.err
	}
	return s.ChannelStore.Load(context.Background())
}

func (s *gatedStore) ApplyFollower(_ context.Context, req store.ApplyFollowerRequest) (store.ApplyFollowerResult, error) {
	if r := s.w.gate(&gateCall{kind: "apply", apply: req}); r.err != nil {
		return store.ApplyFollowerResult{}, r.err
	}
	return s.ChannelStore.ApplyFollower(context.Background(), req)
}

func (s *gatedStore) StoreCheckpoint(_ context.Context, cp ch.Checkpoint) error {
	if r := s.w.gate(&gateCall{kind: "ckpt", ckpt: cp}); r.err != nil {
		return r.err
	}
	return s.ChannelStore.StoreCheckpoint(context.Background(), cp)
}

// scripted transport: the harness is every remote leader.
type scriptedTransport struct{ w *world }

func (t scriptedTransport) Pull(_ context.Context, node ch.NodeID, req transport.PullRequest) (transport.PullResponse, error) {
	r := t.w.gate(&gateCall{kind: "pull", node: node, pull: req})
	return r.pull, r.err
}
func (t scriptedTransport) Ack(context.Context, ch.NodeID, transport.AckRequest) error { return nil }
func (t scriptedTransport) PullHint(context.Context, ch.NodeID, transport.PullHintRequest) error {
	return nil
}
func (t scriptedTransport) Notify(context.Context, ch.NodeID, transport.NotifyRequest) error {
	return nil
}

// scripted durable quorum log: only Install is used at this level.
type scriptedQLog struct{ w *world }

func (q scriptedQLog) Install(_ context.Context, a replication.Authority) (replication.Installed, error) {
	r := q.w.gate(&gateCall{kind: "install", auth: a})
	return r.inst, r.err
}
func (q scriptedQLog) Commit(context.Context, replication.Proposal) (replication.Receipt, error) {
	return replication.Receipt{}, ch.ErrNotReady
}

// ---- the object under test --------------------------------------------------------------

type fence struct{ epoch, lepoch uint64 }

type authKey struct {
	epoch, lepoch, rg uint64
	leader            int64
	isr               string
	minISR            int64
}

type fview struct {
	loaded                 bool
	role, status           string
	epoch, lepoch          uint64
	leader                 uint64
	replicas, isr          []int64
	leo, hw, ckpt          uint64
}

func (v fview) fence() fence { return fence{v.epoch, v.lepoch} }
func (v fview) folActive() bool {
	return v.loaded && v.role == "follower" && v.status == "active"
}

func (v fview) proj() map[string]any {
	return map[string]any{"loaded": v.loaded, "role": v.role, "status": v.status, "epoch": v.epoch, "lepoch": v.lepoch,
		"leader": v.leader, "replicas": v.replicas, "isr": v.isr, "leo": v.leo, "hw": v.hw, "ckpt": v.ckpt}
}

var unloadedView = fview{role: "none", status: "none", replicas: []int64{}, isr: []int64{}}

type pendingInstall struct {
	call *gateCall
	auth authKey
}

type folSUT struct {
	g     *reactor.Group
	w     *world
	inner *store.MemoryFactory
	local int64
	qlog  bool
	clock time.Time

	futs map[int64]*reactor.Future // ApplyMeta futures not answered yet

	// what the harness knows about the schedule (expectations only, never an oracle)
	phase     string // absent | loading | loaded
	lfence    fence  // loading: fence and leader of the metadata being loaded
	lleader   int64
	lvalid    bool
	lrole     string
	lauth     authKey
	loadFuts  []int64
	mustRej   map[int64]bool // futures of same-fence leader switches parked by the load (known finding)
	rs        string
	due       bool
	rb        bool
	ckCall    *gateCall
	ckFence   fence
	loadCall  *gateCall
	pulls     map[fence]*gateCall
	aps       map[fence]*gateCall
	insts     map[int64]*pendingInstall
	ni        int64
	instOn    bool
	instTok   int64
	instAuth  authKey
	instFuts  []int64
	auth      authKey // installed authority
	cur       fview
	broken    error
	findings  []finding // known-finding observations of this case
	answer    *transport.PullResponse
}

type finding struct {
	sig, kind, detail string
}

func recordFor(idx uint64) ch.Record {
	return ch.Record{ID: 1000 + idx, Index: idx, Epoch: 1, Payload: []byte{byte(idx)}, SizeBytes: 1, FromUID: "u"}
}

func newFolSUT(cfg map[string]any) (*folSUT, error) {
	w := newWorld()
	inner := store.NewMemoryFactory()
	s := &folSUT{w: w, inner: inner, local: kit.Int(cfg, "local"), qlog: kit.Bool(cfg, "qlog"),
		futs: map[int64]*reactor.Future{}, phase: "absent", rs: "idle", mustRej: map[int64]bool{},
		pulls: map[fence]*gateCall{}, aps: map[fence]*gateCall{}, insts: map[int64]*pendingInstall{}, ni: 1,
		cur: unloadedView, clock: time.Now().Add(48 * time.Hour)}
	// the durable state before the load
	sleo, sck := uint64(kit.Int(cfg, "sleo")), uint64(kit.Int(cfg, "sck"))
	if sleo > 0 {
		cs, err := inner.ChannelStore(chanKey, chanID)
		if err != nil {
			return nil, err
		}
		recs := make([]ch.Record, 0, sleo)
		for i := uint64(1); i <= sleo; i++ {
			recs = append(recs, recordFor(i))
		}
		if _, err := cs.ApplyFollower(context.Background(), store.ApplyFollowerRequest{Records: recs, LeaderHW: sck}); err != nil {
			return nil, err
		}
		init, err := cs.Load(context.Background())
		if err != nil || init.LEO != sleo || init.CheckpointHW != sck {
			return nil, fmt.Errorf("cannot prepare the durable state leo=%d ck=%d: %+v %v", sleo, sck, init, err)
		}
	}
	long := time.Hour
	conf := reactor.Config{LocalNode: ch.NodeID(s.local), ReactorCount: 1, MailboxSize: 512,
		Store: &gatedFactory{inner: inner, w: w}, Transport: scriptedTransport{w}, Observer: gateObserver{w},
		WorkerPools: worker.PoolsConfig{
			StoreAppend: worker.PoolConfig{Workers: 12, QueueSize: 128}, StoreRead: worker.PoolConfig{Workers: 6, QueueSize: 128},
			StoreApply: worker.PoolConfig{Workers: 12, QueueSize: 128}, StoreCheckpoint: worker.PoolConfig{Workers: 6, QueueSize: 128},
			RPC: worker.PoolConfig{Workers: 24, QueueSize: 256}},
		ReplicationIdlePollInterval: long, ReplicationMinBackoff: long, ReplicationMaxBackoff: long,
		FollowerRecoveryProbeInterval: long, CommittedCheckpointInterval: long, PullHintRetryInterval: long,
		IdleSlowdownAfter: 1000000 * time.Hour, IdleEvictAfter: 2000000 * time.Hour, IdleEvictCheckInterval: long,
		IdlePullMinInterval: long, IdlePullMaxInterval: long}
	if s.qlog {
		conf.QuorumLog = scriptedQLog{w}
	}
	g, err := reactor.NewGroup(conf)
	if err != nil {
		return nil, err
	}
	s.g = g
	return s, nil
}

func (s *folSUT) close() {
	s.w.close()
	_ = s.g.Close()
}

func (s *folSUT) fail(err error) error {
	var infra errInfra
	if errors.As(err, &infra) && s.broken == nil {
		s.broken = err
	}
	return err
}

// observe reads the runtime through the exported views.  Two round trips: the reactor takes one
// event from an empty mailbox at random among the priorities, after that strictly by priority, so
// the second read is behind every worker result queued before the first one was submitted.
func (s *folSUT) observe() (fview, error) {
	ctx, cancel := context.WithTimeout(context.Background(), gateWait)
	defer cancel()
	if _, err := s.g.RetentionView(ctx, chanID); err != nil && !errors.Is(err, ch.ErrChannelNotFound) {
		return fview{}, infraf("RetentionView: %v", err)
	}
	pr, err := s.g.RuntimeProbe(ctx, ch.RuntimeSelector{ChannelIDs: []ch.ChannelID{chanID}})
	if err != nil {
		return fview{}, infraf("RuntimeProbe: %v", err)
	}
	rv, err := s.g.RetentionView(ctx, chanID)
	if err != nil {
		if errors.Is(err, ch.ErrChannelNotFound) {
			if len(pr.Channels) != 0 {
				return fview{}, infraf("probe and view disagree about the runtime being loaded")
			}
			return unloadedView, nil
		}
		return fview{}, infraf("RetentionView: %v", err)
	}
	if len(pr.Channels) != 1 {
		return fview{}, infraf("RuntimeProbe returned %d channels", len(pr.Channels))
	}
	p := pr.Channels[0]
	if p.LEO != rv.LEO || p.HW != rv.HW || p.CheckpointHW != rv.CheckpointHW || p.Role != rv.Role {
		return fview{}, infraf("probe %+v and view %+v differ although nothing was released in between", p, rv)
	}
	return fview{loaded: true, role: roleName(rv.Role), status: statusNames[p.Status], epoch: p.ChannelEpoch, lepoch: p.LeaderEpoch,
		leader: uint64(rv.Leader), replicas: sortedNodes(rv.Replicas), isr: sortedNodes(rv.ISR), leo: rv.LEO, hw: rv.HW, ckpt: rv.CheckpointHW}, nil
}

// settled reports whether a future is answered, after a round trip through the reactor.
func done(f *reactor.Future) bool {
	select {
	case <-f.Done():
		return true
	default:
		return false
	}
}

func (s *folSUT) awaitFut(id int64) (bool, error) {
	f := s.futs[id]
	if f == nil {
		return false, infraf("future %d unknown", id)
	}
	ctx, cancel := context.WithTimeout(context.Background(), gateWait)
	defer cancel()
	_, err := f.Await(ctx)
	if !done(f) {
		return false, infraf("future %d not answered within %s", id, gateWait)
	}
	delete(s.futs, id)
	return err == nil, nil
}

// harvest returns the futures answered by now (except skip), sorted by id.
func (s *folSUT) harvest(skip int64) []any {
	ids := make([]int64, 0, len(s.futs))
	for id, f := range s.futs {
		if id != skip && done(f) {
			ids = append(ids, id)
		}
	}
	sort.Slice(ids, func(i, j int) bool { return ids[i] < ids[j] })
	out := []any{}
	for _, id := range ids {
		out = append(out, map[string]any{"id": id, "ok": s.futs[id].Result().Err == nil})
		delete(s.futs, id)
	}
	return out
}

func authOf(m ch.Meta) authKey {
	return authKey{epoch: m.Epoch, lepoch: m.LeaderEpoch, rg: m.RouteGeneration, leader: int64(m.Leader),
		isr: fmt.Sprint(sortedNodes(m.ISR)), minISR: int64(m.MinISR)}
}

func fmetaOf(m map[string]any) ch.Meta {
	meta := metaOf(m)
	meta.RouteGeneration = uint64(kit.Int(m, "rg"))
	return meta
}

func (s *folSUT) expectPull(f fence) error {
	c, err := s.w.next("pull", func(c *gateCall) bool { return c.pull.Epoch == f.epoch && c.pull.LeaderEpoch == f.lepoch })
	if err != nil {
		return err
	}
	if s.pulls[f] != nil {
		return infraf("two pulls in flight under fence %v", f)
	}
	s.pulls[f] = c
	s.rs = "pulling"
	return nil
}

// startInstall mirrors quorum_runtime.go startQuorumInstall for the harness's expectations.
func (s *folSUT) startInstall(a authKey, ids []int64) (answered bool, err error) {
	if s.instOn {
		s.instFuts = append(s.instFuts, ids...)
		return false, nil
	}
	if s.auth == a {
		return true, nil
	}
	c, err := s.w.next("install", nil)
	if err != nil {
		return false, err
	}
	tok := s.ni
	s.ni++
	s.insts[tok] = &pendingInstall{call: c, auth: a}
	s.instOn, s.instTok, s.instAuth, s.instFuts = true, tok, a, append([]int64{}, ids...)
	return false, nil
}

func (s *folSUT) apply(ev map[string]any, _ int) (map[string]any, map[string]any, error) {
	if s.broken != nil {
		return nil, nil, s.broken
	}
	res, err := s.step(ev)
	if err != nil {
		return nil, nil, s.fail(err)
	}
	v, err := s.observe()
	if err != nil {
		return nil, nil, s.fail(err)
	}
	if err := s.after(ev, v); err != nil {
		return nil, nil, s.fail(err)
	}
	if r, ok := ev["res"].(map[string]any); ok && res == nil {
		res = r // LoadDone: the reply is known once the load's outcome has been observed
	}
	if err := s.w.stray(); err != nil {
		return nil, nil, s.fail(err)
	}
	s.cur = v
	if v.loaded && (v.ckpt > v.hw || v.hw > v.leo) {
		return res, v.proj(), errOrder{fmt.Sprintf("watermark order broken in the reactor: checkpoint=%d hw=%d leo=%d", v.ckpt, v.hw, v.leo)}
	}
	return res, v.proj(), nil
}

// step performs the call part of an action and returns the observed reply.
func (s *folSUT) step(ev map[string]any) (map[string]any, error) {
	switch kit.Str(ev, "a") {
	case "FMeta":
		return s.stepMeta(ev)
	case "LoadDone":
		if s.loadCall == nil {
			return nil, infraf("LoadDone without a load in flight")
		}
		var rerr error
		if kit.Bool(ev, "err") {
			rerr = ch.ErrNotReady
		}
		s.loadCall.resp <- gateReply{err: rerr}
		s.loadCall = nil
		if err := s.w.awaitResult(worker.TaskStoreLoad); err != nil {
			return nil, err
		}
		return nil, nil // the reply is collected in after(): it depends on what the load produced
	case "PullResp":
		f := fence{uint64(kit.Int(kit.Map(ev, "f"), "epoch")), uint64(kit.Int(kit.Map(ev, "f"), "lepoch"))}
		c := s.pulls[f]
		if c == nil {
			return nil, infraf("PullResp for fence %v without a pull in flight", f)
		}
		delete(s.pulls, f)
		n, lhw, lleo := uint64(kit.Int(ev, "n")), uint64(kit.Int(ev, "lhw")), uint64(kit.Int(ev, "lleo"))
		resp := transport.PullResponse{ChannelKey: c.pull.ChannelKey, Epoch: c.pull.Epoch, LeaderEpoch: c.pull.LeaderEpoch,
			LeaderHW: lhw, LeaderLEO: lleo, ActivityVersion: lleo}
		for i := uint64(0); i < n; i++ {
			resp.Records = append(resp.Records, recordFor(c.pull.NextOffset+i))
		}
		if s.answer != nil { // a real leader's answer (scenario with a real leader group)
			resp = *s.answer
			s.answer = nil
		}
		c.resp <- gateReply{pull: resp}
		if err := s.w.awaitResult(worker.TaskRPCPull); err != nil {
			return nil, err
		}
		return map[string]any{"ok": true}, nil
	case "ApplyDone":
		f := fence{uint64(kit.Int(kit.Map(ev, "f"), "epoch")), uint64(kit.Int(kit.Map(ev, "f"), "lepoch"))}
		c := s.aps[f]
		if c == nil {
			return nil, infraf("ApplyDone for fence %v without an apply in flight", f)
		}
		delete(s.aps, f)
		c.resp <- gateReply{}
		if err := s.w.awaitResult(worker.TaskStoreApply); err != nil {
			return nil, err
		}
		return map[string]any{"ok": true}, nil
	case "Tick":
		s.clock = s.clock.Add(10 * time.Hour)
		fut := reactor.NewFuture()
		if _, err := s.g.Submit(context.Background(), chanKey, reactor.Event{Kind: reactor.EventTick, Key: chanKey, TickNow: s.clock, Future: fut}); err != nil {
			return nil, infraf("Group.Submit(Tick): %v", err)
		}
		if _, _, infra := await(fut); infra != nil {
			return nil, infra
		}
		res := map[string]any{"ck": false, "v": uint64(0)}
		if s.cur.folActive() && !s.qlog && (s.rs == "parked" || s.rs == "lagging") {
			if s.rs == "parked" && s.due && s.cur.hw > s.cur.ckpt && s.ckCall == nil {
				c, err := s.w.next("ckpt", nil)
				if err != nil {
					return nil, err
				}
				s.ckCall, s.ckFence, s.due = c, s.cur.fence(), false
				res["ck"], res["v"] = true, c.ckpt.HW
			}
			if err := s.expectPull(s.cur.fence()); err != nil {
				return nil, err
			}
		}
		return res, nil
	case "CkptDone":
		if s.ckCall == nil {
			return nil, infraf("CkptDone without a checkpoint in flight")
		}
		var rerr error
		if kit.Bool(ev, "err") {
			rerr = ch.ErrNotReady
		}
		ev["f"] = map[string]any{"epoch": s.ckFence.epoch, "lepoch": s.ckFence.lepoch}
		ev["v"] = s.ckCall.ckpt.HW
		s.ckCall.resp <- gateReply{err: rerr}
		s.ckCall = nil
		if err := s.w.awaitResult(worker.TaskStoreCheckpoint); err != nil {
			return nil, err
		}
		return map[string]any{"ok": true}, nil
	case "InstallDone":
		tok := kit.Int(ev, "tok")
		p := s.insts[tok]
		if p == nil {
			return nil, infraf("InstallDone for token %d without an install in flight", tok)
		}
		delete(s.insts, tok)
		ev["f"] = map[string]any{"epoch": p.auth.epoch, "lepoch": p.auth.lepoch}
		rep := gateReply{inst: replication.Installed{Authority: p.call.auth.ID, LEO: uint64(kit.Int(ev, "leo")), HW: uint64(kit.Int(ev, "hw"))}}
		if kit.Bool(ev, "err") {
			rep = gateReply{err: ch.ErrNotReady}
		}
		p.call.resp <- rep
		if err := s.w.awaitResult(worker.TaskQuorumInstall); err != nil {
			return nil, err
		}
		cur := s.cur.loaded && s.instOn && s.instTok == tok && p.auth.epoch == s.cur.epoch && p.auth.lepoch == s.cur.lepoch
		doneList := []any{}
		if cur {
			ids := append([]int64{}, s.instFuts...)
			sort.Slice(ids, func(i, j int) bool { return ids[i] < ids[j] })
			for _, id := range ids {
				ok, err := s.awaitFut(id)
				if err != nil {
					return nil, err
				}
				doneList = append(doneList, map[string]any{"id": id, "ok": ok})
			}
			s.instOn, s.instFuts = false, nil
			if !kit.Bool(ev, "err") {
				s.auth = p.auth
				s.rb = true
			}
		}
		return map[string]any{"done": doneList}, nil
	}
	return nil, infraf("unknown follower level action %q", kit.Str(ev, "a"))
}

func (s *folSUT) stepMeta(ev map[string]any) (map[string]any, error) {
	id := kit.Int(ev, "id")
	meta := fmetaOf(kit.Map(ev, "m"))
	fut := reactor.NewFuture()
	if _, err := s.g.Submit(context.Background(), chanKey, reactor.Event{Kind: reactor.EventApplyMeta, Key: chanKey, Meta: meta, Future: fut}); err != nil {
		return nil, infraf("Group.Submit(ApplyMeta): %v", err)
	}
	s.futs[id] = fut
	mf := fence{meta.Epoch, meta.LeaderEpoch}
	valid := meta.MinISR > 0 && meta.MinISR <= len(meta.ISR)
	role := "follower"
	if int64(meta.Leader) == s.local {
		role = "leader"
	}
	switch s.phase {
	case "absent":
		c, err := s.w.next("load", nil)
		if err != nil {
			return nil, err
		}
		s.loadCall, s.phase = c, "loading"
		s.lfence, s.lleader, s.lvalid, s.lrole, s.lauth, s.loadFuts = mf, int64(meta.Leader), valid, role, authOf(meta), []int64{id}
		return map[string]any{"st": "wait", "done": []any{}}, nil
	case "loading":
		if _, err := s.observe(); err != nil { // behind the ApplyMeta event
			return nil, err
		}
		older := mf.epoch < s.lfence.epoch || (mf.epoch == s.lfence.epoch && mf.lepoch < s.lfence.lepoch)
		same := mf == s.lfence
		st := "wait"
		if done(fut) {
			st = "rej"
			if fut.Result().Err == nil {
				st = "ok"
			}
			delete(s.futs, id)
		}
		switch {
		case older:
		case same && int64(meta.Leader) != s.lleader:
			// A same-epoch leader switch.  The property wants it refused; a runtime that parks the
			// future until the load is done is judged when the load completes.
			if st == "wait" {
				s.mustRej[id] = true
				st = "rej"
			}
		case same:
			if st == "wait" {
				s.loadFuts = append(s.loadFuts, id)
			}
		default: // newer fence: replaces the metadata being loaded
			if st == "wait" {
				s.lfence, s.lleader, s.lvalid, s.lrole, s.lauth, s.loadFuts = mf, int64(meta.Leader), valid, role, authOf(meta), []int64{id}
			}
		}
		return map[string]any{"st": st, "done": s.harvestExcept(id)}, nil
	default: // loaded
		if _, err := s.observe(); err != nil {
			return nil, err
		}
		st := "wait"
		if done(fut) {
			st = "rej"
			if fut.Result().Err == nil {
				st = "ok"
			}
			delete(s.futs, id)
		}
		cleared := s.harvestExcept(id)
		if st == "rej" {
			return map[string]any{"st": st, "done": cleared}, nil
		}
		// accepted: what the reactor does next depends on whether the metadata fenced the runtime
		old := s.cur
		fenced := old.epoch != meta.Epoch || old.lepoch != meta.LeaderEpoch || old.leader != uint64(meta.Leader) ||
			old.role != role || old.status != statusNames[meta.Status]
		if mf != old.fence() {
			s.rb = false
		}
		if !s.qlog {
			if role == "follower" && meta.Status == ch.StatusActive {
				if fenced || s.rs == "parked" || s.rs == "lagging" {
					if err := s.expectPull(mf); err != nil {
						return nil, err
					}
				}
			} else {
				s.rs = "idle"
			}
			return map[string]any{"st": st, "done": cleared}, nil
		}
		a := authOf(meta)
		qfence := role == "leader" && ((s.instOn && s.instAuth != a) || (!s.instOn && s.auth != (authKey{}) && s.auth != a))
		if (fenced || qfence) && s.instOn {
			s.instOn, s.instFuts = false, nil
		}
		if role == "leader" && (meta.Status == ch.StatusActive || meta.Status == ch.StatusCreating) {
			if _, err := s.startInstall(a, []int64{id}); err != nil {
				return nil, err
			}
		}
		return map[string]any{"st": st, "done": cleared}, nil
	}
}

func (s *folSUT) harvestExcept(id int64) []any {
	out := []any{}
	for _, d := range s.harvest(id) {
		m := d.(map[string]any)
		if s.mustRej[m["id"].(int64)] {
			// a parked leader-switch future answered together with the futures it was parked with
			s.judgeLeaderSwitch(m["id"].(int64), m["ok"].(bool))
			continue
		}
		out = append(out, d)
	}
	return out
}

func (s *folSUT) judgeLeaderSwitch(id int64, ok bool) {
	delete(s.mustRej, id)
	if ok {
		s.findings = append(s.findings, finding{sig: sigLoadingLeaderSwitch, kind: "reply",
			detail: fmt.Sprintf("ApplyMeta future %d carried the fence being loaded with ANOTHER leader (a same-epoch leader switch); "+
				"it was parked behind the store load and answered with success, although the runtime kept the first leader", id)})
	}
}

// after updates the harness's expectations from what was observed and completes the reply of LoadDone.
func (s *folSUT) after(ev map[string]any, v fview) error {
	switch kit.Str(ev, "a") {
	case "LoadDone":
		s.phase = "absent"
		ids := append([]int64{}, s.loadFuts...)
		s.loadFuts = nil
		var rej []int64
		for id := range s.mustRej {
			rej = append(rej, id)
		}
		doneList := []any{}
		wait := v.loaded && s.qlog && s.lrole == "leader"
		if v.loaded {
			s.phase = "loaded"
			if wait {
				if _, err := s.startInstall(s.lauth, ids); err != nil {
					return err
				}
			} else if v.folActive() && !s.qlog {
				if err := s.expectPull(v.fence()); err != nil {
					return err
				}
			}
		}
		if !wait {
			sort.Slice(ids, func(i, j int) bool { return ids[i] < ids[j] })
			for _, id := range ids {
				ok, err := s.awaitFut(id)
				if err != nil {
					return err
				}
				doneList = append(doneList, map[string]any{"id": id, "ok": ok})
			}
		}
		for _, id := range rej {
			if wait && v.loaded {
				// parked with the install's futures: judged when they are answered
				continue
			}
			ok, err := s.awaitFut(id)
			if err != nil {
				return err
			}
			s.judgeLeaderSwitch(id, ok)
		}
		ev["res"] = map[string]any{"done": doneList}
	case "PullResp":
		f := fence{uint64(kit.Int(kit.Map(ev, "f"), "epoch")), uint64(kit.Int(kit.Map(ev, "f"), "lepoch"))}
		if s.cur.folActive() && f == s.cur.fence() && s.rs == "pulling" && !s.qlog {
			if kit.Int(ev, "n") > 0 {
				c, err := s.w.next("apply", nil)
				if err != nil {
					return err
				}
				s.aps[f] = c
				s.rs = "applying"
			} else {
				s.rb = true
				if v.hw > s.cur.hw && v.hw > s.cur.ckpt {
					s.due = true
				}
				s.rs = "parked"
				if uint64(kit.Int(ev, "lleo")) > s.cur.leo {
					s.rs = "lagging"
				}
			}
		}
	case "ApplyDone":
		f := fence{uint64(kit.Int(kit.Map(ev, "f"), "epoch")), uint64(kit.Int(kit.Map(ev, "f"), "lepoch"))}
		if s.cur.folActive() && f == s.cur.fence() && s.rs == "applying" {
			s.rb = true
			if v.ckpt >= v.hw {
				s.due = false
			}
			if err := s.expectPull(f); err != nil {
				return err
			}
		}
	case "CkptDone":
		f := fence{uint64(kit.Int(kit.Map(ev, "f"), "epoch")), uint64(kit.Int(kit.Map(ev, "f"), "lepoch"))}
		if s.cur.loaded && f == s.cur.fence() && kit.Bool(ev, "err") && s.cur.hw > s.cur.ckpt {
			s.due = true
		}
	}
	return nil
}

// sched is the harness's idea of the schedule, compared with the specification's in replays.
func (s *folSUT) sched() map[string]any {
	return map[string]any{"rs": s.rs, "due": s.due, "ck": s.ckCall != nil, "phase": s.phase, "inst": s.instOn}
}

// ---- replay of TLC behaviours (follower level) ------------------------------------------

var reportedSig = map[string]bool{}

// reportFindings reports each known-finding signature once per run (the report keeps five violations).
func reportFindings(rep *kit.Report, s *folSUT, replayCase any) {
	for _, f := range s.findings {
		rep.AddExtra("finding:"+f.sig, 1)
		if reportedSig[f.sig] {
			continue
		}
		reportedSig[f.sig] = true
		rep.ViolateSig(prop, f.kind, f.detail, f.sig, replayCase)
	}
	s.findings = nil
}

func replayFollower(rep *kit.Report, bi int, b kit.Behaviour) {
	cfg := kit.Map(b.Steps[0].Ev, "cfg")
	s, err := newFolSUT(cfg)
	if err != nil {
		rep.Infra("behaviour %d: cannot start a reactor group: %v", bi, err)
		return
	}
	defer s.close()
	for si, st := range b.Steps[1:] {
		call := kit.CloneEv(st.Ev)
		res, proj, err := s.apply(call, si)
		rep.Cover("follower:" + kit.Str(st.Ev, "a"))
		var infra errInfra
		if errors.As(err, &infra) {
			rep.Infra("behaviour %d step %d %s: %v", bi, si+1, kit.JSON(call), err)
			break
		}
		replayCase := map[string]any{"behaviour": b, "step": si + 1}
		reportFindings(rep, s, replayCase)
		if err != nil {
			rep.Violate(prop, kindOf(err), fmt.Sprintf("[follower] step %d %s: %v", si+1, kit.JSON(call), err), replayCase)
			break
		}
		if kit.Str(st.Ev, "a") == "Tick" && kit.Bool(kit.Map(st.Ev, "res"), "ck") != kit.Bool(res, "ck") {
			// when a checkpoint is submitted is scheduling, which C06 does not constrain
			rep.Infra("behaviour %d step %d: the reactor's checkpoint schedule differs from the specification's (submitted: spec=%v impl=%v)",
				bi, si+1, kit.Bool(kit.Map(st.Ev, "res"), "ck"), kit.Bool(res, "ck"))
			break
		}
		if d := kit.Diff(st.Ev["res"], res); d != "" {
			rep.Violate(prop, "reply", fmt.Sprintf("[follower] step %d %s: %s", si+1, kit.JSON(call), d),
				map[string]any{"behaviour": b, "step": si + 1, "observed": res})
			break
		}
		if d := kit.Diff(subset(st.St, proj), proj); d != "" {
			rep.Violate(prop, "state", fmt.Sprintf("[follower] step %d %s: %s", si+1, kit.JSON(call), d),
				map[string]any{"behaviour": b, "step": si + 1, "observed": proj})
			break
		}
		if want, ok := kit.Canon(st.St).(map[string]any)["sched"]; ok {
			if d := kit.Diff(want, s.sched()); d != "" {
				rep.Infra("behaviour %d step %d %s: the harness's schedule differs from the specification's: %s", bi, si+1, kit.JSON(call), d)
				break
			}
		}
	}
	rep.Replayed(len(b.Steps) - 1)
	rep.AddExtra("behaviours_follower", 1)
}

// ---- seeded random driver (follower level) ----------------------------------------------

type folStep struct {
	ev map[string]any
	st map[string]any
}

func fmetaEv(id int64, epoch, lepoch uint64, leader int64, q quorum, rg int64) map[string]any {
	return kit.Ev("FMeta", "id", id, "m", map[string]any{"epoch": epoch, "lepoch": lepoch, "leader": leader,
		"replicas": []int64{1, 2, 3}, "isr": q.isr, "minISR": q.minISR, "status": "active", "rg": rg})
}

func quorumWith(rng *rand.Rand, leader int64) quorum {
	for {
		q := quorums[rng.Intn(len(quorums))]
		for _, n := range q.isr {
			if n == leader {
				return q
			}
		}
	}
}

func sortedFences[T any](m map[fence]T) []fence {
	out := make([]fence, 0, len(m))
	for f := range m {
		out = append(out, f)
	}
	sort.Slice(out, func(i, j int) bool {
		if out[i].epoch != out[j].epoch {
			return out[i].epoch < out[j].epoch
		}
		return out[i].lepoch < out[j].lepoch
	})
	return out
}

func fenceEv(f fence) map[string]any { return map[string]any{"epoch": f.epoch, "lepoch": f.lepoch} }

// driveFollower runs one seeded case.  probe makes the case end with an answer of a leader that
// lies in the region of the known findings (a committed watermark below the follower's checkpoint,
// or below the one adopted under the same fence); the property's formulas are then evaluated
// directly on the observed state and the case is not recorded beyond that point.
func driveFollower(rep *kit.Report, rec *kit.Recorder, rng *rand.Rand, steps int, qlog bool, probe bool) {
	const local = 1
	stores := [][2]int64{{0, 0}, {0, 0}, {2, 1}, {3, 3}, {2, 0}}
	st0 := stores[rng.Intn(len(stores))]
	cfg := map[string]any{"local": local, "level": "follower", "qlog": qlog, "sleo": st0[0], "sck": st0[1]}
	s, err := newFolSUT(cfg)
	if err != nil {
		rep.Infra("follower driver: cannot start a reactor group: %v", err)
		return
	}
	defer s.close()
	var trace []folStep
	nextID := int64(1)
	ref := func() (fence, int64) { // the fence the runtime has or is loading
		switch s.phase {
		case "loaded":
			return s.cur.fence(), int64(s.cur.leader)
		case "loading":
			return s.lfence, s.lleader
		}
		return fence{1, 0}, 0
	}
	others := []int64{2, 3}
	probed := false
	for i := 0; i < steps && !probed; i++ {
		var cands []map[string]any
		var probeEv map[string]any
		rf, rl := ref()
		rg := int64(1 + rng.Intn(2))
		nextFence := fence{rf.epoch, rf.lepoch + 1}
		if rng.Intn(4) == 0 {
			nextFence = fence{rf.epoch + 1, uint64(1 + rng.Intn(2))}
		}
		if s.phase == "absent" && rng.Intn(2) == 0 {
			nextFence = fence{uint64(1 + rng.Intn(2)), uint64(1 + rng.Intn(2))}
		}
		quiet := s.phase != "loading" && len(s.pulls) == 0 && len(s.aps) == 0 && s.ckCall == nil && len(s.insts) == 0 &&
			s.rs != "parked" && s.rs != "lagging"
		if quiet || rng.Intn(3) == 0 {
			ld := others[rng.Intn(2)]
			cands = append(cands, fmetaEv(nextID, nextFence.epoch, nextFence.lepoch, ld, quorumWith(rng, ld), rg))
			if s.ckCall != nil || len(s.aps) > 0 {
				cands = append(cands, fmetaEv(nextID, nextFence.epoch, nextFence.lepoch, ld, quorumWith(rng, ld), rg),
					fmetaEv(nextID, nextFence.epoch, nextFence.lepoch, ld, quorumWith(rng, ld), rg))
			}
			if qlog || rng.Intn(3) == 0 {
				cands = append(cands, fmetaEv(nextID, nextFence.epoch, nextFence.lepoch, local, quorumWith(rng, local), rg))
			}
			if rl != 0 {
				if rng.Intn(2) == 0 {
					cands = append(cands, fmetaEv(nextID, rf.epoch, rf.lepoch, rl, quorumWith(rng, rl), rg))
				}
				if s.phase == "loading" || rng.Intn(3) == 0 {
					ld2 := int64(1 + rng.Intn(3))
					if ld2 != rl {
						cands = append(cands, fmetaEv(nextID, rf.epoch, rf.lepoch, ld2, quorumWith(rng, ld2), rg))
					}
				}
				if (rf.lepoch > 1 || rf.epoch > 1) && (s.phase == "loading" || rng.Intn(3) == 0) {
					ld3 := int64(1 + rng.Intn(3))
					older := fence{rf.epoch, rf.lepoch - 1}
					if rf.lepoch == 1 || (rf.epoch > 1 && rng.Intn(2) == 0) {
						older = fence{rf.epoch - 1, uint64(1 + rng.Intn(3))}
					}
					cands = append(cands, fmetaEv(nextID, older.epoch, older.lepoch, ld3, quorumWith(rng, ld3), rg))
				}
			}
		}
		if s.phase == "loading" {
			cands = append(cands, kit.Ev("LoadDone", "err", rng.Intn(12) == 0))
		}
		for _, f := range sortedFences(s.pulls) {
			if s.cur.folActive() && f == s.cur.fence() && s.rs == "pulling" {
				bound := s.cur.ckpt
				if s.rb && s.cur.hw > bound {
					bound = s.cur.hw
				}
				for k := 0; k < 3; k++ {
					n := uint64(rng.Intn(3))
					if k == 2 {
						n = 0
					}
					lleo := s.cur.leo + n + uint64(rng.Intn(2))
					if k == 2 {
						lleo = s.cur.leo
					}
					if lleo < bound {
						lleo = bound
					}
					lhw := bound + uint64(rng.Intn(int(lleo-bound)+1))
					if k == 2 {
						lhw = lleo
					}
					if probe && bound > 0 && i >= steps/2 {
						lhw = uint64(rng.Intn(int(bound))) // outside what keeps the watermarks in order
						probeEv = kit.Ev("PullResp", "f", fenceEv(f), "n", n, "lhw", lhw, "lleo", lleo)
						break
					}
					cands = append(cands, kit.Ev("PullResp", "f", fenceEv(f), "n", n, "lhw", lhw, "lleo", lleo))
				}
			} else {
				cands = append(cands, kit.Ev("PullResp", "f", fenceEv(f), "n", 1, "lhw", 1, "lleo", 1))
			}
		}
		for _, f := range sortedFences(s.aps) {
			cands = append(cands, kit.Ev("ApplyDone", "f", fenceEv(f)))
		}
		if s.rs == "parked" || s.rs == "lagging" {
			cands = append(cands, kit.Ev("Tick"), kit.Ev("Tick"))
		} else if rng.Intn(6) == 0 {
			cands = append(cands, kit.Ev("Tick"))
		}
		if s.ckCall != nil {
			cands = append(cands, kit.Ev("CkptDone", "err", rng.Intn(5) == 0))
		}
		toks := make([]int64, 0, len(s.insts))
		for t := range s.insts {
			toks = append(toks, t)
		}
		sort.Slice(toks, func(i, j int) bool { return toks[i] < toks[j] })
		for _, t := range toks {
			bound := s.cur.ckpt
			if s.rb && s.cur.hw > bound {
				bound = s.cur.hw
			}
			hw := bound + uint64(rng.Intn(3))
			leo := hw + uint64(rng.Intn(3))
			e := kit.Ev("InstallDone", "tok", t, "leo", leo, "hw", hw, "err", rng.Intn(6) == 0)
			if kit.Bool(e, "err") || !(s.instOn && s.instTok == t) {
				e["leo"], e["hw"] = 0, 0
			}
			cands = append(cands, e)
		}
		if len(cands) == 0 {
			cands = append(cands, kit.Ev("Tick"))
		}
		ev := kit.Canon(cands[rng.Intn(len(cands))]).(map[string]any)
		isProbe := probeEv != nil
		if isProbe {
			ev = kit.Canon(probeEv).(map[string]any)
		}
		if kit.Str(ev, "a") == "FMeta" {
			nextID++
		}
		before, rb := s.cur, s.rb
		res, proj, err := s.apply(ev, i)
		replayCase := map[string]any{"cfg": cfg, "steps": traceEvents(trace), "event": ev}
		reportFindings(rep, s, replayCase)
		rep.Cover("follower:" + kit.Str(ev, "a"))
		var infra errInfra
		if errors.As(err, &infra) {
			rep.Infra("follower driver: %s: %v", kit.JSON(ev), err)
			return
		}
		if isProbe {
			probed = true
			if n := kit.Int(ev, "n"); n > 0 && err == nil { // the watermark is adopted when the apply completes
				ev2 := kit.Canon(kit.Ev("ApplyDone", "f", ev["f"])).(map[string]any)
				_, proj, err = s.apply(ev2, i)
				if errors.As(err, &infra) {
					rep.Infra("follower driver: %s: %v", kit.JSON(ev2), err)
					return
				}
			}
			judgeProbe(rep, before, rb, ev, proj, replayCase)
			break
		}
		if err != nil {
			rep.Violate(prop, kindOf(err), fmt.Sprintf("[follower] %s: %v", kit.JSON(ev), err), replayCase)
			return
		}
		ev["res"] = res
		trace = append(trace, folStep{ev: ev, st: proj})
	}
	rec.Begin(map[string]any{"cfg": cfg}, unloadedView.proj())
	for _, st := range trace {
		rec.Step(st.ev, st.st)
	}
}

func traceEvents(tr []folStep) []any {
	out := make([]any, 0, len(tr))
	for _, s := range tr {
		out = append(out, s.ev)
	}
	return out
}

// judgeProbe evaluates C06's formulas on the state observed after a leader's answer from the
// region the specification leaves to the known findings.
func judgeProbe(rep *kit.Report, before fview, rb bool, ev map[string]any, proj map[string]any, replayCase any) {
	hw, ckpt, leo := proj["hw"].(uint64), proj["ckpt"].(uint64), proj["leo"].(uint64)
	rep.AddExtra("follower_probes", 1)
	if ckpt > hw || hw > leo {
		rep.AddExtra("finding:"+sigHWBelowCheckpoint, 1)
		if !reportedSig[sigHWBelowCheckpoint] {
			reportedSig[sigHWBelowCheckpoint] = true
			rep.ViolateSig(prop, "invariant", fmt.Sprintf("follower with checkpoint=%d hw=%d leo=%d was answered %s by the leader of fence (%d,%d) and now has "+
				"checkpoint=%d hw=%d leo=%d: checkpointed watermark above committed watermark", before.ckpt, before.hw, before.leo, kit.JSON(ev),
				before.epoch, before.lepoch, ckpt, hw, leo), sigHWBelowCheckpoint, replayCase)
		}
		return
	}
	if rb && hw < before.hw {
		rep.AddExtra("finding:"+sigHWRegressInFence, 1)
		if !reportedSig[sigHWRegressInFence] {
			reportedSig[sigHWRegressInFence] = true
			rep.ViolateSig(prop, "monotone", fmt.Sprintf("follower that had adopted hw=%d under fence (%d,%d) was answered %s under the same fence and now has hw=%d: "+
				"the committed watermark decreased within one metadata fence", before.hw, before.epoch, before.lepoch, kit.JSON(ev), hw), sigHWRegressInFence, replayCase)
		}
	}
}

// ---- scenarios for the two candidate defects (run in every tier) ------------------------

type scenario struct {
	s     *folSUT
	rep   *kit.Report
	name  string
	steps []any
	ok    bool
}

func newScenario(rep *kit.Report, name string, cfg map[string]any) *scenario {
	s, err := newFolSUT(cfg)
	if err != nil {
		rep.Infra("scenario %s: cannot start a reactor group: %v", name, err)
		return nil
	}
	return &scenario{s: s, rep: rep, name: name, ok: true}
}

// do performs one action; a broken watermark order is returned to the caller (it is what some
// scenarios are about), harness trouble ends the scenario.
func (sc *scenario) do(ev map[string]any) (map[string]any, map[string]any, error) {
	if !sc.ok {
		return nil, nil, infraf("scenario ended")
	}
	ev = kit.Canon(ev).(map[string]any)
	sc.steps = append(sc.steps, ev)
	res, proj, err := sc.s.apply(ev, len(sc.steps))
	sc.rep.Cover("scenario:" + kit.Str(ev, "a"))
	var infra errInfra
	if errors.As(err, &infra) {
		sc.rep.Infra("scenario %s: %s: %v", sc.name, kit.JSON(ev), err)
		sc.ok = false
	}
	return res, proj, err
}

func (sc *scenario) replayCase() any {
	return map[string]any{"scenario": sc.name, "steps": sc.steps}
}

var fullQuorum = quorum{[]int64{1, 2, 3}, 2}

// (b) A follower that checkpointed the committed watermark it learned from the old leader follows a
// new leader whose committed watermark is lower.
func scenarioHWBelowCheckpoint(rep *kit.Report) {
	sc := newScenario(rep, "lower-leader-hw-after-leader-change", map[string]any{"local": 1, "level": "follower", "qlog": false, "sleo": 0, "sck": 0})
	if sc == nil {
		return
	}
	defer sc.s.close()
	f11, f12 := fenceEv(fence{1, 1}), fenceEv(fence{1, 2})
	sc.do(fmetaEv(1, 1, 1, 2, fullQuorum, 1))
	sc.do(kit.Ev("LoadDone", "err", false))
	sc.do(kit.Ev("PullResp", "f", f11, "n", 3, "lhw", 3, "lleo", 3))
	sc.do(kit.Ev("ApplyDone", "f", f11)) // leo=3 hw=3 checkpoint=3 (the apply covers the checkpoint)
	sc.do(fmetaEv(2, 1, 2, 3, fullQuorum, 1))
	before, rb := sc.s.cur, sc.s.rb
	ev := kit.Ev("PullResp", "f", f12, "n", 0, "lhw", 1, "lleo", 3) // node 3 has only learned hw=1 so far
	_, proj, _ := sc.do(ev)
	if sc.ok && proj != nil {
		judgeProbe(rep, before, rb, ev, proj, sc.replayCase())
	}
	rep.AddExtra("scenarios", 1)
}

// (b) The same leader, under the same fence, reports a lower committed watermark than before (it was
// restarted and reloaded its watermark from its last checkpoint).
func scenarioHWRegress(rep *kit.Report) {
	sc := newScenario(rep, "lower-leader-hw-within-one-fence", map[string]any{"local": 1, "level": "follower", "qlog": false, "sleo": 0, "sck": 0})
	if sc == nil {
		return
	}
	defer sc.s.close()
	f11 := fenceEv(fence{1, 1})
	sc.do(fmetaEv(1, 1, 1, 2, fullQuorum, 1))
	sc.do(kit.Ev("LoadDone", "err", false))
	sc.do(kit.Ev("PullResp", "f", f11, "n", 3, "lhw", 1, "lleo", 3))
	sc.do(kit.Ev("ApplyDone", "f", f11))                             // leo=3 hw=1 checkpoint=1
	sc.do(kit.Ev("PullResp", "f", f11, "n", 0, "lhw", 3, "lleo", 3)) // hw=3
	sc.do(kit.Ev("Tick"))                                            // checkpoint of 3 submitted (held), probe pull
	before, rb := sc.s.cur, sc.s.rb
	ev := kit.Ev("PullResp", "f", f11, "n", 0, "lhw", 2, "lleo", 3)
	_, proj, _ := sc.do(ev)
	if sc.ok && proj != nil {
		judgeProbe(rep, before, rb, ev, proj, sc.replayCase())
	}
	rep.AddExtra("scenarios", 1)
}

// (a) While the asynchronous store load of the first ApplyMeta is in flight, a second ApplyMeta
// carries the same epoch and leader epoch with another leader.
func scenarioLoadingLeaderSwitch(rep *kit.Report) {
	sc := newScenario(rep, "leader-switch-during-store-load", map[string]any{"local": 1, "level": "follower", "qlog": false, "sleo": 0, "sck": 0})
	if sc == nil {
		return
	}
	defer sc.s.close()
	sc.do(fmetaEv(1, 1, 1, 2, fullQuorum, 1))
	res, _, _ := sc.do(fmetaEv(2, 1, 1, 3, fullQuorum, 1))
	_, proj, _ := sc.do(kit.Ev("LoadDone", "err", false))
	if sc.ok {
		if kit.Str(res, "st") != "rej" {
			rep.Violate(prop, "reply", fmt.Sprintf("scenario %s: the second ApplyMeta was answered %v", sc.name, res), sc.replayCase())
		}
		if proj != nil && proj["leader"].(uint64) != 2 {
			rep.Violate(prop, "state", fmt.Sprintf("scenario %s: the runtime follows leader %v after the load", sc.name, proj["leader"]), sc.replayCase())
		}
		reportFindings(rep, sc.s, sc.replayCase())
	}
	rep.AddExtra("scenarios", 1)
}

// (b) with a REAL leader: a second reactor group (node 2, memory store) leads the channel and serves
// the follower's pulls; the third replica only exists as the acknowledgement it sent.  The leader
// process is restarted under unchanged metadata (the control plane has not noticed): it reloads its
// committed watermark from its durable checkpoint, which a leader only writes before it evicts an
// idle runtime, and with MinISR = 3 it cannot raise it again before the third replica has pulled.
func scenarioRealLeaderRestart(rep *kit.Report) {
	name := "real-leader-restarted-under-unchanged-metadata"
	leaderStore := store.NewMemoryFactory()
	meta := ch.Meta{Key: chanKey, ID: chanID, Epoch: 1, LeaderEpoch: 1, Leader: 2, Replicas: []ch.NodeID{1, 2, 3}, ISR: []ch.NodeID{1, 2, 3}, MinISR: 3, Status: ch.StatusActive}
	var leader *reactor.Group
	startLeader := func() error {
		g, err := reactor.NewGroup(reactor.Config{LocalNode: 2, ReactorCount: 1, MailboxSize: 256, Store: leaderStore, AppendBatchMaxRecords: 1,
			Transport: scriptedTransport{newWorld()}, PullHintRetryInterval: time.Hour, IdleEvictAfter: 2000000 * time.Hour})
		if err != nil {
			return err
		}
		leader = g
		f, err := g.Submit(context.Background(), chanKey, reactor.Event{Kind: reactor.EventApplyMeta, Key: chanKey, Meta: meta})
		if err != nil {
			return err
		}
		if _, err, infra := await(f); err != nil || infra != nil {
			return fmt.Errorf("leader ApplyMeta: %v %v", err, infra)
		}
		return nil
	}
	if err := startLeader(); err != nil {
		rep.Infra("scenario %s: %v", name, err)
		return
	}
	defer func() { _ = leader.Close() }()
	for i := 1; i <= 3; i++ {
		msgID++
		f, err := leader.Submit(context.Background(), chanKey, reactor.Event{Kind: reactor.EventAppend, Key: chanKey, OpID: ch.OpID(i),
			Append: ch.AppendBatchRequest{ChannelID: chanID, CommitMode: ch.CommitModeLocal,
				Messages: []ch.Message{{MessageID: msgID, ChannelID: chanID.ID, ChannelType: chanID.Type, FromUID: "u", Payload: []byte{byte(i)}}}}})
		if err != nil {
			rep.Infra("scenario %s: append: %v", name, err)
			return
		}
		if _, err, infra := await(f); err != nil || infra != nil {
			rep.Infra("scenario %s: append: %v %v", name, err, infra)
			return
		}
	}
	sc := newScenario(rep, name, map[string]any{"local": 1, "level": "follower", "qlog": false, "sleo": 0, "sck": 0})
	if sc == nil {
		return
	}
	defer sc.s.close()
	f11 := fenceEv(fence{1, 1})
	// serve forwards the follower's pull in flight to the real leader and hands its answer back
	pullOp := uint64(1 << 41)
	serve := func(what string) (fview, map[string]any, bool) {
		c := sc.s.pulls[fence{1, 1}]
		if c == nil || !sc.ok {
			rep.Infra("scenario %s: %s: no pull in flight", name, what)
			return fview{}, nil, false
		}
		pullOp++
		f, err := leader.Submit(context.Background(), chanKey, reactor.Event{Kind: reactor.EventPull, Key: chanKey, OpID: ch.OpID(pullOp), Pull: c.pull})
		if err != nil {
			rep.Infra("scenario %s: %s: leader Submit(Pull): %v", name, what, err)
			return fview{}, nil, false
		}
		r, err, infra := await(f)
		if infra != nil || err != nil {
			rep.Infra("scenario %s: %s: leader pull: %v %v", name, what, err, infra)
			return fview{}, nil, false
		}
		resp := r.Pull
		sc.s.answer = &resp
		before := sc.s.cur
		ev := kit.Ev("PullResp", "f", f11, "n", len(resp.Records), "lhw", resp.LeaderHW, "lleo", resp.LeaderLEO)
		_, proj, _ := sc.do(ev)
		return before, ev, sc.ok && proj != nil
	}
	m := map[string]any{"epoch": 1, "lepoch": 1, "leader": 2, "replicas": []int64{1, 2, 3}, "isr": []int64{1, 2, 3}, "minISR": 3, "status": "active", "rg": 1}
	sc.do(kit.Ev("FMeta", "id", 1, "m", m))
	sc.do(kit.Ev("LoadDone", "err", false))
	if _, _, ok := serve("first pull"); !ok { // records 1..3, nothing committed yet
		return
	}
	sc.do(kit.Ev("ApplyDone", "f", f11))
	// the third replica acknowledges the whole log
	af, err := leader.Submit(context.Background(), chanKey, reactor.Event{Kind: reactor.EventAck, Key: chanKey,
		Ack: transport.AckRequest{ChannelKey: chanKey, Epoch: 1, LeaderEpoch: 1, Follower: 3, MatchOffset: 3}})
	if err == nil {
		_, err, _ = await(af)
	}
	if err != nil {
		rep.Infra("scenario %s: ack of the third replica: %v", name, err)
		return
	}
	if _, _, ok := serve("second pull"); !ok { // carries the follower's own acknowledgement: everything is committed
		return
	}
	if sc.s.cur.leo != 3 || sc.s.cur.hw != 3 {
		rep.Infra("scenario %s: follower did not learn the committed watermark from the real leader: %+v", name, sc.s.cur)
		return
	}
	// the leader process restarts; the metadata is unchanged
	_ = leader.Close()
	if err := startLeader(); err != nil {
		rep.Infra("scenario %s: restart: %v", name, err)
		return
	}
	sc.do(kit.Ev("Tick")) // the parked follower probes its leader (and submits the checkpoint of 3, which stays in flight)
	rb := sc.s.rb
	before, ev, ok := serve("pull after the restart")
	if !ok {
		return
	}
	rep.Extra("real_leader_hw_after_restart", ev["lhw"])
	rep.Extra("real_leader_follower_hw", fmt.Sprintf("%d -> %d (checkpoint %d)", before.hw, sc.s.cur.hw, sc.s.cur.ckpt))
	judgeProbe(rep, before, rb, ev, sc.s.cur.proj(), sc.replayCase())
	rep.AddExtra("scenarios", 1)
}

package channelmachine

// Conformance harness for specs/ChannelMachine (property C06).
//
// Two binding levels, selected by the "level" carried in the Init event:
//
//	machine  a real machine.ChannelState driven through its exported methods only;
//	         Decision.Err / Decision.Replies / Decision.Tasks and every exported field the
//	         property speaks about are compared after each call, CheckInvariants() included.
//	reactor  a real reactor.Group (memory store, no transport) driven through Group.Submit:
//	         ApplyMeta, Append and follower acknowledgements with arbitrary offsets through
//	         EventAck and EventPull.AckOffset, so that the "ack offset <= LEO" guard in
//	         reactor/leader_replication.go is bound rather than assumed.  Observed through the
//	         exported Group.RetentionView and the append futures.
//
// The checkpoint advance at the machine level is an environment step: the harness performs
// the assignment the reactor performs (lifecycle_runtime.go: "if result > CheckpointHW").

import (
	"context"
	"errors"
	"fmt"
	"math/rand"
	"sort"
	"testing"
	"time"

	ch "github.com/WuKongIM/WuKongIM/pkg/channel"
	"github.com/WuKongIM/WuKongIM/pkg/channel/machine"
	"github.com/WuKongIM/WuKongIM/pkg/channel/reactor"
	"github.com/WuKongIM/WuKongIM/pkg/channel/store"
	"github.com/WuKongIM/WuKongIM/pkg/channel/transport"
	"verif/runner/kit"
)

const prop = "C06"

var (
	chanID  = ch.ChannelID{ID: "c06", Type: 1}
	chanKey = ch.ChannelKeyForID(chanID)
	nodes   = []ch.NodeID{1, 2, 3}
)

// errInfra marks harness trouble (never a violation).
type errInfra struct{ msg string }

func (e errInfra) Error() string { return e.msg }

func infraf(format string, a ...any) error { return errInfra{fmt.Sprintf(format, a...)} }

// errOrder reports checkpoint <= HW <= LEO broken in an observed reactor view.
type errOrder struct{ msg string }

func (e errOrder) Error() string { return e.msg }

func kindOf(err error) string {
	var o errOrder
	if errors.As(err, &o) {
		return "invariant"
	}
	return "reply"
}

type sut interface {
	// apply performs the call described by ev (its "res" is ignored) and returns the
	// observed reply and the observed (possibly partial) projection.
	apply(ev map[string]any, step int) (res map[string]any, st map[string]any, err error)
	close()
}

// ---- shared conversions -----------------------------------------------------------------

func roleName(r ch.Role) string {
	switch r {
	case 0:
		return "none"
	case ch.RoleLeader:
		return "leader"
	case ch.RoleFollower:
		return "follower"
	}
	return fmt.Sprintf("role(%d)", r)
}

var statusNames = map[ch.Status]string{0: "none", ch.StatusCreating: "creating", ch.StatusActive: "active",
	ch.StatusDeleting: "deleting", ch.StatusDeleted: "deleted"}

func statusOf(name string) ch.Status {
	for k, v := range statusNames {
		if v == name {
			return k
		}
	}
	return 0
}

func modeOf(name string) ch.CommitMode {
	switch name {
	case "quorum":
		return ch.CommitModeQuorum
	case "local":
		return ch.CommitModeLocal
	}
	return 0 // "default"
}

func modeName(m ch.CommitMode) string {
	switch m {
	case ch.CommitModeQuorum:
		return "quorum"
	case ch.CommitModeLocal:
		return "local"
	}
	return fmt.Sprintf("mode(%d)", m)
}

func nodeList(v []any) []ch.NodeID {
	out := make([]ch.NodeID, 0, len(v))
	for _, x := range v {
		out = append(out, ch.NodeID(kit.ToInt(x)))
	}
	return out
}

func sortedNodes(in []ch.NodeID) []int64 {
	out := make([]int64, 0, len(in))
	for _, n := range in {
		out = append(out, int64(n))
	}
	sort.Slice(out, func(i, j int) bool { return out[i] < out[j] })
	return out
}

func metaOf(m map[string]any) ch.Meta {
	return ch.Meta{Key: chanKey, ID: chanID,
		Epoch: uint64(kit.Int(m, "epoch")), LeaderEpoch: uint64(kit.Int(m, "lepoch")),
		Leader:   ch.NodeID(kit.Int(m, "leader")),
		Replicas: nodeList(kit.List(m, "replicas")), ISR: nodeList(kit.List(m, "isr")),
		MinISR: int(kit.Int(m, "minISR")), Status: statusOf(kit.Str(m, "status"))}
}

func fenceOf(f map[string]any) ch.Fence {
	return ch.Fence{ChannelKey: chanKey, Generation: uint64(kit.Int(f, "gen")),
		Epoch: uint64(kit.Int(f, "epoch")), LeaderEpoch: uint64(kit.Int(f, "lepoch")), OpID: ch.OpID(kit.Int(f, "op"))}
}

func reply(op int64, err error, items []ch.AppendBatchItemResult) map[string]any {
	r := map[string]any{"op": op, "ok": err == nil, "first": int64(0), "last": int64(0)}
	if err == nil && len(items) > 0 {
		r["first"] = int64(items[0].MessageSeq)
		r["last"] = int64(items[len(items)-1].MessageSeq)
	}
	return r
}

func sortReplies(rs []any) []any {
	sort.SliceStable(rs, func(i, j int) bool {
		return rs[i].(map[string]any)["op"].(int64) < rs[j].(map[string]any)["op"].(int64)
	})
	if rs == nil {
		rs = []any{}
	}
	return rs
}

var msgID uint64

func records(n int) []ch.Record {
	out := make([]ch.Record, n)
	for i := range out {
		msgID++
		out[i] = ch.Record{ID: msgID, Payload: []byte{byte(msgID)}, SizeBytes: 1, FromUID: "u"}
	}
	return out
}

// ---- machine level ----------------------------------------------------------------------

type machSUT struct {
	st *machine.ChannelState
}

func newMachSUT(local int64) *machSUT {
	return &machSUT{st: machine.NewChannelState(chanKey, ch.NodeID(local), 1)} // generation 1 = Gen of the spec
}

func (s *machSUT) close() {}

func machReplies(rs []machine.Reply) []any {
	out := []any{}
	for _, r := range rs {
		items := r.AppendItems
		if len(items) == 0 && r.Append.MessageSeq > 0 {
			items = []ch.AppendBatchItemResult{r.Append}
		}
		out = append(out, reply(int64(r.OpID), r.Err, items))
	}
	return sortReplies(out)
}

func (s *machSUT) apply(ev map[string]any, _ int) (map[string]any, map[string]any, error) {
	st := s.st
	var res map[string]any
	switch kit.Str(ev, "a") {
	case "Meta":
		d := st.ApplyMeta(metaOf(kit.Map(ev, "m")))
		res = map[string]any{"ok": d.Err == nil, "replies": machReplies(d.Replies)}
	case "Propose":
		var ws []machine.AppendBatchWaiter
		for _, w := range kit.List(ev, "ws") {
			wm := w.(map[string]any)
			ws = append(ws, machine.AppendBatchWaiter{OpID: ch.OpID(kit.Int(wm, "op")),
				CommitMode: modeOf(kit.Str(wm, "mode")), Records: records(int(kit.Int(wm, "n")))})
		}
		d := st.ProposeAppendBatch(machine.AppendBatchCommand{BatchOpID: ch.OpID(kit.Int(ev, "b")), Waiters: ws})
		fence := map[string]any{"epoch": 0, "lepoch": 0, "op": 0, "gen": 0}
		task := false
		if len(d.Tasks) == 1 && d.Tasks[0].Kind == machine.TaskKindStoreAppend {
			task = true
			f := d.Tasks[0].Fence
			if f.ChannelKey != chanKey {
				return nil, nil, fmt.Errorf("store task fenced with channel key %q", f.ChannelKey)
			}
			fence = map[string]any{"epoch": f.Epoch, "lepoch": f.LeaderEpoch, "op": uint64(f.OpID), "gen": f.Generation}
		} else if len(d.Tasks) != 0 {
			return nil, nil, fmt.Errorf("ProposeAppendBatch emitted %d tasks", len(d.Tasks))
		}
		res = map[string]any{"ok": d.Err == nil, "task": task, "fence": fence}
		if len(d.Replies) != 0 {
			return nil, nil, fmt.Errorf("ProposeAppendBatch answered %d waiters", len(d.Replies))
		}
	case "Stored":
		r := machine.AppendStoredResult{Fence: fenceOf(kit.Map(ev, "fence")),
			BaseOffset: uint64(kit.Int(ev, "base")), LastOffset: uint64(kit.Int(ev, "last"))}
		if kit.Bool(ev, "err") {
			r.Err = ch.ErrNotReady
		}
		d := st.ApplyAppendStored(r)
		res = map[string]any{"replies": machReplies(d.Replies)}
	case "Quorum":
		r := machine.QuorumCommittedResult{Fence: fenceOf(kit.Map(ev, "fence")),
			First: uint64(kit.Int(ev, "first")), Last: uint64(kit.Int(ev, "last")), HW: uint64(kit.Int(ev, "hw"))}
		if kit.Bool(ev, "err") {
			r.Err = ch.ErrNotReady
		}
		d := st.ApplyQuorumCommitted(r)
		res = map[string]any{"replies": machReplies(d.Replies)}
	case "Ack":
		off := uint64(kit.Int(ev, "off"))
		if off > st.LEO {
			// the reactor never lets such a call through; reaching this means the
			// behaviour and the state disagree already, which was reported earlier
			return nil, nil, infraf("machine level Ack above LEO (%d > %d)", off, st.LEO)
		}
		d := st.ApplyFollowerAck(machine.FollowerAck{Follower: ch.NodeID(kit.Int(ev, "f")), MatchOffset: off})
		res = map[string]any{"rejected": false, "replies": machReplies(d.Replies)}
	case "Cancel":
		res = map[string]any{"ok": st.CancelAppendWaiter(ch.OpID(kit.Int(ev, "op")))}
	case "Abort":
		st.AbortAppendBatchProposal(ch.OpID(kit.Int(ev, "b")))
		res = map[string]any{"ok": true}
	case "Checkpoint":
		if v := uint64(kit.Int(ev, "v")); v > st.CheckpointHW {
			st.CheckpointHW = v
		}
		res = map[string]any{"ok": true}
	default:
		return nil, nil, infraf("unknown machine level action %q", kit.Str(ev, "a"))
	}
	return res, s.proj(), nil
}

func (s *machSUT) proj() map[string]any {
	st := s.st
	prog := make([]int64, len(nodes))
	for i, n := range nodes {
		prog[i] = int64(st.Progress[n].Match)
	}
	ops := make([]int64, 0, len(st.PendingAppends))
	for op := range st.PendingAppends {
		ops = append(ops, int64(op))
	}
	sort.Slice(ops, func(i, j int) bool { return ops[i] < ops[j] })
	pend := []any{}
	for _, op := range ops {
		w := st.PendingAppends[ch.OpID(op)]
		if w == nil {
			pend = append(pend, map[string]any{"op": op, "target": -1, "mode": "nil", "n": 0})
			continue
		}
		pend = append(pend, map[string]any{"op": op, "target": w.Target, "mode": modeName(w.CommitMode), "n": len(w.Records)})
	}
	infl := map[string]any{"op": 0, "wops": []any{}, "counts": []any{}}
	if a := st.InflightAppend; a != nil {
		wops := []any{}
		for _, o := range a.WaiterOpIDs {
			wops = append(wops, uint64(o))
		}
		counts := []any{}
		for _, c := range a.WaiterRecordCounts {
			counts = append(counts, c)
		}
		infl = map[string]any{"op": uint64(a.OpID), "wops": wops, "counts": counts}
	}
	return map[string]any{
		"role": roleName(st.Role), "epoch": st.Epoch, "lepoch": st.LeaderEpoch, "leader": uint64(st.Leader),
		"replicas": sortedNodes(st.Replicas), "isr": sortedNodes(st.ISR), "minISR": st.MinISR,
		"status": statusNames[st.Status], "ready": st.CommitReady,
		"leo": st.LEO, "hw": st.HW, "ckpt": st.CheckpointHW, "progress": prog,
		"pend": pend, "infl": infl, "inv": st.CheckInvariants() == nil,
	}
}

// ---- reactor level ----------------------------------------------------------------------

const reactorWait = 30 * time.Second

type reacSUT struct {
	g       *reactor.Group
	futures map[int64]*reactor.Future // outstanding append futures by op
	epoch   uint64                    // fence of the last accepted metadata
	lepoch  uint64
	leo     uint64
	pullOp  uint64
	broken  error
}

func newReacSUT(local int64) (*reacSUT, error) {
	g, err := reactor.NewGroup(reactor.Config{LocalNode: ch.NodeID(local), ReactorCount: 1, MailboxSize: 256,
		Store: store.NewMemoryFactory(), AppendBatchMaxRecords: 1})
	if err != nil {
		return nil, err
	}
	return &reacSUT{g: g, futures: map[int64]*reactor.Future{}, pullOp: 1 << 40}, nil
}

func (s *reacSUT) close() { _ = s.g.Close() }

// await waits for a future; a timeout is harness trouble.
func await(f *reactor.Future) (reactor.Result, error, error) {
	ctx, cancel := context.WithTimeout(context.Background(), reactorWait)
	defer cancel()
	res, err := f.Await(ctx)
	if err != nil && ctx.Err() != nil && errors.Is(err, ctx.Err()) {
		select {
		case <-f.Done():
		default:
			return res, nil, infraf("reactor did not answer within %s", reactorWait)
		}
	}
	return res, err, nil
}

func (s *reacSUT) submit(ev reactor.Event) (reactor.Result, error, error) {
	f, err := s.g.Submit(context.Background(), chanKey, ev)
	if err != nil {
		return reactor.Result{}, nil, infraf("Group.Submit: %v", err)
	}
	return await(f)
}

// view reads the exported retention view; an unloaded channel reads as the initial state.
func (s *reacSUT) view() (ch.RetentionView, bool, error) {
	ctx, cancel := context.WithTimeout(context.Background(), reactorWait)
	defer cancel()
	v, err := s.g.RetentionView(ctx, chanID)
	if err != nil {
		if errors.Is(err, ch.ErrChannelNotFound) {
			return ch.RetentionView{}, false, nil
		}
		return v, false, infraf("RetentionView: %v", err)
	}
	return v, true, nil
}

// harvest returns the replies of the append futures completed since the last call.
func (s *reacSUT) harvest() []any {
	out := []any{}
	for op, f := range s.futures {
		select {
		case <-f.Done():
			r := f.Result()
			out = append(out, reply(op, r.Err, r.AppendBatch.Items))
			delete(s.futures, op)
		default:
		}
	}
	return sortReplies(out)
}

func (s *reacSUT) apply(ev map[string]any, step int) (map[string]any, map[string]any, error) {
	if s.broken != nil {
		return nil, nil, s.broken
	}
	var res map[string]any
	switch kit.Str(ev, "a") {
	case "Meta":
		meta := metaOf(kit.Map(ev, "m"))
		_, err, infra := s.submit(reactor.Event{Kind: reactor.EventApplyMeta, Key: chanKey, Meta: meta})
		if infra != nil {
			s.broken = infra
			return nil, nil, infra
		}
		if err == nil {
			s.epoch, s.lepoch = meta.Epoch, meta.LeaderEpoch
		}
		res = map[string]any{"ok": err == nil, "replies": s.harvest()}
	case "Append":
		op := kit.Int(ev, "op")
		n := int(kit.Int(ev, "n"))
		msgs := make([]ch.Message, n)
		for i := range msgs {
			msgID++
			msgs[i] = ch.Message{MessageID: msgID, ChannelID: chanID.ID, ChannelType: chanID.Type, FromUID: "u", Payload: []byte{byte(msgID)}}
		}
		if _, dup := s.futures[op]; dup {
			return nil, nil, infraf("reactor level Append reuses outstanding op %d", op)
		}
		fut := reactor.NewFuture()
		if _, err := s.g.Submit(context.Background(), chanKey, reactor.Event{Kind: reactor.EventAppend, Key: chanKey,
			OpID: ch.OpID(op), Future: fut,
			Append: ch.AppendBatchRequest{ChannelID: chanID, CommitMode: modeOf(kit.Str(ev, "mode")), Messages: msgs}}); err != nil {
			return nil, nil, infraf("Group.Submit(Append): %v", err)
		}
		// The request is either answered (refused, or completed at store time) or stored and
		// left waiting for the quorum; the store result and its replies are handled in one
		// reactor turn, so a view that shows the new log end is taken after them.
		deadline := time.Now().Add(reactorWait)
		done := false
		for !done {
			select {
			case <-fut.Done():
				done = true
				continue
			default:
			}
			v, _, infra := s.view()
			if infra != nil {
				s.broken = infra
				return nil, nil, infra
			}
			if v.LEO >= s.leo+uint64(n) {
				break
			}
			if time.Now().After(deadline) {
				s.broken = infraf("append op %d neither answered nor stored within %s", op, reactorWait)
				return nil, nil, s.broken
			}
			time.Sleep(200 * time.Microsecond)
		}
		ok := true
		select {
		case <-fut.Done():
			ok = fut.Result().Err == nil
		default:
		}
		s.futures[op] = fut
		res = map[string]any{"ok": ok, "replies": s.harvest()}
		if !ok {
			// a refused request is not an answered append of the model
			res["replies"] = dropOp(res["replies"].([]any), op)
		}
	case "Ack":
		f := ch.NodeID(kit.Int(ev, "f"))
		off := uint64(kit.Int(ev, "off"))
		via := kit.Str(ev, "via")
		if via == "" {
			via = []string{"ack", "pull"}[step%2]
			ev["via"] = via
		}
		var err, infra error
		if via == "ack" {
			_, err, infra = s.submit(reactor.Event{Kind: reactor.EventAck, Key: chanKey,
				Ack: transport.AckRequest{ChannelKey: chanKey, Epoch: s.epoch, LeaderEpoch: s.lepoch, Follower: f, MatchOffset: off}})
		} else {
			s.pullOp++
			_, err, infra = s.submit(reactor.Event{Kind: reactor.EventPull, Key: chanKey, OpID: ch.OpID(s.pullOp),
				Pull: transport.PullRequest{ChannelKey: chanKey, ChannelID: chanID, Epoch: s.epoch, LeaderEpoch: s.lepoch,
					Follower: f, NextOffset: off + 1, AckOffset: off, MaxBytes: 1 << 20}})
		}
		if infra != nil {
			s.broken = infra
			return nil, nil, infra
		}
		res = map[string]any{"rejected": err != nil, "replies": s.harvest()}
	default:
		return nil, nil, infraf("unknown reactor level action %q", kit.Str(ev, "a"))
	}
	v, loaded, infra := s.view()
	if infra != nil {
		s.broken = infra
		return nil, nil, infra
	}
	s.leo = v.LEO
	if loaded && (v.CheckpointHW > v.HW || v.HW > v.LEO) {
		return nil, nil, errOrder{fmt.Sprintf("watermark order broken in the reactor: checkpoint=%d hw=%d leo=%d", v.CheckpointHW, v.HW, v.LEO)}
	}
	st := map[string]any{"role": roleName(v.Role), "leader": uint64(v.Leader),
		"replicas": sortedNodes(v.Replicas), "isr": sortedNodes(v.ISR), "leo": v.LEO, "hw": v.HW}
	return res, st, nil
}

func dropOp(rs []any, op int64) []any {
	out := []any{}
	for _, r := range rs {
		if r.(map[string]any)["op"].(int64) != op {
			out = append(out, r)
		}
	}
	return out
}

// ---- replay of TLC behaviours -----------------------------------------------------------

func newSUT(cfg map[string]any) (sut, error) {
	switch kit.Str(cfg, "level") {
	case "machine":
		return newMachSUT(kit.Int(cfg, "local")), nil
	case "reactor":
		return newReacSUT(kit.Int(cfg, "local"))
	}
	return nil, infraf("unknown level %q", kit.Str(cfg, "level"))
}

func subset(want any, keys map[string]any) any {
	wm, ok := kit.Canon(want).(map[string]any)
	if !ok {
		return want
	}
	out := map[string]any{}
	for k := range keys {
		out[k] = wm[k]
	}
	return out
}

func replay(rep *kit.Report, bi int, b kit.Behaviour) {
	if len(b.Steps) == 0 || kit.Str(b.Steps[0].Ev, "a") != "Init" {
		rep.Infra("behaviour %d does not start with Init", bi)
		return
	}
	cfg := kit.Map(b.Steps[0].Ev, "cfg")
	level := kit.Str(cfg, "level")
	if level == "follower" {
		replayFollower(rep, bi, b)
		return
	}
	s, err := newSUT(cfg)
	if err != nil {
		rep.Infra("behaviour %d: cannot construct the object: %v", bi, err)
		return
	}
	defer s.close()
	for si, st := range b.Steps[1:] {
		call := kit.CloneEv(st.Ev)
		res, proj, err := s.apply(call, si)
		rep.Cover(level + ":" + kit.Str(st.Ev, "a"))
		var infra errInfra
		if errors.As(err, &infra) {
			rep.Infra("behaviour %d step %d: %v", bi, si+1, err)
			break
		}
		if err != nil {
			rep.Violate(prop, kindOf(err), fmt.Sprintf("[%s] step %d %s: %v", level, si+1, kit.JSON(call), err),
				map[string]any{"behaviour": b, "step": si + 1})
			break
		}
		if d := kit.Diff(st.Ev["res"], res); d != "" {
			rep.Violate(prop, "reply", fmt.Sprintf("[%s] step %d %s: %s", level, si+1, kit.JSON(call), d),
				map[string]any{"behaviour": b, "step": si + 1, "observed": res})
			break
		}
		if d := kit.Diff(subset(st.St, proj), proj); d != "" {
			rep.Violate(prop, "state", fmt.Sprintf("[%s] step %d %s: %s", level, si+1, kit.JSON(call), d),
				map[string]any{"behaviour": b, "step": si + 1, "observed": proj})
			break
		}
	}
	rep.Replayed(len(b.Steps) - 1)
	rep.AddExtra("behaviours_"+level, 1)
}

// ---- seeded random drivers --------------------------------------------------------------

type quorum struct {
	isr    []int64
	minISR int64
}

var (
	quorums = []quorum{{[]int64{1}, 1}, {[]int64{1, 2}, 1}, {[]int64{1, 2}, 2}, {[]int64{1, 2, 3}, 1},
		{[]int64{1, 2, 3}, 2}, {[]int64{1, 2, 3}, 3}, {[]int64{1, 3}, 2}, {[]int64{2, 3}, 2}}
	badQuorums = []quorum{{[]int64{1}, 2}, {[]int64{1, 2}, 0}, {[]int64{1, 2, 3}, 4}, {[]int64{}, 1}}
	statuses   = []string{"creating", "active", "active", "active", "deleting", "deleted"}
	modes      = []string{"quorum", "quorum", "local", "default"}
)

func metaEv(epoch, lepoch uint64, leader int64, q quorum, status string, rng *rand.Rand) map[string]any {
	replicas := []int64{1, 2, 3}
	if rng.Intn(4) == 0 {
		// a replica set that just covers the ISR
		replicas = append([]int64{}, q.isr...)
	}
	return kit.Ev("Meta", "m", map[string]any{"epoch": epoch, "lepoch": lepoch, "leader": leader,
		"replicas": replicas, "isr": q.isr, "minISR": q.minISR, "status": status})
}

// randomMeta draws the next metadata relative to the current fence of the real object.
func randomMeta(rng *rand.Rand, epoch, lepoch uint64, leader int64, role string, local int64, reactorLevel bool) map[string]any {
	q := quorums[rng.Intn(len(quorums))]
	if rng.Intn(12) == 0 {
		q = badQuorums[rng.Intn(len(badQuorums))]
	}
	if reactorLevel && (len(q.isr) == 0 || q.isr[0] != 1) {
		q = quorums[rng.Intn(6)]
	}
	status := "active"
	if !reactorLevel && rng.Intn(5) == 0 {
		status = statuses[rng.Intn(len(statuses))]
	}
	other := int64(2 + rng.Intn(2))
	switch r := rng.Intn(100); {
	case role == "none" || (role != "leader" && r < 50):
		if epoch == 0 {
			epoch = 1
		}
		return metaEv(epoch, lepoch+1, local, q, status, rng)
	case r < 35: // same fence, refreshed membership
		return metaEv(epoch, lepoch, leader, q, status, rng)
	case r < 55: // next fence, local leader
		if rng.Intn(3) == 0 {
			return metaEv(epoch+1, uint64(1+rng.Intn(2)), local, q, status, rng)
		}
		return metaEv(epoch, lepoch+1, local, q, status, rng)
	case r < 70: // older fence
		if lepoch > 0 && rng.Intn(2) == 0 {
			return metaEv(epoch, lepoch-1, leader, q, status, rng)
		}
		if epoch > 0 {
			return metaEv(epoch-1, lepoch+uint64(rng.Intn(3)), leader, q, status, rng)
		}
		return metaEv(epoch, lepoch, leader, q, status, rng)
	case r < 85: // same fence, leader switch
		l := other
		if leader != local {
			l = local
		}
		if reactorLevel {
			l = local
		}
		return metaEv(epoch, lepoch, l, q, status, rng)
	default: // lose leadership (machine level) / bump the epoch (reactor level)
		if reactorLevel {
			return metaEv(epoch+1, 1, local, q, status, rng)
		}
		return metaEv(epoch, lepoch+1, other, q, status, rng)
	}
}

func driveMachine(rep *kit.Report, rec *kit.Recorder, rng *rand.Rand, steps int) {
	const local = 1
	s := newMachSUT(local)
	rec.Begin(map[string]any{"cfg": map[string]any{"local": local, "level": "machine"}}, s.proj())
	nextOp := int64(1)
	nextBatch := int64(100)
	used := []int64{}
	for i := 0; i < steps; i++ {
		st := s.st
		curFence := func(op int64) map[string]any {
			return map[string]any{"epoch": st.Epoch, "lepoch": st.LeaderEpoch, "op": op, "gen": 1}
		}
		staleFence := func() map[string]any {
			op := int64(0)
			if st.InflightAppend != nil {
				op = int64(st.InflightAppend.OpID)
			}
			f := curFence(op)
			switch rng.Intn(4) {
			case 0:
				f["epoch"] = st.Epoch + 1
			case 1:
				if st.LeaderEpoch > 0 && rng.Intn(2) == 0 {
					f["lepoch"] = st.LeaderEpoch - 1
				} else {
					f["lepoch"] = st.LeaderEpoch + 1
				}
			case 2:
				f["op"] = op + 1 + int64(rng.Intn(3))
			default:
				f["gen"] = 2
			}
			return f
		}
		total := 0
		if st.InflightAppend != nil {
			for _, c := range st.InflightAppend.WaiterRecordCounts {
				total += c
			}
		}
		var ev map[string]any
		switch r := rng.Intn(100); {
		case r < 14:
			ev = randomMeta(rng, st.Epoch, st.LeaderEpoch, int64(st.Leader), roleName(st.Role), local, false)
		case r < 34:
			n := 1 + rng.Intn(4)
			if rng.Intn(3) > 0 {
				n = 1 + rng.Intn(2)
			}
			ws := []any{}
			for k := 0; k < n; k++ {
				op := nextOp
				nextOp++
				switch {
				case rng.Intn(12) == 0 && len(used) > 0: // an op id seen before (answered, cancelled or still pending)
					op = used[rng.Intn(len(used))]
					nextOp--
				case rng.Intn(40) == 0 && k > 0: // duplicate inside the batch
					op = kit.Int(ws[0].(map[string]any), "op")
					nextOp--
				}
				cnt := 1 + rng.Intn(3)
				if rng.Intn(40) == 0 {
					cnt = 0
				}
				ws = append(ws, map[string]any{"op": op, "mode": modes[rng.Intn(len(modes))], "n": cnt})
				used = append(used, op)
			}
			if rng.Intn(50) == 0 {
				ws = []any{}
			}
			nextBatch++
			ev = kit.Ev("Propose", "b", nextBatch, "ws", ws)
		case r < 52:
			if st.InflightAppend == nil || rng.Intn(6) == 0 {
				ev = kit.Ev("Stored", "fence", staleFence(), "base", st.LEO+1, "last", st.LEO+uint64(1+rng.Intn(2)), "err", rng.Intn(4) == 0)
				break
			}
			f := curFence(int64(st.InflightAppend.OpID))
			switch k := rng.Intn(10); {
			case k < 7:
				ev = kit.Ev("Stored", "fence", f, "base", st.LEO+1, "last", st.LEO+uint64(total), "err", false)
			case k < 9:
				base := uint64(1 + rng.Intn(int(st.LEO)+3))
				last := base + uint64(total) - 1
				if rng.Intn(3) == 0 && last > 0 {
					last--
				}
				ev = kit.Ev("Stored", "fence", f, "base", base, "last", last, "err", false)
			default:
				ev = kit.Ev("Stored", "fence", f, "base", 0, "last", 0, "err", true)
			}
		case r < 60:
			if st.InflightAppend == nil || rng.Intn(6) == 0 {
				ev = kit.Ev("Quorum", "fence", staleFence(), "first", st.LEO+1, "last", st.LEO+1, "hw", st.LEO+1, "err", false)
				break
			}
			f := curFence(int64(st.InflightAppend.OpID))
			first := st.LEO + 1
			if rng.Intn(5) == 0 {
				first = uint64(rng.Intn(int(st.LEO) + 3))
			}
			last := first + uint64(total) - 1
			hw := last
			switch rng.Intn(8) {
			case 0:
				last++
			case 1:
				if hw > 0 {
					hw--
				}
			case 2:
				hw++
			}
			if first == 0 && total == 0 {
				last = 0
			}
			ev = kit.Ev("Quorum", "fence", f, "first", first, "last", last, "hw", hw, "err", rng.Intn(10) == 0)
		case r < 85:
			f := int64(1 + rng.Intn(4)) // 4 is never a replica
			off := uint64(rng.Intn(int(st.LEO) + 1))
			if rng.Intn(2) == 0 {
				off = st.LEO
			}
			if f == 4 && rng.Intn(2) == 0 {
				f = 2
			}
			ev = kit.Ev("Ack", "f", f, "off", off)
		case r < 91:
			op := int64(1 + rng.Intn(int(nextOp)))
			for o := range st.PendingAppends {
				if rng.Intn(2) == 0 {
					op = int64(o)
					break
				}
			}
			ev = kit.Ev("Cancel", "op", op)
		case r < 94:
			b := nextBatch - int64(rng.Intn(2))
			if st.InflightAppend != nil && rng.Intn(2) == 0 {
				b = int64(st.InflightAppend.OpID)
			}
			ev = kit.Ev("Abort", "b", b)
		default:
			v := uint64(rng.Intn(int(st.HW) + 1))
			if rng.Intn(2) == 0 {
				v = st.HW
			}
			ev = kit.Ev("Checkpoint", "v", v)
		}
		ev = kit.Canon(ev).(map[string]any) // same value shapes as a decoded behaviour
		res, proj, err := s.apply(ev, i)
		if err != nil {
			var infra errInfra
			if errors.As(err, &infra) {
				rep.Infra("machine driver: %v", err)
			} else {
				rep.Violate(prop, "reply", fmt.Sprintf("%s: %v", kit.JSON(ev), err), map[string]any{"event": ev})
			}
			return
		}
		ev["res"] = res
		rec.Step(ev, proj)
		rep.Cover("machine:" + kit.Str(ev, "a"))
	}
}

func driveReactor(rep *kit.Report, rec *kit.Recorder, rng *rand.Rand, steps int) {
	const local = 1
	s, err := newReacSUT(local)
	if err != nil {
		rep.Infra("reactor driver: cannot start a reactor group: %v", err)
		return
	}
	defer s.close()
	rec.Begin(map[string]any{"cfg": map[string]any{"local": local, "level": "reactor"}},
		map[string]any{"role": "none", "leader": 0, "replicas": []any{}, "isr": []any{}, "leo": 0, "hw": 0})
	nextOp := int64(1)
	role, leader := "none", int64(0)
	for i := 0; i < steps; i++ {
		var ev map[string]any
		switch r := rng.Intn(100); {
		case role == "none" && r < 70, r < 10:
			ev = randomMeta(rng, s.epoch, s.lepoch, leader, role, local, true)
		case r < 45:
			ev = kit.Ev("Append", "op", nextOp, "mode", modes[rng.Intn(len(modes))], "n", 1+rng.Intn(3))
			nextOp++
		default:
			f := int64(1 + rng.Intn(4))
			if f == 4 && rng.Intn(2) == 0 {
				f = 2
			}
			var off uint64
			switch k := rng.Intn(10); {
			case k < 3:
				off = s.leo
			case k < 6:
				off = s.leo + 1 + uint64(rng.Intn(2))
			default:
				off = uint64(rng.Intn(int(s.leo) + 2))
			}
			ev = kit.Ev("Ack", "f", f, "off", off, "via", []string{"ack", "pull"}[rng.Intn(2)])
		}
		ev = kit.Canon(ev).(map[string]any)
		res, proj, err := s.apply(ev, i)
		if err != nil {
			var infra errInfra
			if errors.As(err, &infra) {
				rep.Infra("reactor driver: %v", err)
			} else {
				rep.Violate(prop, kindOf(err), fmt.Sprintf("[reactor] %s: %v", kit.JSON(ev), err), map[string]any{"event": ev})
			}
			return
		}
		role, leader = proj["role"].(string), int64(proj["leader"].(uint64))
		ev["res"] = res
		rec.Step(ev, proj)
		rep.Cover("reactor:" + kit.Str(ev, "a"))
	}
}

// unknownViolations counts the violations that do not carry one of the known-finding signatures
// of the follower level (those are reported once per run and must not stop the exploration).
func unknownViolations(rep *kit.Report) int {
	return rep.Violations() - len(reportedSig)
}

func TestVerifChannelMachine(t *testing.T) {
	env, ok := kit.LoadEnv()
	if !ok {
		t.Skip("not started by the verif runner")
	}
	rep := kit.NewReport(env, "channelmachine")
	rec, err := kit.NewRecorder(env.TraceFile)
	if err != nil {
		t.Fatal(err)
	}

	// ---- spec -> code: replay TLC behaviours ----
	behs, err := kit.LoadBehaviours(env.BehFile)
	if err != nil {
		rep.Infra("load behaviours: %v", err)
	}
	for bi, b := range behs {
		if unknownViolations(rep) >= 2 {
			break
		}
		replay(rep, bi, b)
		if bi == 0 {
			rep.Sample(b)
		}
	}

	// ---- code -> spec: seeded random drivers, traces validated by TLC ----
	rng := env.Rand()
	for tr := 0; tr < env.Pick(80, 1200) && unknownViolations(rep) == 0; tr++ {
		driveMachine(rep, rec, rng, 25+rng.Intn(40))
	}
	for tr := 0; tr < env.Pick(25, 250) && unknownViolations(rep) == 0; tr++ {
		driveReactor(rep, rec, rng, 20+rng.Intn(25))
	}
	// follower level: the scenarios of the candidate defects, then seeded cases (every 8th one ends
	// with a leader's answer from the region of the known findings)
	scenarioLoadingLeaderSwitch(rep)
	scenarioHWBelowCheckpoint(rep)
	scenarioHWRegress(rep)
	scenarioRealLeaderRestart(rep)
	for tr := 0; tr < env.Pick(60, 700) && unknownViolations(rep) == 0; tr++ {
		driveFollower(rep, rec, rng, 25+rng.Intn(30), tr%4 == 3, tr%8 == 5)
	}
	if err := rec.Close(); err != nil {
		rep.Infra("trace file: %v", err)
	}
	if err := rep.Finish(rec); err != nil {
		t.Fatal(err)
	}
}

package statefile

// Conformance harness for specs/StateFile (property C19), binding method D.
//
// A package of the runner module (exported API only).  The real statefile.Store.Save runs
// in a CHILD process (this test binary re-executing itself with VERIF_C19_CHILD set) under
// strace; the parent looks at what the kernel was asked to do and at what the real
// Store.Load makes of the result.
//
//	(1) observation: `strace -f -e trace=openat,write,...` records the system calls of two
//	    consecutive Saves; the calls on the state-file paths are mapped to the steps of the
//	    specification (Create / OpenTrunc / Write / Fsync / Close / Rename / Unlink / FsyncDir,
//	    Begin / Return markers) and written as the trace TLC validates: specs/StateFile/Trace.tla
//	    replays them on the file-system crash model in the OBSERVED order and checks old-or-new
//	    in every crash state (process kill and power loss) reachable along that order;
//	(2) process kill: `strace -e inject=<syscall>:signal=SIGKILL:when=k` kills the child on
//	    entering each observed call in turn; the parent then calls the real Load, which must
//	    return the previous or the new state;
//	(3) corruption: bytes of a saved file are flipped at a handful of positions of every
//	    top-level field; Load must reject the file (or, if the change is immaterial to the
//	    decoder - e.g. the letter case of a key -, return exactly the saved state).

import (
	"bufio"
	"bytes"
	"context"
	"encoding/json"
	"errors"
	"fmt"
	"os"
	"os/exec"
	"path/filepath"
	"reflect"
	"regexp"
	"runtime"
	"sort"
	"strconv"
	"strings"
	"syscall"
	"testing"
	"time"

	"github.com/WuKongIM/WuKongIM/pkg/controller/state"
	"github.com/WuKongIM/WuKongIM/pkg/controller/statefile"
	"verif/runner/kit"
)

const (
	baseRev  = 7 // revision of "version 0", the state on disk before the traced Saves
	mainName = "cluster-state.json"
	traceSet = "trace=openat,write,pwrite64,fsync,fdatasync,close,rename,renameat,renameat2,unlink,unlinkat"
)

var bg = context.Background()

// clusterState is a valid cluster state; its revision identifies the version.
func clusterState(rev uint64) state.ClusterState {
	table, err := state.BuildInitialHashSlotTable(1, 16)
	if err != nil {
		panic(err)
	}
	return state.ClusterState{
		SchemaVersion: state.CurrentSchemaVersion, ClusterID: "wk-verif-c19", Revision: rev, AppliedRaftIndex: rev * 10,
		UpdatedAt:   time.Date(2026, 5, 24, 10, 0, 0, 0, time.UTC).Add(time.Duration(rev) * time.Minute),
		Config:      state.ClusterConfig{SlotCount: 1, HashSlotCount: 16, ReplicaCount: 3},
		Controllers: []state.ControllerVoter{{NodeID: 1, Addr: "n1", Role: state.ControllerRoleVoter}, {NodeID: 2, Addr: "n2", Role: state.ControllerRoleVoter}},
		Nodes: []state.Node{
			{NodeID: 1, Name: "n1", Addr: "n1", Roles: []state.NodeRole{state.NodeRoleControllerVoter, state.NodeRoleData}, JoinState: state.NodeJoinStateActive, Status: state.NodeStatusAlive, CapacityWeight: 100},
			{NodeID: 2, Name: "n2", Addr: "n2", Roles: []state.NodeRole{state.NodeRoleControllerVoter, state.NodeRoleData}, JoinState: state.NodeJoinStateActive, Status: state.NodeStatusAlive, CapacityWeight: 100},
			{NodeID: 3, Name: "n3", Addr: "n3", Roles: []state.NodeRole{state.NodeRoleData}, JoinState: state.NodeJoinStateActive, Status: state.NodeStatusAlive, CapacityWeight: 100},
		},
		Slots:     []state.SlotAssignment{{SlotID: 1, DesiredPeers: []uint64{1, 2, 3}, ConfigEpoch: 1, PreferredLeader: 1}},
		HashSlots: table,
		Tasks:     []state.ReconcileTask{},
	}
}

// TestMain: with VERIF_C19_CHILD set this process is the traced child.  It runs the real
// Store.Save for consecutive revisions on one OS thread (so that strace's per-thread
// injection counters are deterministic) and announces each Save on stdout (a traced write).
func init() {
	// init functions run on the main thread: locking here keeps the main goroutine (and with
	// it every system call of Save in the child) on the thread whose calls strace counted
	// from the start of the process
	if os.Getenv("VERIF_C19_CHILD") != "" {
		runtime.LockOSThread()
	}
}

func TestMain(m *testing.M) {
	if path := os.Getenv("VERIF_C19_CHILD"); path != "" {
		from, _ := strconv.Atoi(os.Getenv("VERIF_C19_FROM"))
		n, _ := strconv.Atoi(os.Getenv("VERIF_C19_SAVES"))
		st := statefile.New(path)
		for i := 0; i < n; i++ {
			rev := uint64(from + i)
			os.Stdout.WriteString(fmt.Sprintf("C19BEGIN %d\n", rev))
			if err := st.Save(context.Background(), clusterState(rev)); err != nil {
				os.Stdout.WriteString("C19ERROR " + err.Error() + "\n")
				os.Exit(3)
			}
			os.Stdout.WriteString(fmt.Sprintf("C19RETURN %d\n", rev))
		}
		os.Exit(0)
	}
	os.Exit(m.Run())
}

// ---- strace ------------------------------------------------------------------------------------

type sysc struct {
	pid  string
	name string
	args string
	ret  string // "" when the call never returned (killed)
	strs []string
}

var (
	reLine    = regexp.MustCompile(`^(\d+)\s+(.*)$`)
	reCall    = regexp.MustCompile(`^(\w+)\((.*)\)\s+=\s+(-?\d+|\?)`)
	reUnfin   = regexp.MustCompile(`^(\w+)\((.*) <unfinished \.\.\.>$`)
	reResumed = regexp.MustCompile(`^<\.\.\. (\w+) resumed>(.*)$`)
	reQuoted  = regexp.MustCompile(`"((?:[^"\\]|\\.)*)"`)
)

// parseStrace reads `strace -f -o` output into calls in log order (a call split by
// strace into "<unfinished ...>" / "<... resumed>" is placed where it was entered).
func parseStrace(path string) ([]sysc, error) {
	f, err := os.Open(path)
	if err != nil {
		return nil, err
	}
	defer f.Close()
	var out []sysc
	pendingAt := map[string]int{}
	sc := bufio.NewScanner(f)
	sc.Buffer(make([]byte, 1<<20), 1<<26)
	mk := func(pid, name, args, ret string) sysc {
		c := sysc{pid: pid, name: name, args: args, ret: ret}
		for _, m := range reQuoted.FindAllStringSubmatch(args, -1) {
			c.strs = append(c.strs, m[1])
		}
		return c
	}
	for sc.Scan() {
		m := reLine.FindStringSubmatch(sc.Text())
		if m == nil {
			continue
		}
		pid, rest := m[1], m[2]
		if strings.HasPrefix(rest, "---") || strings.HasPrefix(rest, "+++") {
			continue
		}
		if u := reUnfin.FindStringSubmatch(rest); u != nil {
			pendingAt[pid] = len(out)
			out = append(out, mk(pid, u[1], u[2], ""))
			continue
		}
		if r := reResumed.FindStringSubmatch(rest); r != nil {
			if i, ok := pendingAt[pid]; ok {
				delete(pendingAt, pid)
				full := out[i].name + "(" + out[i].args + r[2]
				if c := reCall.FindStringSubmatch(full); c != nil {
					ret := c[3]
					if ret == "?" {
						ret = ""
					}
					out[i] = mk(pid, c[1], c[2], ret)
				}
			}
			continue
		}
		if c := reCall.FindStringSubmatch(rest); c != nil {
			ret := c[3]
			if ret == "?" {
				ret = ""
			}
			out = append(out, mk(pid, c[1], c[2], ret))
		}
	}
	return out, sc.Err()
}

func firstInt(args string) int {
	i := strings.IndexAny(args, ",)")
	if i < 0 {
		i = len(args)
	}
	n, err := strconv.Atoi(strings.TrimSpace(args[:i]))
	if err != nil {
		return -1
	}
	return n
}

// one call on the state-file paths (or a Begin/Return marker), mapped to a step of the specification
type step struct {
	ev    map[string]any
	call  sysc
	nth   int // occurrence number of call.name on call.pid in the whole log (strace's injection counter)
	lo,hi int // versions before this call executes
}

type mapper struct {
	dir, main string
	handles   map[int]int    // fd -> handle
	dirfds    map[int]bool   // fd -> is the directory
	names     map[string]string
	written   map[int]int64 // handle -> bytes written
	nwrites   map[int]int
	expect    int64
}

// nameOf maps a path to the specification's name for it: the main file, or "tN" for the
// N-th other file.  A file counts when it lives in the state directory or (create = true)
// when it is being created for writing anywhere else (a temp file kept in another directory
// and renamed into place); the model has one directory, which is exact for the main name.
func (m *mapper) nameOf(path string, create bool) (string, bool) {
	if path == m.main {
		return "main", true
	}
	if n, ok := m.names[path]; ok {
		return n, true
	}
	if filepath.Dir(path) != m.dir && !create {
		return "", false
	}
	n := fmt.Sprintf("t%d", len(m.names)+1)
	m.names[path] = n
	return n, true
}

func (m *mapper) freeHandle() int {
	used := map[int]bool{}
	for _, h := range m.handles {
		used[h] = true
	}
	for h := 1; ; h++ {
		if !used[h] {
			return h
		}
	}
}

// mapCalls turns the parsed log into specification steps.  expectLen(rev) is the length of
// the encoding of revision rev: a temp file is complete when that many bytes were written.
func mapCalls(calls []sysc, dir string, expectLen func(rev int) int64) ([]step, error) {
	m := &mapper{dir: dir, main: filepath.Join(dir, mainName), handles: map[int]int{}, dirfds: map[int]bool{}, names: map[string]string{},
		written: map[int]int64{}, nwrites: map[int]int{}}
	counts := map[string]int{}
	var out []step
	lo, hi := 0, 0
	add := func(c sysc, nth int, ev map[string]any) {
		out = append(out, step{ev: ev, call: c, nth: nth, lo: lo, hi: hi})
	}
	for _, c := range calls {
		key := c.pid + "/" + c.name
		counts[key]++
		nth := counts[key]
		failed := strings.HasPrefix(c.ret, "-")
		switch c.name {
		case "write", "pwrite64":
			fd := firstInt(c.args)
			if fd == 1 && len(c.strs) > 0 {
				s := strings.ReplaceAll(c.strs[0], `\n`, "")
				if v, ok := strings.CutPrefix(s, "C19BEGIN "); ok {
					rev, _ := strconv.Atoi(v)
					add(c, nth, kit.Ev("Begin", "v", rev-baseRev, "res", map[string]any{"ok": true}))
					hi = rev - baseRev
					m.expect = expectLen(rev)
				} else if v, ok := strings.CutPrefix(s, "C19RETURN "); ok {
					rev, _ := strconv.Atoi(v)
					add(c, nth, kit.Ev("Return", "v", rev-baseRev, "res", map[string]any{"ok": true}))
					lo = hi
				} else if strings.HasPrefix(s, "C19ERROR") {
					return nil, fmt.Errorf("child reported %s", s)
				}
				continue
			}
			h, ok := m.handles[fd]
			if !ok {
				continue
			}
			if failed {
				return nil, fmt.Errorf("write on a state file failed: %s(%s) = %s", c.name, c.args, c.ret)
			}
			n, _ := strconv.ParseInt(c.ret, 10, 64)
			m.written[h] += n
			m.nwrites[h]++
			// the chunk count is patched in when the handle is closed / the log ends
			add(c, nth, kit.Ev("Write", "h", h, "n", 0, "res", map[string]any{"ok": true, "done": m.written[h] == m.expect}))
		case "openat":
			if failed || len(c.strs) == 0 {
				continue
			}
			path := c.strs[0]
			fd, _ := strconv.Atoi(c.ret)
			if path == dir {
				m.dirfds[fd] = true
				continue
			}
			flags := c.args
			writes := strings.Contains(flags, "O_WRONLY") || strings.Contains(flags, "O_RDWR")
			if !writes {
				continue // a reader (Load)
			}
			name, ok := m.nameOf(path, strings.Contains(flags, "O_CREAT") && strings.Contains(flags, "O_EXCL") && strings.Contains(filepath.Base(path), mainName))
			if !ok {
				continue
			}
			h := m.freeHandle()
			m.handles[fd] = h
			m.written[h], m.nwrites[h] = 0, 0
			if name == "main" || !strings.Contains(flags, "O_CREAT") || !strings.Contains(flags, "O_EXCL") {
				if name == "main" || strings.Contains(flags, "O_TRUNC") {
					add(c, nth, kit.Ev("OpenTrunc", "h", h, "name", name, "res", map[string]any{"ok": true}))
					continue
				}
				return nil, fmt.Errorf("unmodelled open of a state file: openat(%s)", c.args)
			}
			add(c, nth, kit.Ev("Create", "h", h, "name", name, "res", map[string]any{"ok": true}))
		case "fsync", "fdatasync":
			fd := firstInt(c.args)
			if m.dirfds[fd] {
				add(c, nth, kit.Ev("FsyncDir", "res", map[string]any{"ok": true}))
			} else if h, ok := m.handles[fd]; ok {
				add(c, nth, kit.Ev("Fsync", "h", h, "res", map[string]any{"ok": true}))
			}
		case "close":
			fd := firstInt(c.args)
			if m.dirfds[fd] {
				delete(m.dirfds, fd)
				add(c, nth, nil) // a kill point, not a step of the specification
			} else if h, ok := m.handles[fd]; ok {
				delete(m.handles, fd)
				add(c, nth, kit.Ev("Close", "h", h, "res", map[string]any{"ok": true}))
			}
		case "rename", "renameat", "renameat2":
			if failed || len(c.strs) < 2 {
				continue
			}
			a, okA := m.nameOf(c.strs[0], false)
			b, okB := m.nameOf(c.strs[1], false)
			if okA && okB {
				add(c, nth, kit.Ev("Rename", "from", a, "to", b, "res", map[string]any{"ok": true}))
			}
		case "unlink", "unlinkat":
			if failed || len(c.strs) < 1 {
				continue
			}
			if a, ok := m.nameOf(c.strs[0], false); ok {
				add(c, nth, kit.Ev("Unlink", "name", a, "res", map[string]any{"ok": true}))
			}
		}
	}
	// chunk counts: a file written in k calls whose last one completed the encoding has n = k,
	// one that never became complete has n = k + 1 (never complete)
	total := map[int]int{} // index of the Create/OpenTrunc step -> writes
	open := map[int]int{}  // handle -> index of its open step
	for i, s := range out {
		if s.ev == nil {
			continue
		}
		switch kit.Str(s.ev, "a") {
		case "Create", "OpenTrunc":
			open[int(kit.Int(s.ev, "h"))] = i
			total[i] = 0
		case "Write":
			total[open[int(kit.Int(s.ev, "h"))]]++
		}
	}
	complete := map[int]bool{}
	cur := map[int]int{}
	for i, s := range out {
		if s.ev == nil {
			continue
		}
		switch kit.Str(s.ev, "a") {
		case "Create", "OpenTrunc":
			cur[int(kit.Int(s.ev, "h"))] = i
		case "Write":
			if kit.Bool(kit.Map(s.ev, "res"), "done") {
				complete[cur[int(kit.Int(s.ev, "h"))]] = true
			}
		}
	}
	for i, s := range out {
		if s.ev == nil {
			continue
		}
		switch kit.Str(s.ev, "a") {
		case "Create", "OpenTrunc":
			cur[int(kit.Int(s.ev, "h"))] = i
		case "Write":
			o := cur[int(kit.Int(s.ev, "h"))]
			n := total[o]
			if !complete[o] {
				n++
			}
			out[i].ev["n"] = n
		}
	}
	return out, nil
}

// runChild runs the child under strace; inject is "" or "<syscall>:signal=SIGKILL:when=k".
func runChild(path, log string, from, saves int, inject string) (killed bool, err error) {
	args := []string{"-f", "-o", log, "-s", "48", "-e", traceSet}
	if inject != "" {
		args = append(args, "-e", "inject="+inject)
	}
	args = append(args, os.Args[0], "-test.run=^$")
	cmd := exec.Command("strace", args...)
	cmd.Env = append(os.Environ(), "VERIF_C19_CHILD="+path, "VERIF_C19_FROM="+strconv.Itoa(from), "VERIF_C19_SAVES="+strconv.Itoa(saves))
	var outb bytes.Buffer
	cmd.Stdout, cmd.Stderr = &outb, &outb
	err = cmd.Run()
	if err == nil {
		return false, nil
	}
	var ee *exec.ExitError
	if errors.As(err, &ee) {
		if ws, ok := ee.Sys().(syscall.WaitStatus); ok && (ws.Signaled() && ws.Signal() == syscall.SIGKILL || ws.ExitStatus() == 137) {
			return true, nil
		}
	}
	return false, fmt.Errorf("strace child: %v: %s", err, strings.TrimSpace(outb.String()))
}

func freshDir(root string, n int) (string, string, error) {
	dir := filepath.Join(root, fmt.Sprintf("d%d", n))
	if err := os.MkdirAll(dir, 0o755); err != nil {
		return "", "", err
	}
	path := filepath.Join(dir, mainName)
	if err := statefile.New(path).Save(bg, clusterState(baseRev)); err != nil {
		return "", "", fmt.Errorf("prepare version 0: %w", err)
	}
	return dir, path, nil
}

func canonState(st state.ClusterState) string {
	raw, err := state.Encode(st)
	if err != nil {
		return "unencodable: " + err.Error()
	}
	return string(raw)
}

// ---- the test ----------------------------------------------------------------------------------

func TestVerifStateFile(t *testing.T) {
	env, ok := kit.LoadEnv()
	if !ok {
		t.Skip("not started by the verif runner")
	}
	id := env.Property
	if id == "" {
		id = "C19"
	}
	rep := kit.NewReport(env, "statefile")
	rec, err := kit.NewRecorder(env.TraceFile)
	if err != nil {
		t.Fatal(err)
	}
	finish := func() {
		if err := rec.Close(); err != nil {
			rep.Infra("trace file: %v", err)
		}
		if err := rep.Finish(rec); err != nil {
			t.Fatal(err)
		}
	}
	defer finish()
	if _, err := exec.LookPath("strace"); err != nil {
		rep.Infra("strace is not installed: %v", err)
		return
	}
	root := t.TempDir()
	expectLen := func(rev int) int64 {
		raw, err := state.Encode(clusterState(uint64(rev)))
		if err != nil {
			return -1
		}
		return int64(len(raw))
	}
	saves := env.Pick(2, 3)
	ndir := 0

	// ---- (1) observation: the system calls of two consecutive Saves ----
	ndir++
	dir, path, err := freshDir(root, ndir)
	if err != nil {
		rep.Infra("%v", err)
		return
	}
	obsLog := filepath.Join(root, "observe.strace")
	if killed, err := runChild(path, obsLog, baseRev+1, saves, ""); err != nil || killed {
		rep.Infra("observation run: killed=%v err=%v", killed, err)
		return
	}
	calls, err := parseStrace(obsLog)
	if err != nil {
		rep.Infra("parse strace output: %v", err)
		return
	}
	steps, err := mapCalls(calls, dir, expectLen)
	if err != nil {
		rep.Infra("map system calls: %v", err)
		return
	}
	seen := map[string]int{}
	var events []map[string]any
	for _, s := range steps {
		if s.ev != nil {
			seen[kit.Str(s.ev, "a")]++
			events = append(events, s.ev)
		}
	}
	if seen["Begin"] != saves || seen["Return"] != saves || seen["Write"] == 0 || seen["Create"]+seen["OpenTrunc"] == 0 {
		rep.Infra("observation run did not show the Saves (steps seen: %v); strace log %s", seen, obsLog)
		return
	}
	if st, err := statefile.New(path).Load(bg); err != nil || int(st.Revision) != baseRev+saves {
		rep.Infra("observation run: Load after %d Saves: revision %d, %v", saves, st.Revision, err)
		return
	}
	rec.Begin(map[string]any{}, map[string]any{"seq": 1})
	var order []string
	for i, ev := range events {
		ev, _ = kit.Canon(ev).(map[string]any)
		rec.Step(ev, map[string]any{"seq": i + 2})
		rep.Cover(kit.Str(ev, "a"))
		order = append(order, kit.Str(ev, "a"))
	}
	rep.Extra("observed_order", strings.Join(order, " "))

	// ---- (2) process kill on entering every observed call ----
	killViolations := 0
	for i, s := range steps {
		if killViolations >= 3 {
			break
		}
		var kdir, kpath string
		// strace counts the calls of one name per thread from the start of the process; the
		// few calls of the Go runtime before main are not exactly the same in every run, so the
		// count of the observation run is tried first and its neighbours after it, until the
		// kill lands where exactly i calls on the state file have completed.
		var (
			inject string
			landed bool
			tried  []string
		)
		for _, delta := range []int{0, 1, -1, 2, -2, 3, -3} {
			nth := s.nth + delta
			if nth < 1 {
				continue
			}
			ndir++
			var err error
			kdir, kpath, err = freshDir(root, ndir)
			if err != nil {
				rep.Infra("%v", err)
				return
			}
			klog := filepath.Join(root, fmt.Sprintf("kill%d_%d.strace", i, nth))
			inject = fmt.Sprintf("%s:signal=SIGKILL:when=%d", s.call.name, nth)
			killed, err := runChild(kpath, klog, baseRev+1, saves, inject)
			if err != nil {
				rep.Infra("kill run %d (%s): %v", i, inject, err)
				return
			}
			done := -1
			if killed {
				kcalls, err := parseStrace(klog)
				if err != nil {
					rep.Infra("kill run %d: %v", i, err)
					return
				}
				ksteps, err := mapCalls(kcalls, kdir, expectLen)
				if err != nil {
					rep.Infra("kill run %d: map system calls: %v", i, err)
					return
				}
				done = 0
				for _, ks := range ksteps {
					if ks.call.ret != "" {
						done++
					}
				}
			}
			tried = append(tried, fmt.Sprintf("%s: killed=%v completed=%d", inject, killed, done))
			if killed && done == i {
				landed = true
				if delta != 0 {
					rep.AddExtra("kill_injection_count_adjusted", 1)
				}
				break
			}
		}
		if !landed {
			rep.Infra("kill point %d: no injection killed the child after exactly %d calls on the state file (%s)", i, i, strings.Join(tried, "; "))
			return
		}
		rep.Replayed(1)
		rep.Cover("KillCrash")
		what := fmt.Sprintf("process killed on entering call %d of %d: %s(%s) [previous revision %d, new %d]", i+1, len(steps), s.call.name, s.call.args,
			baseRev+s.lo, baseRev+s.hi)
		got, lerr := statefile.New(kpath).Load(bg)
		listing, _ := os.ReadDir(kdir)
		var files []string
		for _, e := range listing {
			info, _ := e.Info()
			files = append(files, fmt.Sprintf("%s(%d)", e.Name(), info.Size()))
		}
		replay := map[string]any{"kill": inject, "call": s.call.name + "(" + s.call.args + ")", "observed_order": order, "files_after_kill": files}
		switch {
		case lerr != nil:
			killViolations++
			rep.Violate(id, "kill", what+": Load fails: "+lerr.Error(), replay)
			continue
		case int(got.Revision) != baseRev+s.lo && int(got.Revision) != baseRev+s.hi:
			killViolations++
			rep.Violate(id, "kill", fmt.Sprintf("%s: Load returns revision %d", what, got.Revision), replay)
			continue
		case canonState(got) != canonState(clusterState(got.Revision)):
			killViolations++
			rep.Violate(id, "kill", what+": Load returns a state that is not the one saved under that revision", replay)
			continue
		}
		// restart: the next Save must go through on top of whatever the kill left behind
		next := got.Revision + 1
		if err := statefile.New(kpath).Save(bg, clusterState(next)); err != nil {
			rep.AddExtra("save_after_kill_failed", 1)
		} else if st, err := statefile.New(kpath).Load(bg); err != nil || st.Revision != next {
			rep.AddExtra("save_after_kill_failed", 1)
		} else {
			rep.AddExtra("save_after_kill_ok", 1)
		}
	}

	// ---- (3) corruption: flipped bytes are rejected ----
	raw, err := os.ReadFile(path)
	if err != nil {
		rep.Infra("read saved file: %v", err)
		return
	}
	orig, err := state.Decode(raw)
	if err != nil {
		rep.Infra("decode saved file: %v", err)
		return
	}
	want := canonState(orig)
	var top map[string]json.RawMessage
	if err := json.Unmarshal(raw, &top); err != nil {
		rep.Infra("saved file is not a JSON object: %v", err)
		return
	}
	keys := make([]string, 0, len(top))
	for k := range top {
		keys = append(keys, k)
	}
	sort.Strings(keys)
	rng := env.Rand()
	cpath := filepath.Join(root, "corrupt", mainName)
	_ = os.MkdirAll(filepath.Dir(cpath), 0o755)
	rejected, same, corruptViolations := 0, 0, 0
	var immaterial []string
	flip := func(pos int, mask byte, field string) {
		if corruptViolations >= 3 {
			return
		}
		mut := append([]byte(nil), raw...)
		mut[pos] ^= mask
		if err := os.WriteFile(cpath, mut, 0o600); err != nil {
			rep.Infra("write corrupted copy: %v", err)
			return
		}
		rep.Cover("Corrupt")
		got, err := statefile.New(cpath).Load(bg)
		switch {
		case err != nil:
			rejected++
		case canonState(got) == want && reflect.DeepEqual(got, orig):
			same++ // immaterial to the decoder: exactly the saved state was loaded
			lo, hi := pos-12, pos+12
			if lo < 0 {
				lo = 0
			}
			if hi > len(mut) {
				hi = len(mut)
			}
			immaterial = append(immaterial, fmt.Sprintf("byte %d (%s) %q -> %q", pos, field, raw[lo:hi], mut[lo:hi]))
		default:
			corruptViolations++
			rep.Violate(id, "corrupt", fmt.Sprintf("byte %d of the saved file (field %q) xor 0x%02x: Load accepts the file and returns a different state (revision %d)",
				pos, field, mask, got.Revision),
				map[string]any{"position": pos, "mask": mask, "field": field, "original": string(raw), "corrupted": string(mut)})
		}
	}
	for _, k := range keys {
		needle := []byte(`"` + k + `":`)
		at := bytes.Index(raw, needle)
		if at < 0 {
			continue
		}
		vstart := at + len(needle)
		vlen := len(top[k])
		// one position in the key, a handful in the value (first, last, random ones)
		flip(at+1+rng.Intn(len(k)), 0x01, k)
		pos := []int{vstart, vstart + vlen - 1}
		for j := 0; j < env.Pick(4, 14) && vlen > 2; j++ {
			pos = append(pos, vstart+rng.Intn(vlen))
		}
		for j, p := range pos {
			flip(p, []byte{0x01, 0x10, 0x04, 0x80, 0x02, 0x20}[j%6], k)
		}
	}
	rep.Extra("corrupt_rejected", rejected)
	rep.Extra("corrupt_immaterial_same_state", same)
	rep.Extra("corrupt_immaterial", immaterial)
	rep.Replayed(rejected + same)
	if rejected == 0 {
		rep.Infra("no corrupted copy was rejected (%d copies tried)", rejected+same)
	}
}

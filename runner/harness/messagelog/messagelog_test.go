package messagelog

// Conformance harness for specs/MessageLog (properties C07 and C08).
//
// The real store is opened in t.TempDir() through exported API only, on two surfaces of
// the same storage code (the instance's surface is part of the behaviour's Init event):
//
//	"typed"   db.OpenNodeStore(..).Messages().Channel(..)       -> *message.ChannelLog
//	"compat"  message.Open(..).ForChannel(..)                    -> *message.ChannelStore
//	          (the surface below pkg/channel/store/channel_adapter.go)
//
// On the compat surface the exact-proposal path is driven as well (specs/MessageLog/MessageLogX.tla):
// message.StoreAppendBatch with one exact item (ExactBaseOffset + a proposal manifest sealed with
// quorumlog.SealProposalManifest, exactly what pkg/channel/store's AppendLeader passes down),
// AlreadyDurable retries of the tail and of older proposals, ReplaceRecoverySuffix, and the exact
// view (LoadDurableFrontier, LoadDurableRecovery, LoadDurableProposal) is part of the projection.
//
// (a) every TLC behaviour is replayed call by call; after every call the reply and the full
// projection (forward and reverse scans, paged reads, point reads, every index lookup of
// the probe domain, log end, checkpoint) of every channel with an open lease are compared
// with the specification's; (b) seeded random drivers (larger values, real payload sizes,
// filter saturation) record the same steps for validation by TLC (Trace.tla).
//
// A divergence is classed C08 when the real store admitted an append the specification
// rejects (a duplicate got in) and C07 otherwise; a run reports the class of the property
// it was started for (VERIF_PROPERTY) and counts the other class.

import (
	"context"
	"encoding/binary"
	"errors"
	"fmt"
	"os"
	"path/filepath"
	"sort"
	"testing"

	"github.com/WuKongIM/WuKongIM/pkg/db"
	"github.com/WuKongIM/WuKongIM/pkg/db/message"
	cc "github.com/WuKongIM/WuKongIM/pkg/db/message/channelcompat"
	"github.com/WuKongIM/WuKongIM/pkg/quorumlog"
	"verif/runner/kit"
)

var bg = context.Background()

// ---- model values -> real values -----------------------------------------------------

// Channel keys are chosen so that one key is a byte prefix of the other.
var chanDefs = map[string]struct {
	key string
	id  string
	typ uint8
}{
	"c1": {"vk/c1", "chan-c1", 2},
	"c2": {"vk/c1/2", "chan-c1-2", 1},
}

var chanNames = []string{"c1", "c2"}

// payload variants: size in bytes (9 = empty payload)
var paySizes = map[int64]int{0: 5, 1: 64, 2: 1, 3: 300, 4: 4096, 5: 20000, 9: 0}
var payOrder = []int64{0, 1, 2, 3, 4, 5, 9}

func payloadFor(id, p int64) []byte {
	n := paySizes[p]
	out := make([]byte, n)
	x := uint64(id)*0x9E3779B97F4A7C15 + uint64(p)*0xBF58476D1CE4E5B9 + 0x94D049BB133111EB
	for i := range out {
		x ^= x << 13
		x ^= x >> 7
		x ^= x << 17
		out[i] = byte(x >> 32)
	}
	return out
}

func tsFor(id, p int64) int64 { return 1_700_000_000_000 + id*1000 + p }

func fnv64a(b []byte) uint64 {
	h := uint64(14695981039346656037)
	for _, c := range b {
		h ^= uint64(c)
		h *= 1099511628211
	}
	return h
}

// rec is one record of the specification: [id, from, no, p].
type rec struct {
	id   int64
	from string
	no   string
	p    int64
}

func recOf(m map[string]any) rec {
	return rec{id: kit.Int(m, "id"), from: kit.Str(m, "from"), no: kit.Str(m, "no"), p: kit.Int(m, "p")}
}

func recsOf(ev map[string]any) []rec {
	var out []rec
	for _, r := range kit.List(ev, "recs") {
		out = append(out, recOf(r.(map[string]any)))
	}
	return out
}

// compat message: every durable field is a fixed function of (record, channel).
func compatMessage(c string, r rec) cc.Message {
	d := chanDefs[c]
	m := cc.Message{
		MessageID:         uint64(r.id),
		MsgKey:            fmt.Sprintf("mk-%d", r.id),
		Expire:            uint32(r.id%1000) + 7,
		ClientSeq:         uint64(r.id)*3 + uint64(r.p),
		ClientMsgNo:       r.no,
		StreamNo:          fmt.Sprintf("sn%d", r.p),
		StreamID:          uint64(r.id) + 100,
		Timestamp:         int32(1_700_000_000 + r.id%100000),
		ChannelID:         d.id,
		ChannelType:       d.typ,
		Topic:             "t/" + c,
		FromUID:           r.from,
		ServerTimestampMS: tsFor(r.id, r.p),
		Payload:           payloadFor(r.id, r.p),
	}
	m.Setting = 0
	if r.p%2 == 1 {
		m.Framer.RedDot = true
	}
	return m
}

func framerFlags(m cc.Message) byte {
	var f byte
	if m.Framer.NoPersist {
		f |= 1
	}
	if m.Framer.RedDot {
		f |= 2
	}
	if m.Framer.SyncOnce {
		f |= 4
	}
	if m.Framer.DUP {
		f |= 8
	}
	if m.Framer.HasServerVersion {
		f |= 16
	}
	if m.Framer.End {
		f |= 32
	}
	return f
}

// encodeCompat writes the durable message payload of the compat surface (the format
// decoded by message.decodeCompatibilityRecordPayload; there is no exported encoder).
func encodeCompat(m cc.Message) []byte {
	out := make([]byte, 0, 128+len(m.Payload))
	out = append(out, cc.DurableMessageCodecVersion)
	out = binary.BigEndian.AppendUint64(out, m.MessageID)
	out = append(out, framerFlags(m), byte(m.Setting), byte(m.StreamFlag), m.ChannelType)
	out = binary.BigEndian.AppendUint32(out, m.Expire)
	out = binary.BigEndian.AppendUint64(out, m.ClientSeq)
	out = binary.BigEndian.AppendUint64(out, m.StreamID)
	out = binary.BigEndian.AppendUint32(out, uint32(m.Timestamp))
	out = binary.BigEndian.AppendUint64(out, fnv64a(m.Payload))
	for _, s := range []string{m.MsgKey, m.ClientMsgNo, m.StreamNo, m.ChannelID, m.Topic, m.FromUID} {
		out = binary.BigEndian.AppendUint32(out, uint32(len(s)))
		out = append(out, s...)
	}
	out = binary.BigEndian.AppendUint32(out, uint32(len(m.Payload)))
	out = append(out, m.Payload...)
	if m.ServerTimestampMS != 0 {
		out = append(out, 'w', 'k', 't', 's')
		out = binary.BigEndian.AppendUint64(out, uint64(m.ServerTimestampMS))
	}
	return out
}

func sameCompat(a, b cc.Message) bool {
	return a.MessageID == b.MessageID && a.Framer == b.Framer && a.Setting == b.Setting && a.MsgKey == b.MsgKey &&
		a.Expire == b.Expire && a.ClientSeq == b.ClientSeq && a.ClientMsgNo == b.ClientMsgNo && a.StreamNo == b.StreamNo &&
		a.StreamID == b.StreamID && a.StreamFlag == b.StreamFlag && a.Timestamp == b.Timestamp && a.ChannelID == b.ChannelID &&
		a.ChannelType == b.ChannelType && a.Topic == b.Topic && a.FromUID == b.FromUID &&
		a.ServerTimestampMS == b.ServerTimestampMS && string(a.Payload) == string(b.Payload)
}

// ---- error classes --------------------------------------------------------------------

func errClass(err error) string {
	switch {
	case err == nil:
		return ""
	case errors.Is(err, db.ErrConflict), errors.Is(err, db.ErrCorruptState), errors.Is(err, db.ErrCorruptValue),
		errors.Is(err, cc.ErrCorruptState), errors.Is(err, cc.ErrCorruptValue):
		return "rejected"
	case errors.Is(err, db.ErrInvalidArgument), errors.Is(err, cc.ErrInvalidArgument):
		return "invalid"
	case errors.Is(err, db.ErrClosed), errors.Is(err, cc.ErrClosed):
		return "closed"
	}
	return "other: " + err.Error()
}

// ---- the system under test --------------------------------------------------------------

type lease struct {
	t *message.ChannelLog
	k *message.ChannelStore
}

type sut struct {
	dir     string
	surface string
	ns      *db.NodeStore
	eng     *message.Engine
	leases  map[string][]lease
	dead    []lease // leases invalidated by a database close (closed afterwards: must be harmless)
	ids     []int64
	froms   []string
	nos     []string
	pids    []int64
	infra   []string
	// exact proposals as issued by this harness (they survive a database reopen, like a leader's
	// memory of what it proposed): chain[c][seq] = identity of the exactly appended entry at seq,
	// stored[c][pid] = the sealed proposal the store acknowledged as durable under that command
	chain  map[string]map[uint64]quorumlog.EntryIdentity
	stored map[string]map[int64]sealed
	// exact view of each channel at its last projection (used by drivers to pick arguments)
	lastEx map[string]map[string]any
	lastHW map[string]int64
	// observed rows of each channel at its last projection (used by drivers to pick arguments)
	lastRows map[string][]map[string]any
	lastLeo  map[string]int64
}

func newSUT(dir, surface string, cfg map[string]any) (*sut, error) {
	s := &sut{dir: dir, surface: surface, leases: map[string][]lease{}, lastRows: map[string][]map[string]any{}, lastLeo: map[string]int64{},
		chain: map[string]map[uint64]quorumlog.EntryIdentity{}, stored: map[string]map[int64]sealed{},
		lastEx: map[string]map[string]any{}, lastHW: map[string]int64{}}
	for _, c := range chanNames {
		s.chain[c] = map[uint64]quorumlog.EntryIdentity{}
		s.stored[c] = map[int64]sealed{}
	}
	if _, ok := cfg["pids"]; ok {
		for _, v := range kit.List(cfg, "pids") {
			s.pids = append(s.pids, kit.ToInt(v))
		}
	}
	for _, v := range kit.List(cfg, "ids") {
		s.ids = append(s.ids, kit.ToInt(v))
	}
	for _, v := range kit.List(cfg, "froms") {
		s.froms = append(s.froms, v.(string))
	}
	for _, v := range kit.List(cfg, "nos") {
		s.nos = append(s.nos, v.(string))
	}
	if surface != "typed" && surface != "compat" {
		return nil, fmt.Errorf("unknown surface %q", surface)
	}
	return s, s.openDB()
}

func (s *sut) typed() bool { return s.surface == "typed" }

func (s *sut) openDB() error {
	if s.typed() {
		ns, err := db.OpenNodeStore(db.NodeStoreOptions{MessagePath: filepath.Join(s.dir, "message"), MetaPath: filepath.Join(s.dir, "meta")})
		if err != nil {
			return err
		}
		s.ns = ns
		return nil
	}
	eng, err := message.Open(filepath.Join(s.dir, "message"))
	if err != nil {
		return err
	}
	s.eng = eng
	return nil
}

func (s *sut) closeDB() error {
	var err error
	if s.typed() {
		err = s.ns.Close()
		s.ns = nil
	} else {
		err = s.eng.Close()
		s.eng = nil
	}
	for _, ls := range s.leases {
		s.dead = append(s.dead, ls...)
	}
	s.leases = map[string][]lease{}
	// releasing a lease of a closed database must be harmless
	for _, l := range s.dead {
		if l.t != nil {
			_ = l.t.Close()
		} else {
			_ = l.k.Close()
		}
	}
	s.dead = nil
	return err
}

func (s *sut) shutdown() {
	if s.ns != nil || s.eng != nil {
		_ = s.closeDB()
	}
}

func (s *sut) openLease(c string) error {
	d, ok := chanDefs[c]
	if !ok {
		return fmt.Errorf("unknown channel %q", c)
	}
	if s.typed() {
		l, err := s.ns.Messages().Channel(message.ChannelKey(d.key), message.ChannelID{ID: d.id, Type: d.typ})
		if err != nil {
			return err
		}
		s.leases[c] = append(s.leases[c], lease{t: l})
		return nil
	}
	l, err := s.eng.ForChannel(cc.ChannelKey(d.key), cc.ChannelID{ID: d.id, Type: d.typ})
	if err != nil {
		return err
	}
	s.leases[c] = append(s.leases[c], lease{k: l})
	return nil
}

// closeLease releases the oldest lease of the channel (a newer lease keeps working).
func (s *sut) closeLease(c string) error {
	ls := s.leases[c]
	if len(ls) == 0 {
		return fmt.Errorf("no lease on %s", c)
	}
	l := ls[0]
	s.leases[c] = ls[1:]
	if l.t != nil {
		return l.t.Close()
	}
	return l.k.Close()
}

// w is the lease mutations go through (the newest), r the lease reads go through (the oldest).
func (s *sut) w(c string) lease { ls := s.leases[c]; return ls[len(ls)-1] }
func (s *sut) r(c string) lease { return s.leases[c][0] }

func (s *sut) typedRecords(rs []rec) []message.Record {
	out := make([]message.Record, len(rs))
	for i, r := range rs {
		out[i] = message.Record{ID: uint64(r.id), ClientMsgNo: r.no, FromUID: r.from, Payload: payloadFor(r.id, r.p), ServerTimestampMS: tsFor(r.id, r.p)}
	}
	return out
}

func (s *sut) compatRecords(c string, rs []rec, base int64) []cc.Record {
	return compatRecordsEpoch(c, rs, base, 0)
}

func compatRecordsEpoch(c string, rs []rec, base int64, epoch uint64) []cc.Record {
	out := make([]cc.Record, len(rs))
	for i, r := range rs {
		enc := encodeCompat(compatMessage(c, r))
		out[i] = cc.Record{ID: uint64(r.id), Payload: enc, SizeBytes: len(enc), Epoch: epoch}
		if base != 0 {
			out[i].Index = uint64(base + int64(i))
		}
	}
	return out
}

func appRes(err error, base, n int64) map[string]any {
	cls := errClass(err)
	if cls != "" || n == 0 {
		return map[string]any{"err": cls, "base": 0, "last": 0}
	}
	return map[string]any{"err": "", "base": base, "last": base + n - 1}
}

func errRes(err error) map[string]any { return map[string]any{"err": errClass(err)} }

// apply performs the call described by ev (its "res" is ignored) and returns the observed reply.
func (s *sut) apply(ev map[string]any) (map[string]any, error) {
	a := kit.Str(ev, "a")
	c := kit.Str(ev, "c")
	switch a {
	case "OpenDB":
		return errRes(s.openDB()), nil
	case "CloseDB":
		return errRes(s.closeDB()), nil
	case "OpenLease":
		return errRes(s.openLease(c)), nil
	case "CloseLease":
		if len(s.leases[c]) == 0 {
			return nil, fmt.Errorf("CloseLease(%s) without a lease", c)
		}
		return errRes(s.closeLease(c)), nil
	case "ExBatch": // one StoreAppendBatch call with several items (multibatch_test.go)
		return s.exBatch(ev)
	}
	if len(s.leases[c]) == 0 {
		return nil, fmt.Errorf("%s(%s) without a lease", a, c)
	}
	l := s.w(c)
	switch a {
	case "CancelAppend": // an append cancelled at every point of its validation (cancel_test.go)
		return s.cancelAppend(ev)
	case "Append":
		rs := recsOf(ev)
		mode, base := kit.Str(ev, "mode"), kit.Int(ev, "base")
		if s.typed() {
			m := map[string]message.AppendMode{"strict": message.AppendStrict, "alloc": message.AppendServerAllocatedMessageID, "trusted": message.AppendTrustedContiguous}[mode]
			r, err := l.t.Append(bg, s.typedRecords(rs), message.AppendOptions{Mode: m, BaseSeq: uint64(base)})
			if err == nil && len(rs) > 0 && (r.Count != len(rs) || r.LastSeq != r.BaseSeq+uint64(len(rs))-1) {
				return map[string]any{"err": "", "base": r.BaseSeq, "last": r.LastSeq, "count": r.Count}, nil
			}
			return appRes(err, int64(r.BaseSeq), int64(len(rs))), nil
		}
		if base != 0 {
			return nil, fmt.Errorf("compat Append has no base")
		}
		in := s.compatRecords(c, rs, 0)
		var off uint64
		var err error
		switch mode {
		case "strict":
			off, err = l.k.Append(in)
		case "alloc":
			off, err = l.k.AppendServerAllocated(in)
		case "trusted":
			off, err = l.k.AppendTrusted(in)
		default:
			return nil, fmt.Errorf("mode %q", mode)
		}
		return appRes(err, int64(off)+1, int64(len(rs))), nil
	case "Apply":
		rs := recsOf(ev)
		mode, base, hw := kit.Str(ev, "mode"), kit.Int(ev, "base"), kit.Int(ev, "hw")
		if s.typed() {
			req := message.ApplyFetchRequest{BaseSeq: uint64(base), Records: s.typedRecords(rs)}
			if hw > 0 {
				req.Checkpoint = &message.Checkpoint{HW: uint64(hw)}
			}
			r, err := l.t.ApplyFetch(bg, req)
			return appRes(err, int64(r.BaseSeq), int64(len(rs))), nil
		}
		req := cc.ApplyFetchStoreRequest{Records: s.compatRecords(c, rs, base)}
		if hw > 0 {
			h := uint64(hw)
			req.CheckpointHW = &h
		}
		var leo uint64
		var err error
		if mode == "strict" {
			leo, err = l.k.StoreApplyFetch(req)
		} else {
			leo, err = l.k.StoreApplyFetchTrusted(req)
		}
		return appRes(err, int64(leo)-int64(len(rs))+1, int64(len(rs))), nil
	case "Truncate":
		to := kit.Int(ev, "to")
		if s.typed() {
			return errRes(l.t.TruncateFrom(bg, uint64(to)+1)), nil
		}
		err := l.k.Truncate(uint64(to))
		if err == nil {
			s.forgetAbove(c, uint64(to))
		}
		return errRes(err), nil
	case "ExAppend":
		return s.exAppend(c, l, ev)
	case "Replace":
		return s.replace(c, l, ev)
	case "Adopt":
		if s.typed() {
			return nil, fmt.Errorf("Adopt on the typed surface")
		}
		return errRes(l.k.AdoptRetentionBoundary(bg, uint64(kit.Int(ev, "through")), "verif")), nil
	case "Trim":
		through, lim := kit.Int(ev, "through"), kit.Int(ev, "lim")
		var r message.RetentionTrimResult
		var err error
		if s.typed() {
			r, err = l.t.TrimPrefixThroughLimit(bg, uint64(through), message.RetentionTrimOptions{MaxMessages: int(lim)})
		} else {
			r, err = l.k.TrimMessagesThroughLimit(bg, uint64(through), message.RetentionTrimOptions{MaxMessages: int(lim)})
		}
		if err != nil {
			return map[string]any{"err": errClass(err), "deleted": 0, "through": 0, "more": false}, nil
		}
		return map[string]any{"err": "", "deleted": r.Deleted, "through": r.DeletedThroughSeq, "more": r.More}, nil
	case "Ckpt":
		hw := uint64(kit.Int(ev, "hw"))
		if s.typed() {
			return errRes(l.t.StoreCheckpoint(bg, message.Checkpoint{HW: hw})), nil
		}
		return errRes(l.k.StoreCheckpoint(cc.Checkpoint{HW: hw})), nil
	case "CkptMono":
		hw := uint64(kit.Int(ev, "hw"))
		if s.typed() {
			leo, err := l.t.LEO(bg)
			if err != nil {
				return nil, err
			}
			return errRes(l.t.StoreCheckpointMonotonic(bg, message.Checkpoint{HW: hw}, hw, leo)), nil
		}
		return errRes(l.k.StoreCheckpointHWMonotonic(bg, hw)), nil
	}
	return nil, fmt.Errorf("unknown action %q", a)
}

// ---- projection ---------------------------------------------------------------------------

// row is one observed message reduced to the specification's record; p = -1 when some field
// is not byte-identical to what was appended for (id, from, no).
type row struct {
	seq, id int64
	from    string
	no      string
	p       int64
}

func (r row) json() map[string]any {
	return map[string]any{"seq": r.seq, "id": r.id, "from": r.from, "no": r.no, "p": r.p}
}

func (s *sut) rowTyped(c string, m message.Message) row {
	d := chanDefs[c]
	out := row{seq: int64(m.MessageSeq), id: int64(m.MessageID), from: m.FromUID, no: m.ClientMsgNo, p: -1}
	for _, p := range payOrder {
		pay := payloadFor(out.id, p)
		if string(pay) == string(m.Payload) && m.ServerTimestampMS == tsFor(out.id, p) && m.ChannelID == d.id && m.ChannelType == d.typ &&
			(len(pay) == 0 || m.PayloadHash == fnv64a(pay)) {
			out.p = p
			break
		}
	}
	return out
}

func (s *sut) rowCompat(c string, m cc.Message) row {
	out := row{seq: int64(m.MessageSeq), id: int64(m.MessageID), from: m.FromUID, no: m.ClientMsgNo, p: -1}
	for _, p := range payOrder {
		want := compatMessage(c, rec{id: out.id, from: out.from, no: out.no, p: p})
		if sameCompat(want, m) {
			out.p = p
			break
		}
	}
	return out
}

const inf = ^uint64(0)

// stale maps a lookup error to the projection's marker: -1 for a detected stale index
// (ErrCorruptState), anything else is harness trouble.
func (s *sut) stale(what string, err error) int64 {
	if errClass(err) == "rejected" {
		return -1
	}
	s.infra = append(s.infra, fmt.Sprintf("%s: %v", what, err))
	return -3
}

func seqsOf(rows []row) []int64 {
	out := make([]int64, len(rows))
	for i, r := range rows {
		out[i] = r.seq
	}
	return out
}

func (s *sut) scan(c string, from uint64, limit int, reverse bool) ([]row, error) {
	l := s.r(c)
	var out []row
	if s.typed() {
		var ms []message.Message
		var err error
		if reverse {
			ms, err = l.t.ReadReverse(bg, from, message.ReadOptions{Limit: limit})
		} else {
			ms, err = l.t.Read(bg, from, message.ReadOptions{Limit: limit})
		}
		if err != nil {
			return nil, err
		}
		for _, m := range ms {
			out = append(out, s.rowTyped(c, m))
		}
		return out, nil
	}
	ms, err := l.k.ListMessagesBySeq(bg, from, limit, 0, reverse)
	if err != nil {
		return nil, err
	}
	for _, m := range ms {
		out = append(out, s.rowCompat(c, m))
	}
	return out, nil
}

func (s *sut) projectChan(c string) map[string]any {
	l := s.r(c)
	var leo uint64
	var err error
	if s.typed() {
		leo, err = l.t.LEO(bg)
	} else {
		leo, err = l.k.LEOWithError()
	}
	if err != nil {
		s.infra = append(s.infra, fmt.Sprintf("LEO(%s): %v", c, err))
	}
	out := map[string]any{"isOpen": true, "leo": leo}

	// forward scan of everything; the point reads below are cross-checked against it
	fwd, err := s.scan(c, 1, 0, false)
	if err != nil {
		// an unreadable log: reported as a single row marker so that the comparison fails on "log"
		fwd = []row{{seq: s.stale("scan("+c+")", err), p: -1}}
	}
	bySeqRow := map[int64]row{}
	logRows := make([]any, len(fwd))
	rowsJSON := make([]map[string]any, len(fwd))
	for i, r := range fwd {
		bySeqRow[r.seq] = r
		logRows[i] = r.json()
		rowsJSON[i] = r.json()
	}
	// compat: the raw log records must be the bytes that were appended
	if !s.typed() && err == nil {
		recs, rerr := l.k.Read(0, 1<<30)
		if rerr != nil || len(recs) != len(fwd) {
			logRows = append(logRows, map[string]any{"seq": -2, "id": 0, "from": "", "no": "", "p": -1})
		} else {
			for i, rc := range recs {
				want := encodeCompat(compatMessage(c, rec{id: fwd[i].id, from: fwd[i].from, no: fwd[i].no, p: fwd[i].p}))
				if fwd[i].p >= 0 && (string(rc.Payload) != string(want) || int64(rc.Index) != fwd[i].seq || int64(rc.ID) != fwd[i].id) {
					m := fwd[i].json()
					m["p"] = -1
					logRows[i] = m
				}
			}
		}
	}
	out["log"] = logRows
	s.lastRows[c] = rowsJSON
	s.lastLeo[c] = int64(leo)

	rev, err := s.scan(c, 0, 0, true)
	if err != nil {
		out["rev"] = []int64{s.stale("rev("+c+")", err)}
	} else {
		out["rev"] = seqsOf(rev)
	}

	lo := int64(1)
	if int64(leo)-3 > lo {
		lo = int64(leo) - 3
	}
	var window []int64
	for q := lo; q <= int64(leo); q++ {
		window = append(window, q)
	}

	// point reads by sequence over the window and one past the log end
	bySeq := []int64{}
	for _, q := range append(append([]int64{}, window...), int64(leo)+1) {
		var id int64
		var ok bool
		var got row
		if s.typed() {
			m, found, e := l.t.GetBySeq(bg, uint64(q))
			ok, err = found, e
			if found {
				got = s.rowTyped(c, m)
			}
		} else {
			m, found, e := l.k.GetMessageBySeq(uint64(q))
			ok, err = found, e
			if found {
				got = s.rowCompat(c, m)
			}
		}
		switch {
		case err != nil:
			id = s.stale(fmt.Sprintf("GetBySeq(%s,%d)", c, q), err)
		case ok:
			id = got.id
			if got != bySeqRow[q] {
				id = -2 // differs from the scanned row
			}
		}
		bySeq = append(bySeq, id)
	}
	out["bySeq"] = bySeq

	// message id index
	byID := []int64{}
	for _, id := range s.ids {
		var v int64
		var ok bool
		var got row
		if s.typed() {
			m, found, e := l.t.GetByMessageID(bg, uint64(id))
			ok, err = found, e
			if found {
				got = s.rowTyped(c, m)
			}
		} else {
			m, found, e := l.k.GetMessageByMessageID(uint64(id))
			ok, err = found, e
			if found {
				got = s.rowCompat(c, m)
			}
		}
		switch {
		case err != nil:
			v = s.stale(fmt.Sprintf("GetByMessageID(%s,%d)", c, id), err)
		case ok:
			v = got.seq
			if got != bySeqRow[got.seq] || got.id != id {
				v = -2
			}
		}
		byID = append(byID, v)
	}
	out["byId"] = byID

	// (sender, client number) index
	byKey := [][]int64{}
	for _, f := range s.froms {
		line := []int64{}
		for _, n := range s.nos {
			var v int64
			if s.typed() {
				hit, ok, e := l.t.LookupIdempotency(bg, message.IdempotencyKey{FromUID: f, ClientMsgNo: n})
				switch {
				case e != nil:
					v = s.stale(fmt.Sprintf("LookupIdempotency(%s,%s,%s)", c, f, n), e)
				case ok:
					v = int64(hit.MessageSeq)
					r := bySeqRow[v]
					if r.from != f || r.no != n || r.id != int64(hit.MessageID) || hit.Offset+1 != hit.MessageSeq {
						v = -2
					}
				}
			} else {
				d := chanDefs[c]
				ent, _, ok, e := l.k.LookupIdempotency(cc.IdempotencyKey{ChannelID: cc.ChannelID{ID: d.id, Type: d.typ}, FromUID: f, ClientMsgNo: n})
				switch {
				case e != nil:
					v = s.stale(fmt.Sprintf("LookupIdempotency(%s,%s,%s)", c, f, n), e)
				case ok:
					v = int64(ent.MessageSeq)
					r := bySeqRow[v]
					if r.from != f || r.no != n || r.id != int64(ent.MessageID) || ent.Offset+1 != ent.MessageSeq {
						v = -2
					}
				}
			}
			line = append(line, v)
		}
		byKey = append(byKey, line)
	}
	out["byKey"] = byKey

	// client number listing, newest first
	byNo := [][]int64{}
	for _, n := range s.nos {
		line := []int64{}
		if s.typed() {
			page, e := l.t.ListByClientMsgNo(bg, n, 0, 256)
			if e != nil {
				line = []int64{s.stale(fmt.Sprintf("ListByClientMsgNo(%s,%s)", c, n), e)}
			} else {
				for _, m := range page.Messages {
					r := s.rowTyped(c, m)
					if r != bySeqRow[r.seq] || r.no != n {
						line = append(line, -2)
					} else {
						line = append(line, r.seq)
					}
				}
			}
		} else {
			ms, _, _, e := l.k.ListMessagesByClientMsgNo(n, 0, 256)
			if e != nil {
				line = []int64{s.stale(fmt.Sprintf("ListMessagesByClientMsgNo(%s,%s)", c, n), e)}
			} else {
				for _, m := range ms {
					r := s.rowCompat(c, m)
					if r != bySeqRow[r.seq] || r.no != n {
						line = append(line, -2)
					} else {
						line = append(line, r.seq)
					}
				}
			}
		}
		byNo = append(byNo, line)
	}
	out["byNo"] = byNo

	// sender sequence index
	bySender := [][]int64{}
	for _, f := range s.froms {
		line := []int64{}
		probes := []uint64{}
		for _, q := range window {
			probes = append(probes, uint64(q))
		}
		probes = append(probes, inf)
		for _, t := range probes {
			var seq uint64
			var ok bool
			var e error
			if s.typed() {
				seq, ok, e = l.t.GetLastSenderMessageSeq(bg, f, t)
			} else {
				seq, ok, e = l.k.GetLastSenderMessageSeq(bg, f, t)
			}
			switch {
			case e != nil:
				line = append(line, s.stale(fmt.Sprintf("GetLastSenderMessageSeq(%s,%s,%d)", c, f, t), e))
			case ok:
				line = append(line, int64(seq))
			default:
				line = append(line, 0)
			}
		}
		bySender = append(bySender, line)
	}
	out["bySender"] = bySender

	// paged reads from every sequence of the window
	pages := []any{}
	for _, q := range window {
		f, e1 := s.scan(c, uint64(q), 2, false)
		r, e2 := s.scan(c, uint64(q), 2, true)
		pf, pr := seqsOf(f), seqsOf(r)
		if e1 != nil {
			pf = []int64{s.stale(fmt.Sprintf("Read(%s,%d)", c, q), e1)}
		}
		if e2 != nil {
			pr = []int64{s.stale(fmt.Sprintf("ReadReverse(%s,%d)", c, q), e2)}
		}
		for i, x := range f {
			if x != bySeqRow[x.seq] {
				pf[i] = -2
			}
		}
		for i, x := range r {
			if x != bySeqRow[x.seq] {
				pr[i] = -2
			}
		}
		pages = append(pages, map[string]any{"f": pf, "r": pr})
	}
	out["pages"] = pages

	// checkpoint register
	cp := map[string]any{"has": false, "hw": 0}
	if s.typed() {
		ck, ok, e := l.t.LoadCheckpoint(bg)
		if e != nil {
			s.infra = append(s.infra, fmt.Sprintf("LoadCheckpoint(%s): %v", c, e))
		} else if ok {
			cp = map[string]any{"has": true, "hw": ck.HW}
		}
	} else {
		ck, e := l.k.LoadCheckpoint()
		if e == nil {
			cp = map[string]any{"has": true, "hw": ck.HW}
		} else if !errors.Is(e, cc.ErrEmptyState) {
			s.infra = append(s.infra, fmt.Sprintf("LoadCheckpoint(%s): %v", c, e))
		}
	}
	out["cp"] = cp
	s.lastHW[c] = 0
	if h, ok := cp["hw"].(uint64); ok {
		s.lastHW[c] = int64(h)
	}
	ex := s.exact(c, int64(leo), bySeqRow)
	out["ex"] = ex
	s.lastEx[c] = ex
	return out
}

func (s *sut) project() map[string]any {
	out := map[string]any{}
	for _, c := range chanNames {
		if (s.ns != nil || s.eng != nil) && len(s.leases[c]) > 0 {
			out[c] = s.projectChan(c)
		} else {
			out[c] = map[string]any{"isOpen": false}
		}
	}
	return out
}

func (s *sut) dbIsOpen() bool { return s.ns != nil || s.eng != nil }

// retention returns the durable retention state of a channel (needs an open lease).
func (s *sut) retention(c string) (has bool, local, phys, rmax int64) {
	if len(s.leases[c]) == 0 {
		return false, 0, 0, 0
	}
	if s.typed() {
		st, ok, err := s.r(c).t.LoadRetentionState(bg)
		if err != nil || !ok {
			return false, 0, 0, 0
		}
		return true, int64(st.LocalRetentionThroughSeq), int64(st.PhysicalRetentionThroughSeq), int64(st.RetainedMaxSeq)
	}
	st, err := s.r(c).k.LoadRetentionState()
	if err != nil || st.LocalRetentionThroughSeq == 0 {
		return false, 0, 0, 0
	}
	return true, int64(st.LocalRetentionThroughSeq), int64(st.PhysicalRetentionThroughSeq), int64(st.RetainedMaxSeq)
}

// ---- known findings ---------------------------------------------------------------------------

const (
	sigTruncRmax  = "typed-truncate-keeps-retained-max-seq"
	sigEmptyPay   = "typed-empty-payload-unreadable"
	emptyPayloadP = 9
)

// knownFinding decides whether a divergence observed while replaying steps[:at+1] is one of the
// two findings reported for the unchanged tree (both on the typed surface):
//   - ChannelLog.TruncateFrom leaves RetentionState.RetainedMaxSeq above the new log end; the
//     next prefix trim or cold LEO recovery raises the log end again and the next append leaves a gap;
//   - a record with an empty payload is stored with payload hash 0 and every later read of it
//     fails with "payload hash mismatch".
func (s *sut) knownFinding(steps []kit.Step, at int) string {
	if !s.typed() {
		return ""
	}
	for _, st := range steps[1 : at+1] {
		a := kit.Str(st.Ev, "a")
		if a == "Append" || a == "Apply" {
			if kit.Str(kit.Map(st.Ev, "res"), "err") != "" {
				continue
			}
			for _, r := range recsOf(st.Ev) {
				if r.p == emptyPayloadP {
					return sigEmptyPay
				}
			}
		}
	}
	for _, c := range chanNames {
		truncated := false
		for _, st := range steps[1 : at+1] {
			if kit.Str(st.Ev, "a") == "Truncate" && kit.Str(st.Ev, "c") == c && kit.Str(kit.Map(st.Ev, "res"), "err") == "" {
				truncated = true
			}
		}
		if !truncated || !s.dbIsOpen() || len(s.leases[c]) == 0 {
			continue
		}
		has, local, _, rmax := s.retention(c)
		last := int64(0)
		if ms, err := s.scan(c, 1, 0, false); err == nil && len(ms) > 0 {
			last = ms[len(ms)-1].seq
		}
		if has && rmax > last && rmax > local {
			return sigTruncRmax
		}
	}
	return ""
}

// ---- replay of TLC behaviours ---------------------------------------------------------------

type runner struct {
	t        *testing.T
	env      kit.Env
	rep      *kit.Report
	known    map[string]bool
	otherCls int
	tmpSeq   int
	base     string
}

func (r *runner) tmp() string {
	if r.base == "" {
		r.base = r.t.TempDir()
	}
	r.tmpSeq++
	d := filepath.Join(r.base, fmt.Sprintf("s%d", r.tmpSeq))
	_ = os.MkdirAll(d, 0o755)
	return d
}

// class of a divergence: C08 when the store admitted an append the specification rejects.
func divergenceClass(ev map[string]any, want, got any) string {
	a := kit.Str(ev, "a")
	if a == "ExBatch" {
		return batchDivergenceClass(want, got)
	}
	if a == "Append" || a == "Apply" || a == "ExAppend" {
		w, _ := kit.Canon(want).(map[string]any)
		g, _ := kit.Canon(got).(map[string]any)
		if kit.Str(w, "err") == "rejected" && kit.Str(g, "err") == "" {
			return "C08"
		}
	}
	return "C07"
}

func (r *runner) report(class, kind, detail, sig string, replay map[string]any) {
	if sig != "" {
		// a known finding is recorded once per run (the report keeps at most five violations)
		if r.known[sig] {
			r.rep.AddExtra("known_finding_hits", 1)
			return
		}
		r.known[sig] = true
		r.rep.AddExtra("known_finding_hits", 1)
		r.rep.ViolateSig("C07", kind, detail, sig, replay)
		return
	}
	if class != r.env.Property && (r.env.Property == "C07" || r.env.Property == "C08") {
		r.otherCls++
		r.rep.AddExtra("divergences_of_the_other_property", 1)
		return
	}
	r.rep.Violate(class, kind, detail, replay)
}

func (r *runner) replay(bi int, b kit.Behaviour) {
	if len(b.Steps) == 0 || kit.Str(b.Steps[0].Ev, "a") != "Init" {
		r.rep.Infra("behaviour %d does not start with Init", bi)
		return
	}
	cfg := kit.Map(b.Steps[0].Ev, "cfg")
	s, err := newSUT(r.tmp(), kit.Str(cfg, "surface"), cfg)
	if err != nil {
		r.rep.Infra("behaviour %d: cannot open the store: %v", bi, err)
		return
	}
	defer func() {
		s.shutdown()
		_ = os.RemoveAll(s.dir)
	}()
	for si := 1; si < len(b.Steps); si++ {
		st := b.Steps[si]
		res, err := s.apply(st.Ev)
		r.rep.Cover(kit.Str(st.Ev, "a"))
		if err != nil {
			r.rep.Infra("behaviour %d step %d %s: %v", bi, si, kit.JSON(kit.CloneEv(st.Ev)), err)
			return
		}
		if cls, _ := res["err"].(string); len(cls) > 5 && cls[:5] == "other" {
			r.rep.Infra("behaviour %d step %d %s: unexpected error %s", bi, si, kit.JSON(kit.CloneEv(st.Ev)), cls)
			return
		}
		if d := kit.Diff(st.Ev["res"], res); d != "" {
			proj := s.project()
			r.report(divergenceClass(st.Ev, st.Ev["res"], res), "reply",
				fmt.Sprintf("[%s] step %d %s: %s", s.surface, si, kit.JSON(kit.CloneEv(st.Ev)), d), s.knownFinding(b.Steps, si),
				map[string]any{"behaviour": kit.Behaviour{Steps: b.Steps[:si+1]}, "step": si, "observed": res, "observed_state": proj})
			return
		}
		proj := s.project()
		if len(s.infra) > 0 {
			r.rep.Infra("behaviour %d step %d: %s", bi, si, s.infra[0])
			return
		}
		if d := kit.Diff(st.St, proj); d != "" {
			r.report("C07", "state", fmt.Sprintf("[%s] after step %d %s: %s", s.surface, si, kit.JSON(kit.CloneEv(st.Ev)), d),
				s.knownFinding(b.Steps, si),
				map[string]any{"behaviour": kit.Behaviour{Steps: b.Steps[:si+1]}, "step": si, "observed": proj})
			return
		}
	}
	r.rep.Replayed(len(b.Steps) - 1)
	if bi == 0 {
		r.rep.Sample(kit.Behaviour{Steps: b.Steps[:minInt(len(b.Steps), 6)]})
	}
}

func minInt(a, b int) int {
	if a < b {
		return a
	}
	return b
}

func sortedKeys(m map[string]bool) []string {
	out := make([]string, 0, len(m))
	for k := range m {
		out = append(out, k)
	}
	sort.Strings(out)
	return out
}

func TestVerifMessageLog(t *testing.T) {
	env, ok := kit.LoadEnv()
	if !ok {
		t.Skip("not started by the verif runner")
	}
	rep := kit.NewReport(env, "messagelog")
	rec, err := kit.NewRecorder(env.TraceFile)
	if err != nil {
		t.Fatal(err)
	}
	r := &runner{t: t, env: env, rep: rep, known: map[string]bool{}}

	behs, err := kit.LoadBehaviours(env.BehFile)
	if err != nil {
		rep.Infra("load behaviours: %v", err)
	}
	for bi, b := range behs {
		r.replay(bi, b)
	}

	r.drive(rec)

	if err := rec.Close(); err != nil {
		rep.Infra("trace file: %v", err)
	}
	rep.Extra("known_findings_seen", sortedKeys(r.known))
	if err := rep.Finish(rec); err != nil {
		t.Fatal(err)
	}
}

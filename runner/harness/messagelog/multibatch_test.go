package messagelog

// Multi-item StoreAppendBatch calls (specs/MessageLog/MessageLogX.tla: ExBatch): several exact
// proposals for one or more channels in ONE message.StoreAppendBatch call, committed by the
// commit coordinator as one physical group.  The shapes a channel leader produces when it
// pipelines: a proposal and the next one chained on it (second ExpectedBaseOffset = first
// LastOffset, PreviousDigest = the first one's last entry digest), a proposal together with its
// own retry, proposals of two channels in one call.
//
// Every item is sealed like a single exact append (exact_test.go).  The chain a later item of
// the call is sealed against is the one the caller pipelines on: the last entry of the latest
// earlier item of the call that ends at its base when that base lies above the log end the
// store last reported, the stored identity otherwise.  An item that repeats an earlier item of
// the call (same command, base and records) is sent again byte for byte.

import (
	"fmt"
	"os"

	"github.com/WuKongIM/WuKongIM/pkg/db/message"
	"github.com/WuKongIM/WuKongIM/pkg/quorumlog"
	"verif/runner/kit"
)

type batchItem struct {
	c    string
	pid  int64
	b    uint64
	recs []rec
	mode string
	hw   uint64
}

func batchItemsOf(ev map[string]any) ([]batchItem, error) {
	var out []batchItem
	for _, x := range kit.List(ev, "items") {
		m, ok := x.(map[string]any)
		if !ok {
			return nil, fmt.Errorf("ExBatch: item is not a record")
		}
		it := batchItem{c: kit.Str(m, "c"), pid: kit.Int(m, "pid"), b: uint64(kit.Int(m, "b")), recs: recsOfList(kit.List(m, "recs")),
			mode: kit.Str(m, "mode"), hw: uint64(kit.Int(m, "hw"))}
		if len(it.recs) == 0 || (it.mode != "strict" && it.mode != "alloc") {
			return nil, fmt.Errorf("ExBatch: bad item %s", kit.JSON(m))
		}
		out = append(out, it)
	}
	if len(out) == 0 {
		return nil, fmt.Errorf("ExBatch without items")
	}
	return out, nil
}

func batchItemsJSON(items []batchItem) []any {
	out := make([]any, len(items))
	for i, it := range items {
		out[i] = map[string]any{"c": it.c, "pid": it.pid, "b": it.b, "recs": recsJSON(it.recs), "mode": it.mode, "hw": it.hw}
	}
	return out
}

// sealBatch seals the items of one call in order.
func (s *sut) sealBatch(items []batchItem) ([]sealed, error) {
	sps := make([]sealed, len(items))
	for i, it := range items {
		if old, ok := s.stored[it.c][it.pid]; ok && old.base == it.b && sameRecs(old.recs, it.recs) {
			sps[i] = old // the identical request for a command the store acknowledged
			continue
		}
		reused := false
		for k := i - 1; k >= 0 && !reused; k-- {
			if items[k].c == it.c && items[k].pid == it.pid && items[k].b == it.b && sameRecs(items[k].recs, it.recs) {
				sps[i], reused = sps[k], true // the retry of an item of this very call
			}
		}
		if reused {
			continue
		}
		prev, have := s.chain[it.c][it.b]
		if int64(it.b) > s.lastLeo[it.c] {
			for k := i - 1; k >= 0; k-- {
				if items[k].c == it.c && sps[k].last() == it.b && len(sps[k].entries) > 0 {
					prev, have = sps[k].entries[len(sps[k].entries)-1], true
					break
				}
			}
		}
		sp, err := seal(it.c, it.pid, it.b, it.recs, prev, have)
		if err != nil {
			return nil, err
		}
		sps[i] = sp
	}
	return sps, nil
}

// exBatch performs one StoreAppendBatch call with every item of ev and returns the item-aligned replies.
func (s *sut) exBatch(ev map[string]any) (map[string]any, error) {
	if s.typed() {
		return nil, fmt.Errorf("ExBatch on the typed surface")
	}
	items, err := batchItemsOf(ev)
	if err != nil {
		return nil, err
	}
	for _, it := range items {
		if len(s.leases[it.c]) == 0 {
			return nil, fmt.Errorf("ExBatch(%s) without a lease", it.c)
		}
	}
	sps, err := s.sealBatch(items)
	if err != nil {
		return nil, err
	}
	in := make([]message.AppendBatchItem, len(items))
	for i, it := range items {
		in[i] = message.AppendBatchItem{Store: s.w(it.c).k, Records: compatRecordsEpoch(it.c, it.recs, 0, exactEpoch), Committed: it.hw,
			Class: message.AppendBatchClassLeaderQuorum, ServerAllocatedMessageIDs: it.mode == "alloc", ExactBaseOffset: true,
			ExpectedBaseOffset: it.b, Proposal: sps[i].manifest}
	}
	results := message.StoreAppendBatch(bg, in)
	if len(results) != len(items) {
		return nil, fmt.Errorf("StoreAppendBatch returned %d results for %d items", len(results), len(items))
	}
	out := make([]any, len(items))
	worst := ""
	for i, r := range results {
		o := outcomeName(r.Outcome)
		if r.Err != nil || o == "none" {
			cls := errClass(r.Err)
			if cls == "" {
				cls = "other: outcome " + fmt.Sprint(r.Outcome)
			}
			if len(cls) > 5 && cls[:5] == "other" {
				worst = cls
			}
			out[i] = map[string]any{"err": cls, "out": "none", "base": 0, "last": 0, "need": r.NeedFrom}
			continue
		}
		if o == "durable" {
			s.remember(items[i].c, sps[i])
		}
		out[i] = map[string]any{"err": "", "out": o, "base": r.BaseOffset + 1, "last": r.LastOffset, "need": r.NeedFrom}
	}
	// the reply of the call is the list; "err" only carries an unexpected error class to the caller
	return map[string]any{"err": worst, "items": out}, nil
}

var _ = quorumlog.AppendOutcomeDurable

// batchDivergenceClass: C08 when the store admitted an item the specification rejects.
func batchDivergenceClass(want, got any) string {
	w, _ := kit.Canon(want).(map[string]any)
	g, _ := kit.Canon(got).(map[string]any)
	wi, gi := kit.List(w, "items"), kit.List(g, "items")
	for i := 0; i < len(wi) && i < len(gi); i++ {
		wm, _ := wi[i].(map[string]any)
		gm, _ := gi[i].(map[string]any)
		if kit.Str(wm, "err") == "rejected" && kit.Str(gm, "err") == "" {
			return "C08"
		}
	}
	return "C07"
}

// ---- driver (code -> spec) --------------------------------------------------------------------

func hasKey(r rec) bool { return r.from != "" && r.no != "" }

// keyedClean draws n clean records for c of which the first carries a (sender, client number) key.
func (d *driver) keyedClean(c string, n int) []rec {
	for try := 0; try < 12; try++ {
		rs := d.cleanRecs(c, n)
		if rs == nil {
			return nil
		}
		for i, r := range rs {
			if hasKey(r) {
				rs[0], rs[i] = rs[i], rs[0]
				return rs
			}
		}
	}
	return nil
}

// batchTrace drives one compat store mostly through multi-item StoreAppendBatch calls: pipelined
// chains of two or three proposals on one channel, a later item repeating the key or the id of an
// earlier item of the same call (both append modes), a proposal together with its own retry,
// items of two channels in one call, replays of stored proposals next to new ones, gaps and
// taken commands; single exact appends, truncation, lease and database reopen in between.  The
// environment contract of MessageLogX.ExBatch is respected (ids of different channels differ,
// server-allocated ids are not stored, an item behind a rejected one does not reuse its ids or keys).
func (d *driver) batchTrace(tr int) {
	pool := map[int64]bool{}
	for len(pool) < 16 {
		pool[1+d.rng.Int63n(2_000_000_000)] = true
	}
	d.ids = d.ids[:0]
	for id := range pool {
		d.ids = append(d.ids, id)
	}
	sortInts(d.ids)
	if !d.begin("compat", d.ids, []string{"u", "u1", "u 10"}, []string{"n", "n1", "n/10"}, 1, 2, 3, 4, 5, 6, 7, 8, 9, 10) {
		return
	}
	defer d.end()
	steps := 24 + d.rng.Intn(20)
	for i := 0; i < steps; i++ {
		open := d.openChans()
		var ev map[string]any
		x := d.rng.Intn(100)
		var c string
		if len(open) > 0 {
			c = open[d.rng.Intn(len(open))]
			if len(open) > 1 && d.rng.Intn(3) > 0 {
				c = open[0]
			}
		}
		leo, hw := d.s.lastLeo[c], d.s.lastHW[c]
		mode := []string{"strict", "alloc"}[d.rng.Intn(2)]
		item := func(c string, pid, b int64, rs []rec, mode string, committed int64) batchItem {
			return batchItem{c: c, pid: pid, b: uint64(b), recs: rs, mode: mode, hw: uint64(committed)}
		}
		commit := func(last int64) int64 { // a committed value the item may carry
			if d.rng.Intn(4) > 0 || last == 0 {
				return 0
			}
			return 1 + d.rng.Int63n(last)
		}
		var items []batchItem
		switch {
		case !d.s.dbIsOpen():
			ev = kit.Ev("OpenDB")
		case len(open) == 0 || x < 5:
			cn := chanNames[d.rng.Intn(len(chanNames))]
			if len(d.s.leases[cn]) >= 2 {
				continue
			}
			ev = kit.Ev("OpenLease", "c", cn)
		case x < 8:
			ev = kit.Ev("CloseLease", "c", c)
		case x < 10:
			ev = kit.Ev("CloseDB")
		case x < 28: // a pipelined chain of two or three new proposals
			n := 2 + d.rng.Intn(2)
			rs := d.cleanRecs(c, n+1)
			p1 := d.freePid(c)
			if rs == nil || p1 == 0 {
				continue
			}
			used := []int64{p1}
			b := leo
			rising := d.rng.Intn(3) == 0 // every item carries its own last offset as committed value: the highest one wins
			for k := 0; k < n; k++ {
				pid := p1
				if k > 0 {
					if pid = d.freePid(c, used...); pid == 0 {
						break
					}
					used = append(used, pid)
				}
				recs := rs[k : k+1]
				if k == n-1 && d.rng.Intn(3) == 0 {
					recs = rs[k : k+2]
				}
				committed := commit(b + int64(len(recs)))
				if rising {
					committed = b + int64(len(recs))
				}
				items = append(items, item(c, pid, b, recs, mode, committed))
				b += int64(len(recs))
			}
		case x < 46: // ... the second one repeats the key, or the id, of the first (C08), a clean third behind
			rs := d.keyedClean(c, 3)
			p1 := d.freePid(c)
			p2 := d.freePid(c, p1)
			if rs == nil || p1 == 0 || p2 == 0 {
				continue
			}
			dup := rs[1]
			if d.rng.Intn(3) > 0 {
				dup.from, dup.no = rs[0].from, rs[0].no // the repeated key under another id
			} else {
				dup.id = rs[0].id // the repeated id
			}
			items = []batchItem{item(c, p1, leo, rs[:1], mode, 0), item(c, p2, leo+1, []rec{dup}, mode, 0)}
			if p3 := d.freePid(c, p1, p2); p3 != 0 && d.rng.Intn(2) == 0 {
				// chained behind the first one (the second one is refused) or behind the second one (a gap)
				items = append(items, item(c, p3, leo+1+int64(d.rng.Intn(2)), rs[2:3], mode, 0))
			}
		case x < 60: // a proposal and its own retry in one call, possibly with something chained behind
			rs := d.cleanRecs(c, 3)
			p1 := d.freePid(c)
			if rs == nil || p1 == 0 {
				continue
			}
			first := item(c, p1, leo, rs[:1+d.rng.Intn(2)], mode, 0)
			retry := first
			retry.hw = uint64(commit(leo + int64(len(first.recs))))
			items = []batchItem{first, retry}
			if p2 := d.freePid(c, p1); p2 != 0 && d.rng.Intn(2) == 0 {
				next := item(c, p2, leo+int64(len(first.recs)), rs[2:3], mode, 0)
				if d.rng.Intn(2) == 0 {
					items = []batchItem{first, next, retry}
				} else {
					items = append(items, next)
				}
			}
		case x < 70: // two channels in one call
			if len(open) < 2 {
				continue
			}
			c2 := open[1]
			if c2 == c {
				c2 = open[0]
			}
			rs, rs2 := d.cleanRecs(c, 2), d.cleanRecs(c2, 1)
			p1, p2, q1 := d.freePid(c), d.freePid(c), d.freePid(c2)
			if rs == nil || rs2 == nil || p1 == 0 || q1 == 0 || rs2[0].id == rs[0].id || rs2[0].id == rs[1].id {
				continue
			}
			items = []batchItem{item(c, p1, leo, rs[:1], mode, commit(leo+1)), item(c2, q1, d.s.lastLeo[c2], rs2, []string{"strict", "alloc"}[d.rng.Intn(2)], 0)}
			if p2 != p1 && p2 != 0 && d.rng.Intn(2) == 0 {
				items = append(items, item(c, p2, leo+1, rs[1:2], mode, 0))
			}
		case x < 78: // the replay of a stored proposal next to a new one
			var cands []sealed
			for _, p := range d.s.pids {
				if sp, ok := d.s.stored[c][p]; ok {
					cands = append(cands, sp)
				}
			}
			rs := d.cleanRecs(c, 1)
			p1 := d.freePid(c)
			if len(cands) == 0 || rs == nil || p1 == 0 {
				continue
			}
			sp := cands[d.rng.Intn(len(cands))]
			committed := int64(0)
			if last := int64(sp.last()); last > hw && d.rng.Intn(2) == 0 {
				committed = hw + 1 + d.rng.Int63n(last-hw)
			}
			old := item(c, sp.pid, int64(sp.base), sp.recs, "strict", committed)
			fresh := item(c, p1, leo, rs, mode, 0)
			if d.rng.Intn(2) == 0 {
				items = []batchItem{old, fresh}
			} else {
				items = []batchItem{fresh, old}
			}
		case x < 84: // refused shapes: a gap behind the first item, the first item's command again with other content
			rs := d.cleanRecs(c, 2)
			p1 := d.freePid(c)
			p2 := d.freePid(c, p1)
			if rs == nil || p1 == 0 || p2 == 0 {
				continue
			}
			switch d.rng.Intn(3) {
			case 0:
				items = []batchItem{item(c, p1, leo, rs[:1], mode, 0), item(c, p2, leo+2, rs[1:], mode, 0)}
			case 1:
				items = []batchItem{item(c, p1, leo, rs[:1], mode, 0), item(c, p1, leo+int64(d.rng.Intn(2)), rs[1:], mode, 0)}
			default:
				items = []batchItem{item(c, p1, leo+1, rs[:1], mode, 0), item(c, p2, leo, rs[1:], mode, 0)}
			}
		case x < 90: // a stored key under a fresh id in one of two pipelined items
			keys := d.storedKeys(c)
			rs := d.cleanRecs(c, 2)
			p1 := d.freePid(c)
			p2 := d.freePid(c, p1)
			if len(keys) == 0 || rs == nil || p1 == 0 || p2 == 0 {
				continue
			}
			var ks [][2]string
			for k := range keys {
				ks = append(ks, k)
			}
			for a := 1; a < len(ks); a++ { // map order is random: sort
				for b := a; b > 0 && (ks[b][0] < ks[b-1][0] || (ks[b][0] == ks[b-1][0] && ks[b][1] < ks[b-1][1])); b-- {
					ks[b], ks[b-1] = ks[b-1], ks[b]
				}
			}
			k := ks[d.rng.Intn(len(ks))]
			which := d.rng.Intn(2)
			rs[which].from, rs[which].no = k[0], k[1]
			if hasKey(rs[1-which]) && rs[1-which].from == k[0] && rs[1-which].no == k[1] {
				continue
			}
			// the item behind a refused first item sits at the log end itself
			b2 := leo + 1
			if which == 0 {
				b2 = leo
			}
			items = []batchItem{item(c, p1, leo, rs[:1], mode, 0), item(c, p2, b2, rs[1:], mode, 0)}
		case x < 95: // a single exact append / retry between the calls
			rs := d.cleanRecs(c, 1)
			p1 := d.freePid(c)
			if rs == nil || p1 == 0 {
				continue
			}
			ev = kit.Ev("ExAppend", "c", c, "pid", p1, "b", leo, "recs", recsJSON(rs), "mode", mode, "hw", commit(leo+1))
		case x < 98: // truncation to the end of a proposal
			e := d.ends(c)
			ev = kit.Ev("Truncate", "c", c, "to", e[d.rng.Intn(len(e))])
		default:
			ev = kit.Ev("CkptMono", "c", c, "hw", 1+d.rng.Int63n(leo+1))
		}
		if ev == nil {
			if len(items) < 2 {
				continue
			}
			ev = kit.Ev("ExBatch", "items", batchItemsJSON(items))
		}
		if !d.step(ev) {
			return
		}
	}
}

// ---- scripted probe: one message id offered to two channels in ONE call ------------------------

const sigSameIDTwoChannels = "C08:same-id-two-channels-one-batch-call"

// sameIDTwoChannelsProbe binds the shape the model-driven stages exclude by contract ("items of
// different channels carry different message ids within one call"): a fresh store, leases on c1
// and c2, ONE StoreAppendBatch call with a strict exact item at base 0 for each channel, both
// carrying message id X.  The property wants the id stored at most once on the node, so a refusal
// of one item is silence.  The known outcome on the current code (the in-call duplicate tracker is
// per channel, the node-wide id index is read from committed state only): both items Durable, a
// row with id X at seq 1 in both channels, the id index naming one of them -> reported with the
// finding's signature.  Anything else that leaves the id stored more than once (or stored next to
// an error) is a plain violation.
func (r *runner) sameIDTwoChannelsProbe() {
	const x = int64(7_000_001)
	cfg := map[string]any{"surface": "compat", "ids": []any{x}, "froms": []any{"u1"}, "nos": []any{"n1", "n2"}, "pids": []any{int64(1)}}
	s, err := newSUT(r.tmp(), "compat", cfg)
	if err != nil {
		r.rep.Infra("same-id probe: cannot open the store: %v", err)
		return
	}
	defer func() {
		s.shutdown()
		_ = os.RemoveAll(s.dir)
	}()
	for _, c := range []string{"c1", "c2"} {
		if err := s.openLease(c); err != nil {
			r.rep.Infra("same-id probe: lease %s: %v", c, err)
			return
		}
	}
	s.project()
	items := []batchItem{
		{c: "c1", pid: 1, b: 0, recs: []rec{{id: x, from: "u1", no: "n1", p: 0}}, mode: "strict"},
		{c: "c2", pid: 1, b: 0, recs: []rec{{id: x, from: "u1", no: "n2", p: 1}}, mode: "strict"},
	}
	ev := kit.Ev("ExBatch", "items", batchItemsJSON(items))
	res, err := s.apply(ev)
	if err != nil {
		r.rep.Infra("same-id probe: %v", err)
		return
	}
	if cls := kit.Str(res, "err"); cls != "" {
		r.rep.Infra("same-id probe: unexpected error %s", cls)
		return
	}
	proj := kit.Canon(s.project()).(map[string]any)
	if len(s.infra) > 0 {
		r.rep.Infra("same-id probe: %s", s.infra[0])
		return
	}
	r.rep.Cover("ExBatch")
	reps := kit.List(kit.Canon(res).(map[string]any), "items")
	durable, accepted := 0, 0
	for _, x := range reps {
		m, _ := x.(map[string]any)
		if kit.Str(m, "out") == "durable" {
			durable++
		}
		if kit.Str(m, "err") == "" {
			accepted++
		}
	}
	copies, atOne, indexed := 0, 0, 0
	for _, c := range []string{"c1", "c2"} {
		ch := kit.Map(proj, c)
		for _, row := range kit.List(ch, "log") {
			rm, _ := row.(map[string]any)
			if kit.Int(rm, "id") == x {
				copies++
				if kit.Int(rm, "seq") == 1 {
					atOne++
				}
			}
		}
		if by := kit.List(ch, "byId"); len(by) == 1 && kit.ToInt(by[0]) > 0 {
			indexed++ // the node-wide id index names this channel
		}
	}
	replay := map[string]any{"call": kit.CloneEv(ev), "observed": res, "observed_state": proj}
	detail := fmt.Sprintf("ONE StoreAppendBatch call with a strict exact item for c1 and one for c2, both carrying message id %d: replies %s; rows with that id on the node: %d (at seq 1: %d); channels the id index answers for: %d",
		x, kit.JSON(reps), copies, atOne, indexed)
	switch {
	case copies <= 1 && accepted == copies:
		// stored at most once, and only what was acknowledged: what the property wants
		r.rep.AddExtra("same_id_two_channels_probe_refused", 1)
	case len(reps) == 2 && durable == 2 && copies == 2 && atOne == 2 && indexed == 1:
		if !r.known[sigSameIDTwoChannels] {
			r.known[sigSameIDTwoChannels] = true
			r.rep.AddExtra("known_finding_hits", 1)
			r.rep.ViolateSig("C08", "id-stored-twice", detail, sigSameIDTwoChannels, replay)
		}
	default:
		r.rep.Violate("C08", "id-stored-twice", detail, replay)
	}
}

package messagelog

// CancelAppend (specs/MessageLog/Sim.tla): an append whose context is cancelled while the call
// is still validating.  No hook is needed: the context handed to the store reports
// context.Canceled from its k-th Err() poll on (its Done channel never fires, so only the
// places where the code polls the context can observe the cancellation).  The call is made
// for k = 0, 1, 2, ... until it is no longer cancelled, which visits every point at which the
// code consults the context, among them every point between two scanned keys of the
// membership-filter rebuild (idempotency.go ensureIdempotencyMembershipLoaded).  A cancelled
// call must fail and leave the log end where it was; the reply of the step is the reply of
// the last (uncancelled) call, and the specification's projection after the step, together
// with the duplicate appends the behaviour issues next, shows whether a cancelled call left
// anything behind (rows, or a filter flagged complete that covers only some stored keys).
//
// typed surface:  ChannelLog.Append(ctx, ..)
// compat surface: message.StoreAppendBatch(ctx, one plain item) (the compat Append methods take
// no context)

import (
	"context"
	"errors"
	"fmt"
	"sync/atomic"
	"time"

	"github.com/WuKongIM/WuKongIM/pkg/db/message"
	"verif/runner/kit"
)

// countdownCtx reports context.Canceled from the (n+1)-th Err() call on.
type countdownCtx struct {
	context.Context
	left atomic.Int64
}

func newCountdownCtx(n int64) *countdownCtx {
	c := &countdownCtx{Context: context.Background()}
	c.left.Store(n)
	return c
}

func (c *countdownCtx) Err() error {
	if c.left.Add(-1) < 0 {
		return context.Canceled
	}
	return nil
}

func (c *countdownCtx) Deadline() (time.Time, bool) { return time.Time{}, false }
func (c *countdownCtx) Done() <-chan struct{}       { return nil }

const cancelSweepMax = 4096

func (s *sut) leoOf(l lease) (uint64, error) {
	if s.typed() {
		return l.t.LEO(bg)
	}
	return l.k.LEOWithError()
}

// cancelAppend performs the sweep described above and returns the reply of its last call.
func (s *sut) cancelAppend(ev map[string]any) (map[string]any, error) {
	c := kit.Str(ev, "c")
	l := s.w(c)
	rs := recsOf(ev)
	mode := kit.Str(ev, "mode")
	if mode != "strict" && mode != "alloc" {
		return nil, fmt.Errorf("CancelAppend mode %q", mode)
	}
	before, err := s.leoOf(l)
	if err != nil {
		return nil, err
	}
	for k := int64(0); k < cancelSweepMax; k++ {
		ctx := newCountdownCtx(k)
		var res map[string]any
		var callErr error
		if s.typed() {
			m := message.AppendStrict
			if mode == "alloc" {
				m = message.AppendServerAllocatedMessageID
			}
			r, e := l.t.Append(ctx, s.typedRecords(rs), message.AppendOptions{Mode: m})
			callErr = e
			res = appRes(e, int64(r.BaseSeq), int64(len(rs)))
		} else {
			out := message.StoreAppendBatch(ctx, []message.AppendBatchItem{{Store: l.k, Records: s.compatRecords(c, rs, 0),
				Class: message.AppendBatchClassLeaderQuorum, ServerAllocatedMessageIDs: mode == "alloc"}})
			if len(out) != 1 {
				return nil, fmt.Errorf("StoreAppendBatch returned %d results", len(out))
			}
			callErr = out[0].Err
			res = appRes(callErr, int64(out[0].BaseOffset)+1, int64(len(rs)))
		}
		if !errors.Is(callErr, context.Canceled) {
			return res, nil
		}
		after, err := s.leoOf(l)
		if err != nil {
			return nil, err
		}
		if after != before {
			// a cancelled call that moved the log end: reported as the reply (never matches the specification)
			return map[string]any{"err": fmt.Sprintf("cancelled after %d context polls, yet the log end moved %d -> %d", k, before, after), "base": 0, "last": 0}, nil
		}
	}
	return nil, fmt.Errorf("CancelAppend: still cancelled after %d context polls", cancelSweepMax)
}

// cancelStep performs the cancellation sweep and records it as what it amounts to for the
// specification: one ordinary Append (Trace.tla knows no other name for it).
func (d *driver) cancelStep(c, mode string, rs []rec) bool {
	ev := kit.Ev("CancelAppend", "c", c, "mode", mode, "recs", recsJSON(rs))
	res, err := d.s.cancelAppend(ev)
	if err != nil {
		d.r.rep.Infra("driver %s: %v", kit.JSON(ev), err)
		return false
	}
	out := kit.Ev("Append", "c", c, "mode", mode, "base", 0, "recs", recsJSON(rs))
	out["res"] = res
	proj := d.s.project()
	if len(d.s.infra) > 0 {
		d.r.rep.Infra("driver after %s: %s", kit.JSON(ev), d.s.infra[0])
		return false
	}
	d.rec.Step(out, proj)
	d.r.rep.Cover("CancelAppend")
	return true
}

// cancelTrace: a channel that holds `stored` keys is reopened cold, the first validating
// append after the reopen is cancelled at every point (among them after 0, 1, 2, ... scanned
// index keys), then every stored key is offered again under a fresh id and must collide.
func (d *driver) cancelTrace(surface string, stored int) {
	var ids []int64
	for k := 0; k < 8; k++ {
		ids = append(ids, int64(800000+k))
	}
	nos := []string{"cn-000", "cn-001", fmt.Sprintf("cn-%03d", stored/2), fmt.Sprintf("cn-%03d", stored-1), "cn-new"}
	d.ids = ids
	if !d.begin(surface, ids, []string{"u"}, nos) {
		return
	}
	defer d.end()
	c := []string{"c1", "c2"}[d.rng.Intn(2)]
	if !d.step(kit.Ev("OpenLease", "c", c)) {
		return
	}
	rs := make([]rec, stored)
	for k := range rs {
		rs[k] = rec{id: int64(810000 + k), from: "u", no: fmt.Sprintf("cn-%03d", k), p: int64(k % 2)}
	}
	for at := 0; at < stored; at += 16 {
		end := at + 16
		if end > stored {
			end = stored
		}
		mode := []string{"alloc", "strict", "trusted"}[d.rng.Intn(3)]
		if !d.step(kit.Ev("Append", "c", c, "mode", mode, "base", 0, "recs", recsJSON(rs[at:end]))) {
			return
		}
	}
	if !d.step(kit.Ev("CloseDB")) || !d.step(kit.Ev("OpenDB")) || !d.step(kit.Ev("OpenLease", "c", c)) {
		return
	}
	mode := []string{"strict", "alloc"}[d.rng.Intn(2)]
	if !d.cancelStep(c, mode, []rec{{id: ids[0], from: "u", no: "cn-new", p: 1}}) {
		return
	}
	for k := 0; k <= stored; k++ {
		no := "cn-new"
		if k < stored {
			no = rs[k].no
		}
		dup := rec{id: ids[1+k%3], from: "u", no: no, p: 0}
		if !d.step(kit.Ev("Append", "c", c, "mode", []string{"strict", "alloc"}[k%2], "base", 0, "recs", recsJSON([]rec{dup}))) {
			return
		}
	}
}

package messagelog

// The exact-proposal path of the compat surface (specs/MessageLog/MessageLogX.tla):
// ExAppend = message.StoreAppendBatch with one exact item, Replace = ReplaceRecoverySuffix,
// and the exact view of a channel (frontier, entry identities, proposals by command).
//
// Manifests are sealed with quorumlog.SealProposalManifest (pkg/channel re-exports it as
// ch.SealProposalManifest) over the semantic content the store derives from a compat record,
// chained to the identity this harness issued for the entry at the base offset.  A request
// for a command the store acknowledged before, with the same base and records, is sent again
// byte for byte (the exact retry of a leader after a lost reply); anything else is sealed
// afresh against the harness's view of the chain.

import (
	"crypto/sha256"
	"fmt"

	"github.com/WuKongIM/WuKongIM/pkg/db/message"
	"github.com/WuKongIM/WuKongIM/pkg/quorumlog"
	"verif/runner/kit"
)

const exactEpoch = 1

func commandID(c string, pid int64) quorumlog.CommandID {
	return quorumlog.CommandID(sha256.Sum256([]byte(fmt.Sprintf("verif-c07/%s/%d", c, pid))))
}

// qlRecord is the semantic content the store derives from a compat record when it computes
// the entry digests of a proposal.
func qlRecord(c string, r rec, seq uint64) quorumlog.Record {
	m := compatMessage(c, r)
	return quorumlog.Record{ID: m.MessageID, Index: seq, Epoch: exactEpoch, Setting: uint8(m.Setting), FromUID: m.FromUID,
		ClientMsgNo: m.ClientMsgNo, ServerTimestampMS: m.ServerTimestampMS, SyncOnce: m.Framer.SyncOnce, Payload: m.Payload}
}

// sealed is one proposal as offered to the store.
type sealed struct {
	pid      int64
	base     uint64
	recs     []rec
	manifest quorumlog.ProposalManifest
	entries  []quorumlog.EntryIdentity
}

func (sp sealed) last() uint64 { return sp.base + uint64(len(sp.recs)) }

// seal builds the manifest of command pid for recs placed after base, chained to prev (the
// identity at base; the zero value at base 0, a placeholder when the harness knows of none).
func seal(c string, pid int64, base uint64, rs []rec, prev quorumlog.EntryIdentity, havePrev bool) (sealed, error) {
	m := quorumlog.ProposalManifest{Version: quorumlog.ProposalManifestVersion, ChannelEpoch: exactEpoch, LeaderTerm: 1, FenceVersion: 1,
		CommandID: commandID(c, pid), BaseOffset: base, LastOffset: base + uint64(len(rs)), PreviousIndex: base}
	if base > 0 {
		if havePrev {
			m.PreviousTerm, m.PreviousDigest = prev.LeaderTerm, prev.Digest
		} else {
			m.PreviousTerm = 1
			m.PreviousDigest = quorumlog.EntryDigest(sha256.Sum256([]byte("verif-c07/no-predecessor")))
		}
	}
	qs := make([]quorumlog.Record, len(rs))
	for i, r := range rs {
		qs[i] = qlRecord(c, r, base+uint64(i)+1)
	}
	sm, ents, ok := quorumlog.SealProposalManifest(m, qs)
	if !ok {
		return sealed{}, fmt.Errorf("cannot seal proposal %d at base %d", pid, base)
	}
	return sealed{pid: pid, base: base, recs: append([]rec(nil), rs...), manifest: sm, entries: ents}, nil
}

func sameRecs(a, b []rec) bool {
	if len(a) != len(b) {
		return false
	}
	for i := range a {
		if a[i] != b[i] {
			return false
		}
	}
	return true
}

func recsOfList(l []any) []rec {
	var out []rec
	for _, r := range l {
		out = append(out, recOf(r.(map[string]any)))
	}
	return out
}

func outcomeName(o quorumlog.AppendOutcome) string {
	switch o {
	case quorumlog.AppendOutcomeDurable:
		return "durable"
	case quorumlog.AppendOutcomeAlreadyDurable:
		return "already"
	}
	return "none"
}

// forgetAbove drops the harness's memory of identities and acknowledged proposals above `to`
// (after a truncation / suffix replacement the store acknowledged).
func (s *sut) forgetAbove(c string, to uint64) {
	for seq := range s.chain[c] {
		if seq > to {
			delete(s.chain[c], seq)
		}
	}
	for pid, sp := range s.stored[c] {
		if sp.last() > to {
			delete(s.stored[c], pid)
		}
	}
}

func (s *sut) remember(c string, sp sealed) {
	s.stored[c][sp.pid] = sp
	for _, e := range sp.entries {
		s.chain[c][e.Index] = e
	}
}

func (s *sut) exAppend(c string, l lease, ev map[string]any) (map[string]any, error) {
	if s.typed() {
		return nil, fmt.Errorf("ExAppend on the typed surface")
	}
	pid, b, hw, mode := kit.Int(ev, "pid"), uint64(kit.Int(ev, "b")), uint64(kit.Int(ev, "hw")), kit.Str(ev, "mode")
	rs := recsOf(ev)
	if len(rs) == 0 || (mode != "strict" && mode != "alloc") {
		return nil, fmt.Errorf("ExAppend: bad arguments")
	}
	var sp sealed
	if old, ok := s.stored[c][pid]; ok && old.base == b && sameRecs(old.recs, rs) {
		sp = old // the identical request once more
	} else {
		prev, have := s.chain[c][b]
		var err error
		if sp, err = seal(c, pid, b, rs, prev, have); err != nil {
			return nil, err
		}
	}
	results := message.StoreAppendBatch(bg, []message.AppendBatchItem{{
		Store: l.k, Records: compatRecordsEpoch(c, rs, 0, exactEpoch), Committed: hw, Class: message.AppendBatchClassLeaderQuorum,
		ServerAllocatedMessageIDs: mode == "alloc", ExactBaseOffset: true, ExpectedBaseOffset: b, Proposal: sp.manifest}})
	if len(results) != 1 {
		return nil, fmt.Errorf("StoreAppendBatch returned %d results", len(results))
	}
	r := results[0]
	out := outcomeName(r.Outcome)
	if r.Err != nil || out == "none" {
		cls := errClass(r.Err)
		if cls == "" {
			cls = "other: outcome " + fmt.Sprint(r.Outcome)
		}
		return map[string]any{"err": cls, "out": "none", "base": 0, "last": 0, "need": r.NeedFrom}, nil
	}
	if out == "durable" {
		s.remember(c, sp)
	}
	return map[string]any{"err": "", "out": out, "base": r.BaseOffset + 1, "last": r.LastOffset, "need": r.NeedFrom}, nil
}

func (s *sut) replace(c string, l lease, ev map[string]any) (map[string]any, error) {
	if s.typed() {
		return nil, fmt.Errorf("Replace on the typed surface")
	}
	keep, hw := uint64(kit.Int(ev, "keep")), uint64(kit.Int(ev, "hw"))
	// the caller fences the replacement on the frontier it read; a channel whose frontier cannot
	// be read fails closed (the zero frontier is passed on and refused the same way)
	front, err := l.k.LoadDurableFrontier(bg)
	if err != nil && errClass(err) != "rejected" {
		return nil, fmt.Errorf("LoadDurableFrontier: %w", err)
	}
	req := message.ReplaceRecoverySuffixRequest{Expected: front, KeepThrough: keep, Committed: hw}
	base := keep
	prev, have := s.chain[c][keep]
	var sps []sealed
	for _, pj := range kit.List(ev, "ps") {
		pm := pj.(map[string]any)
		rs := recsOfList(kit.List(pm, "recs"))
		if len(rs) == 0 {
			return nil, fmt.Errorf("Replace: empty proposal")
		}
		sp, err := seal(c, kit.Int(pm, "pid"), base, rs, prev, have || base == 0)
		if err != nil {
			return nil, err
		}
		sps = append(sps, sp)
		req.Proposals = append(req.Proposals, message.RecoveryProposal{Manifest: sp.manifest, Records: compatRecordsEpoch(c, rs, 0, exactEpoch)})
		base = sp.manifest.LastOffset
		prev, have = sp.entries[len(sp.entries)-1], true
	}
	r, err := l.k.ReplaceRecoverySuffix(bg, req)
	out := outcomeName(r.Outcome)
	if err != nil || out != "durable" {
		cls := errClass(err)
		if cls == "" {
			cls = "other: outcome " + fmt.Sprint(r.Outcome)
		}
		return map[string]any{"err": cls, "out": "none", "last": 0}, nil
	}
	s.forgetAbove(c, keep)
	for _, sp := range sps {
		s.remember(c, sp)
	}
	return map[string]any{"err": "", "out": "durable", "last": r.LastOffset}, nil
}

func (s *sut) pidOf(c string, cmd quorumlog.CommandID) int64 {
	for p := int64(1); p <= 64; p++ { // the generators number their commands from 1
		if commandID(c, p) == cmd {
			return p
		}
	}
	return -9
}

// exact returns the exact view of a leased channel (specification: ExProj): the frontier, the
// command of the entry identity of every sequence in the window of the last rows, and the
// proposal stored under every probe command.  Markers: -2 = what the store returned does not
// match the rows it returns elsewhere / what was appended under that command.
func (s *sut) exact(c string, leo int64, bySeqRow map[int64]row) map[string]any {
	lo := int64(1)
	if leo-3 > lo {
		lo = leo - 3
	}
	ents := []int64{}
	cmds := []any{}
	out := map[string]any{"ok": false, "leo": 0, "hw": 0, "tail": 0}
	if s.typed() {
		for q := lo; q <= leo; q++ {
			ents = append(ents, 0)
		}
		for range s.pids {
			cmds = append(cmds, map[string]any{"p": 0, "base": 0, "last": 0})
		}
		out["ents"], out["cmds"] = ents, cmds
		return out
	}
	st := s.r(c).k
	front, err := st.LoadDurableFrontier(bg)
	switch {
	case err == nil:
		out["ok"], out["leo"], out["hw"] = true, front.LEO, front.Committed
		if front.LEO > 0 {
			out["tail"] = s.pidOf(c, front.Manifest.CommandID)
			if front.TailIdentity.CommandID != front.Manifest.CommandID || front.TailIdentity.Index != front.LEO ||
				front.Manifest.LastOffset != front.LEO {
				out["tail"] = -2
			}
		}
	case errClass(err) != "rejected":
		s.infra = append(s.infra, fmt.Sprintf("LoadDurableFrontier(%s): %v", c, err))
	}
	for q := lo; q <= leo; q++ {
		v := int64(0)
		rs, err := st.LoadDurableRecovery(bg, []uint64{uint64(q)})
		switch {
		case err == nil && len(rs.Entries) == 1 && rs.Entries[0].Present:
			id := rs.Entries[0].Identity
			v = s.pidOf(c, id.CommandID)
			if r, ok := bySeqRow[q]; ok && r.p >= 0 &&
				!quorumlog.VerifyEntry(id, qlRecord(c, rec{id: r.id, from: r.from, no: r.no, p: r.p}, uint64(q))) {
				v = -2 // the identity does not certify the stored row
			}
		case err != nil && errClass(err) != "rejected":
			s.infra = append(s.infra, fmt.Sprintf("LoadDurableRecovery(%s,%d): %v", c, q, err))
		}
		ents = append(ents, v)
	}
	for _, p := range s.pids {
		e := map[string]any{"p": 0, "base": 0, "last": 0}
		pr, ok, err := st.LoadDurableProposal(bg, commandID(c, p), 1<<20, 1<<30)
		switch {
		case err != nil && errClass(err) == "rejected":
			e["p"] = -1
		case err != nil:
			s.infra = append(s.infra, fmt.Sprintf("LoadDurableProposal(%s,%d): %v", c, p, err))
		case ok:
			e = map[string]any{"p": 1, "base": pr.Manifest.BaseOffset, "last": pr.Manifest.LastOffset}
			// the records are the rows a scan returns, and what was appended under this command
			sp, known := s.stored[c][p]
			good := pr.Manifest.CommandID == commandID(c, p) &&
				uint64(len(pr.Records)) == pr.Manifest.LastOffset-pr.Manifest.BaseOffset &&
				(!known || (sp.manifest == pr.Manifest && len(sp.recs) == len(pr.Records)))
			for i := 0; good && i < len(pr.Records); i++ {
				seq := int64(pr.Manifest.BaseOffset) + int64(i) + 1
				r, have := bySeqRow[seq]
				good = have && int64(pr.Records[i].Index) == seq && int64(pr.Records[i].ID) == r.id &&
					(!known || (sp.recs[i].id == r.id && sp.recs[i].from == r.from && sp.recs[i].no == r.no && sp.recs[i].p == r.p))
			}
			if !good {
				e["p"] = -2
			}
		}
		cmds = append(cmds, e)
	}
	out["ents"], out["cmds"] = ents, cmds
	return out
}

package messagelog

// Seeded random drivers (code -> spec): the recorded steps are validated by TLC against
// specs/MessageLog/Trace.tla.  The drivers choose arguments from what the real store last
// returned (never from a model of their own) and respect the environment contract of the
// append modes: the server-allocated-id and trusted modes are only offered ids (and, for
// trusted, keys) that are not stored.

import (
	"fmt"
	"math/rand"
	"os"

	"verif/runner/kit"
)

type driver struct {
	r   *runner
	rec *kit.Recorder
	rng *rand.Rand
	s   *sut
	ids []int64 // id pool of this trace
	bad bool
}

func (d *driver) storedIDs() map[int64]bool {
	out := map[int64]bool{}
	for _, rows := range d.s.lastRows {
		for _, m := range rows {
			out[kit.ToInt(m["id"])] = true
		}
	}
	return out
}

func (d *driver) storedKeys(c string) map[[2]string]bool {
	out := map[[2]string]bool{}
	for _, m := range d.s.lastRows[c] {
		f, n := m["from"].(string), m["no"].(string)
		if f != "" && n != "" {
			out[[2]string{f, n}] = true
		}
	}
	return out
}

func (d *driver) openChans() []string {
	var out []string
	if !d.s.dbIsOpen() {
		return nil
	}
	for _, c := range chanNames {
		if len(d.s.leases[c]) > 0 {
			out = append(out, c)
		}
	}
	return out
}

func (d *driver) pickStr(pool []string) string {
	k := d.rng.Intn(len(pool) + 1)
	if k == len(pool) {
		return ""
	}
	return pool[k]
}

func (d *driver) pays() []int64 {
	if d.s.typed() {
		return []int64{0, 1, 2, 3, 4, 5} // the empty payload is a reported finding on this surface
	}
	return []int64{0, 1, 2, 3, 4, 5, 9}
}

func (d *driver) randRec(stored map[int64]bool) rec {
	id := d.ids[d.rng.Intn(len(d.ids))]
	if d.rng.Intn(10) < 7 { // prefer an id that is not stored
		for try := 0; try < 8 && stored[id]; try++ {
			id = d.ids[d.rng.Intn(len(d.ids))]
		}
	}
	ps := d.pays()
	return rec{id: id, from: d.pickStr(d.s.froms), no: d.pickStr(d.s.nos), p: ps[d.rng.Intn(len(ps))]}
}

func recsJSON(rs []rec) []any {
	out := make([]any, len(rs))
	for i, r := range rs {
		out[i] = map[string]any{"id": r.id, "from": r.from, "no": r.no, "p": r.p}
	}
	return out
}

// envOK is the environment contract of the mode for this batch in the store's current state.
func (d *driver) envOK(c, mode string, rs []rec) bool {
	if mode == "strict" {
		return true
	}
	ids, keys := d.storedIDs(), d.storedKeys(c)
	for _, r := range rs {
		if ids[r.id] {
			return false
		}
		if mode == "trusted" && r.from != "" && r.no != "" && keys[[2]string{r.from, r.no}] {
			return false
		}
	}
	return true
}

// step performs and records one call. false = the trace cannot continue.
func (d *driver) step(ev map[string]any) bool {
	res, err := d.s.apply(ev)
	if err != nil {
		d.r.rep.Infra("driver %s: %v", kit.JSON(ev), err)
		return false
	}
	if cls, _ := res["err"].(string); len(cls) > 5 && cls[:5] == "other" {
		d.r.rep.Infra("driver %s: unexpected error %s", kit.JSON(ev), cls)
		return false
	}
	ev["res"] = res
	proj := d.s.project()
	if len(d.s.infra) > 0 {
		d.r.rep.Infra("driver after %s: %s", kit.JSON(kit.CloneEv(ev)), d.s.infra[0])
		return false
	}
	d.rec.Step(ev, proj)
	d.r.rep.Cover(kit.Str(ev, "a"))
	return true
}

func (d *driver) begin(surface string, ids []int64, froms, nos []string) bool {
	cfg := map[string]any{"surface": surface, "ids": ids, "froms": froms, "nos": nos}
	s, err := newSUT(d.r.tmp(), surface, kit.Canon(cfg).(map[string]any))
	if err != nil {
		d.r.rep.Infra("driver: cannot open the store: %v", err)
		return false
	}
	d.s = s
	d.rec.Begin(map[string]any{"cfg": cfg}, s.project())
	return true
}

func (d *driver) end() {
	if d.s != nil {
		d.s.shutdown()
		_ = os.RemoveAll(d.s.dir)
		d.s = nil
	}
}

// truncateAllowed keeps the typed driver inside the contract (not below the adopted
// boundary) and away from the reported finding (a real truncation below RetainedMaxSeq).
func (d *driver) truncateAllowed(c string, to int64) bool {
	if !d.s.typed() {
		return true
	}
	has, local, _, rmax := d.s.retention(c)
	if !has || to >= d.s.lastLeo[c] {
		return true
	}
	return to >= local && to >= rmax
}

func (d *driver) randomTrace(tr int, c08 bool) {
	surface := []string{"typed", "compat"}[tr%2]
	// ids: a pool of distinct values below 2^31 (TLC integers are 32 bit)
	pool := map[int64]bool{}
	for len(pool) < 9 {
		pool[1+d.rng.Int63n(2_000_000_000)] = true
	}
	d.ids = d.ids[:0]
	for id := range pool {
		d.ids = append(d.ids, id)
	}
	sortInts(d.ids)
	froms := []string{"u", "u1", "u 10"}
	nos := []string{"n", "n1", "n/10"}
	if !d.begin(surface, d.ids, froms, nos) {
		return
	}
	defer d.end()
	steps := 25 + d.rng.Intn(30)
	for i := 0; i < steps; i++ {
		open := d.openChans()
		var ev map[string]any
		x := d.rng.Intn(100)
		switch {
		case !d.s.dbIsOpen():
			ev = kit.Ev("OpenDB")
		case len(open) == 0 || x < 6:
			c := chanNames[d.rng.Intn(len(chanNames))]
			if len(d.s.leases[c]) >= 2 {
				continue
			}
			ev = kit.Ev("OpenLease", "c", c)
		case x < 10:
			ev = kit.Ev("CloseLease", "c", open[d.rng.Intn(len(open))])
		case x < 12:
			ev = kit.Ev("CloseDB")
		case x < 48 || (c08 && x < 62):
			c := open[d.rng.Intn(len(open))]
			stored := d.storedIDs()
			n := 1 + d.rng.Intn(4)
			rs := make([]rec, n)
			for k := range rs {
				rs[k] = d.randRec(stored)
			}
			// aimed: reuse a stored key under another id / duplicate inside the batch
			if rows := d.s.lastRows[c]; len(rows) > 0 && d.rng.Intn(100) < map[bool]int{false: 15, true: 40}[c08] {
				m := rows[d.rng.Intn(len(rows))]
				rs[len(rs)-1].from, rs[len(rs)-1].no = m["from"].(string), m["no"].(string)
			}
			if n > 1 && d.rng.Intn(100) < 10 {
				rs[n-1].from, rs[n-1].no = rs[0].from, rs[0].no
			}
			mode := []string{"strict", "strict", "alloc", "alloc", "trusted"}[d.rng.Intn(5)]
			if !d.envOK(c, mode, rs) {
				mode = "strict"
			}
			base := int64(0)
			if d.s.typed() && mode == "strict" {
				switch y := d.rng.Intn(20); {
				case y < 2:
					base = d.s.lastLeo[c] + 1
				case y == 2:
					base = d.s.lastLeo[c] + 2
				case y == 3 && d.s.lastLeo[c] > 0:
					base = d.s.lastLeo[c]
				}
			}
			if d.rng.Intn(40) == 0 {
				rs = nil
			}
			ev = kit.Ev("Append", "c", c, "mode", mode, "base", base, "recs", recsJSON(rs))
		case x < 62:
			c := open[d.rng.Intn(len(open))]
			stored := d.storedIDs()
			n := d.rng.Intn(4)
			rs := make([]rec, n)
			for k := range rs {
				rs[k] = d.randRec(stored)
			}
			mode := "trusted"
			if !d.s.typed() && d.rng.Intn(3) == 0 {
				mode = "strict"
			}
			if !d.envOK(c, mode, rs) {
				if d.s.typed() {
					continue
				}
				mode = "strict"
			}
			leo := d.s.lastLeo[c]
			base := int64(0)
			switch y := d.rng.Intn(10); {
			case y < 3:
				base = leo + 1
			case y == 3:
				base = leo + 2
			}
			hw := int64(0)
			switch y := d.rng.Intn(10); {
			case y < 4:
				hw = 1 + d.rng.Int63n(leo+int64(n)+1)
			case y == 4:
				hw = leo + int64(n) + 1
			}
			ev = kit.Ev("Apply", "c", c, "mode", mode, "base", base, "recs", recsJSON(rs), "hw", hw)
		case x < 72:
			c := open[d.rng.Intn(len(open))]
			to := d.rng.Int63n(d.s.lastLeo[c] + 2)
			if !d.truncateAllowed(c, to) {
				continue
			}
			ev = kit.Ev("Truncate", "c", c, "to", to)
		case x < 78:
			if d.s.typed() {
				continue
			}
			c := open[d.rng.Intn(len(open))]
			ev = kit.Ev("Adopt", "c", c, "through", d.rng.Int63n(d.s.lastLeo[c]+3))
		case x < 90:
			c := open[d.rng.Intn(len(open))]
			through := d.rng.Int63n(d.s.lastLeo[c] + 3)
			if has, local, _, _ := d.s.retention(c); !d.s.typed() && has && d.rng.Intn(4) > 0 {
				through = local
			}
			ev = kit.Ev("Trim", "c", c, "through", through, "lim", d.rng.Intn(4))
		case x < 95:
			c := open[d.rng.Intn(len(open))]
			ev = kit.Ev("Ckpt", "c", c, "hw", 1+d.rng.Int63n(d.s.lastLeo[c]+2))
		default:
			c := open[d.rng.Intn(len(open))]
			ev = kit.Ev("CkptMono", "c", c, "hw", 1+d.rng.Int63n(d.s.lastLeo[c]+2))
		}
		reclaimBefore := d.s.reclaims()
		lastLease := kit.Str(ev, "a") == "CloseLease" && len(d.s.leases[kit.Str(ev, "c")]) == 1
		if !d.step(ev) {
			return
		}
		if lastLease && d.s.reclaims() != reclaimBefore+1 {
			d.r.rep.Infra("closing the last lease did not reclaim the canonical entry (reclaims %d -> %d)", reclaimBefore, d.s.reclaims())
			return
		}
	}
}

func sortInts(a []int64) {
	for i := 1; i < len(a); i++ {
		for j := i; j > 0 && a[j] < a[j-1]; j-- {
			a[j], a[j-1] = a[j-1], a[j]
		}
	}
}

func (s *sut) reclaims() uint64 {
	if s.ns != nil {
		return s.ns.Messages().ChannelEntryMetricsSnapshot().ReclaimTotal
	}
	if s.eng != nil {
		return s.eng.ChannelEntryMetricsSnapshot().ReclaimTotal
	}
	return 0
}

func (s *sut) filterCounters() (skips, reads uint64) {
	if s.ns != nil {
		m := s.ns.Messages().MetricsSnapshot()
		return m.IdempotencyNegativeFilterSkips, m.IdempotencyPointReads
	}
	if s.eng != nil {
		m := s.eng.MetricsSnapshot()
		return m.IdempotencyNegativeFilterSkips, m.IdempotencyPointReads
	}
	return 0, 0
}

// saturationTrace fills the channel's negative membership filter far beyond its primary
// capacity (384 keys) with distinct keys, trimming the rows away as it goes (the filter
// never forgets), and then replays colliding histories: in every mode, through the warm
// state of a reclaimed entry, and after a cold reopen (bounded rebuild of the filter).
func (d *driver) saturationTrace(surface string, rounds int) {
	const per = 64
	kept := 6
	var ids []int64
	next := int64(1000)
	nos := []string{}
	for k := 0; k < kept; k++ {
		nos = append(nos, fmt.Sprintf("keep-%d", k))
	}
	for k := 0; k < kept+8; k++ {
		ids = append(ids, int64(900000+k))
	}
	d.ids = ids
	if !d.begin(surface, ids, []string{"u"}, nos) {
		return
	}
	defer d.end()
	c := "c1"
	if !d.step(kit.Ev("OpenLease", "c", c)) {
		return
	}
	for round := 0; round < rounds; round++ {
		rs := make([]rec, per)
		for k := range rs {
			rs[k] = rec{id: next, from: "u", no: fmt.Sprintf("sat-%d", next), p: 2}
			next++
		}
		mode := []string{"alloc", "strict", "trusted"}[round%3]
		if !d.step(kit.Ev("Append", "c", c, "mode", mode, "base", 0, "recs", recsJSON(rs))) {
			return
		}
		leo := d.s.lastLeo[c]
		if !d.s.typed() {
			if !d.step(kit.Ev("Adopt", "c", c, "through", leo)) {
				return
			}
		}
		if !d.step(kit.Ev("Trim", "c", c, "through", leo, "lim", 0)) {
			return
		}
	}
	// rows that stay
	keep := make([]rec, kept)
	for k := range keep {
		keep[k] = rec{id: ids[k], from: "u", no: nos[k], p: int64(k % 2)}
	}
	if !d.step(kit.Ev("Append", "c", c, "mode", "alloc", "base", 0, "recs", recsJSON(keep[:kept-1]))) {
		return
	}
	// the last one arrives by a trusted follower apply
	if !d.step(kit.Ev("Apply", "c", c, "mode", "trusted", "base", 0, "recs", recsJSON(keep[kept-1:]), "hw", 0)) {
		return
	}
	spare := kept
	collide := func() bool {
		for k := 0; k < kept; k++ {
			mode := []string{"strict", "alloc"}[(k+spare)%2]
			dup := rec{id: ids[spare], from: "u", no: nos[k], p: 0}
			if !d.step(kit.Ev("Append", "c", c, "mode", mode, "base", 0, "recs", recsJSON([]rec{dup}))) {
				return false
			}
			// behind an acceptable record in the same batch
			if k%3 == 0 {
				ok := rec{id: ids[spare+1], from: "u", no: fmt.Sprintf("sat-x-%d-%d", spare, k), p: 0}
				if !d.step(kit.Ev("Append", "c", c, "mode", mode, "base", 0, "recs", recsJSON([]rec{ok, dup}))) {
					return false
				}
			}
		}
		return true
	}
	if !collide() {
		return
	}
	// through the warm state of a reclaimed entry
	if !d.step(kit.Ev("CloseLease", "c", c)) || !d.step(kit.Ev("OpenLease", "c", c)) || !collide() {
		return
	}
	// after a cold reopen: the filter is rebuilt by a bounded index scan
	if !d.step(kit.Ev("CloseDB")) || !d.step(kit.Ev("OpenDB")) || !d.step(kit.Ev("OpenLease", "c", c)) || !collide() {
		return
	}
	// a key that is not stored is still accepted, and from then on collides
	fresh := rec{id: ids[spare+2], from: "u", no: "fresh-key", p: 1}
	if !d.step(kit.Ev("Append", "c", c, "mode", "alloc", "base", 0, "recs", recsJSON([]rec{fresh}))) {
		return
	}
	again := rec{id: ids[spare+3], from: "u", no: "fresh-key", p: 1}
	if !d.step(kit.Ev("Append", "c", c, "mode", "alloc", "base", 0, "recs", recsJSON([]rec{again}))) {
		return
	}
	// a truncated key is free again
	leo := d.s.lastLeo[c]
	if d.truncateAllowed(c, leo-1) {
		if !d.step(kit.Ev("Truncate", "c", c, "to", leo-1)) {
			return
		}
		if !d.step(kit.Ev("Append", "c", c, "mode", "alloc", "base", 0, "recs", recsJSON([]rec{again}))) {
			return
		}
	}
	skips, reads := d.s.filterCounters()
	d.r.rep.Extra("saturation_"+surface, map[string]any{"distinct_keys_added": rounds*per + kept, "filter_skips_since_reopen": skips, "point_reads_since_reopen": reads})
}

func (r *runner) drive(rec *kit.Recorder) {
	d := &driver{r: r, rec: rec, rng: r.env.Rand()}
	c08 := r.env.Property == "C08"
	traces := r.env.Pick(40, 300)
	for tr := 0; tr < traces; tr++ {
		d.randomTrace(tr, c08)
	}
	rounds := r.env.Pick(8, 40)
	if !c08 {
		rounds = r.env.Pick(7, 12)
	}
	d.saturationTrace("typed", rounds)
	d.saturationTrace("compat", rounds)
}

package messagelog

// Seeded random drivers (code -> spec): the recorded steps are validated by TLC against
// specs/MessageLog/Trace.tla.  The drivers choose arguments from what the real store last
// returned (never from a model of their own) and respect the environment contract of the
// append modes: the server-allocated-id and trusted modes are only offered ids (and, for
// trusted, keys) that are not stored.

import (
	"fmt"
	"math/rand"
	"os"

	"verif/runner/kit"
)

type driver struct {
	r   *runner
	rec *kit.Recorder
	rng *rand.Rand
	s   *sut
	ids []int64 // id pool of this trace
	bad bool
}

func (d *driver) storedIDs() map[int64]bool {
	out := map[int64]bool{}
	for _, rows := range d.s.lastRows {
		for _, m := range rows {
			out[kit.ToInt(m["id"])] = true
		}
	}
	return out
}

func (d *driver) storedKeys(c string) map[[2]string]bool {
	out := map[[2]string]bool{}
	for _, m := range d.s.lastRows[c] {
		f, n := m["from"].(string), m["no"].(string)
		if f != "" && n != "" {
			out[[2]string{f, n}] = true
		}
	}
	return out
}

func (d *driver) openChans() []string {
	var out []string
	if !d.s.dbIsOpen() {
		return nil
	}
	for _, c := range chanNames {
		if len(d.s.leases[c]) > 0 {
			out = append(out, c)
		}
	}
	return out
}

func (d *driver) pickStr(pool []string) string {
	k := d.rng.Intn(len(pool) + 1)
	if k == len(pool) {
		return ""
	}
	return pool[k]
}

func (d *driver) pays() []int64 {
	if d.s.typed() {
		return []int64{0, 1, 2, 3, 4, 5} // the empty payload is a reported finding on this surface
	}
	return []int64{0, 1, 2, 3, 4, 5, 9}
}

func (d *driver) randRec(stored map[int64]bool) rec {
	id := d.ids[d.rng.Intn(len(d.ids))]
	if d.rng.Intn(10) < 7 { // prefer an id that is not stored
		for try := 0; try < 8 && stored[id]; try++ {
			id = d.ids[d.rng.Intn(len(d.ids))]
		}
	}
	ps := d.pays()
	return rec{id: id, from: d.pickStr(d.s.froms), no: d.pickStr(d.s.nos), p: ps[d.rng.Intn(len(ps))]}
}

func recsJSON(rs []rec) []any {
	out := make([]any, len(rs))
	for i, r := range rs {
		out[i] = map[string]any{"id": r.id, "from": r.from, "no": r.no, "p": r.p}
	}
	return out
}

// envOK is the environment contract of the mode for this batch in the store's current state.
func (d *driver) envOK(c, mode string, rs []rec) bool {
	if mode == "strict" {
		return true
	}
	ids, keys := d.storedIDs(), d.storedKeys(c)
	for _, r := range rs {
		if ids[r.id] {
			return false
		}
		if mode == "trusted" && r.from != "" && r.no != "" && keys[[2]string{r.from, r.no}] {
			return false
		}
	}
	return true
}

// step performs and records one call. false = the trace cannot continue.
func (d *driver) step(ev map[string]any) bool {
	res, err := d.s.apply(ev)
	if err != nil {
		d.r.rep.Infra("driver %s: %v", kit.JSON(ev), err)
		return false
	}
	if cls, _ := res["err"].(string); len(cls) > 5 && cls[:5] == "other" {
		d.r.rep.Infra("driver %s: unexpected error %s", kit.JSON(ev), cls)
		return false
	}
	ev["res"] = res
	proj := d.s.project()
	if len(d.s.infra) > 0 {
		d.r.rep.Infra("driver after %s: %s", kit.JSON(kit.CloneEv(ev)), d.s.infra[0])
		return false
	}
	d.rec.Step(ev, proj)
	d.r.rep.Cover(kit.Str(ev, "a"))
	return true
}

func (d *driver) begin(surface string, ids []int64, froms, nos []string, pids ...int64) bool {
	if pids == nil {
		pids = []int64{}
	}
	cfg := map[string]any{"surface": surface, "ids": ids, "froms": froms, "nos": nos, "pids": pids}
	s, err := newSUT(d.r.tmp(), surface, kit.Canon(cfg).(map[string]any))
	if err != nil {
		d.r.rep.Infra("driver: cannot open the store: %v", err)
		return false
	}
	d.s = s
	d.rec.Begin(map[string]any{"cfg": cfg}, s.project())
	return true
}

func (d *driver) end() {
	if d.s != nil {
		d.s.shutdown()
		_ = os.RemoveAll(d.s.dir)
		d.s = nil
	}
}

// truncateAllowed keeps the typed driver inside the contract (not below the adopted
// boundary) and away from the reported finding (a real truncation below RetainedMaxSeq).
func (d *driver) truncateAllowed(c string, to int64) bool {
	if !d.s.typed() {
		return true
	}
	has, local, _, rmax := d.s.retention(c)
	if !has || to >= d.s.lastLeo[c] {
		return true
	}
	return to >= local && to >= rmax
}

func (d *driver) randomTrace(tr int, c08 bool) {
	surface := []string{"typed", "compat"}[tr%2]
	// ids: a pool of distinct values below 2^31 (TLC integers are 32 bit)
	pool := map[int64]bool{}
	for len(pool) < 9 {
		pool[1+d.rng.Int63n(2_000_000_000)] = true
	}
	d.ids = d.ids[:0]
	for id := range pool {
		d.ids = append(d.ids, id)
	}
	sortInts(d.ids)
	froms := []string{"u", "u1", "u 10"}
	nos := []string{"n", "n1", "n/10"}
	if !d.begin(surface, d.ids, froms, nos, 1, 2) {
		return
	}
	defer d.end()
	steps := 25 + d.rng.Intn(30)
	for i := 0; i < steps; i++ {
		open := d.openChans()
		var ev map[string]any
		x := d.rng.Intn(100)
		switch {
		case !d.s.dbIsOpen():
			ev = kit.Ev("OpenDB")
		case len(open) == 0 || x < 6:
			c := chanNames[d.rng.Intn(len(chanNames))]
			if len(d.s.leases[c]) >= 2 {
				continue
			}
			ev = kit.Ev("OpenLease", "c", c)
		case x < 10:
			ev = kit.Ev("CloseLease", "c", open[d.rng.Intn(len(open))])
		case x < 12:
			ev = kit.Ev("CloseDB")
		case x < 48 || (c08 && x < 62):
			c := open[d.rng.Intn(len(open))]
			stored := d.storedIDs()
			n := 1 + d.rng.Intn(4)
			rs := make([]rec, n)
			for k := range rs {
				rs[k] = d.randRec(stored)
			}
			// aimed: reuse a stored key under another id / duplicate inside the batch
			if rows := d.s.lastRows[c]; len(rows) > 0 && d.rng.Intn(100) < map[bool]int{false: 15, true: 40}[c08] {
				m := rows[d.rng.Intn(len(rows))]
				rs[len(rs)-1].from, rs[len(rs)-1].no = m["from"].(string), m["no"].(string)
			}
			if n > 1 && d.rng.Intn(100) < 10 {
				rs[n-1].from, rs[n-1].no = rs[0].from, rs[0].no
			}
			mode := []string{"strict", "strict", "alloc", "alloc", "trusted"}[d.rng.Intn(5)]
			if !d.envOK(c, mode, rs) {
				mode = "strict"
			}
			base := int64(0)
			if d.s.typed() && mode == "strict" {
				switch y := d.rng.Intn(20); {
				case y < 2:
					base = d.s.lastLeo[c] + 1
				case y == 2:
					base = d.s.lastLeo[c] + 2
				case y == 3 && d.s.lastLeo[c] > 0:
					base = d.s.lastLeo[c]
				}
			}
			if d.rng.Intn(40) == 0 {
				rs = nil
			}
			ev = kit.Ev("Append", "c", c, "mode", mode, "base", base, "recs", recsJSON(rs))
		case x < 62:
			c := open[d.rng.Intn(len(open))]
			stored := d.storedIDs()
			n := d.rng.Intn(4)
			rs := make([]rec, n)
			for k := range rs {
				rs[k] = d.randRec(stored)
			}
			mode := "trusted"
			if !d.s.typed() && d.rng.Intn(3) == 0 {
				mode = "strict"
			}
			if !d.envOK(c, mode, rs) {
				if d.s.typed() {
					continue
				}
				mode = "strict"
			}
			leo := d.s.lastLeo[c]
			base := int64(0)
			switch y := d.rng.Intn(10); {
			case y < 3:
				base = leo + 1
			case y == 3:
				base = leo + 2
			}
			hw := int64(0)
			switch y := d.rng.Intn(10); {
			case y < 4:
				hw = 1 + d.rng.Int63n(leo+int64(n)+1)
			case y == 4:
				hw = leo + int64(n) + 1
			}
			ev = kit.Ev("Apply", "c", c, "mode", mode, "base", base, "recs", recsJSON(rs), "hw", hw)
		case x < 72:
			c := open[d.rng.Intn(len(open))]
			to := d.rng.Int63n(d.s.lastLeo[c] + 2)
			if !d.truncateAllowed(c, to) {
				continue
			}
			ev = kit.Ev("Truncate", "c", c, "to", to)
		case x < 78:
			if d.s.typed() {
				continue
			}
			c := open[d.rng.Intn(len(open))]
			ev = kit.Ev("Adopt", "c", c, "through", d.rng.Int63n(d.s.lastLeo[c]+3))
		case x < 90:
			c := open[d.rng.Intn(len(open))]
			through := d.rng.Int63n(d.s.lastLeo[c] + 3)
			if has, local, _, _ := d.s.retention(c); !d.s.typed() && has && d.rng.Intn(4) > 0 {
				through = local
			}
			ev = kit.Ev("Trim", "c", c, "through", through, "lim", d.rng.Intn(4))
		case x < 95:
			c := open[d.rng.Intn(len(open))]
			ev = kit.Ev("Ckpt", "c", c, "hw", 1+d.rng.Int63n(d.s.lastLeo[c]+2))
		default:
			c := open[d.rng.Intn(len(open))]
			ev = kit.Ev("CkptMono", "c", c, "hw", 1+d.rng.Int63n(d.s.lastLeo[c]+2))
		}
		reclaimBefore := d.s.reclaims()
		lastLease := kit.Str(ev, "a") == "CloseLease" && len(d.s.leases[kit.Str(ev, "c")]) == 1
		if !d.step(ev) {
			return
		}
		if lastLease && d.s.reclaims() != reclaimBefore+1 {
			d.r.rep.Infra("closing the last lease did not reclaim the canonical entry (reclaims %d -> %d)", reclaimBefore, d.s.reclaims())
			return
		}
	}
}

// ---- exact proposals (compat surface) -------------------------------------------------------

// cmdState is what the store last reported for probe command pid of channel c.
func (d *driver) cmdState(c string, pid int64) (present bool, base, last int64) {
	ex := d.s.lastEx[c]
	if ex == nil {
		return false, 0, 0
	}
	cmds, _ := ex["cmds"].([]any)
	for i, p := range d.s.pids {
		if p == pid && i < len(cmds) {
			m := kit.Canon(cmds[i]).(map[string]any)
			return kit.Int(m, "p") != 0, kit.Int(m, "base"), kit.Int(m, "last")
		}
	}
	return false, 0, 0
}

// freePid returns a command the store does not report as stored on c (0 = none).
func (d *driver) freePid(c string, not ...int64) int64 {
	var free []int64
next:
	for _, p := range d.s.pids {
		for _, n := range not {
			if n == p {
				continue next
			}
		}
		if present, _, _ := d.cmdState(c, p); !present {
			free = append(free, p)
		}
	}
	if len(free) == 0 {
		return 0
	}
	return free[d.rng.Intn(len(free))]
}

// ends are the offsets a new proposal can be chained to, as far as the harness was told:
// 0 and the last offsets of the proposals the store acknowledged.
func (d *driver) ends(c string) []int64 {
	out := []int64{0}
	for _, sp := range d.s.stored[c] {
		out = append(out, int64(sp.last()))
	}
	sortInts(out)
	return out
}

// cleanRecs draws n records with distinct ids that are not stored anywhere and keys that are
// neither stored in c nor repeated (acceptable to every append mode); nil if the pool is used up.
func (d *driver) cleanRecs(c string, n int) []rec {
	stored, keys := d.storedIDs(), d.storedKeys(c)
	var out []rec
	for try := 0; try < 60 && len(out) < n; try++ {
		r := d.randRec(stored)
		if stored[r.id] || (r.from != "" && r.no != "" && keys[[2]string{r.from, r.no}]) {
			continue
		}
		stored[r.id] = true
		if r.from != "" && r.no != "" {
			keys[[2]string{r.from, r.no}] = true
		}
		out = append(out, r)
	}
	if len(out) < n {
		return nil
	}
	return out
}

func psJSON(ps []sealedArg) []any {
	out := make([]any, len(ps))
	for i, p := range ps {
		out[i] = map[string]any{"pid": p.pid, "recs": recsJSON(p.recs)}
	}
	return out
}

type sealedArg struct {
	pid  int64
	recs []rec
}

// exactTrace drives one compat store mostly through its exact-proposal path: chains of exact
// appends, exact retries of the tail and of older proposals with and without a committed value
// that still raises the stored watermark, conflicting offers, suffix replacements, interleaved
// with plain appends, follower applies, truncation, retention, checkpoints, lease close /
// reopen and database reopen.  Arguments come from what the store last returned and from what
// the harness itself proposed; the environment contract of MessageLogX is respected (a
// committed value never above the proposal's last offset; server-allocated ids only with ids
// that are not stored and, at the frontier, with a command that is not stored).
func (d *driver) exactTrace(tr int) {
	pool := map[int64]bool{}
	for len(pool) < 14 {
		pool[1+d.rng.Int63n(2_000_000_000)] = true
	}
	d.ids = d.ids[:0]
	for id := range pool {
		d.ids = append(d.ids, id)
	}
	sortInts(d.ids)
	froms := []string{"u", "u1", "u 10"}
	nos := []string{"n", "n1", "n/10"}
	if !d.begin("compat", d.ids, froms, nos, 1, 2, 3, 4, 5, 6, 7, 8) {
		return
	}
	defer d.end()
	steps := 30 + d.rng.Intn(30)
	for i := 0; i < steps; i++ {
		open := d.openChans()
		var ev map[string]any
		x := d.rng.Intn(100)
		var c string
		if len(open) > 0 {
			c = open[d.rng.Intn(len(open))]
			if len(open) > 1 && d.rng.Intn(4) > 0 {
				c = open[0] // keep most of the work on one channel so that chains grow
			}
		}
		leo, hw := d.s.lastLeo[c], d.s.lastHW[c]
		switch {
		case !d.s.dbIsOpen():
			ev = kit.Ev("OpenDB")
		case len(open) == 0 || x < 4:
			cn := chanNames[d.rng.Intn(len(chanNames))]
			if len(d.s.leases[cn]) >= 2 {
				continue
			}
			ev = kit.Ev("OpenLease", "c", cn)
		case x < 8:
			ev = kit.Ev("CloseLease", "c", c)
		case x < 10:
			ev = kit.Ev("CloseDB")
		case x < 36: // a new command at the frontier
			pid := d.freePid(c)
			rs := d.cleanRecs(c, 1+d.rng.Intn(2))
			if pid == 0 || rs == nil {
				continue
			}
			mode := []string{"strict", "alloc"}[d.rng.Intn(2)]
			committed := int64(0)
			if d.rng.Intn(4) == 0 {
				committed = 1 + d.rng.Int63n(leo+int64(len(rs)))
			}
			ev = kit.Ev("ExAppend", "c", c, "pid", pid, "b", leo, "recs", recsJSON(rs), "mode", mode, "hw", committed)
		case x < 58: // the exact retry of an acknowledged command
			var cands []sealed
			for _, p := range d.s.pids {
				if sp, ok := d.s.stored[c][p]; ok {
					cands = append(cands, sp)
				}
			}
			if len(cands) == 0 {
				continue
			}
			sp := cands[d.rng.Intn(len(cands))]
			if x < 50 { // prefer an older one that can still raise the watermark
				for _, o := range cands {
					if int64(o.last()) < leo && int64(o.last()) > hw {
						sp = o
						break
					}
				}
			}
			last := int64(sp.last())
			committed := d.rng.Int63n(last + 1)
			if last > hw && d.rng.Intn(3) > 0 {
				committed = hw + 1 + d.rng.Int63n(last-hw)
			}
			mode := "strict"
			if int64(sp.base) < leo && d.rng.Intn(2) == 0 {
				mode = "alloc" // not a fresh frontier extension: the replay checks apply
			}
			ev = kit.Ev("ExAppend", "c", c, "pid", sp.pid, "b", int64(sp.base), "recs", recsJSON(sp.recs), "mode", mode, "hw", committed)
		case x < 64: // offers that must be refused: a gap, a taken range, a base that is no proposal end, a known command with other content
			rs := d.cleanRecs(c, 1)
			if rs == nil {
				continue
			}
			pid := d.s.pids[d.rng.Intn(len(d.s.pids))]
			b := d.rng.Int63n(leo + 3)
			if e := d.ends(c); d.rng.Intn(2) == 0 {
				b = e[d.rng.Intn(len(e))]
			}
			ev = kit.Ev("ExAppend", "c", c, "pid", pid, "b", b, "recs", recsJSON(rs), "mode", "strict", "hw", 0)
		case x < 74: // suffix replacement
			e := d.ends(c)
			keep := e[d.rng.Intn(len(e))]
			if d.rng.Intn(6) == 0 {
				keep = d.rng.Int63n(leo + 2)
			}
			n := d.rng.Intn(3)
			var ps []sealedArg
			var used []int64
			total := 0
			for k := 0; k < n; k++ {
				// a free command, or one that the replacement removes
				pid := d.freePid(c, used...)
				for _, sp := range d.s.stored[c] {
					if int64(sp.last()) > keep && d.rng.Intn(3) == 0 {
						dup := false
						for _, u := range used {
							dup = dup || u == sp.pid
						}
						if !dup {
							pid = sp.pid
						}
					}
				}
				rs := d.cleanRecs(c, 1)
				if pid == 0 || rs == nil {
					break
				}
				clash := false
				for _, p := range ps {
					clash = clash || p.recs[0].id == rs[0].id ||
						(rs[0].from != "" && rs[0].no != "" && p.recs[0].from == rs[0].from && p.recs[0].no == rs[0].no)
				}
				if clash && d.rng.Intn(4) > 0 {
					break
				}
				used = append(used, pid)
				ps = append(ps, sealedArg{pid: pid, recs: rs})
				total++
			}
			final := keep + int64(total)
			committed := hw
			if final > hw && d.rng.Intn(2) == 0 {
				committed = hw + d.rng.Int63n(final-hw+1)
			}
			if d.rng.Intn(8) == 0 {
				committed = d.rng.Int63n(final + 1)
			}
			if committed > final {
				committed = final
			}
			ev = kit.Ev("Replace", "c", c, "keep", keep, "ps", psJSON(ps), "hw", committed)
		case x < 82: // a plain append behind the proposals
			rs := d.cleanRecs(c, 1+d.rng.Intn(2))
			if rs == nil {
				continue
			}
			mode := []string{"strict", "alloc", "trusted"}[d.rng.Intn(3)]
			ev = kit.Ev("Append", "c", c, "mode", mode, "base", 0, "recs", recsJSON(rs))
		case x < 85: // a follower apply, possibly with a watermark
			rs := d.cleanRecs(c, d.rng.Intn(2))
			if rs == nil && d.rng.Intn(2) == 0 {
				continue
			}
			committed := int64(0)
			if d.rng.Intn(2) == 0 {
				committed = 1 + d.rng.Int63n(leo+int64(len(rs))+1)
			}
			ev = kit.Ev("Apply", "c", c, "mode", "trusted", "base", 0, "recs", recsJSON(rs), "hw", committed)
		case x < 91: // truncation, mostly to the end of a proposal
			e := d.ends(c)
			to := e[d.rng.Intn(len(e))]
			if d.rng.Intn(3) == 0 {
				to = d.rng.Int63n(leo + 2)
			}
			ev = kit.Ev("Truncate", "c", c, "to", to)
		case x < 94:
			if leo == 0 {
				continue
			}
			ev = kit.Ev("Adopt", "c", c, "through", 1+d.rng.Int63n(leo))
		case x < 97:
			through := d.rng.Int63n(leo + 2)
			if has, local, _, _ := d.s.retention(c); has {
				through = local
			}
			ev = kit.Ev("Trim", "c", c, "through", through, "lim", d.rng.Intn(3))
		case x < 98:
			ev = kit.Ev("Ckpt", "c", c, "hw", 1+d.rng.Int63n(leo+1))
		default:
			ev = kit.Ev("CkptMono", "c", c, "hw", 1+d.rng.Int63n(leo+1))
		}
		if !d.step(ev) {
			return
		}
	}
}

func sortInts(a []int64) {
	for i := 1; i < len(a); i++ {
		for j := i; j > 0 && a[j] < a[j-1]; j-- {
			a[j], a[j-1] = a[j-1], a[j]
		}
	}
}

func (s *sut) reclaims() uint64 {
	if s.ns != nil {
		return s.ns.Messages().ChannelEntryMetricsSnapshot().ReclaimTotal
	}
	if s.eng != nil {
		return s.eng.ChannelEntryMetricsSnapshot().ReclaimTotal
	}
	return 0
}

func (s *sut) filterCounters() (skips, reads uint64) {
	if s.ns != nil {
		m := s.ns.Messages().MetricsSnapshot()
		return m.IdempotencyNegativeFilterSkips, m.IdempotencyPointReads
	}
	if s.eng != nil {
		m := s.eng.MetricsSnapshot()
		return m.IdempotencyNegativeFilterSkips, m.IdempotencyPointReads
	}
	return 0, 0
}

// saturationTrace fills the channel's negative membership filter far beyond its primary
// capacity (384 keys) with distinct keys, trimming the rows away as it goes (the filter
// never forgets), and then replays colliding histories: in every mode, through the warm
// state of a reclaimed entry, and after a cold reopen (bounded rebuild of the filter).
func (d *driver) saturationTrace(surface string, rounds int) {
	const per = 64
	kept := 6
	var ids []int64
	next := int64(1000)
	nos := []string{}
	for k := 0; k < kept; k++ {
		nos = append(nos, fmt.Sprintf("keep-%d", k))
	}
	for k := 0; k < kept+8; k++ {
		ids = append(ids, int64(900000+k))
	}
	d.ids = ids
	if !d.begin(surface, ids, []string{"u"}, nos) {
		return
	}
	defer d.end()
	c := "c1"
	if !d.step(kit.Ev("OpenLease", "c", c)) {
		return
	}
	for round := 0; round < rounds; round++ {
		rs := make([]rec, per)
		for k := range rs {
			rs[k] = rec{id: next, from: "u", no: fmt.Sprintf("sat-%d", next), p: 2}
			next++
		}
		mode := []string{"alloc", "strict", "trusted"}[round%3]
		if !d.step(kit.Ev("Append", "c", c, "mode", mode, "base", 0, "recs", recsJSON(rs))) {
			return
		}
		leo := d.s.lastLeo[c]
		if !d.s.typed() {
			if !d.step(kit.Ev("Adopt", "c", c, "through", leo)) {
				return
			}
		}
		if !d.step(kit.Ev("Trim", "c", c, "through", leo, "lim", 0)) {
			return
		}
	}
	// rows that stay
	keep := make([]rec, kept)
	for k := range keep {
		keep[k] = rec{id: ids[k], from: "u", no: nos[k], p: int64(k % 2)}
	}
	if !d.step(kit.Ev("Append", "c", c, "mode", "alloc", "base", 0, "recs", recsJSON(keep[:kept-1]))) {
		return
	}
	// the last one arrives by a trusted follower apply
	if !d.step(kit.Ev("Apply", "c", c, "mode", "trusted", "base", 0, "recs", recsJSON(keep[kept-1:]), "hw", 0)) {
		return
	}
	spare := kept
	collide := func() bool {
		for k := 0; k < kept; k++ {
			mode := []string{"strict", "alloc"}[(k+spare)%2]
			dup := rec{id: ids[spare], from: "u", no: nos[k], p: 0}
			if !d.step(kit.Ev("Append", "c", c, "mode", mode, "base", 0, "recs", recsJSON([]rec{dup}))) {
				return false
			}
			// behind an acceptable record in the same batch
			if k%3 == 0 {
				ok := rec{id: ids[spare+1], from: "u", no: fmt.Sprintf("sat-x-%d-%d", spare, k), p: 0}
				if !d.step(kit.Ev("Append", "c", c, "mode", mode, "base", 0, "recs", recsJSON([]rec{ok, dup}))) {
					return false
				}
			}
		}
		return true
	}
	if !collide() {
		return
	}
	// through the warm state of a reclaimed entry
	if !d.step(kit.Ev("CloseLease", "c", c)) || !d.step(kit.Ev("OpenLease", "c", c)) || !collide() {
		return
	}
	// after a cold reopen: the filter is rebuilt by a bounded index scan
	if !d.step(kit.Ev("CloseDB")) || !d.step(kit.Ev("OpenDB")) || !d.step(kit.Ev("OpenLease", "c", c)) || !collide() {
		return
	}
	// a key that is not stored is still accepted, and from then on collides
	fresh := rec{id: ids[spare+2], from: "u", no: "fresh-key", p: 1}
	if !d.step(kit.Ev("Append", "c", c, "mode", "alloc", "base", 0, "recs", recsJSON([]rec{fresh}))) {
		return
	}
	again := rec{id: ids[spare+3], from: "u", no: "fresh-key", p: 1}
	if !d.step(kit.Ev("Append", "c", c, "mode", "alloc", "base", 0, "recs", recsJSON([]rec{again}))) {
		return
	}
	// a truncated key is free again
	leo := d.s.lastLeo[c]
	if d.truncateAllowed(c, leo-1) {
		if !d.step(kit.Ev("Truncate", "c", c, "to", leo-1)) {
			return
		}
		if !d.step(kit.Ev("Append", "c", c, "mode", "alloc", "base", 0, "recs", recsJSON([]rec{again}))) {
			return
		}
	}
	skips, reads := d.s.filterCounters()
	d.r.rep.Extra("saturation_"+surface, map[string]any{"distinct_keys_added": rounds*per + kept, "filter_skips_since_reopen": skips, "point_reads_since_reopen": reads})
}

func (r *runner) drive(rec *kit.Recorder) {
	d := &driver{r: r, rec: rec, rng: r.env.Rand()}
	c08 := r.env.Property == "C08"
	traces := r.env.Pick(40, 300)
	for tr := 0; tr < traces; tr++ {
		d.randomTrace(tr, c08)
	}
	exact := r.env.Pick(16, 120)
	for tr := 0; tr < exact; tr++ {
		d.exactTrace(tr)
	}
	for tr, n := 0, r.env.Pick(12, 100); tr < n; tr++ {
		d.batchTrace(tr) // multi-item StoreAppendBatch calls (multibatch_test.go)
	}
	rounds := r.env.Pick(8, 40)
	if !c08 {
		rounds = r.env.Pick(7, 12)
	}
	d.saturationTrace("typed", rounds)
	d.saturationTrace("compat", rounds)
	if c08 {
		r.sameIDTwoChannelsProbe() // scripted: one message id, two channels, ONE call (multibatch_test.go)
		d.cancelTrace("typed", 24+d.rng.Intn(16)) // an append cancelled part-way through the filter rebuild (cancel_test.go)
		d.cancelTrace("compat", 24+d.rng.Intn(16))
	}
}

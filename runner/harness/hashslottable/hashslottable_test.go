package hashslottable

// Conformance harness for specs/HashSlotTable (property C20).  External package of the
// runner module; uses the exported API of pkg/hashslot (and pkg/controller/state for the
// controller's own initial hash-slot ranges) only.
//
//   spec -> code: TLC behaviours (table mutators, codec round trips, plans chosen by the
//                 specification and carried out with the table's own mutators) are replayed on a
//                 real hashslot.HashSlotTable; reply (sign of the version change, codec
//                 equality) and projection (Lookup, HashSlotsOf, AssignedSlotIDs,
//                 ActiveMigrations) are compared after every step.
//   code -> spec: (a) every table over small (hash slots, slots) sizes is visited, (b) a seeded
//                 random driver builds skewed and large tables; at each table the real
//                 ComputeAddSlotPlan / ComputeRemoveSlotPlan / ComputeRebalancePlan output is
//                 logged, sometimes carried out, and TLC validates the log against the relation
//                 IsValidPlan and the version / codec properties.

import (
	"fmt"
	"math/rand"
	"sort"
	"testing"

	"github.com/WuKongIM/WuKongIM/pkg/controller/state"
	"github.com/WuKongIM/WuKongIM/pkg/hashslot"
	"github.com/WuKongIM/WuKongIM/pkg/slot/multiraft"
	"verif/runner/kit"
)

const propID = "C20"

type sut struct {
	t       *hashslot.HashSlotTable
	H, P, S int
}

// layout is the specification's Init (contiguous ranges, the first H mod P slots get one more).
func layout(H, P int) []int64 {
	out := make([]int64, H)
	base, rem := H/P, H%P
	cut := rem * (base + 1)
	for h := 0; h < H; h++ {
		if h < cut {
			out[h] = int64(h/(base+1) + 1)
		} else {
			out[h] = int64(rem + (h-cut)/base + 1)
		}
	}
	return out
}

// newSUT builds the real table.  The property demands that the initial table maps every hash
// slot to one physical slot (checked here, a breach is a violation); the exact initial layout is
// not part of the property, so a different but total layout is normalised to the specification's
// with Reassign calls and only counted.
func newSUT(rep *kit.Report, H, P, S int) *sut {
	s := &sut{t: hashslot.NewHashSlotTable(uint16(H), P), H: H, P: P, S: S}
	want := layout(H, P)
	differs := 0
	for h := 0; h < H; h++ {
		got := int64(s.t.Lookup(uint16(h)))
		if got < 1 || got > int64(P) {
			rep.Violate(propID, "state", fmt.Sprintf("NewHashSlotTable(%d,%d): hash slot %d maps to slot %d (want one of 1..%d)", H, P, h, got, P),
				map[string]any{"H": H, "P": P, "hashSlot": h, "slot": got})
			return nil
		}
		if got != want[h] {
			differs++
			s.t.Reassign(uint16(h), multiraft.SlotID(want[h]))
		}
	}
	if differs > 0 {
		rep.AddExtra("initial_layout_normalised_hash_slots", differs)
	}
	// The controller's own initial range table (pkg/controller/state): every hash slot is covered
	// by exactly one range whose slot id is one of 1..P.
	if P <= H {
		tbl, err := state.BuildInitialHashSlotTable(uint32(P), uint16(H))
		if err != nil {
			rep.Infra("state.BuildInitialHashSlotTable(%d,%d): %v", P, H, err)
			return nil
		}
		cover := make([]int, H)
		for _, r := range tbl.Ranges {
			for h := int(r.From); h <= int(r.To) && h < H; h++ {
				cover[h]++
			}
			if r.SlotID < 1 || int(r.SlotID) > P || r.To < r.From || int(r.To) >= H {
				rep.Violate(propID, "state", fmt.Sprintf("state.BuildInitialHashSlotTable(%d,%d): bad range %+v", P, H, r),
					map[string]any{"H": H, "P": P})
				return nil
			}
		}
		for h, c := range cover {
			if c != 1 {
				rep.Violate(propID, "state", fmt.Sprintf("state.BuildInitialHashSlotTable(%d,%d): hash slot %d covered by %d ranges", P, H, h, c),
					map[string]any{"H": H, "P": P, "hashSlot": h})
				return nil
			}
		}
	}
	return s
}

func sortedInts(in []int64) []int64 {
	sort.Slice(in, func(i, j int) bool { return in[i] < in[j] })
	return in
}

func migsOf(t *hashslot.HashSlotTable) []map[string]any {
	out := []map[string]any{}
	ms := t.ActiveMigrations()
	sort.SliceStable(ms, func(i, j int) bool { return ms[i].HashSlot < ms[j].HashSlot })
	for _, m := range ms {
		out = append(out, map[string]any{"h": int64(m.HashSlot), "src": int64(m.Source), "tgt": int64(m.Target), "phase": int64(m.Phase)})
	}
	return out
}

func projOf(t *hashslot.HashSlotTable, H, S int) map[string]any {
	assign := make([]int64, H)
	for h := 0; h < H; h++ {
		assign[h] = int64(t.Lookup(uint16(h)))
	}
	owned := make([]any, S)
	for sl := 1; sl <= S; sl++ {
		l := []int64{}
		for _, h := range t.HashSlotsOf(multiraft.SlotID(sl)) {
			l = append(l, int64(h))
		}
		owned[sl-1] = sortedInts(l)
	}
	active := []int64{}
	for _, id := range t.AssignedSlotIDs() {
		active = append(active, int64(id))
	}
	return map[string]any{"assign": assign, "owned": owned, "active": sortedInts(active), "migs": migsOf(t)}
}

func (s *sut) proj() map[string]any { return projOf(s.t, s.H, s.S) }

func sign(before, after uint64) int64 {
	switch {
	case after > before:
		return 1
	case after < before:
		return -1
	}
	return 0
}

func planToJSON(p []hashslot.MigrationPlan) []any {
	out := make([]any, 0, len(p))
	for _, m := range p {
		out = append(out, map[string]any{"h": int64(m.HashSlot), "from": int64(m.From), "to": int64(m.To)})
	}
	return out
}

// realPlan calls the planner the request names.
func (s *sut) realPlan(kind string, subj int64) ([]hashslot.MigrationPlan, error) {
	switch kind {
	case "add":
		return hashslot.ComputeAddSlotPlan(s.t, multiraft.SlotID(subj)), nil
	case "remove":
		return hashslot.ComputeRemoveSlotPlan(s.t, multiraft.SlotID(subj)), nil
	case "rebalance":
		return hashslot.ComputeRebalancePlan(s.t), nil
	}
	return nil, fmt.Errorf("unknown plan kind %q", kind)
}

// apply performs the call described by ev (its "res" is ignored) and returns the observed reply.
// An error is harness trouble (unknown action), never a violation.
func (s *sut) apply(ev map[string]any) (map[string]any, error) {
	before := s.t.Version()
	dv := func() int64 { return sign(before, s.t.Version()) }
	h := uint16(kit.Int(ev, "h"))
	switch kit.Str(ev, "a") {
	case "Reassign":
		s.t.Reassign(h, multiraft.SlotID(kit.Int(ev, "s")))
		return map[string]any{"dv": dv()}, nil
	case "StartMigration":
		s.t.StartMigration(h, multiraft.SlotID(kit.Int(ev, "src")), multiraft.SlotID(kit.Int(ev, "tgt")))
		return map[string]any{"dv": dv()}, nil
	case "AdvanceMigration":
		s.t.AdvanceMigration(h, hashslot.MigrationPhase(kit.Int(ev, "phase")))
		return map[string]any{"dv": dv()}, nil
	case "FinalizeMigration":
		s.t.FinalizeMigration(h)
		return map[string]any{"dv": dv()}, nil
	case "AbortMigration":
		s.t.AbortMigration(h)
		return map[string]any{"dv": dv()}, nil
	case "Roundtrip":
		orig := s.proj()
		dec, err := hashslot.DecodeHashSlotTable(s.t.Encode())
		if err != nil || dec == nil {
			return map[string]any{"ok": false, "same": false, "dv": int64(0)}, nil
		}
		same := dec.Version() == before && int(dec.HashSlotCount()) == int(s.t.HashSlotCount()) &&
			kit.Equal(orig, projOf(dec, s.H, s.S))
		s.t = dec // the decoded table serves the following calls
		return map[string]any{"ok": true, "same": same, "dv": dv()}, nil
	case "Plan":
		kind, subj := kit.Str(ev, "kind"), kit.Int(ev, "subj")
		p, err := s.realPlan(kind, subj)
		if err != nil {
			return nil, err
		}
		ev["plan"] = planToJSON(p)
		return map[string]any{"moves": len(p), "dv": dv()}, nil
	case "ApplyPlan":
		mode := kit.Str(ev, "mode")
		for _, it := range kit.List(ev, "plan") {
			m, _ := it.(map[string]any)
			mh := uint16(kit.Int(m, "h"))
			from, to := multiraft.SlotID(kit.Int(m, "from")), multiraft.SlotID(kit.Int(m, "to"))
			switch mode {
			case "reassign":
				s.t.Reassign(mh, to)
			case "migrate":
				s.t.StartMigration(mh, from, to)
				s.t.AdvanceMigration(mh, hashslot.PhaseDelta)
				s.t.AdvanceMigration(mh, hashslot.PhaseSwitching)
				s.t.FinalizeMigration(mh)
			default:
				return nil, fmt.Errorf("unknown ApplyPlan mode %q", mode)
			}
		}
		return map[string]any{"dv": dv()}, nil
	}
	return nil, fmt.Errorf("unknown action %q", kit.Str(ev, "a"))
}

func cfgOf(H, P, S int) map[string]any { return map[string]any{"H": H, "P": P, "S": S} }

// recorder side ---------------------------------------------------------------------------

type driver struct {
	rep *kit.Report
	rec *kit.Recorder
	s   *sut
	bad bool
}

func begin(rep *kit.Report, rec *kit.Recorder, H, P, S int) *driver {
	s := newSUT(rep, H, P, S)
	if s == nil {
		return nil
	}
	rec.Begin(map[string]any{"cfg": cfgOf(H, P, S)}, s.proj())
	return &driver{rep: rep, rec: rec, s: s}
}

// do executes and records one call.
func (d *driver) do(ev map[string]any) map[string]any {
	res, err := d.s.apply(ev)
	if err != nil {
		d.rep.Infra("driver: %v", err)
		d.bad = true
		return nil
	}
	ev["res"] = res
	d.rec.Step(ev, d.s.proj())
	d.rep.Cover(kit.Str(ev, "a"))
	return res
}

func (d *driver) active() map[int64]bool {
	out := map[int64]bool{}
	for _, id := range d.s.t.AssignedSlotIDs() {
		out[int64(id)] = true
	}
	return out
}

// requests lists the planner requests the specification answers for the current table.
func (d *driver) requests() [][2]any {
	act := d.active()
	out := [][2]any{{"rebalance", int64(0)}}
	for sl := int64(1); sl <= int64(d.s.S); sl++ {
		if act[sl] {
			out = append(out, [2]any{"remove", sl})
		} else {
			out = append(out, [2]any{"add", sl})
		}
	}
	return out
}

// plan logs one planner call and returns the event (it carries the real plan).
func (d *driver) plan(kind string, subj int64) map[string]any {
	ev := kit.Ev("Plan", "kind", kind, "subj", subj)
	d.do(ev)
	return ev
}

// carryOut applies the plan of a logged Plan event through the table's own mutators.
func (d *driver) carryOut(planEv map[string]any, mode string) {
	if mode == "migrate" {
		busy := map[int64]bool{}
		for _, m := range d.s.t.ActiveMigrations() {
			busy[int64(m.HashSlot)] = true
		}
		for _, it := range kit.List(planEv, "plan") {
			if busy[kit.Int(it.(map[string]any), "h")] {
				mode = "reassign"
			}
		}
	}
	d.do(kit.Ev("ApplyPlan", "kind", planEv["kind"], "subj", planEv["subj"], "mode", mode, "plan", planEv["plan"]))
}

// allTables visits every assignment of H hash slots to slots 1..S (odometer order, one Reassign
// per changed digit) and logs every planner request at each; slot S+1 is kept free so that an
// "add" request exists for every table.
func allTables(rep *kit.Report, rec *kit.Recorder, H, S int) {
	d := begin(rep, rec, H, 1, S+1)
	if d == nil {
		return
	}
	digits := make([]int, H) // owner-1 per hash slot; the initial table is all slot 1
	tables := 0
	for {
		tables++
		for _, r := range d.requests() {
			d.plan(r[0].(string), r[1].(int64))
			if d.bad {
				return
			}
		}
		// next assignment
		i := 0
		for i < H {
			digits[i]++
			if digits[i] < S {
				d.do(kit.Ev("Reassign", "h", i, "s", digits[i]+1))
				break
			}
			digits[i] = 0
			d.do(kit.Ev("Reassign", "h", i, "s", 1))
			i++
		}
		if i == H || d.bad {
			break
		}
	}
	rep.AddExtra("small_tables_enumerated", tables)
}

// randomTrace drives one table through random mutators, codec round trips and planner calls.
func randomTrace(rep *kit.Report, rec *kit.Recorder, rng *rand.Rand, H, P, S, steps int) {
	d := begin(rep, rec, H, P, S)
	if d == nil {
		return
	}
	// shape of the reassignments of this trace: uniform, skewed to one slot, or confined to few slots
	shape := rng.Intn(3)
	hot := int64(1 + rng.Intn(S))
	few := 1 + rng.Intn(S)
	slot := func() int64 {
		switch shape {
		case 1:
			if rng.Intn(10) < 7 {
				return hot
			}
		case 2:
			return int64(1 + rng.Intn(few))
		}
		return int64(1 + rng.Intn(S))
	}
	hs := func() int { return rng.Intn(H + 1) } // H itself is out of range: ignored by the code
	migrating := func() (int64, bool) {
		ms := d.s.t.ActiveMigrations()
		if len(ms) == 0 {
			return 0, false
		}
		return int64(ms[rng.Intn(len(ms))].HashSlot), true
	}
	for i := 0; i < steps && !d.bad; i++ {
		switch r := rng.Intn(100); {
		case r < 30:
			n := 1 + rng.Intn(4)
			for k := 0; k < n; k++ {
				d.do(kit.Ev("Reassign", "h", rng.Intn(H), "s", slot()))
			}
		case r < 33:
			d.do(kit.Ev("Reassign", "h", hs(), "s", slot()))
		case r < 41:
			h := rng.Intn(H)
			d.do(kit.Ev("StartMigration", "h", h, "src", int64(d.s.t.Lookup(uint16(h))), "tgt", int64(1+rng.Intn(S))))
		case r < 44:
			d.do(kit.Ev("StartMigration", "h", hs(), "src", rng.Intn(S+1), "tgt", rng.Intn(S+1)))
		case r < 50:
			if h, ok := migrating(); ok {
				d.do(kit.Ev("AdvanceMigration", "h", h, "phase", rng.Intn(4)))
			} else {
				d.do(kit.Ev("AdvanceMigration", "h", hs(), "phase", rng.Intn(4)))
			}
		case r < 55:
			if h, ok := migrating(); ok && rng.Intn(4) > 0 {
				d.do(kit.Ev("FinalizeMigration", "h", h))
			} else {
				d.do(kit.Ev("FinalizeMigration", "h", hs()))
			}
		case r < 59:
			if h, ok := migrating(); ok && rng.Intn(4) > 0 {
				d.do(kit.Ev("AbortMigration", "h", h))
			} else {
				d.do(kit.Ev("AbortMigration", "h", hs()))
			}
		case r < 67:
			d.do(kit.Ev("Roundtrip"))
		default:
			reqs := d.requests()
			rq := reqs[rng.Intn(len(reqs))]
			ev := d.plan(rq[0].(string), rq[1].(int64))
			if !d.bad && rng.Intn(3) > 0 {
				d.carryOut(ev, []string{"reassign", "migrate"}[rng.Intn(2)])
				if !d.bad && rng.Intn(2) == 0 {
					// a balanced table is the input the literal clause speaks about: ask again
					reqs = d.requests()
					rq = reqs[rng.Intn(len(reqs))]
					d.plan(rq[0].(string), rq[1].(int64))
				}
			}
		}
	}
}

// growShrink is the life of a large table: starting from P slots, up to `adds` further slots are
// added one at a time, then up to `removes` are removed again, every plan carried out; a codec
// round trip, a few stray reassignments and a rebalance in between.
func growShrink(rep *kit.Report, rec *kit.Recorder, rng *rand.Rand, H, P, S, adds, removes int) {
	d := begin(rep, rec, H, P, S)
	if d == nil {
		return
	}
	mode := func() string { return []string{"reassign", "migrate"}[rng.Intn(2)] }
	for _, o := range rng.Perm(S) {
		if sl := int64(o + 1); adds > 0 && !d.active()[sl] && !d.bad {
			d.carryOut(d.plan("add", sl), mode())
			adds--
		}
	}
	if !d.bad {
		d.do(kit.Ev("Roundtrip"))
		d.plan("rebalance", 0)
	}
	for k := 0; k < 4 && !d.bad; k++ {
		d.do(kit.Ev("Reassign", "h", rng.Intn(H), "s", int64(1+rng.Intn(S))))
	}
	if !d.bad {
		d.carryOut(d.plan("rebalance", 0), "reassign")
	}
	for _, o := range rng.Perm(S) {
		if sl := int64(o + 1); removes > 0 && d.active()[sl] && !d.bad {
			d.carryOut(d.plan("remove", sl), mode())
			removes--
		}
	}
}

func TestVerifHashSlotTable(t *testing.T) {
	env, ok := kit.LoadEnv()
	if !ok {
		t.Skip("not started by the verif runner")
	}
	rep := kit.NewReport(env, "hashslottable")
	rec, err := kit.NewRecorder(env.TraceFile)
	if err != nil {
		t.Fatal(err)
	}

	// ---- spec -> code: replay TLC behaviours ----
	behs, err := kit.LoadBehaviours(env.BehFile)
	if err != nil {
		rep.Infra("load behaviours: %v", err)
	}
	for bi, b := range behs {
		if rep.Violations() >= 5 { // the report keeps five; more of the same adds nothing
			break
		}
		if len(b.Steps) == 0 || kit.Str(b.Steps[0].Ev, "a") != "Init" {
			rep.Infra("behaviour %d does not start with Init", bi)
			continue
		}
		cfg := kit.Map(b.Steps[0].Ev, "cfg")
		s := newSUT(rep, int(kit.Int(cfg, "H")), int(kit.Int(cfg, "P")), int(kit.Int(cfg, "S")))
		if s == nil {
			continue
		}
		if d := kit.Diff(b.Steps[0].St, s.proj()); d != "" {
			rep.Violate(propID, "state", "initial table: "+d, map[string]any{"behaviour": b, "step": 0, "observed": s.proj()})
			continue
		}
		for si, st := range b.Steps[1:] {
			call := kit.CloneEv(st.Ev)
			res, err := s.apply(call)
			rep.Cover(kit.Str(st.Ev, "a"))
			if err != nil {
				rep.Infra("behaviour %d step %d: %v", bi, si+1, err)
				break
			}
			if d := kit.Diff(st.Ev["res"], res); d != "" {
				rep.Violate(propID, "reply", fmt.Sprintf("step %d %s: %s", si+1, kit.JSON(kit.CloneEv(st.Ev)), d),
					map[string]any{"behaviour": b, "step": si + 1, "observed": res})
				break
			}
			if d := kit.Diff(st.St, s.proj()); d != "" {
				rep.Violate(propID, "state", fmt.Sprintf("step %d %s: %s", si+1, kit.JSON(kit.CloneEv(st.Ev)), d),
					map[string]any{"behaviour": b, "step": si + 1, "observed": s.proj()})
				break
			}
		}
		rep.Replayed(len(b.Steps) - 1)
		if bi == 0 {
			rep.Sample(b)
		}
	}

	// ---- code -> spec ----
	rng := env.Rand()
	// (a) every table of small sizes, every planner request at each
	small := [][2]int{{1, 1}, {2, 2}, {3, 3}, {4, 3}, {5, 3}, {4, 4}, {6, 2}, {7, 2}}
	if env.Thorough() {
		small = append(small, [2]int{6, 3}, [2]int{7, 3}, [2]int{5, 4}, [2]int{10, 2})
	}
	for _, hs := range small {
		allTables(rep, rec, hs[0], hs[1])
	}
	// (b) seeded random driver over medium tables
	sizes := [][2]int{{5, 3}, {8, 3}, {12, 4}, {13, 5}, {16, 4}, {24, 7}, {32, 8}, {64, 8}, {64, 3}, {100, 9}}
	traces := env.Pick(40, 250)
	for i := 0; i < traces; i++ {
		sz := sizes[rng.Intn(len(sizes))]
		randomTrace(rep, rec, rng, sz[0], 1+rng.Intn(sz[1]), sz[1], 12+rng.Intn(20))
	}
	// (c) large tables (each recorded line of a 4096-slot table costs TLC about a second)
	if env.Thorough() {
		growShrink(rep, rec, rng, 4096, 1, 64, 6, 2)
		growShrink(rep, rec, rng, 4096, 61, 64, 3, 5)
		growShrink(rep, rec, rng, 1000, 1, 33, 12, 6)
		randomTrace(rep, rec, rng, 4096, 64, 64, 8)
		randomTrace(rep, rec, rng, 2048, 7, 40, 10)
	} else {
		growShrink(rep, rec, rng, 256, 1, 16, 16, 8)
		randomTrace(rep, rec, rng, 512, 5, 24, 12)
	}

	if err := rec.Close(); err != nil {
		rep.Infra("trace file: %v", err)
	}
	if err := rep.Finish(rec); err != nil {
		t.Fatal(err)
	}
}

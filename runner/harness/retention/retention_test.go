package retention

// Conformance harness for specs/Retention (property C10).
//
// The subject is a REAL single-node channel runtime: pkg/cluster/channels.Service (which builds
// the pkg/channel service facade and its reactor.Group) over the memory store or the MessageDB
// store adapter, no transport.  Every call goes through exported API:
//
//	Append  Service.Runtime().Append, CommitModeLocal (SyncOnce rows stand for barrier records)
//	Ack     Service.Server().HandleAck (follower progress)
//	Meta    Service.ApplyMeta with an authoritative RetentionThroughSeq
//	Apply   Service.ApplyRetentionBoundary (any boundary, bounded trims)
//	Read    layer "store":   store.ChannelStore.ReadCommitted, MinSeq / MaxSeq passed explicitly
//	        layer "service": Service.ReadCommittedBatch (the caller computes floor and cap)
//	        layer "fwd":     Service.ReadCommittedBatch issued on a second, NON-leader Service
//	                         (node 2) and forwarded to the leader over the package's in-process
//	                         network (clusternet.LocalNetwork + TransportClient +
//	                         RegisterServiceHandlers), with the leader's own metadata lookup
//	                         answering or answering not-found (ev.miss) and the origin holding
//	                         the current or an older record (ev.oret)
//	Head    Service.ReadConversationHead (newest ordinary row under the live committed watermark)
//	HeadF   ReadConversationHead / ReadConversationHeads issued on the non-leader Service
//	SyncF   SyncMessages over the non-leader Service (overlay build only, as Sync)
//	Last    Service.ReadChannelLastVisible (replay only; known finding, see sigLastVisible)
//	Sync    internal/infra/cluster ChannelMessageReader.SyncMessages (only in the overlay build,
//	        see overlay/retention; `syncRead` is nil in the runner-module build and Sync steps
//	        are skipped there)
//
// A case starts on a fresh channel or on a runtime LOADED from a store prepared through the
// exported store API (cfg.pre: n rows, checkpoint c, adopted boundary b, SyncOnce row k): the state
// of a leader with a durable tail above its checkpointed watermark.
//
// Observation after every step: Service.RetentionView, the store's own Load / LoadRetentionState
// and a raw scan of the physically present rows.
//
// THIS FILE EXISTS TWICE: runner/harness/retention/retention_test.go (package of the runner
// module) and overlay/retention/zz_verif_retention_test.go (compiled into
// internal/infra/cluster).  The copies differ only in the package clause and the kit import
// path; the overlay build verifies that (drift is reported as infrastructure trouble).
// Regenerate the copy with:
//
//	sed -e 's|^package retention$|package cluster_test|' \
//	    -e 's|"verif/runner/kit"|"github.com/WuKongIM/WuKongIM/internal/zzverif/kit"|' \
//	    runner/harness/retention/retention_test.go > overlay/retention/zz_verif_retention_test.go

import (
	"context"
	"errors"
	"fmt"
	"math/rand"
	"os"
	"path/filepath"
	"sort"
	"strings"
	"sync"
	"testing"
	"time"

	ch "github.com/WuKongIM/WuKongIM/pkg/channel"
	"github.com/WuKongIM/WuKongIM/pkg/channel/store"
	"github.com/WuKongIM/WuKongIM/pkg/channel/transport"
	"github.com/WuKongIM/WuKongIM/pkg/cluster/channels"
	clusternet "github.com/WuKongIM/WuKongIM/pkg/cluster/net"
	metadb "github.com/WuKongIM/WuKongIM/pkg/db/meta"
	"verif/runner/kit"
)

const (
	prop     = "C10"
	callWait = 60 * time.Second
	inf      = 99 // the specification's stand-in for MaxUint64 in read requests

	// Finding fixed in /repo by 8a300f740 (status "fixed" in known-findings.json, so a
	// reproduction is a fresh violation): when nothing is committed (cap 0) readLocalCommitted
	// handed MaxSeq 0 to the store, which both stores read as "no cap".  The shape is still
	// recognised and named, and scriptedSchedules replays the original reproduction.
	sigCapZero = "C10:committed-cap-zero-passed-to-store-as-unbounded"

	// Known finding: Service.ReadChannelLastVisible answers with the newest DURABLE row: no
	// committed cap, no SyncOnce filter, no store-adopted boundary.
	sigLastVisible = "C10:last-visible-read-ignores-committed-cap"

	// Finding: the RPC codec of pkg/cluster/channels (codec.go appendMessage / readMessage) does
	// not carry Message.SyncOnce, so every committed read served by a remote leader hands the
	// origin SyncOnce / barrier rows with the flag cleared, and the ordinary reader on that node
	// (message_reader.go syncedMessagesFromChannel) returns them.
	sigFwdSyncOnce = "C10:forwarded-read-drops-sync-once-flag"
)

// syncRead is installed by the overlay build (message_reader.go lives in an internal package).
var syncRead func(svc *channels.Service, id ch.ChannelID, mode string, start, end uint64, limit int) ([]uint64, error)

// harnessName distinguishes the two builds in the result file.
var harnessName = "retention"

type errInfra struct{ msg string }

func (e errInfra) Error() string { return e.msg }

func infraf(format string, a ...any) error { return errInfra{fmt.Sprintf(format, a...)} }

// ---- the real runtime ------------------------------------------------------------------

type metaSource struct {
	mu     sync.Mutex
	metas  map[ch.ChannelID]ch.Meta
	hidden map[ch.ChannelID]error // lookups answered with this (not-found) error: a lagging metadata view
	misses int                    // lookups answered from `hidden`
}

func (m *metaSource) ResolveChannelMeta(_ context.Context, id ch.ChannelID) (ch.Meta, error) {
	m.mu.Lock()
	defer m.mu.Unlock()
	if err := m.hidden[id]; err != nil {
		m.misses++
		return ch.Meta{}, err
	}
	meta, ok := m.metas[id]
	if !ok {
		return ch.Meta{}, ch.ErrChannelNotFound
	}
	return meta, nil
}

func (m *metaSource) set(meta ch.Meta) {
	m.mu.Lock()
	m.metas[meta.ID] = meta
	m.mu.Unlock()
}

// hide makes lookups of id fail with err (nil: answer again); it returns the lookups missed so far.
func (m *metaSource) hide(id ch.ChannelID, err error) int {
	m.mu.Lock()
	defer m.mu.Unlock()
	if err == nil {
		delete(m.hidden, id)
	} else {
		m.hidden[id] = err
	}
	return m.misses
}

func newMetaSource() *metaSource {
	return &metaSource{metas: map[ch.ChannelID]ch.Meta{}, hidden: map[ch.ChannelID]error{}}
}

// countingForward is the origin's forward client: the real TransportClient, counting the read
// calls that really left the node.
type countingForward struct {
	*channels.TransportClient
	mu    sync.Mutex
	reads int
}

func (c *countingForward) count() {
	c.mu.Lock()
	c.reads++
	c.mu.Unlock()
}

func (c *countingForward) sent() int {
	c.mu.Lock()
	defer c.mu.Unlock()
	return c.reads
}

func (c *countingForward) ForwardCommittedReads(ctx context.Context, node ch.NodeID, req channels.CommittedReadsRequest) (channels.CommittedReadsResponse, error) {
	c.count()
	return c.TransportClient.ForwardCommittedReads(ctx, node, req)
}

func (c *countingForward) ForwardLastVisible(ctx context.Context, node ch.NodeID, req channels.LastVisibleRequest) (channels.LastVisibleResponse, error) {
	c.count()
	return c.TransportClient.ForwardLastVisible(ctx, node, req)
}

func (c *countingForward) ForwardConversationHeads(ctx context.Context, node ch.NodeID, req channels.ConversationHeadsRequest) (channels.ConversationHeadsResponse, error) {
	c.count()
	return c.TransportClient.ForwardConversationHeads(ctx, node, req)
}

// world is one runtime + store kind shared by all channels of a run (one channel per case).
//
// The leader (node 1) is `svc`; `origin` (node 2) is a second real Service that leads nothing, has
// its own (empty) store and its own metadata view `osrc`, and reaches the leader through the
// in-process network: every read issued on it is forwarded.
type world struct {
	kind    string
	factory store.Factory
	svc     *channels.Service
	src     *metaSource
	origin  *channels.Service
	osrc    *metaSource
	fwd     *countingForward
	closers []func()
}

func newWorld(kind, dir string) (*world, error) {
	w := &world{kind: kind, src: newMetaSource(), osrc: newMetaSource()}
	switch kind {
	case "memory":
		w.factory = store.NewMemoryFactory()
	case "messagedb":
		f := store.NewMessageDBFactory(filepath.Join(dir, "messagedb"))
		w.factory = f
		w.closers = append(w.closers, func() { _ = f.Close() })
	default:
		return nil, fmt.Errorf("unknown store kind %q", kind)
	}
	svc, err := channels.NewService(channels.Config{LocalNode: 1, ReactorCount: 1, MailboxSize: 1024,
		AppendBatchMaxRecords: 1, Store: w.factory, MetaSource: w.src})
	if err != nil {
		return nil, err
	}
	w.svc = svc
	network := clusternet.NewLocalNetwork()
	channels.RegisterServiceHandlers(network, 1, svc)
	w.fwd = &countingForward{TransportClient: channels.NewTransportClient(network)}
	origin, err := channels.NewService(channels.Config{LocalNode: 2, ReactorCount: 1, MailboxSize: 1024,
		Store: store.NewMemoryFactory(), MetaSource: w.osrc, Forward: w.fwd})
	if err != nil {
		return nil, err
	}
	w.origin = origin
	return w, nil
}

func (w *world) close() {
	if w.origin != nil {
		_ = w.origin.Close()
	}
	if w.svc != nil {
		_ = w.svc.Close()
	}
	for _, c := range w.closers {
		c()
	}
}

var (
	caseSeq uint64 // distinct channel per case
	msgSeq  uint64 = 1 << 20
)

type sut struct {
	w      *world
	id     ch.ChannelID
	key    ch.ChannelKey
	meta   ch.Meta
	minISR int
	acked  map[ch.NodeID]uint64 // progress the leader was told (O1 diagnostic)
}

// preload is cfg.pre of the specification: the store the leader's runtime is loaded from.
type preload struct{ n, c, b, k uint64 }

func preOf(cfg map[string]any) preload {
	p := kit.Map(cfg, "pre")
	return preload{n: uint64(kit.Int(p, "n")), c: uint64(kit.Int(p, "c")), b: uint64(kit.Int(p, "b")), k: uint64(kit.Int(p, "k"))}
}

func (p preload) json() map[string]any {
	return map[string]any{"n": p.n, "c": p.c, "b": p.b, "k": p.k}
}

// prepare writes the store a runtime will be loaded from, through the exported store API only:
// n durable rows (row k SyncOnce), checkpoint c, adopted boundary b.
func (s *sut) prepare(p preload) error {
	if p.n == 0 {
		return nil
	}
	return s.withStore(func(cs store.ChannelStore) error {
		ctx, cancel := ctxCall()
		defer cancel()
		recs := make([]ch.Record, 0, p.n)
		for q := uint64(1); q <= p.n; q++ {
			msgSeq++
			recs = append(recs, ch.Record{ID: msgSeq, FromUID: "u1", ClientMsgNo: fmt.Sprintf("m%d", msgSeq),
				Payload: []byte{byte(msgSeq), 1, 2}, SizeBytes: 3, SyncOnce: q == p.k})
		}
		if _, err := cs.AppendLeader(ctx, store.AppendLeaderRequest{Records: recs}); err != nil {
			return infraf("prepare: AppendLeader: %v", err)
		}
		if p.c > 0 {
			if err := cs.StoreCheckpoint(ctx, ch.Checkpoint{HW: p.c}); err != nil {
				return infraf("prepare: StoreCheckpoint(%d): %v", p.c, err)
			}
		}
		if p.b > 0 {
			if _, err := cs.AdoptRetentionBoundary(ctx, p.b, ch.RetentionCursorCommitted); err != nil {
				return infraf("prepare: AdoptRetentionBoundary(%d): %v", p.b, err)
			}
		}
		return nil
	})
}

func nodeIDs(v []any) []ch.NodeID {
	out := make([]ch.NodeID, 0, len(v))
	for _, x := range v {
		out = append(out, ch.NodeID(kit.ToInt(x)))
	}
	return out
}

func ctxCall() (context.Context, context.CancelFunc) {
	return context.WithTimeout(context.Background(), callWait)
}

func newSUT(w *world, isr []ch.NodeID, minISR int, pre preload) (*sut, error) {
	caseSeq++
	id := ch.ChannelID{ID: fmt.Sprintf("c10-%s-%d", w.kind, caseSeq), Type: 2}
	s := &sut{w: w, id: id, key: ch.ChannelKeyForID(id), minISR: minISR, acked: map[ch.NodeID]uint64{}}
	s.meta = ch.Meta{Key: s.key, ID: id, Epoch: 1, LeaderEpoch: 1, RouteGeneration: 1, Leader: 1, Replicas: []ch.NodeID{1, 2, 3},
		ISR: isr, MinISR: minISR, Status: ch.StatusActive, RetentionThroughSeq: pre.b}
	if err := s.prepare(pre); err != nil {
		return nil, err
	}
	w.src.set(s.meta)
	if err := w.svc.ApplyMeta(s.meta); err != nil {
		return nil, infraf("ApplyMeta(initial): %v", err)
	}
	return s, nil
}

func seqOf(x int64) uint64 {
	if x >= inf {
		return ^uint64(0)
	}
	return uint64(x)
}

func seqList(msgs []ch.Message) (seqs, bars []uint64) {
	seqs, bars = []uint64{}, []uint64{}
	for _, m := range msgs {
		seqs = append(seqs, m.MessageSeq)
		if m.SyncOnce {
			bars = append(bars, m.MessageSeq)
		}
	}
	return
}

func (s *sut) view() (ch.RetentionView, error) {
	ctx, cancel := ctxCall()
	defer cancel()
	v, err := s.w.svc.RetentionView(ctx, s.id)
	if err != nil {
		return v, infraf("RetentionView: %v", err)
	}
	return v, nil
}

func (s *sut) withStore(fn func(cs store.ChannelStore) error) error {
	cs, err := s.w.factory.ChannelStore(s.key, s.id)
	if err != nil {
		return infraf("ChannelStore: %v", err)
	}
	defer func() { _ = cs.Close() }()
	return fn(cs)
}

// obs is the projection: the runtime's view, the store's own state and the rows present.
func (s *sut) obs() (map[string]any, ch.RetentionView, error) {
	v, err := s.view()
	if err != nil {
		return nil, v, err
	}
	var (
		init store.InitialState
		rs   store.RetentionState
		rows []ch.Message
	)
	err = s.withStore(func(cs store.ChannelStore) error {
		ctx, cancel := ctxCall()
		defer cancel()
		var e error
		if init, e = cs.Load(ctx); e != nil {
			return infraf("store.Load: %v", e)
		}
		if rs, e = cs.LoadRetentionState(ctx); e != nil {
			return infraf("store.LoadRetentionState: %v", e)
		}
		raw, e := cs.ReadCommitted(ctx, store.ReadCommittedRequest{FromSeq: 1})
		if e != nil {
			return infraf("raw scan: %v", e)
		}
		rows = raw.Messages
		return nil
	})
	if err != nil {
		return nil, v, err
	}
	seqs, bars := seqList(rows)
	st := map[string]any{"leo": v.LEO, "hw": v.HW, "ckpt": v.CheckpointHW, "ret": v.RetentionThroughSeq,
		"local": v.LocalRetentionThroughSeq, "phys": v.PhysicalRetentionThroughSeq, "rows": seqs, "bars": bars,
		"store": map[string]any{"leo": init.LEO, "ckpt": init.CheckpointHW,
			"local": rs.LocalRetentionThroughSeq, "phys": rs.PhysicalRetentionThroughSeq}}
	return st, v, nil
}

// committedCap is the cap the service layer works with (readLocalCommitted), from the real store.
func (s *sut) committedCap() (uint64, error) {
	var c uint64
	err := s.withStore(func(cs store.ChannelStore) error {
		ctx, cancel := ctxCall()
		defer cancel()
		init, e := cs.Load(ctx)
		if e != nil {
			return infraf("store.Load: %v", e)
		}
		c = init.HW
		if s.minISR <= 1 {
			c = init.LEO
		}
		return nil
	})
	return c, err
}

var notFoundTurn int

// forwarded issues one read on the non-leader Service.  The origin's metadata view is the
// authoritative record with retention oret (current or older); with miss the leader's own lookup
// of the channel answers not-found for the duration of the call (its slot metadata lags), so the
// leader has only what the origin sent.  The call must really leave the origin, and with miss the
// leader's lookup must really have failed: anything else is harness trouble.
func (s *sut) forwarded(miss bool, oret uint64, call func(origin *channels.Service, ctx context.Context) error) error {
	cur, err := s.w.src.ResolveChannelMeta(context.Background(), s.id)
	if err != nil {
		return infraf("forwarded: leader record: %v", err)
	}
	if oret > cur.RetentionThroughSeq || (miss && oret != cur.RetentionThroughSeq) {
		return infraf("forwarded: origin retention %d does not fit the authoritative record (%d, miss=%v)", oret, cur.RetentionThroughSeq, miss)
	}
	o := cur
	o.RetentionThroughSeq = oret
	s.w.osrc.set(o)
	sent, missed := s.w.fwd.sent(), 0
	if miss {
		notFoundTurn++
		nf := error(ch.ErrChannelNotFound)
		if notFoundTurn%2 == 0 {
			nf = metadb.ErrNotFound
		}
		missed = s.w.src.hide(s.id, nf)
	}
	ctx, cancel := ctxCall()
	err = call(s.w.origin, ctx)
	cancel()
	after := missed
	if miss {
		after = s.w.src.hide(s.id, nil)
	}
	if err != nil {
		return err
	}
	if s.w.fwd.sent() != sent+1 {
		return infraf("forwarded: the origin sent %d requests to the leader instead of 1", s.w.fwd.sent()-sent)
	}
	if miss && after == missed {
		return infraf("forwarded: the leader did not look its metadata up")
	}
	return nil
}

type outcome struct {
	res     map[string]any
	skipped bool // the step cannot be executed in this build (Sync without message_reader.go)
}

// apply executes one call of the specification on the real runtime and returns its reply.
func (s *sut) apply(rep *kit.Report, ev map[string]any) (outcome, error) {
	switch kit.Str(ev, "a") {
	case "Append":
		msgSeq++
		ctx, cancel := ctxCall()
		defer cancel()
		r, err := s.w.svc.Runtime().Append(ctx, ch.AppendRequest{ChannelID: s.id, CommitMode: ch.CommitModeLocal,
			Message: ch.Message{MessageID: msgSeq, ChannelID: s.id.ID, ChannelType: s.id.Type, FromUID: "u1",
				ClientMsgNo: fmt.Sprintf("m%d", msgSeq), Payload: []byte{byte(msgSeq), 1, 2},
				SyncOnce: kit.Str(ev, "kind") == "bar"}})
		if err != nil {
			return outcome{}, infraf("Append: %v", err)
		}
		return outcome{res: map[string]any{"seq": r.MessageSeq}}, nil

	case "Ack":
		f, off := ch.NodeID(kit.Int(ev, "f")), uint64(kit.Int(ev, "off"))
		before, err := s.view()
		if err != nil {
			return outcome{}, err
		}
		ctx, cancel := ctxCall()
		err = s.w.svc.Server().HandleAck(ctx, transport.AckRequest{ChannelKey: s.key, Epoch: s.meta.Epoch,
			LeaderEpoch: s.meta.LeaderEpoch, Follower: f, MatchOffset: off})
		cancel()
		if err != nil && (errors.Is(err, context.DeadlineExceeded) || errors.Is(err, ch.ErrClosed)) {
			return outcome{}, infraf("HandleAck: %v", err)
		}
		if err == nil && off > 0 && off <= before.LEO && off > s.acked[f] {
			s.acked[f] = off
		}
		after, verr := s.view()
		if verr != nil {
			return outcome{}, verr
		}
		return outcome{res: map[string]any{"hw": after.HW}}, nil

	case "Meta":
		r := uint64(kit.Int(ev, "r"))
		// A record with a newer route generation (the Service prefers its cached record over
		// anything not newer) whose retention may be BELOW the one announced before: the runtime
		// must keep its boundary.  The metadata source itself stays monotone (assumption).
		s.meta.RouteGeneration++
		m := s.meta
		m.RetentionThroughSeq = r
		cur, _ := s.w.src.ResolveChannelMeta(context.Background(), s.id)
		cur.RouteGeneration = m.RouteGeneration
		if r > cur.RetentionThroughSeq {
			cur.RetentionThroughSeq = r
		}
		s.w.src.set(cur)
		if err := s.w.svc.ApplyMeta(m); err != nil {
			return outcome{}, infraf("ApplyMeta(retention %d): %v", r, err)
		}
		v, err := s.view()
		if err != nil {
			return outcome{}, err
		}
		return outcome{res: map[string]any{"ret": v.RetentionThroughSeq}}, nil

	case "Apply":
		b, mt := uint64(kit.Int(ev, "b")), int(kit.Int(ev, "mt"))
		pre, err := s.view()
		if err != nil {
			return outcome{}, err
		}
		ctx, cancel := ctxCall()
		// The retention-owned checkpoint task inherits this context: it must stay alive until
		// the checkpoint has completed (a caller that cancels right after the reply loses it).
		defer cancel()
		r, err := s.w.svc.ApplyRetentionBoundary(ctx, ch.RetentionApplyRequest{ChannelID: s.id, ThroughSeq: b,
			Options: ch.RetentionApplyOptions{MaxTrimMessages: mt}})
		if err != nil {
			return outcome{}, infraf("ApplyRetentionBoundary(%d): %v", b, err)
		}
		if r.BlockedReason == ch.RetentionBlockedCheckpointLag && b > pre.CheckpointHW && b <= pre.HW && b <= pre.LEO {
			// the handler submitted a retention-owned checkpoint at b (trySubmitRetentionCheckpoint
			// does so exactly under these conditions): wait for its completion
			deadline := time.Now().Add(callWait)
			for {
				v, verr := s.view()
				if verr != nil {
					return outcome{}, verr
				}
				if v.CheckpointHW >= b {
					break
				}
				if time.Now().After(deadline) {
					return outcome{}, infraf("retention checkpoint at %d did not complete within %s", b, callWait)
				}
				time.Sleep(100 * time.Microsecond)
			}
		}
		if r.Deleted > 0 {
			rep.AddExtra("o1_trims", 1)
			for _, n := range s.meta.ISR {
				if n != 1 && s.acked[n] == 0 {
					// strict reading of "every ISR member's progress": diagnostic only (DESIGN O1)
					rep.AddExtra("o1_trims_with_an_isr_member_of_unknown_progress", 1)
					break
				}
			}
		}
		return outcome{res: map[string]any{"local": r.LocalRetentionThroughSeq, "phys": r.PhysicalRetentionThroughSeq,
			"deleted": r.Deleted, "through": r.DeletedThroughSeq}}, nil

	case "Read":
		from, lim, rev := seqOf(kit.Int(ev, "from")), int(kit.Int(ev, "lim")), kit.Bool(ev, "rev")
		var msgs []ch.Message
		switch kit.Str(ev, "layer") {
		case "store":
			req := store.ReadCommittedRequest{FromSeq: from, MinSeq: uint64(kit.Int(ev, "mn")),
				MaxSeq: uint64(kit.Int(ev, "mx")), Limit: lim, Reverse: rev}
			err := s.withStore(func(cs store.ChannelStore) error {
				ctx, cancel := ctxCall()
				defer cancel()
				r, e := cs.ReadCommitted(ctx, req)
				if e != nil {
					return infraf("store.ReadCommitted(%+v): %v", req, e)
				}
				msgs = r.Messages
				return nil
			})
			if err != nil {
				return outcome{}, err
			}
		case "service":
			req := store.ReadCommittedRequest{FromSeq: from, MaxSeq: seqOf(kit.Int(ev, "mx")), Limit: lim, Reverse: rev}
			ctx, cancel := ctxCall()
			rs, err := s.w.svc.ReadCommittedBatch(ctx, []channels.CommittedRead{{ChannelID: s.id, Request: req}})
			cancel()
			if err != nil || len(rs) != 1 || rs[0].Err != nil {
				var ierr error
				if len(rs) == 1 {
					ierr = rs[0].Err
				}
				return outcome{}, infraf("ReadCommittedBatch(%+v): %v / %v", req, err, ierr)
			}
			msgs = rs[0].Read.Messages
		case "fwd":
			req := store.ReadCommittedRequest{FromSeq: from, MaxSeq: seqOf(kit.Int(ev, "mx")), Limit: lim, Reverse: rev}
			err := s.forwarded(kit.Bool(ev, "miss"), uint64(kit.Int(ev, "oret")), func(origin *channels.Service, ctx context.Context) error {
				rs, err := origin.ReadCommittedBatch(ctx, []channels.CommittedRead{{ChannelID: s.id, Request: req}})
				if err != nil || len(rs) != 1 || rs[0].Err != nil {
					var ierr error
					if len(rs) == 1 {
						ierr = rs[0].Err
					}
					return infraf("forwarded ReadCommittedBatch(%+v): %v / %v", req, err, ierr)
				}
				msgs = rs[0].Read.Messages
				return nil
			})
			if err != nil {
				return outcome{}, err
			}
		default:
			return outcome{}, infraf("unknown read layer %q", kit.Str(ev, "layer"))
		}
		seqs, bars := seqList(msgs)
		return outcome{res: map[string]any{"seqs": seqs, "bars": bars}}, nil

	case "Head":
		ctx, cancel := ctxCall()
		h, err := s.w.svc.ReadConversationHead(ctx, s.id, "u1")
		cancel()
		if err != nil {
			return outcome{}, infraf("ReadConversationHead: %v", err)
		}
		seq := uint64(0)
		if h.Found {
			seq = h.Message.MessageSeq
		}
		return outcome{res: map[string]any{"found": h.Found, "seq": seq, "committed": h.LastCommittedSeq,
			"retention": h.RetentionThroughSeq}}, nil

	case "HeadF":
		var h channels.ConversationHead
		batch := kit.Bool(ev, "batch")
		err := s.forwarded(kit.Bool(ev, "miss"), uint64(kit.Int(ev, "oret")), func(origin *channels.Service, ctx context.Context) error {
			if !batch {
				var e error
				if h, e = origin.ReadConversationHead(ctx, s.id, "u1"); e != nil {
					return infraf("forwarded ReadConversationHead: %v", e)
				}
				return nil
			}
			rs, e := origin.ReadConversationHeads(ctx, []ch.ChannelID{s.id}, "u1")
			if e != nil || len(rs) != 1 || rs[0].Err != nil {
				var ierr error
				if len(rs) == 1 {
					ierr = rs[0].Err
				}
				return infraf("forwarded ReadConversationHeads: %v / %v", e, ierr)
			}
			h = rs[0].Head
			return nil
		})
		if err != nil {
			return outcome{}, err
		}
		seq := uint64(0)
		if h.Found {
			seq = h.Message.MessageSeq
		}
		return outcome{res: map[string]any{"found": h.Found, "seq": seq, "committed": h.LastCommittedSeq,
			"retention": h.RetentionThroughSeq}}, nil

	case "Last":
		ctx, cancel := ctxCall()
		m, found, err := s.w.svc.ReadChannelLastVisible(ctx, s.id, uint64(kit.Int(ev, "after")))
		cancel()
		if err != nil {
			return outcome{}, infraf("ReadChannelLastVisible: %v", err)
		}
		seq := uint64(0)
		if found {
			seq = m.MessageSeq
		}
		return outcome{res: map[string]any{"found": found, "seq": seq}}, nil

	case "SyncF":
		if syncRead == nil {
			return outcome{skipped: true}, nil
		}
		var seqs []uint64
		err := s.forwarded(kit.Bool(ev, "miss"), uint64(kit.Int(ev, "oret")), func(origin *channels.Service, _ context.Context) error {
			var e error
			seqs, e = syncRead(origin, s.id, kit.Str(ev, "mode"), uint64(kit.Int(ev, "start")), uint64(kit.Int(ev, "end")), int(kit.Int(ev, "lim")))
			if e != nil {
				return infraf("forwarded SyncMessages: %v", e)
			}
			return nil
		})
		if err != nil {
			return outcome{}, err
		}
		if seqs == nil {
			seqs = []uint64{}
		}
		return outcome{res: map[string]any{"seqs": seqs}}, nil

	case "Sync":
		if syncRead == nil {
			return outcome{skipped: true}, nil
		}
		seqs, err := syncRead(s.w.svc, s.id, kit.Str(ev, "mode"), uint64(kit.Int(ev, "start")), uint64(kit.Int(ev, "end")),
			int(kit.Int(ev, "lim")))
		if err != nil {
			return outcome{}, infraf("SyncMessages: %v", err)
		}
		if seqs == nil {
			seqs = []uint64{}
		}
		return outcome{res: map[string]any{"seqs": seqs}}, nil
	}
	return outcome{}, infraf("unknown action %q", kit.Str(ev, "a"))
}

// capZeroFinding recognises the known finding, and nothing else: a service-level read (Read
// layer service, Sync) answered with rows while the committed cap is 0, where the answer is
// exactly what "MaxSeq 0 read as unbounded" produces.  In a replay that answer is computed by
// the specification (ev.alt); in the random driver it is recognised by its shape: every
// returned row is above the retention floor and, for the ordinary reader, no barrier row is
// among them.  Anything else at cap 0 stays a fresh violation.
func (s *sut) capZeroFinding(ev map[string]any, res map[string]any, replay bool) (bool, error) {
	a := kit.Str(ev, "a")
	if !(a == "Sync" || (a == "Read" && kit.Str(ev, "layer") == "service")) {
		return false, nil
	}
	seqs, _ := kit.Canon(res["seqs"]).([]any)
	if len(seqs) == 0 {
		return false, nil
	}
	c, err := s.committedCap()
	if err != nil || c != 0 {
		return false, err
	}
	if replay {
		return ev["alt"] != nil && kit.Equal(ev["alt"], res), nil
	}
	cur, _ := s.w.src.ResolveChannelMeta(context.Background(), s.id)
	floor := cur.RetentionThroughSeq
	bars := map[uint64]bool{}
	err = s.withStore(func(cs store.ChannelStore) error {
		ctx, cancel := ctxCall()
		defer cancel()
		rs, e := cs.LoadRetentionState(ctx)
		if e != nil {
			return infraf("store.LoadRetentionState: %v", e)
		}
		if rs.LocalRetentionThroughSeq > floor {
			floor = rs.LocalRetentionThroughSeq
		}
		raw, e := cs.ReadCommitted(ctx, store.ReadCommittedRequest{FromSeq: 1})
		if e != nil {
			return infraf("raw scan: %v", e)
		}
		for _, m := range raw.Messages {
			if m.SyncOnce {
				bars[m.MessageSeq] = true
			}
		}
		return nil
	})
	if err != nil {
		return false, err
	}
	for _, x := range seqs {
		q := uint64(kit.ToInt(x))
		if q <= floor || (a == "Sync" && bars[q]) {
			return false, nil
		}
	}
	return true, nil
}

// The report keeps only a few violations: the known finding is written out once per run and
// counted afterwards, so that it can never crowd out a different disagreement.
var capZeroReported bool

func reportCapZero(rep *kit.Report, s *sut, ev, res map[string]any, replay any) {
	rep.AddExtra("cap_zero_finding_hits", 1)
	if capZeroReported {
		return
	}
	capZeroReported = true
	rep.ViolateSig(prop, "reply", fmt.Sprintf("store=%s minISR=%d: %s returned %s although the committed cap is 0 "+
		"(readLocalCommitted passes MaxSeq 0, which the store reads as unbounded)", s.w.kind, s.minISR,
		kit.JSON(kit.CloneEv(ev)), kit.JSON(res["seqs"])), sigCapZero, replay)
}

var fwdSyncOnceReported bool

// fwdRead tells the calls whose reply travelled through the forward RPC.
func fwdRead(ev map[string]any) bool {
	a := kit.Str(ev, "a")
	return a == "SyncF" || (a == "Read" && kit.Str(ev, "layer") == "fwd")
}

func reportFwdSyncOnce(rep *kit.Report, s *sut, ev, res map[string]any, want, replay any) {
	rep.AddExtra("fwd_sync_once_finding_hits", 1)
	if kit.Str(ev, "a") == "SyncF" {
		rep.AddExtra("fwd_sync_once_finding_hits_in_sync_messages", 1) // the ordinary reader returned a SyncOnce row
	}
	if fwdSyncOnceReported {
		return
	}
	fwdSyncOnceReported = true
	rep.ViolateSig(prop, "reply", fmt.Sprintf("store=%s minISR=%d: %s issued on the non-leader node answered %s where the SyncOnce rule "+
		"gives %s: the forwarded reply carries no SyncOnce flag (pkg/cluster/channels codec.go appendMessage / readMessage), so the "+
		"origin cannot tell SyncOnce / barrier rows from ordinary ones", s.w.kind, s.minISR, kit.JSON(kit.CloneEv(ev)), kit.JSON(res),
		kit.JSON(want)), sigFwdSyncOnce, replay)
}

var lastVisibleReported bool

func reportLastVisible(rep *kit.Report, s *sut, ev, res map[string]any, replay any) {
	rep.AddExtra("last_visible_finding_hits", 1)
	if lastVisibleReported {
		return
	}
	lastVisibleReported = true
	rep.ViolateSig(prop, "reply", fmt.Sprintf("store=%s minISR=%d: %s answered %s, the newest durable row, where the "+
		"committed / retention / SyncOnce rules give %s (readLocalLastVisible reads the store with MaxSeq = MaxUint64 and "+
		"looks at one row)", s.w.kind, s.minISR, kit.JSON(kit.CloneEv(ev)), kit.JSON(res), kit.JSON(ev["res"])), sigLastVisible, replay)
}

// ---- spec -> code ---------------------------------------------------------------------

func replayAll(rep *kit.Report, worlds map[string]*world, behs []kit.Behaviour) {
	for bi, b := range behs {
		if len(b.Steps) == 0 || kit.Str(b.Steps[0].Ev, "a") != "Init" {
			rep.Infra("behaviour %d does not start with Init", bi)
			continue
		}
		cfg := kit.Map(b.Steps[0].Ev, "cfg")
		w := worlds[kit.Str(cfg, "store")]
		if w == nil {
			rep.Infra("behaviour %d: unknown store %q", bi, kit.Str(cfg, "store"))
			continue
		}
		s, err := newSUT(w, nodeIDs(kit.List(cfg, "isr")), int(kit.Int(cfg, "minISR")), preOf(cfg))
		if err != nil {
			rep.Infra("behaviour %d: %v", bi, err)
			continue
		}
		// the runtime loaded from the prepared store must be in the state the specification starts from
		if proj, _, err := s.obs(); err != nil {
			rep.Infra("behaviour %d: %v", bi, err)
			continue
		} else if d := kit.Diff(expectedState(b.Steps[0].St), proj); d != "" {
			rep.Violate(prop, "state", fmt.Sprintf("store=%s after loading the runtime from %s: %s", w.kind, kit.JSON(cfg["pre"]), d),
				map[string]any{"behaviour": b, "step": 0, "observed_state": proj})
			rep.Replayed(0)
			continue
		}
		for si, st := range b.Steps[1:] {
			rep.Cover(kit.Str(st.Ev, "a"))
			out, err := s.apply(rep, st.Ev)
			if err != nil {
				rep.Infra("behaviour %d step %d %s: %v", bi, si+1, kit.JSON(kit.CloneEv(st.Ev)), err)
				break
			}
			if out.skipped {
				rep.AddExtra("sync_steps_skipped_in_this_build", 1)
				continue
			}
			cse := map[string]any{"behaviour": b, "step": si + 1, "observed": out.res}
			if d := kit.Diff(st.Ev["res"], out.res); d != "" {
				if kit.Str(st.Ev, "a") == "Last" && st.Ev["alt"] != nil && kit.Equal(st.Ev["alt"], out.res) {
					// exactly the answer the specification computes for the known deviation
					reportLastVisible(rep, s, st.Ev, out.res, cse)
					continue
				}
				if fwdRead(st.Ev) && st.Ev["alt"] != nil && kit.Equal(st.Ev["alt"], out.res) {
					// exactly the answer the specification computes for the lost SyncOnce flag
					reportFwdSyncOnce(rep, s, st.Ev, out.res, st.Ev["res"], cse)
					continue
				}
				known, ferr := s.capZeroFinding(st.Ev, out.res, true)
				if ferr != nil {
					rep.Infra("behaviour %d step %d: %v", bi, si+1, ferr)
					break
				}
				if known {
					reportCapZero(rep, s, st.Ev, out.res, cse)
					continue // reads do not change the state: the behaviour goes on
				}
				rep.Violate(prop, "reply", fmt.Sprintf("store=%s step %d %s: %s", w.kind, si+1, kit.JSON(kit.CloneEv(st.Ev)), d), cse)
				break
			}
			proj, _, err := s.obs()
			if err != nil {
				rep.Infra("behaviour %d step %d: %v", bi, si+1, err)
				break
			}
			if d := kit.Diff(expectedState(st.St), proj); d != "" {
				cse["observed_state"] = proj
				rep.Violate(prop, "state", fmt.Sprintf("store=%s after step %d %s: %s", w.kind, si+1, kit.JSON(kit.CloneEv(st.Ev)), d), cse)
				break
			}
		}
		rep.Replayed(len(b.Steps) - 1)
		if bi == 0 {
			rep.Sample(b)
		}
	}
}

// expectedState adds the store's own copy of the watermarks to the specification's projection:
// the specification has one variable for each, the real system keeps it twice.
func expectedState(st any) any {
	m, ok := kit.Canon(st).(map[string]any)
	if !ok {
		return st
	}
	m["store"] = map[string]any{"leo": m["leo"], "ckpt": m["ckpt"], "local": m["local"], "phys": m["phys"]}
	return m
}

// scriptedSchedules are fixed regression schedules replayed in every run, before TLC's
// behaviours, on both stores (same step format, expected values written out by hand):
//
//	cap-zero      the reproduction of C10:committed-cap-zero-passed-to-store-as-unbounded:
//	              MinISR 2, two durable rows, nothing committed or checkpointed; forward from 0,
//	              latest and SyncMessages pages must be empty; after the follower acknowledged
//	              row 1 (HW 1, checkpoint still 0) the service layer still shows nothing, the
//	              conversation head shows row 1.
//	last-visible  the reproduction of C10:last-visible-read-ignores-committed-cap (known).
//	floor-vs-cap  a boundary adopted above the committed watermark: floor above cap, nothing
//	              visible, nothing trimmed; then commit + checkpoint + trim in two requests.
//	fwd-lagging   reads issued on the non-leader node against a leader loaded from a store with
//	              five durable rows, boundary 1 and (MinISR 2, 3) checkpoint 3: whole log, latest
//	              page and conversation head, the leader's metadata lookup answering not-found
//	              (fallback on what the origin sent) and answering (origin with the oldest
//	              record); the window is (1, 3], with MinISR 1 (1, 5].
func scriptedSchedules() []kit.Behaviour {
	type step = kit.Step
	st := func(leo, hw, ckpt, ret, local, phys uint64, rows, bars []uint64) map[string]any {
		if rows == nil {
			rows = []uint64{}
		}
		if bars == nil {
			bars = []uint64{}
		}
		return map[string]any{"leo": leo, "hw": hw, "ckpt": ckpt, "ret": ret, "local": local, "phys": phys, "rows": rows, "bars": bars}
	}
	none := map[string]any{"seqs": []uint64{}, "bars": []uint64{}}
	seqs := func(q ...uint64) map[string]any {
		if q == nil {
			q = []uint64{}
		}
		return map[string]any{"seqs": q, "bars": []uint64{}}
	}
	svc := func(from, mx uint64, lim int, rev bool, res map[string]any) map[string]any {
		return kit.Ev("Read", "layer", "service", "from", from, "mn", 0, "mx", mx, "lim", lim, "rev", rev, "res", res)
	}
	var out []kit.Behaviour
	for _, kind := range []string{"memory", "messagedb"} {
		init := step{Ev: map[string]any{"a": "Init", "cfg": map[string]any{"store": kind, "isr": []uint64{1, 2}, "minISR": 2,
			"pre": preload{}.json()}}, St: st(0, 0, 0, 0, 0, 0, nil, nil)}
		s2 := st(2, 0, 0, 0, 0, 0, []uint64{1, 2}, nil)
		s2h := st(2, 1, 0, 0, 0, 0, []uint64{1, 2}, nil)
		out = append(out, kit.Behaviour{Steps: []step{init,
			{Ev: kit.Ev("Append", "kind", "msg", "res", map[string]any{"seq": 1}), St: st(1, 0, 0, 0, 0, 0, []uint64{1}, nil)},
			{Ev: kit.Ev("Append", "kind", "msg", "res", map[string]any{"seq": 2}), St: s2},
			{Ev: svc(0, 0, 10, false, none), St: s2},
			{Ev: svc(0, inf, 10, false, none), St: s2},
			{Ev: svc(1, inf, 10, false, none), St: s2},
			{Ev: svc(inf, inf, 10, true, none), St: s2},
			{Ev: svc(2, 2, 10, true, none), St: s2},
			{Ev: kit.Ev("Sync", "mode", "down", "start", 0, "end", 0, "lim", 5, "res", map[string]any{"seqs": []uint64{}}), St: s2},
			{Ev: kit.Ev("Sync", "mode", "up", "start", 0, "end", 3, "lim", 5, "res", map[string]any{"seqs": []uint64{}}), St: s2},
			{Ev: kit.Ev("Head", "res", map[string]any{"found": false, "seq": 0, "committed": 0, "retention": 0}), St: s2},
			{Ev: kit.Ev("Ack", "f", 2, "off", 1, "res", map[string]any{"hw": 1}), St: s2h},
			{Ev: svc(0, 0, 10, false, none), St: s2h},
			{Ev: svc(inf, inf, 10, true, none), St: s2h},
			{Ev: kit.Ev("Head", "res", map[string]any{"found": true, "seq": 1, "committed": 1, "retention": 0}), St: s2h},
		}})
		out = append(out, kit.Behaviour{Steps: []step{init,
			{Ev: kit.Ev("Append", "kind", "msg", "res", map[string]any{"seq": 1}), St: st(1, 0, 0, 0, 0, 0, []uint64{1}, nil)},
			{Ev: kit.Ev("Append", "kind", "msg", "res", map[string]any{"seq": 2}), St: s2},
			{Ev: kit.Ev("Ack", "f", 2, "off", 1, "res", map[string]any{"hw": 1}), St: s2h},
			{Ev: kit.Ev("Last", "after", 0, "res", map[string]any{"found": true, "seq": 1}, "alt", map[string]any{"found": true, "seq": 2}), St: s2h},
		}})
		s3 := func(hw, ckpt, ret, local, phys uint64, rows []uint64) map[string]any {
			return st(3, hw, ckpt, ret, local, phys, rows, nil)
		}
		all := []uint64{1, 2, 3}
		out = append(out, kit.Behaviour{Steps: []step{init,
			{Ev: kit.Ev("Append", "kind", "msg", "res", map[string]any{"seq": 1}), St: st(1, 0, 0, 0, 0, 0, []uint64{1}, nil)},
			{Ev: kit.Ev("Append", "kind", "msg", "res", map[string]any{"seq": 2}), St: s2},
			{Ev: kit.Ev("Append", "kind", "msg", "res", map[string]any{"seq": 3}), St: s3(0, 0, 0, 0, 0, all)},
			{Ev: kit.Ev("Ack", "f", 2, "off", 1, "res", map[string]any{"hw": 1}), St: s3(1, 0, 0, 0, 0, all)},
			// checkpoint lag: the boundary is adopted, the checkpoint follows, nothing is trimmed
			{Ev: kit.Ev("Apply", "b", 1, "mt", 0, "res", map[string]any{"local": 1, "phys": 0, "deleted": 0, "through": 0}), St: s3(1, 1, 1, 1, 0, all)},
			// a boundary above the committed watermark: floor 3 above cap 1
			{Ev: kit.Ev("Apply", "b", 2, "mt", 0, "res", map[string]any{"local": 2, "phys": 0, "deleted": 0, "through": 0}), St: s3(1, 1, 2, 2, 0, all)},
			{Ev: svc(0, 0, 10, false, none), St: s3(1, 1, 2, 2, 0, all)},
			{Ev: svc(inf, inf, 10, true, none), St: s3(1, 1, 2, 2, 0, all)},
			// a smaller boundary afterwards changes nothing but may trim what is covered
			{Ev: kit.Ev("Apply", "b", 1, "mt", 0, "res", map[string]any{"local": 2, "phys": 1, "deleted": 1, "through": 1}), St: s3(1, 1, 2, 2, 1, []uint64{2, 3})},
			{Ev: kit.Ev("Ack", "f", 2, "off", 3, "res", map[string]any{"hw": 3}), St: s3(3, 1, 2, 2, 1, []uint64{2, 3})},
			{Ev: svc(0, 0, 10, false, none), St: s3(3, 1, 2, 2, 1, []uint64{2, 3})},
			{Ev: kit.Ev("Apply", "b", 2, "mt", 0, "res", map[string]any{"local": 2, "phys": 1, "deleted": 0, "through": 0}), St: s3(3, 2, 2, 2, 1, []uint64{2, 3})},
			{Ev: kit.Ev("Apply", "b", 2, "mt", 0, "res", map[string]any{"local": 2, "phys": 2, "deleted": 1, "through": 2}), St: s3(3, 2, 2, 2, 2, []uint64{3})},
			{Ev: svc(inf, inf, 10, true, none), St: s3(3, 2, 2, 2, 2, []uint64{3})},
			{Ev: kit.Ev("Head", "res", map[string]any{"found": true, "seq": 3, "committed": 3, "retention": 2}), St: s3(3, 2, 2, 2, 2, []uint64{3})},
			{Ev: kit.Ev("Read", "layer", "store", "from", 0, "mn", 3, "mx", 3, "lim", 10, "rev", false, "res", seqs(3)), St: s3(3, 2, 2, 2, 2, []uint64{3})},
		}})
	}
	fwd := func(from, mx uint64, lim int, rev, miss bool, oret uint64, res map[string]any) map[string]any {
		return kit.Ev("Read", "layer", "fwd", "from", from, "mn", 0, "mx", mx, "lim", lim, "rev", rev, "miss", miss, "oret", oret, "res", res)
	}
	for _, kind := range []string{"memory", "messagedb"} {
		for minISR := 1; minISR <= 3; minISR++ {
			pre, top := preload{n: 5, c: 3, b: 1}, uint64(3)
			if minISR == 1 {
				pre, top = preload{n: 5, c: 5, b: 1}, 5
			}
			s0 := st(5, pre.c, pre.c, 1, 1, 0, []uint64{1, 2, 3, 4, 5}, nil)
			var up, down, tail []uint64
			for q := uint64(2); q <= top; q++ {
				up = append(up, q)
				down = append([]uint64{q}, down...)
				if q >= 4 {
					tail = append(tail, q)
				}
			}
			head := func(miss bool, oret uint64, batch bool) step {
				return step{Ev: kit.Ev("HeadF", "miss", miss, "oret", oret, "batch", batch,
					"res", map[string]any{"found": true, "seq": top, "committed": top, "retention": 1}), St: s0}
			}
			steps := []step{{Ev: map[string]any{"a": "Init", "cfg": map[string]any{"store": kind, "isr": []uint64{1, 2, 3},
				"minISR": minISR, "pre": pre.json()}}, St: s0},
				{Ev: svc(1, inf, 10, false, seqs(up...)), St: s0}}
			for _, m := range []struct {
				miss bool
				oret uint64
			}{{true, 1}, {false, 0}, {false, 1}} {
				steps = append(steps,
					step{Ev: fwd(1, inf, 10, false, m.miss, m.oret, seqs(up...)), St: s0},
					step{Ev: fwd(0, 0, 10, false, m.miss, m.oret, seqs(up...)), St: s0},
					step{Ev: fwd(inf, inf, 10, true, m.miss, m.oret, seqs(down...)), St: s0},
					step{Ev: fwd(4, inf, 10, false, m.miss, m.oret, seqs(tail...)), St: s0},
					head(m.miss, m.oret, false), head(m.miss, m.oret, true))
			}
			out = append(out, kit.Behaviour{Steps: steps})
		}
		// the reproduction of C10:forwarded-read-drops-sync-once-flag (known): row 2 of three
		// committed rows is a SyncOnce row; read on the leader and on the non-leader node
		sb := st(3, 3, 3, 0, 0, 0, []uint64{1, 2, 3}, []uint64{2})
		withBar := map[string]any{"seqs": []uint64{1, 2, 3}, "bars": []uint64{2}}
		lost := fwd(1, inf, 10, false, false, 0, withBar)
		lost["alt"] = seqs(1, 2, 3)
		out = append(out, kit.Behaviour{Steps: []step{
			{Ev: map[string]any{"a": "Init", "cfg": map[string]any{"store": kind, "isr": []uint64{1, 2}, "minISR": 2,
				"pre": preload{n: 3, c: 3, k: 2}.json()}}, St: sb},
			{Ev: svc(1, inf, 10, false, withBar), St: sb},
			{Ev: kit.Ev("Sync", "mode", "up", "start", 1, "end", 0, "lim", 5, "res", map[string]any{"seqs": []uint64{1, 3}}), St: sb},
			{Ev: lost, St: sb},
			{Ev: kit.Ev("SyncF", "mode", "up", "start", 1, "end", 0, "lim", 5, "miss", false, "oret", 0,
				"res", map[string]any{"seqs": []uint64{1, 3}}, "alt", map[string]any{"seqs": []uint64{1, 2, 3}}), St: sb},
		}})
	}
	for i := range out { // canonical JSON form, as behaviours loaded from a file
		for j := range out[i].Steps {
			out[i].Steps[j].Ev, _ = kit.Canon(out[i].Steps[j].Ev).(map[string]any)
			out[i].Steps[j].St = kit.Canon(out[i].Steps[j].St)
		}
	}
	return out
}

// ---- code -> spec ----------------------------------------------------------------------

var isrChoices = [][]ch.NodeID{{1}, {1, 2}, {1, 2, 3}}

func drive(rep *kit.Report, rec *kit.Recorder, rng *rand.Rand, worlds map[string]*world, traces, steps int) {
	kinds := make([]string, 0, len(worlds))
	for k := range worlds {
		kinds = append(kinds, k)
	}
	sort.Strings(kinds)
	for tr := 0; tr < traces; tr++ {
		w := worlds[kinds[tr%len(kinds)]]
		isr := isrChoices[rng.Intn(len(isrChoices))]
		minISR := 1 + rng.Intn(len(isr))
		var pre preload
		if rng.Intn(2) == 0 { // a runtime loaded from a store with a durable tail above its checkpoint
			pre.n = pick(rng, 1, 6)
			pre.c = pick(rng, 0, pre.n)
			if minISR <= 1 {
				pre.c = pre.n
			}
			pre.b = pick(rng, 0, pre.c)
			if rng.Intn(3) == 0 {
				pre.k = pick(rng, 1, pre.n)
			}
		}
		s, err := newSUT(w, isr, minISR, pre)
		if err != nil {
			rep.Infra("trace %d: %v", tr, err)
			return
		}
		st0, _, err := s.obs()
		if err != nil {
			rep.Infra("trace %d: %v", tr, err)
			return
		}
		isrJSON := make([]uint64, len(isr))
		for i, n := range isr {
			isrJSON[i] = uint64(n)
		}
		rec.Begin(map[string]any{"cfg": map[string]any{"store": w.kind, "isr": isrJSON, "minISR": minISR, "pre": pre.json()}}, specState(st0))
		n := steps/2 + rng.Intn(steps)
		for i := 0; i < n; i++ {
			_, v, err := s.obs()
			if err != nil {
				rep.Infra("trace %d step %d: %v", tr, i, err)
				return
			}
			ev := randomCall(rng, s, v)
			rep.Cover(kit.Str(ev, "a"))
			out, err := s.apply(rep, ev)
			if err != nil {
				rep.Infra("trace %d step %d %s: %v", tr, i, kit.JSON(ev), err)
				return
			}
			if out.skipped {
				continue
			}
			if known, ferr := s.capZeroFinding(ev, out.res, false); ferr != nil {
				rep.Infra("trace %d step %d: %v", tr, i, ferr)
				return
			} else if known {
				ev["res"] = out.res
				reportCapZero(rep, s, ev, out.res, map[string]any{"trace": tr, "step": i, "call": ev})
				continue // a read: the state is unchanged, the step is left out of the trace
			}
			st, _, err := s.obs()
			if err != nil {
				rep.Infra("trace %d step %d: %v", tr, i, err)
				return
			}
			if want, lost := lostSyncOnce(ev, out.res, st); lost {
				ev["res"] = out.res
				reportFwdSyncOnce(rep, s, ev, out.res, want, map[string]any{"trace": tr, "step": i, "call": ev})
				continue // a read: the state is unchanged, the step is left out of the trace
			}
			if d := kit.Diff(st["store"], map[string]any{"leo": st["leo"], "ckpt": st["ckpt"], "local": st["local"], "phys": st["phys"]}); d != "" {
				ev["res"] = out.res
				rep.Violate(prop, "state", fmt.Sprintf("store=%s after %s the store and the runtime disagree: %s (store=%s view=%s)",
					w.kind, kit.JSON(ev), d, kit.JSON(st["store"]), kit.JSON(st)), map[string]any{"trace": tr, "step": i, "call": ev, "state": st})
				return
			}
			ev["res"] = out.res
			rec.Step(ev, specState(st))
		}
	}
}

// lostSyncOnce recognises the known finding in the random driver, and nothing else: a forwarded
// read whose reply names no SyncOnce row although rows it returned are SyncOnce rows of the store
// (raw scan).  The sequences themselves are left to the trace validation.
func lostSyncOnce(ev, res map[string]any, st map[string]any) (any, bool) {
	if !(kit.Str(ev, "a") == "Read" && kit.Str(ev, "layer") == "fwd") {
		return nil, false
	}
	got, _ := kit.Canon(res["bars"]).([]any)
	seqs, _ := kit.Canon(res["seqs"]).([]any)
	stored, _ := kit.Canon(st["bars"]).([]any)
	isBar := map[int64]bool{}
	for _, x := range stored {
		isBar[kit.ToInt(x)] = true
	}
	want := []uint64{}
	for _, x := range seqs {
		if isBar[kit.ToInt(x)] {
			want = append(want, uint64(kit.ToInt(x)))
		}
	}
	if len(got) != 0 || len(want) == 0 {
		return nil, false
	}
	return map[string]any{"seqs": res["seqs"], "bars": want}, true
}

// specState drops the store's own copy (checked equal to the view by the driver).
func specState(st map[string]any) map[string]any {
	out := map[string]any{}
	for k, v := range st {
		if k != "store" {
			out[k] = v
		}
	}
	return out
}

func pick(rng *rand.Rand, lo, hi uint64) uint64 { // inclusive, lo <= hi
	return lo + uint64(rng.Int63n(int64(hi-lo+1)))
}

func randomCall(rng *rand.Rand, s *sut, v ch.RetentionView) map[string]any {
	lim := 1 + rng.Intn(4)
	for {
		switch x := rng.Intn(100); {
		case x < 26:
			kind := "msg"
			if rng.Intn(5) == 0 {
				kind = "bar"
			}
			return kit.Ev("Append", "kind", kind)
		case x < 40:
			f := uint64(2 + rng.Intn(2))
			off := pick(rng, 0, v.LEO+1)
			if rng.Intn(2) == 0 && v.LEO > 0 {
				off = pick(rng, (v.LEO+1)/2, v.LEO)
			}
			return kit.Ev("Ack", "f", f, "off", off)
		case x < 45:
			return kit.Ev("Meta", "r", pick(rng, 0, v.LEO+1))
		case x < 65:
			mt := []int{0, 0, 1, 2, 3}[rng.Intn(5)]
			var b uint64
			switch y := rng.Intn(20); {
			case y < 9 && v.HW >= 1:
				b = pick(rng, 1, v.HW)
			case y < 13 && v.LocalRetentionThroughSeq >= 1:
				b = v.LocalRetentionThroughSeq
			case y < 16 && v.LocalRetentionThroughSeq >= 2:
				b = pick(rng, 1, v.LocalRetentionThroughSeq-1)
			default:
				b = pick(rng, 1, v.LEO+2)
			}
			if s.w.kind == "memory" && b > v.LEO {
				// the memory double cannot address rows appended after a gap (see the specification)
				continue
			}
			return kit.Ev("Apply", "b", b, "mt", mt)
		case x < 72:
			if v.HW < 1 {
				continue
			}
			rev := rng.Intn(2) == 0
			from := pick(rng, 0, v.LEO+1)
			if rev {
				from = pick(rng, 1, v.HW)
			}
			return kit.Ev("Read", "layer", "store", "from", from, "mn", v.RetentionThroughSeq+1, "mx", v.HW, "lim", lim, "rev", rev)
		case x < 84:
			from, mx, rev := serviceReadArgs(rng, v)
			return kit.Ev("Read", "layer", "service", "from", from, "mn", 0, "mx", mx, "lim", lim, "rev", rev)
		case x < 93:
			from, mx, rev := serviceReadArgs(rng, v)
			if rng.Intn(3) == 0 { // the whole log / the latest page, the cap left to the leader
				from, mx = uint64(rng.Intn(2)), inf
				if rev {
					from = inf
				}
			}
			miss, oret := forwardMode(rng, s)
			return kit.Ev("Read", "layer", "fwd", "from", from, "mn", 0, "mx", mx, "lim", lim, "rev", rev, "miss", miss, "oret", oret)
		case x < 95:
			miss, oret := forwardMode(rng, s)
			return kit.Ev("HeadF", "miss", miss, "oret", oret, "batch", rng.Intn(2) == 0)
		case x < 97:
			return kit.Ev("Head")
		default:
			if syncRead == nil {
				continue
			}
			mode := []string{"up", "down"}[rng.Intn(2)]
			start, end := pick(rng, 0, v.LEO+1), uint64(0)
			if rng.Intn(3) == 0 {
				end = pick(rng, 0, v.LEO+1)
			}
			return kit.Ev("Sync", "mode", mode, "start", start, "end", end, "lim", lim)
		}
	}
}

// serviceReadArgs draws a service-layer request the way the callers issue them.
func serviceReadArgs(rng *rand.Rand, v ch.RetentionView) (from, mx uint64, rev bool) {
	rev = rng.Intn(2) == 0
	if rev {
		from = pick(rng, 1, v.LEO+2)
		if from == v.LEO+2 || rng.Intn(4) == 0 {
			from = inf
		}
		mx = from
		if rng.Intn(2) == 0 {
			mx = inf
		}
		return
	}
	from = pick(rng, 0, v.LEO+2)
	if from == v.LEO+2 {
		from = inf
	}
	switch rng.Intn(3) {
	case 0:
		mx = 0
	case 1:
		mx = inf
	default:
		mx = pick(rng, 0, v.LEO+1)
	}
	return
}

// forwardMode draws the leader's lookup mode and the origin's record for a forwarded read.
func forwardMode(rng *rand.Rand, s *sut) (miss bool, oret uint64) {
	cur, _ := s.w.src.ResolveChannelMeta(context.Background(), s.id)
	oret = cur.RetentionThroughSeq
	if miss = rng.Intn(2) == 0; !miss && rng.Intn(2) == 0 {
		oret = pick(rng, 0, cur.RetentionThroughSeq)
	}
	return
}

// ---- entry point -----------------------------------------------------------------------

// sourceDrift compares the two copies of this file (see the header).
func sourceDrift(root string) string {
	a, err1 := os.ReadFile(filepath.Join(root, "runner/harness/retention/retention_test.go"))
	b, err2 := os.ReadFile(filepath.Join(root, "overlay/retention/zz_verif_retention_test.go"))
	if err1 != nil || err2 != nil {
		return fmt.Sprintf("cannot read both copies: %v / %v", err1, err2)
	}
	norm := strings.NewReplacer("package retention\n", "package cluster_test\n",
		"\"verif/runner/kit\"", "\"github.com/WuKongIM/WuKongIM/internal/zzverif/kit\"").Replace(string(a))
	if norm != string(b) {
		return "overlay/retention/zz_verif_retention_test.go is not the generated copy of runner/harness/retention/retention_test.go (see the header of either file)"
	}
	return ""
}

func TestVerifRetention(t *testing.T) {
	env, ok := kit.LoadEnv()
	if !ok {
		t.Skip("not started by the verif runner")
	}
	rep := kit.NewReport(env, harnessName)
	rec, err := kit.NewRecorder(env.TraceFile)
	if err != nil {
		t.Fatal(err)
	}
	defer func() {
		_ = rec.Close()
		if err := rep.Finish(rec); err != nil {
			t.Fatal(err)
		}
	}()
	if root := os.Getenv("VERIF_ROOT"); root != "" {
		if d := sourceDrift(root); d != "" {
			rep.Infra("%s", d)
			return
		}
	}
	base := "/dev/shm"
	if fi, err := os.Stat(base); err != nil || !fi.IsDir() {
		base = env.OutDir
	}
	dir, err := os.MkdirTemp(base, "verif-c10-")
	if err != nil {
		rep.Infra("temp dir: %v", err)
		return
	}
	defer os.RemoveAll(dir)
	worlds := map[string]*world{}
	for _, kind := range []string{"memory", "messagedb"} {
		w, err := newWorld(kind, dir)
		if err != nil {
			rep.Infra("cannot build the %s runtime: %v", kind, err)
			return
		}
		defer w.close()
		worlds[kind] = w
	}

	behs, err := kit.LoadBehaviours(env.BehFile)
	if err != nil {
		rep.Infra("load behaviours: %v", err)
	}
	scripted := scriptedSchedules()
	replayAll(rep, worlds, scripted)
	rep.Extra("scripted_schedules_replayed", len(scripted))
	replayAll(rep, worlds, behs)

	if os.Getenv("VERIF_C10_NO_DRIVER") == "" {
		drive(rep, rec, env.Rand(), worlds, env.Pick(40, 400), env.Pick(50, 70))
	}
}

// Package gateway (directory runner/harness/gatewaysession) is the ext conformance harness of
// property C28 for /repo/pkg/gateway/core: the real core.Server, the testkit fake transport
// behind a recording wrapper, and the reference SENDACK writer of gs_driver_test.go as the
// handler.  The package is named like /repo/internal/access/gateway because gs_driver_test.go
// is also compiled into that package by the overlay harness (overlay/gatewaysession).
// Exported API only: NewServer/Start/Stop/DrainSends, transport.Factory, protocol.Adapter,
// gatewaytypes.Handler / SendBatchHandler, session.Session.WriteFrame.
package gateway

import (
	"testing"

	gatewaytypes "github.com/WuKongIM/WuKongIM/pkg/gateway/types"
	"verif/runner/kit"
)

func TestVerifGatewaySession(t *testing.T) {
	env, ok := kit.LoadEnv()
	if !ok {
		t.Skip("not started by the verification runner")
	}
	rep := kit.NewReport(env, "gatewaysession-core")
	rec, err := kit.NewRecorder(env.TraceFile)
	if err != nil {
		rep.Infra("recorder: %v", err)
		_ = rep.Finish(nil)
		return
	}
	behs, err := kit.LoadBehaviours(env.BehFile)
	if err != nil {
		rep.Infra("behaviours: %v", err)
	}
	genv := &GsEnv{Seed: env.Seed, Thorough: env.Thorough(), Rand: env.Rand(),
		Traces: env.Pick(50, 800), TraceOps: env.Pick(20, 30),
		Inner: func(d *GsDriver, batch bool) gatewaytypes.Handler {
			if batch {
				return &GsRefWriter{D: d}
			}
			return gsFrameOnly{&GsRefWriter{D: d}}
		}}
	for _, b := range behs {
		gb := GsBehaviour{}
		for _, s := range b.Steps {
			gb.Steps = append(gb.Steps, GsStep{Ev: s.Ev, St: s.St})
		}
		genv.Behs = append(genv.Behs, gb)
	}
	GsRun(genv, rec, rep)
	if err := rec.Close(); err != nil {
		rep.Infra("trace file: %v", err)
	}
	if err := rep.Finish(rec); err != nil {
		t.Fatalf("result: %v", err)
	}
}

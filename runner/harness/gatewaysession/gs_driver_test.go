// Shared driver of the C28 conformance harnesses ("Every SEND gets exactly one SENDACK, in
// order").  This file is compiled twice, unchanged:
//
//   - as part of verif/runner/harness/gatewaysession (ext harness: real pkg/gateway/core.Server,
//     reference SENDACK writer written here), and
//   - through `go test -overlay` into /repo/internal/access/gateway (overlay harness: the same
//     Server composed with the real internal/access/gateway.Handler, whose SENDACK writer can only
//     be driven with an in-package fake of its message use case).
//
// It therefore imports only /repo/pkg/... and the standard library; the two thin wrapper files
// bind it to the kit (whose import path differs between the two builds).  Every identifier is
// prefixed gs/Gs because the file shares a package with /repo's own tests in the overlay build.
//
// What runs: the real Server with a recording wrapper around the testkit fake transport (the
// linearization point of an outbound frame is the connection's Write call, of a close the
// connection's Close call), a line protocol adapter that gives every SEND its client sequence,
// and a handler shell that records entry/exit of every handler call.
//
//	Method A (replay): behaviours of specs/GatewaySession/Sim.tla are enacted with ONE send
//	  worker and a gated planner (handler calls park until the script releases them with the
//	  order in which the results are produced); after each command the harness waits for the
//	  consequences the specification determines and compares replies and the projection.
//	  Behaviours generated with Admission = "parked" (SimRace.cfg) additionally hold a feed INSIDE
//	  sendExecutor.submit: they need GsEnv.SwapSession (overlay build only) to put a session
//	  object whose ID() can block in front of the real one, and run with two send workers.
//	Method B (random): free-running feeders (one per session: bursts of SENDs, pings, closes),
//	  two pushers, a closer, a drainer, random plans/failures/latency in the handler; every event
//	  is logged under one lock and TLC validates the log against specs/GatewaySession/Trace.tla.
package gateway

import (
	"context"
	"errors"
	"fmt"
	"io"
	"math/rand"
	"runtime"
	"sort"
	"strconv"
	"strings"
	"sync"
	"time"

	"github.com/WuKongIM/WuKongIM/pkg/gateway/core"
	"github.com/WuKongIM/WuKongIM/pkg/gateway/session"
	"github.com/WuKongIM/WuKongIM/pkg/gateway/testkit"
	"github.com/WuKongIM/WuKongIM/pkg/gateway/transport"
	gatewaytypes "github.com/WuKongIM/WuKongIM/pkg/gateway/types"
	"github.com/WuKongIM/WuKongIM/pkg/protocol/frame"
)

const (
	gsProp     = "C28"
	gsListener = "gs-listener"
	gsWaitLong = 60 * time.Second
)

// ---- contract with the wrappers -----------------------------------------------------------

// GsRecorder is satisfied by *kit.Recorder.
type GsRecorder interface {
	Begin(initEv map[string]any, st any)
	Step(ev map[string]any, st any)
}

// GsReport is satisfied by *kit.Report.
type GsReport interface {
	Violate(property, kind, detail string, replay any)
	Infra(format string, a ...any)
	Cover(action string)
	Replayed(n int)
	Sample(v any)
	AddExtra(k string, n int)
	Extra(k string, v any)
	Violations() int
}

// GsStep / GsBehaviour mirror kit.Step / kit.Behaviour.
type GsStep struct {
	Ev map[string]any
	St any
}
type GsBehaviour struct{ Steps []GsStep }

// GsEnv is what the wrappers pass in.
type GsEnv struct {
	Seed     int64
	Thorough bool
	Rand     *rand.Rand
	Behs     []GsBehaviour
	// Inner builds the handler that sits inside the recording shell: batch=false asks for a
	// handler WITHOUT OnSendBatch (per-frame dispatch) if the composition has one, else nil.
	Inner func(d *GsDriver, batch bool) gatewaytypes.Handler
	// Traces / TraceOps scale the random driver.
	Traces, TraceOps int
	// SwapSession (optional; nil in the ext build) replaces the session object the Server keeps
	// for a connection by wrap(original).  The Server calls Session.ID() inside
	// sendExecutor.submit (shard lookup, when there is more than one shard), so a wrapper whose
	// ID() blocks or yields holds a feed between the admission fence and the enqueue.
	SwapSession func(srv *core.Server, listener string, connID uint64, wrap func(session.Session) session.Session) bool
	// RaceBehs are Sim.tla behaviours generated with Admission = "parked" (replayed only with SwapSession).
	RaceBehs []GsBehaviour
}

// ---- items, plans -------------------------------------------------------------------------

type gsItem struct {
	S string
	N int
}

func gsItemsJSON(its []gsItem) []any {
	out := make([]any, 0, len(its))
	for _, it := range its {
		out = append(out, map[string]any{"s": it.S, "n": it.N})
	}
	return out
}

// GsPlan tells a handler call in which order the results of its batch positions (0-based) are
// produced; a plan shorter than the batch makes the call fail after the last one.
type GsPlan struct{ Order []int }

type gsParked struct {
	items []gsItem
	reply chan GsPlan
}

// ---- the event log ------------------------------------------------------------------------

type gsCount struct {
	nrecv, nacc, nack, nwr int
	closed                 bool
}

type gsLog struct {
	mu     sync.Mutex
	cond   *sync.Cond
	rec    GsRecorder
	rep    GsReport
	done   bool
	sess   map[string]*gsCount
	ndisp  int
	active int
	acks   []gsItem // SENDACKs in the order they reached a connection
	hends  int
	drainD bool
	nev    int
	// lateSeen: a handler call entered after DrainDone was already reported for this trace
	lateSeen bool
}

func newGsLog(rec GsRecorder, rep GsReport, names []string) *gsLog {
	l := &gsLog{rec: rec, rep: rep, sess: map[string]*gsCount{}}
	l.cond = sync.NewCond(&l.mu)
	for _, n := range names {
		l.sess[n] = &gsCount{}
	}
	return l
}

func (l *gsLog) projLocked() map[string]any {
	recv, acc, ack, wr, closed := 0, 0, 0, 0, 0
	for _, c := range l.sess {
		recv += c.nrecv
		acc += c.nacc
		ack += c.nack
		wr += c.nwr
		if c.closed {
			closed++
		}
	}
	return map[string]any{"recv": recv, "acc": acc, "ack": ack, "wr": wr, "disp": l.ndisp, "closed": closed, "act": l.active}
}

// emit records one event at its linearization point: the counters and the line are updated
// under one lock, so the file order is the order of the calls.
func (l *gsLog) emit(ev map[string]any, upd func()) {
	l.mu.Lock()
	defer l.mu.Unlock()
	if l.done {
		return
	}
	if upd != nil {
		upd()
	}
	l.nev++
	l.rec.Step(ev, l.projLocked())
	l.rep.Cover(ev["a"].(string))
	l.cond.Broadcast()
}

func (l *gsLog) count(s string) *gsCount {
	c := l.sess[s]
	if c == nil {
		c = &gsCount{}
		l.sess[s] = c
	}
	return c
}

func (l *gsLog) Recv(s string, n int) {
	l.emit(map[string]any{"a": "Recv", "s": s, "n": n}, func() { l.count(s).nrecv = n })
}
func (l *gsLog) RecvDone(s string, n int, ok bool) {
	r := "closed"
	if ok {
		r = "ok"
	}
	l.emit(map[string]any{"a": "RecvDone", "s": s, "n": n, "res": map[string]any{"r": r}}, func() {
		if ok {
			l.count(s).nacc = n
		}
	})
}
func (l *gsLog) HStart(its []gsItem) {
	late := false
	l.emit(map[string]any{"a": "HStart", "items": gsItemsJSON(its)}, func() {
		l.ndisp += len(its)
		l.active++
		late = l.drainD && !l.lateSeen
		if late {
			l.lateSeen = true
		}
	})
	if late {
		// "after send draining starts, no new SEND is dispatched, while SENDs admitted earlier
		// still complete": DrainSends had returned nil (every admitted SEND completed) and the
		// handler is entered with a SEND nevertheless (TLC reports the same on the trace).
		l.rep.Violate(gsProp, "state", fmt.Sprintf("the handler was entered with %v after DrainSends had returned nil", its), map[string]any{"items": gsItemsJSON(its)})
	}
}
func (l *gsLog) HEnd(its []gsItem, failed bool) {
	l.emit(map[string]any{"a": "HEnd", "items": gsItemsJSON(its), "err": failed}, func() { l.active--; l.hends++ })
}
func (l *gsLog) Issue(s, i string, n int) {
	l.emit(map[string]any{"a": "Issue", "s": s, "i": i, "n": n}, nil)
}
func (l *gsLog) IssueDone(s, i string, n int, ok bool) {
	l.emit(map[string]any{"a": "IssueDone", "s": s, "i": i, "n": n, "ok": ok}, nil)
}
func (l *gsLog) DrainStarted() { l.emit(map[string]any{"a": "DrainStarted"}, nil) }
func (l *gsLog) DrainDone() {
	l.emit(map[string]any{"a": "DrainDone"}, func() { l.drainD = true })
}
func (l *gsLog) Quiesce() { l.emit(map[string]any{"a": "Quiesce"}, nil) }

// waitFor blocks until pred (evaluated under the log's lock) holds; false on timeout.
func (l *gsLog) waitFor(timeout time.Duration, pred func() bool) bool {
	deadline := time.Now().Add(timeout)
	stop := make(chan struct{})
	defer close(stop)
	go func() { // wake the waiter periodically so that the deadline is noticed
		t := time.NewTicker(50 * time.Millisecond)
		defer t.Stop()
		for {
			select {
			case <-stop:
				return
			case <-t.C:
				l.mu.Lock()
				l.cond.Broadcast()
				l.mu.Unlock()
			}
		}
	}()
	l.mu.Lock()
	defer l.mu.Unlock()
	for !pred() {
		if time.Now().After(deadline) {
			return false
		}
		l.cond.Wait()
	}
	return true
}

func (l *gsLog) finish() {
	l.mu.Lock()
	l.done = true
	l.mu.Unlock()
}

// ---- recording transport (wraps the testkit fake transport) ------------------------------------

type gsFactory struct {
	inner *testkit.FakeTransportFactory
	log   *gsLog
	mu    sync.Mutex
	conns map[uint64]*gsConn
}

func newGsFactory(log *gsLog) *gsFactory {
	return &gsFactory{inner: testkit.NewFakeTransportFactory("gs-transport"), log: log, conns: map[uint64]*gsConn{}}
}

func (f *gsFactory) Name() string { return f.inner.Name() }

func (f *gsFactory) Build(specs []transport.ListenerSpec) ([]transport.Listener, error) {
	wrapped := make([]transport.ListenerSpec, len(specs))
	for i, sp := range specs {
		wrapped[i] = transport.ListenerSpec{Options: sp.Options, Handler: &gsConnHandler{f: f, inner: sp.Handler}}
	}
	return f.inner.Build(wrapped)
}

func (f *gsFactory) conn(id uint64) *gsConn {
	f.mu.Lock()
	defer f.mu.Unlock()
	return f.conns[id]
}

type gsConnHandler struct {
	f     *gsFactory
	inner transport.ConnHandler
}

func (h *gsConnHandler) OnOpen(c transport.Conn) error {
	rc := &gsConn{inner: c, log: h.f.log, name: "s" + strconv.FormatUint(c.ID(), 10)}
	h.f.mu.Lock()
	h.f.conns[c.ID()] = rc
	h.f.mu.Unlock()
	return h.inner.OnOpen(rc)
}
func (h *gsConnHandler) OnData(c transport.Conn, data []byte) error {
	if rc := h.f.conn(c.ID()); rc != nil {
		return h.inner.OnData(rc, data)
	}
	return nil
}
func (h *gsConnHandler) OnClose(c transport.Conn, err error) {
	if rc := h.f.conn(c.ID()); rc != nil {
		h.inner.OnClose(rc, err)
	}
}

// gsConn is the connection the Server sees.  Write and Close are the linearization points.
type gsConn struct {
	inner  transport.Conn
	log    *gsLog
	name   string
	mu     sync.Mutex
	closed bool
	pongs  int
}

func (c *gsConn) ID() uint64         { return c.inner.ID() }
func (c *gsConn) LocalAddr() string  { return c.inner.LocalAddr() }
func (c *gsConn) RemoteAddr() string { return "gs-remote-" + c.name }

func (c *gsConn) isClosed() bool {
	c.mu.Lock()
	defer c.mu.Unlock()
	return c.closed
}

func (c *gsConn) Write(data []byte) error {
	c.mu.Lock()
	if c.closed {
		c.mu.Unlock()
		return io.ErrClosedPipe
	}
	line := strings.TrimSuffix(string(data), "\n")
	switch {
	case strings.HasPrefix(line, "A"):
		n, _ := strconv.Atoi(line[1:])
		c.log.emit(map[string]any{"a": "Write", "s": c.name, "k": "ack", "i": "", "n": n}, func() {
			cc := c.log.count(c.name)
			cc.nack++
			cc.nwr++
			c.log.acks = append(c.log.acks, gsItem{c.name, n})
		})
	case strings.HasPrefix(line, "R"):
		parts := strings.SplitN(line[1:], ":", 2)
		n := 0
		if len(parts) == 2 {
			n, _ = strconv.Atoi(parts[1])
		}
		c.log.emit(map[string]any{"a": "Write", "s": c.name, "k": "push", "i": parts[0], "n": n}, func() { c.log.count(c.name).nwr++ })
	case line == "P":
		c.pongs++
		c.log.emit(map[string]any{"a": "Write", "s": c.name, "k": "push", "i": "q", "n": c.pongs}, func() { c.log.count(c.name).nwr++ })
	default:
		c.log.rep.Infra("connection %s: unexpected outbound bytes %q", c.name, line)
	}
	c.mu.Unlock()
	return c.inner.Write(data)
}

// markClosed records the Close event (once) and makes the connection refuse writes.
func (c *gsConn) markClosed() {
	c.mu.Lock()
	if !c.closed {
		c.closed = true
		c.log.emit(map[string]any{"a": "Close", "s": c.name}, func() { c.log.count(c.name).closed = true })
	}
	c.mu.Unlock()
}

// Close is called by the Server (refused SEND, failed handler call, stop, or at the end of the
// close the peer started).
func (c *gsConn) Close() error {
	c.markClosed()
	return c.inner.Close()
}

// ---- line protocol --------------------------------------------------------------------------

// gsChannels is the channel table: every SEND is addressed to one of these.  The table is in
// DESCENDING (ChannelType, ChannelID) order, so SENDs whose channel index increases are in
// reverse sort order of their channels.  C28 does not depend on the channel: SENDACKs follow
// the order of the SENDs of the session whatever they are addressed to.
var gsChannels = []struct {
	typ uint8
	id  string
}{{2, "gs-d"}, {2, "gs-a"}, {1, "gs-z"}, {1, "gs-c"}}

// gsChanOf is the default channel index (1-based) of the n-th SEND of a session.
func gsChanOf(n int) int { return (n-1)%len(gsChannels) + 1 }

// gsSendLine is the inbound line of a SEND with client sequence n to channel index ch (1-based).
func gsSendLine(n, ch int) string {
	if ch < 1 || ch > len(gsChannels) {
		ch = gsChanOf(n)
	}
	return "S" + strconv.Itoa(n) + "." + strconv.Itoa(ch) + "\n"
}

// gsProto: inbound "S<clientSeq>.<channel index>\n" = SEND, "G\n" = PING; outbound "A<clientSeq>\n" = SENDACK,
// "R<issuer>:<n>\n" = RECV (a pushed frame), "P\n" = PONG.
type gsProto struct{}

func (gsProto) Name() string { return "gsproto" }
func (gsProto) Decode(_ session.Session, in []byte) ([]frame.Frame, int, error) {
	var out []frame.Frame
	consumed := 0
	for {
		i := strings.IndexByte(string(in[consumed:]), '\n')
		if i < 0 {
			return out, consumed, nil
		}
		line := string(in[consumed : consumed+i])
		consumed += i + 1
		switch {
		case strings.HasPrefix(line, "S"):
			seq, chs, _ := strings.Cut(line[1:], ".")
			n, err := strconv.ParseUint(seq, 10, 64)
			if err != nil {
				return nil, 0, err
			}
			ci := gsChanOf(int(n))
			if chs != "" {
				if ci, err = strconv.Atoi(chs); err != nil || ci < 1 || ci > len(gsChannels) {
					return nil, 0, fmt.Errorf("gsproto: bad channel in %q", line)
				}
			}
			ch := gsChannels[ci-1]
			out = append(out, &frame.SendPacket{ClientSeq: n, ClientMsgNo: "m" + seq, ChannelID: ch.id, ChannelType: ch.typ, Payload: []byte("payload-" + seq)})
		case line == "G":
			out = append(out, &frame.PingPacket{})
		default:
			return nil, 0, fmt.Errorf("gsproto: bad line %q", line)
		}
	}
}
func (gsProto) Encode(_ session.Session, f frame.Frame, _ session.OutboundMeta) ([]byte, error) {
	switch p := f.(type) {
	case *frame.SendackPacket:
		return []byte("A" + strconv.FormatUint(p.ClientSeq, 10) + "\n"), nil
	case *frame.RecvPacket:
		return []byte("R" + p.ClientMsgNo + "\n"), nil
	case *frame.PongPacket:
		return []byte("P\n"), nil
	}
	return []byte("?" + f.GetFrameType().String() + "\n"), nil
}
func (gsProto) OnOpen(session.Session) error  { return nil }
func (gsProto) OnClose(session.Session) error { return nil }

// ---- session hook (GsEnv.SwapSession) ---------------------------------------------------------------

// gsGoID is the id of the calling goroutine (first line of its stack: "goroutine N [running]:").
func gsGoID() uint64 {
	var buf [64]byte
	f := strings.Fields(string(buf[:runtime.Stack(buf[:], false)]))
	if len(f) < 2 {
		return 0
	}
	id, _ := strconv.ParseUint(f[1], 10, 64)
	return id
}

type gsGate struct {
	parked  chan struct{} // closed when the armed ID() call has parked
	release chan struct{} // closing it lets that call return
}

// gsHookSession sits in front of the session object the Server keeps for a connection.  Only
// ID() is special.  Gated replay: the next ID() call made by the goroutine that armed the gate
// parks until the gate is released (the Server calls ID() on the feeding goroutine exactly once
// per SEND, inside sendExecutor.submit; calls from other goroutines -- handlers, close -- pass).
// Random driver: every ID() call perturbs the schedule (never a synchronisation).
type gsHookSession struct {
	session.Session
	mu     sync.Mutex
	armed  uint64
	gate   *gsGate
	jitter func()
}

func (h *gsHookSession) arm(goid uint64, g *gsGate) {
	h.mu.Lock()
	h.armed, h.gate = goid, g
	h.mu.Unlock()
}

func (h *gsHookSession) ID() uint64 {
	h.mu.Lock()
	var g *gsGate
	if h.armed != 0 && h.armed == gsGoID() {
		g, h.armed, h.gate = h.gate, 0, nil
	}
	j := h.jitter
	h.mu.Unlock()
	if g != nil {
		close(g.parked)
		<-g.release
	} else if j != nil {
		j()
	}
	return h.Session.ID()
}

// optional capabilities of the real session object stay reachable
func (h *gsHookSession) SealOutboundAndWrite(f frame.Frame, opts ...session.WriteOption) error {
	if s, ok := h.Session.(session.OutboundSealer); ok {
		return s.SealOutboundAndWrite(f, opts...)
	}
	return session.ErrOutboundSealUnsupported
}
func (h *gsHookSession) OutboundSealed() bool {
	s, ok := h.Session.(session.OutboundSealState)
	return ok && s.OutboundSealed()
}

// hookSessions puts a gsHookSession in front of every session; false if the build has no hook.
func (d *GsDriver) hookSessions(jitter func()) bool {
	if d.env.SwapSession == nil {
		return false
	}
	for i, name := range d.names {
		h := &gsHookSession{jitter: jitter}
		ok := d.env.SwapSession(d.srv, gsListener, uint64(i+1), func(inner session.Session) session.Session {
			h.Session = inner
			return h
		})
		if !ok || h.Session == nil {
			d.rep.Infra("cannot hook the session of connection %s", name)
			return false
		}
		d.hooks[name] = h
	}
	return true
}

// ---- the driver -----------------------------------------------------------------------------

type gsCfg struct {
	Workers, Cap, BatchMax, Sessions int
	BatchWait                        time.Duration
	Batch                            bool // handler implements OnSendBatch
	Gated                            bool
	FailPct, ItemErrPct              int
}

// GsDriver owns one Server instance (one trace).
type GsDriver struct {
	env    *GsEnv
	cfg    gsCfg
	log    *gsLog
	rep    GsReport
	fac    *gsFactory
	srv    *core.Server
	names  []string
	mu     sync.Mutex
	sess   map[string]session.Session
	byID   map[uint64]string
	prng   *rand.Rand // planner's generator (guarded by mu)
	parkCh chan *gsParked
	autoCh chan struct{} // closed: the gated planner releases everything at once (clean-up)
	hooks  map[string]*gsHookSession
}

var errGsPlanned = errors.New("gs: planned handler failure")

func (d *GsDriver) register(ctx gatewaytypes.Context) {
	if ctx.Session == nil {
		return
	}
	name := strings.TrimPrefix(ctx.Session.RemoteAddr(), "gs-remote-")
	ctx.Session.SetValue(gatewaytypes.SessionValueUID, "u-"+name)
	d.mu.Lock()
	d.sess[name] = ctx.Session
	d.byID[ctx.Session.ID()] = name
	d.mu.Unlock()
}

// NameOfSession maps a gateway session id to the harness's session name.
func (d *GsDriver) NameOfSession(id uint64) string {
	d.mu.Lock()
	defer d.mu.Unlock()
	return d.byID[id]
}

func (d *GsDriver) session(name string) session.Session {
	d.mu.Lock()
	defer d.mu.Unlock()
	return d.sess[name]
}

// Jitter perturbs the schedule (never used as synchronisation).
func (d *GsDriver) Jitter() {
	d.mu.Lock()
	k := d.prng.Intn(8)
	d.mu.Unlock()
	gsJitter(k)
}

func gsJitter(k int) {
	switch {
	case k < 3:
	case k < 6:
		runtime.Gosched()
	case k == 6:
		for i := 0; i < 4; i++ {
			runtime.Gosched()
		}
	default:
		time.Sleep(time.Duration(20+k) * time.Microsecond)
	}
}

// ItemErr tells a handler whether to answer a position with an item-level error (still a SENDACK).
func (d *GsDriver) ItemErr() bool {
	d.mu.Lock()
	defer d.mu.Unlock()
	return d.cfg.ItemErrPct > 0 && d.prng.Intn(100) < d.cfg.ItemErrPct
}

// Plan is called by the innermost handler once per handler call.
func (d *GsDriver) Plan(items []gsItem) GsPlan {
	if d.cfg.Gated {
		full := make([]int, len(items))
		for i := range full {
			full[i] = i
		}
		p := &gsParked{items: items, reply: make(chan GsPlan, 1)}
		select {
		case d.parkCh <- p:
		case <-d.autoCh:
			return GsPlan{Order: full}
		}
		select {
		case pl := <-p.reply:
			return pl
		case <-d.autoCh:
			return GsPlan{Order: full}
		}
	}
	d.mu.Lock()
	defer d.mu.Unlock()
	n := len(items)
	order := d.prng.Perm(n)
	switch d.prng.Intn(4) {
	case 0: // in order
		sort.Ints(order)
	case 1: // back to front
		sort.Sort(sort.Reverse(sort.IntSlice(order)))
	}
	if d.cfg.FailPct > 0 && d.prng.Intn(100) < d.cfg.FailPct {
		order = order[:d.prng.Intn(n)]
	}
	return GsPlan{Order: order}
}

// releaseAuto switches a gated planner to free-running: every parked and future call proceeds.
func (d *GsDriver) releaseAuto() { close(d.autoCh) }

// ---- handler shell and the reference SENDACK writer ------------------------------------------------

func gsItemsOf(d *GsDriver, items []gatewaytypes.SendBatchItem) []gsItem {
	out := make([]gsItem, len(items))
	for i, it := range items {
		name := ""
		if it.Context.Session != nil {
			name = strings.TrimPrefix(it.Context.Session.RemoteAddr(), "gs-remote-")
		}
		n := 0
		if it.Frame != nil {
			n = int(it.Frame.ClientSeq)
		}
		out[i] = gsItem{name, n}
	}
	return out
}

// gsShell records entry and exit of handler calls and registers sessions; everything else is
// the inner handler's business.
type gsShell struct {
	d     *GsDriver
	inner gatewaytypes.Handler
}

func (h *gsShell) OnListenerError(l string, err error) { h.inner.OnListenerError(l, err) }
func (h *gsShell) OnSessionOpen(ctx gatewaytypes.Context) error {
	h.d.register(ctx)
	return h.inner.OnSessionOpen(ctx)
}
func (h *gsShell) OnSessionClose(ctx gatewaytypes.Context) error { return h.inner.OnSessionClose(ctx) }
func (h *gsShell) OnSessionError(ctx gatewaytypes.Context, err error) {
	h.inner.OnSessionError(ctx, err)
}
func (h *gsShell) OnFrame(ctx gatewaytypes.Context, f frame.Frame) error {
	send, ok := f.(*frame.SendPacket)
	if !ok {
		return h.inner.OnFrame(ctx, f)
	}
	its := gsItemsOf(h.d, []gatewaytypes.SendBatchItem{{Context: ctx, Frame: send}})
	h.d.log.HStart(its)
	err := h.inner.OnFrame(ctx, f)
	h.d.log.HEnd(its, err != nil)
	return err
}

// gsBatchShell additionally offers OnSendBatch (so core dispatches batches).
type gsBatchShell struct {
	gsShell
	batch gatewaytypes.SendBatchHandler
}

func (h *gsBatchShell) OnSendBatch(items []gatewaytypes.SendBatchItem) error {
	its := gsItemsOf(h.d, items)
	h.d.log.HStart(its)
	err := h.batch.OnSendBatch(items)
	h.d.log.HEnd(its, err != nil)
	return err
}

// GsRefWriter is the reference SENDACK writer used by the ext harness: results are produced
// in the planned order, SENDACKs are flushed per session from the head of the batch (the
// contract of gatewaytypes.SendBatchHandler: "writes sendacks in item order").
type GsRefWriter struct{ D *GsDriver }

func (w *GsRefWriter) OnListenerError(string, error)            {}
func (w *GsRefWriter) OnSessionOpen(gatewaytypes.Context) error { return nil }
func (w *GsRefWriter) OnSessionClose(gatewaytypes.Context) error {
	return nil
}
func (w *GsRefWriter) OnSessionError(gatewaytypes.Context, error) {}
func (w *GsRefWriter) OnFrame(ctx gatewaytypes.Context, f frame.Frame) error {
	switch p := f.(type) {
	case *frame.PingPacket:
		return ctx.WriteFrame(&frame.PongPacket{})
	case *frame.SendPacket:
		return w.OnSendBatch([]gatewaytypes.SendBatchItem{{Context: ctx, Frame: p, ReplyToken: ctx.ReplyToken}})
	}
	return nil
}
func (w *GsRefWriter) OnSendBatch(items []gatewaytypes.SendBatchItem) error {
	its := gsItemsOf(w.D, items)
	plan := w.D.Plan(its)
	ready := make([]bool, len(items))
	flushed := make([]bool, len(items))
	for _, pos := range plan.Order {
		if pos < 0 || pos >= len(items) || ready[pos] {
			continue
		}
		w.D.Jitter()
		ready[pos] = true
		for j := range items { // flush the heads of this position's session
			if its[j].S != its[pos].S || flushed[j] {
				continue
			}
			if !ready[j] {
				break
			}
			reason := frame.ReasonSuccess
			if w.D.ItemErr() {
				reason = frame.ReasonSystemError
			}
			ctx := items[j].Context
			if err := ctx.WriteFrame(&frame.SendackPacket{ClientSeq: items[j].Frame.ClientSeq, ClientMsgNo: items[j].Frame.ClientMsgNo, ReasonCode: reason}); err != nil {
				return err
			}
			flushed[j] = true
		}
	}
	if len(plan.Order) < len(items) {
		return errGsPlanned
	}
	return nil
}

// gsFrameOnly hides OnSendBatch of a handler (per-frame dispatch path of core).
type gsFrameOnly struct{ gatewaytypes.Handler }

// ---- server construction -----------------------------------------------------------------------

func gsNewDriver(env *GsEnv, rec GsRecorder, rep GsReport, cfg gsCfg, seed int64) (*GsDriver, error) {
	names := make([]string, cfg.Sessions)
	for i := range names {
		names[i] = "s" + strconv.Itoa(i+1)
	}
	d := &GsDriver{env: env, cfg: cfg, rep: rep, names: names, sess: map[string]session.Session{}, byID: map[uint64]string{},
		prng: rand.New(rand.NewSource(seed)), parkCh: make(chan *gsParked, 64), autoCh: make(chan struct{}), hooks: map[string]*gsHookSession{}}
	d.log = newGsLog(rec, rep, names)
	d.fac = newGsFactory(d.log)
	inner := env.Inner(d, cfg.Batch)
	if inner == nil {
		return nil, fmt.Errorf("no inner handler for batch=%v", cfg.Batch)
	}
	var handler gatewaytypes.Handler
	if bh, ok := inner.(gatewaytypes.SendBatchHandler); ok && cfg.Batch {
		handler = &gsBatchShell{gsShell: gsShell{d: d, inner: inner}, batch: bh}
	} else {
		handler = &gsShell{d: d, inner: inner}
	}
	reg := core.NewRegistry()
	if err := reg.RegisterTransport(d.fac); err != nil {
		return nil, err
	}
	if err := reg.RegisterProtocol(gsProto{}); err != nil {
		return nil, err
	}
	wait := cfg.BatchWait
	if wait == 0 {
		wait = -1 // normalised to "do not wait for batch peers"
	}
	srv, err := core.NewServer(reg, &gatewaytypes.Options{
		Handler: handler,
		DefaultSession: gatewaytypes.SessionOptions{
			AsyncSendBatchMaxWait:    wait,
			AsyncSendBatchMaxRecords: cfg.BatchMax,
		},
		Runtime: gatewaytypes.RuntimeOptions{
			AsyncSendWorkers:        cfg.Workers,
			AsyncSendQueueCapacity:  cfg.Cap,
			AsyncPoolReleaseTimeout: 30 * time.Second,
		},
		Listeners: []gatewaytypes.ListenerOptions{{Name: gsListener, Network: "tcp", Address: "127.0.0.1:0", Transport: d.fac.Name(), Protocol: "gsproto"}},
	})
	if err != nil {
		return nil, err
	}
	if err := srv.Start(); err != nil {
		return nil, err
	}
	d.srv = srv
	return d, nil
}

func (d *GsDriver) open() {
	for i := range d.names {
		d.fac.inner.MustOpen(gsListener, uint64(i+1))
	}
}

func (d *GsDriver) connOf(name string) *gsConn {
	id, _ := strconv.ParseUint(strings.TrimPrefix(name, "s"), 10, 64)
	return d.fac.conn(id)
}

func (d *GsDriver) feed(name string, data string) {
	id, _ := strconv.ParseUint(strings.TrimPrefix(name, "s"), 10, 64)
	_ = d.fac.inner.MustListener(gsListener).EmitData(id, []byte(data))
}

// peerClose: the peer closes the connection.  The Close event is recorded BEFORE the Server hears
// of it, and from that moment the connection refuses writes (a socket whose peer is gone).  The
// Server's own close of a session is a sequence (mark the state closing, from then on inbound
// data is dropped and Session.WriteFrame fails; unregister; protocol OnClose; only then the
// connection's Close): were the event recorded at its end, a feed could run, be dropped and
// return inside that sequence while the log still shows the connection open, and the harness
// would count SENDs as accepted that the Server never saw ("unless the session closes first").
// Closes the Server starts itself need no such care: they run on the feeding goroutine of that
// session (refused SEND, failed PING) or on a send worker that still owns admitted SENDs, so
// neither the return of DrainSends nor the final Quiesce -- the only points at which C28 asks
// whether an accepted SEND of an OPEN session has its SENDACK -- can fall between their start
// and the event.
func (d *GsDriver) peerClose(name string) {
	id, _ := strconv.ParseUint(strings.TrimPrefix(name, "s"), 10, 64)
	if c := d.fac.conn(id); c != nil {
		c.markClosed()
	}
	d.fac.inner.MustListener(gsListener).EmitClose(id, nil)
}

// drainStart: DrainSends with an expired context returns at once, and when it has returned the
// admission fence is certainly set.
func (d *GsDriver) drainStart() {
	ctx, cancel := context.WithCancel(context.Background())
	cancel()
	_ = d.srv.DrainSends(ctx)
	d.log.DrainStarted()
}

func (d *GsDriver) drainWait() error {
	ctx, cancel := context.WithTimeout(context.Background(), 2*gsWaitLong)
	defer cancel()
	if err := d.srv.DrainSends(ctx); err != nil {
		return err
	}
	d.log.DrainDone()
	return nil
}

// finish drains (if not done yet), waits until nothing runs, records Quiesce and stops the server.
func (d *GsDriver) finish(drainStarted bool, waiter <-chan error) {
	if !drainStarted {
		d.drainStart()
	}
	if waiter != nil {
		select {
		case err := <-waiter:
			if err != nil {
				d.rep.Infra("DrainSends did not return: %v", err)
			}
		case <-time.After(2 * gsWaitLong):
			d.rep.Infra("drain waiter did not return")
		}
	} else if err := d.drainWait(); err != nil {
		d.rep.Infra("final DrainSends: %v", err)
	}
	d.quiesceAndStop()
}

// quiesceAndStop: the drain wait has returned.  HEnd is recorded inside the handler, i.e. before
// core finishes the call; Quiesce is only an observation point, so wait for the log rather than
// for the server.
func (d *GsDriver) quiesceAndStop() {
	// Every accepted SEND was enqueued, so it has been dispatched by now; an implementation
	// whose drain returned early is given a moment to show the late dispatch (no verdict here).
	d.log.waitFor(3*time.Second, func() bool {
		acc := 0
		for _, c := range d.log.sess {
			acc += c.nacc
		}
		return d.log.ndisp >= acc
	})
	if !d.log.waitFor(gsWaitLong, func() bool { return d.log.active == 0 }) {
		d.rep.Infra("handler calls still active after the drain returned")
	}
	d.log.Quiesce()
	_ = d.srv.Stop()
	d.log.finish()
}

// ---- Method B: random traces ----------------------------------------------------------------------

func gsRandomCfg(r *rand.Rand, batchOnly bool) gsCfg {
	cfg := gsCfg{
		Workers:    []int{1, 1, 2, 4}[r.Intn(4)],
		Cap:        []int{2, 3, 4, 8, 16, 64}[r.Intn(6)],
		BatchMax:   []int{1, 2, 3, 4, 8}[r.Intn(5)],
		Sessions:   2 + r.Intn(3),
		Batch:      batchOnly || r.Intn(5) != 0,
		FailPct:    []int{0, 0, 0, 8}[r.Intn(4)],
		ItemErrPct: []int{0, 20}[r.Intn(2)],
	}
	if r.Intn(3) == 0 {
		cfg.BatchWait = 200 * time.Microsecond
	}
	return cfg
}

func gsRandomTrace(env *GsEnv, rec GsRecorder, rep GsReport, r *rand.Rand, hasFrameOnly bool) {
	cfg := gsRandomCfg(r, !hasFrameOnly)
	rec.Begin(map[string]any{"cfg": map[string]any{"cap": cfg.Cap, "scap": cfg.Cap, "bmax": cfg.BatchMax, "mode": "shared"},
		"workers": cfg.Workers, "batch": cfg.Batch, "gated": false, "adm": "atomic"}, nil)
	d, err := gsNewDriver(env, rec, rep, cfg, r.Int63())
	if err != nil {
		rep.Infra("cannot start server: %v", err)
		return
	}
	d.open()
	ops := env.TraceOps
	var wg, feeders sync.WaitGroup
	// With the session hook and more than one shard the Server calls our ID() inside submit:
	// every such call yields/sleeps a little (a feed lingers between the admission fence and the
	// enqueue), and one of them, chosen at random, wakes the drainer and lingers longer.
	drainNow := make(chan struct{})
	hooked := false
	if env.SwapSession != nil && cfg.Workers >= 2 && r.Intn(4) != 0 {
		var hmu sync.Mutex
		hr := rand.New(rand.NewSource(r.Int63()))
		calls, trigger := 0, 1+hr.Intn(2+ops*cfg.Sessions/2)
		hooked = d.hookSessions(func() {
			hmu.Lock()
			calls++
			fire := calls == trigger
			k := hr.Intn(8)
			hmu.Unlock()
			if fire {
				close(drainNow)
				time.Sleep(2 * time.Millisecond)
				return
			}
			gsJitter(k)
		})
	}
	// feeders: one per session (a real transport serialises the reads of one connection)
	for _, name := range d.names {
		name := name
		fr := rand.New(rand.NewSource(r.Int63()))
		wg.Add(1)
		feeders.Add(1)
		go func() {
			defer wg.Done()
			defer feeders.Done()
			conn := d.connOf(name)
			next, pings := 1, 0
			for op := 0; op < ops; op++ {
				if conn.isClosed() {
					return
				}
				switch k := fr.Intn(100); {
				case k < 62: // a burst of SEND frames in one read
					b := []int{1, 1, 1, 2, 3, 4}[fr.Intn(6)]
					var sb strings.Builder
					for i := 0; i < b; i++ {
						ch := gsChanOf(next + i) // consecutive SENDs: channels in reverse sort order
						if fr.Intn(3) == 0 {
							ch = 1 + fr.Intn(len(gsChannels))
						}
						sb.WriteString(gsSendLine(next+i, ch))
					}
					last := next + b - 1
					d.log.Recv(name, last)
					d.feed(name, sb.String())
					d.log.RecvDone(name, last, !conn.isClosed())
					next = last + 1
				case k < 72: // PING, answered on the read path
					pings++
					d.log.Issue(name, "q", pings)
					d.feed(name, "G\n")
					d.log.IssueDone(name, "q", pings, !conn.isClosed())
				case k < 73:
					d.peerClose(name)
					return
				default:
					gsJitter(fr.Intn(8))
				}
			}
		}()
	}
	// pushers: server-side goroutines writing frames to random sessions
	for _, issuer := range []string{"p", "r"} {
		issuer := issuer
		pr := rand.New(rand.NewSource(r.Int63()))
		wg.Add(1)
		go func() {
			defer wg.Done()
			n := map[string]int{}
			for op := 0; op < ops/2; op++ {
				name := d.names[pr.Intn(len(d.names))]
				sess := d.session(name)
				if sess == nil {
					continue
				}
				if pr.Intn(3) == 0 {
					gsJitter(pr.Intn(8))
					continue
				}
				n[name]++
				d.log.Issue(name, issuer, n[name])
				err := sess.WriteFrame(&frame.RecvPacket{ClientMsgNo: issuer + ":" + strconv.Itoa(n[name])})
				d.log.IssueDone(name, issuer, n[name], err == nil)
			}
		}()
	}
	// closer: closes a session from outside its feeder now and then
	if r.Intn(3) == 0 {
		cr := rand.New(rand.NewSource(r.Int63()))
		wg.Add(1)
		go func() {
			defer wg.Done()
			for i := 0; i < 3+cr.Intn(ops); i++ {
				gsJitter(cr.Intn(8))
			}
			d.peerClose(d.names[cr.Intn(len(d.names))])
		}()
	}
	// drainer: DrainSends at a random point, concurrently with the feeders' submissions (always
	// when the feeds linger inside submit, more often when there are several workers)
	drainStarted := false
	var waiter chan error
	if hooked || r.Intn(3) < min(cfg.Workers, 2) {
		drainStarted = true
		waiter = make(chan error, 1)
		dr := rand.New(rand.NewSource(r.Int63()))
		feedersDone := make(chan struct{})
		go func() { feeders.Wait(); close(feedersDone) }()
		wg.Add(1)
		go func() {
			defer wg.Done()
			if hooked {
				select {
				case <-drainNow:
				case <-feedersDone:
				}
			} else {
				for i := 0; i < dr.Intn(3*ops); i++ {
					gsJitter(dr.Intn(8))
				}
			}
			d.drainStart()
			waiter <- d.drainWait()
		}()
	}
	wg.Wait()
	d.finish(drainStarted, waiter)
}

// ---- Method A: replay of Sim.tla behaviours ----------------------------------------------------------
//
// Verdict discipline of a replay.  Admission (does a feed hit a full queue), the composition of
// the batches and which sessions a failed handler call takes down are the implementation's
// business: C28 does not constrain them.  Where the implementation leaves the script there, the
// replay is ABANDONED (counted as "diverged", never a violation); its events are still in the
// trace and TLC judges them with the C28 formulas.  A VIOLATION is reported directly only for
//
//	(a) a released handler call whose batch and plan are the specification's and whose SENDACKs,
//	    session by session, are not the ones the specification determines (order, exactly one);
//	(b) DrainSends returning while a handler call is still parked;
//	(c) (in the log, replayed or random) the handler entered after DrainSends had returned nil.
//
// DrainSends returning nil while a FEED is held inside submit is not judged by itself (an
// implementation may look the shard up before the admission fence and refuse that SEND later):
// the replay is abandoned, the feed is let go, and (c) / TLC judge what the SEND does then.
// gsInflight is a feed held inside sendExecutor.submit (SendBegin .. SendEnd).
type gsInflight struct {
	n    int
	gate *gsGate
	done chan struct{} // closed when the feed has returned
}

type gsReplay struct {
	d                 *GsDriver
	rep               GsReport
	beh               GsBehaviour
	parked            *gsParked
	inflight          map[string]*gsInflight
	parkTried, parkOK int // feeds the script holds inside submit / that did stop at the parking point
	waiter            chan error
	drained           bool
	bad               bool // a violation was reported
	diverged          bool
	timeout           bool
}

func gsMap(m map[string]any, k string) map[string]any { x, _ := m[k].(map[string]any); return x }
func gsInt(v any) int {
	switch x := v.(type) {
	case float64:
		return int(x)
	case int:
		return x
	case int64:
		return int(x)
	case interface{ Int64() (int64, error) }:
		i, _ := x.Int64()
		return int(i)
	}
	return 0
}
func gsItemsFrom(v any) []gsItem {
	list, _ := v.([]any)
	out := make([]gsItem, 0, len(list))
	for _, e := range list {
		m, _ := e.(map[string]any)
		s, _ := m["s"].(string)
		out = append(out, gsItem{s, gsInt(m["n"])})
	}
	return out
}
func gsSameItems(a, b []gsItem) bool {
	if len(a) != len(b) {
		return false
	}
	for i := range a {
		if a[i] != b[i] {
			return false
		}
	}
	return true
}

// gsPerSession projects a sequence of SENDACKs onto each session.
func gsPerSession(its []gsItem) map[string][]int {
	out := map[string][]int{}
	for _, it := range its {
		out[it.S] = append(out[it.S], it.N)
	}
	return out
}

func (rp *gsReplay) stop() bool { return rp.bad || rp.diverged }

func (rp *gsReplay) violate(step int, kind, detail string) {
	if rp.stop() {
		return
	}
	rp.bad = true
	steps := make([]any, 0, len(rp.beh.Steps))
	for _, s := range rp.beh.Steps {
		steps = append(steps, map[string]any{"ev": s.Ev, "st": s.St})
	}
	rp.rep.Violate(gsProp, kind, fmt.Sprintf("step %d: %s", step, detail), map[string]any{"behaviour": map[string]any{"steps": steps}, "step": step})
}

func (rp *gsReplay) diverge(step int, timedOut bool, detail string) {
	if rp.stop() {
		return
	}
	rp.diverged = true
	rp.timeout = timedOut
	rp.rep.AddExtra("replays_diverged", 1)
	if timedOut {
		rp.rep.AddExtra("replays_timed_out", 1)
	}
	rp.rep.Extra("last_divergence", fmt.Sprintf("step %d: %s", step, detail))
}

// expectParked waits until the handler call the specification expects has parked.
func (rp *gsReplay) expectParked(step int, want []gsItem) {
	if rp.stop() {
		return
	}
	if len(want) == 0 {
		select {
		case p := <-rp.d.parkCh:
			rp.parked = p
			rp.diverge(step, false, fmt.Sprintf("a handler call was entered with %v; the specification dispatches nothing here", p.items))
		default:
		}
		return
	}
	if rp.parked == nil {
		select {
		case p := <-rp.d.parkCh:
			rp.parked = p
		case <-time.After(gsWaitLong):
			rp.diverge(step, true, fmt.Sprintf("no handler call was entered within %v; the specification dispatches %v", gsWaitLong, want))
			return
		}
	}
	if !gsSameItems(rp.parked.items, want) {
		rp.diverge(step, false, fmt.Sprintf("handler call entered with %v, specification %v", rp.parked.items, want))
	}
}

// settle waits until the observed projection equals the specification's (everything the
// command brings about has happened).
func (rp *gsReplay) settle(step int, st map[string]any) {
	if rp.stop() {
		return
	}
	sess := gsMap(st, "sess")
	type want struct {
		r, c, k, w int
		x          bool
	}
	exp := map[string]want{}
	for name, v := range sess {
		m, _ := v.(map[string]any)
		x, _ := m["x"].(bool)
		exp[name] = want{gsInt(m["r"]), gsInt(m["c"]), gsInt(m["k"]), gsInt(m["w"]), x}
	}
	l := rp.d.log
	diff := func() string {
		for _, name := range rp.d.names {
			e, c := exp[name], l.sess[name]
			if c.nrecv != e.r || c.nacc != e.c || c.nack != e.k || c.nwr != e.w || c.closed != e.x {
				return fmt.Sprintf("session %s: spec recv=%d acc=%d ack=%d written=%d closed=%v, impl recv=%d acc=%d ack=%d written=%d closed=%v",
					name, e.r, e.c, e.k, e.w, e.x, c.nrecv, c.nacc, c.nack, c.nwr, c.closed)
			}
		}
		return ""
	}
	over := func() bool { // a counter beyond the expectation never comes back
		for _, name := range rp.d.names {
			e, c := exp[name], l.sess[name]
			if c.nack > e.k || c.nwr > e.w || (c.closed && !e.x) {
				return true
			}
		}
		return false
	}
	ok := l.waitFor(gsWaitLong, func() bool { return diff() == "" || over() })
	l.mu.Lock()
	dd := diff()
	l.mu.Unlock()
	if dd != "" {
		rp.diverge(step, !ok, dd)
		return
	}
	wantDrained, _ := st["drained"].(bool)
	if rp.waiter != nil && !rp.drained {
		if wantDrained {
			select {
			case err := <-rp.waiter:
				rp.drained = true
				if err != nil {
					rp.diverge(step, false, fmt.Sprintf("DrainSends returned %v", err))
				}
			case <-time.After(gsWaitLong):
				rp.diverge(step, true, "DrainSends has not returned although every admitted SEND completed")
			}
		} else {
			select {
			case err := <-rp.waiter:
				rp.drained = true
				if rp.parked != nil && err == nil {
					rp.violate(step, "state", fmt.Sprintf("DrainSends returned nil while the handler call for %v is still parked", rp.parked.items))
				} else {
					rp.diverge(step, false, fmt.Sprintf("DrainSends returned (%v); the specification still has admitted SENDs queued", err))
				}
			default:
			}
		}
	}
	rp.expectParked(step, gsItemsFrom(st["parked"]))
}

// endFeed lets the feed held inside submit continue and records its return.
func (rp *gsReplay) endFeed(step int, s, want string) {
	fl := rp.inflight[s]
	if fl == nil {
		return
	}
	delete(rp.inflight, s)
	close(fl.gate.release)
	select {
	case <-fl.done:
	case <-time.After(gsWaitLong):
		rp.diverge(step, true, fmt.Sprintf("the feed of %s did not return after it was let go", s))
		return
	}
	ok := !rp.d.connOf(s).isClosed()
	rp.d.log.RecvDone(s, fl.n, ok)
	if want != "" && (want == "ok") != ok {
		rp.diverge(step, false, fmt.Sprintf("SendEnd(%s,%d): specification %v, session open after the feed: %v", s, fl.n, want, ok))
	}
}

func gsReplayOne(env *GsEnv, rec GsRecorder, rep GsReport, beh GsBehaviour, seed int64) *gsReplay {
	if len(beh.Steps) == 0 {
		return nil
	}
	c := gsMap(beh.Steps[0].Ev, "cfg")
	first, _ := beh.Steps[0].St.(map[string]any)
	adm, _ := beh.Steps[0].Ev["adm"].(string)
	cfg := gsCfg{Workers: 1, Cap: gsInt(c["cap"]), BatchMax: gsInt(c["bmax"]), Sessions: len(gsMap(first, "sess")), Batch: true, Gated: true}
	if adm == "parked" {
		// feeds are held inside submit through Session.ID(), which the Server only calls when
		// there are several shards: two workers (the script has one session, hence one shard in use)
		if env.SwapSession == nil {
			return nil
		}
		cfg.Workers = 2
	}
	rec.Begin(map[string]any{"cfg": c, "workers": cfg.Workers, "batch": true, "gated": true, "adm": adm}, nil)
	d, err := gsNewDriver(env, rec, rep, cfg, seed)
	if err != nil {
		rep.Infra("cannot start server: %v", err)
		return nil
	}
	d.open()
	rp := &gsReplay{d: d, rep: rep, beh: beh, inflight: map[string]*gsInflight{}}
	if adm == "parked" && !d.hookSessions(nil) {
		d.finish(false, nil)
		return nil
	}
	steps := 0
	for i, stp := range beh.Steps[1:] {
		if rp.stop() {
			break
		}
		step := i + 1
		ev := stp.Ev
		a, _ := ev["a"].(string)
		s, _ := ev["s"].(string)
		res := gsMap(ev, "res")
		steps++
		switch a {
		case "Nop":
		case "Send":
			n := gsInt(ev["n"])
			d.log.Recv(s, n)
			d.feed(s, gsSendLine(n, gsInt(ev["ch"])))
			ok := !d.connOf(s).isClosed()
			d.log.RecvDone(s, n, ok)
			if want := res["r"] == "ok"; want != ok {
				rp.diverge(step, false, fmt.Sprintf("Send(%s,%d): specification %v, session open after the feed: %v", s, n, res["r"], ok))
			}
		case "SendBegin":
			n := gsInt(ev["n"])
			hook := d.hooks[s]
			if hook == nil {
				rep.Infra("SendBegin without a session hook")
				rp.diverged = true
				break
			}
			fl := &gsInflight{n: n, gate: &gsGate{parked: make(chan struct{}), release: make(chan struct{})}, done: make(chan struct{})}
			line := gsSendLine(n, gsInt(ev["ch"]))
			d.log.Recv(s, n)
			go func() {
				hook.arm(gsGoID(), fl.gate)
				d.feed(s, line)
				hook.arm(0, nil)
				close(fl.done)
			}()
			wantParked, _ := res["parked"].(bool)
			if wantParked {
				rp.parkTried++
			}
			select {
			case <-fl.gate.parked:
				rp.inflight[s] = fl
				if wantParked {
					rp.parkOK++
				} else { // refused by the specification before the parking point: let it run on
					rp.endFeed(step, s, "closed")
				}
			case <-fl.done:
				ok := !d.connOf(s).isClosed()
				d.log.RecvDone(s, n, ok)
				if wantParked {
					rp.diverge(step, false, fmt.Sprintf("SendBegin(%s,%d): the feed returned (session open: %v) without passing through Session.ID() inside submit", s, n, ok))
				} else if ok {
					rp.diverge(step, false, fmt.Sprintf("SendBegin(%s,%d): specification refuses the SEND (draining), the session is still open", s, n))
				}
			case <-time.After(gsWaitLong):
				rp.inflight[s] = fl
				rp.diverge(step, true, fmt.Sprintf("SendBegin(%s,%d): the feed neither parked nor returned", s, n))
			}
		case "SendEnd":
			if rp.inflight[s] == nil {
				rp.diverge(step, false, "no feed is held inside submit; the specification has one")
				break
			}
			// If a drain is waiting, give it a moment to return although this SEND is still
			// inside submit (schedule shaping only: the specification says it must not).
			if rp.waiter != nil && !rp.drained {
				select {
				case err := <-rp.waiter:
					rp.drained = true
					rp.diverge(step, false, fmt.Sprintf("DrainSends returned (%v) while the feed of %s is inside submit; the specification counts that SEND as admitted", err, s))
				case <-time.After(50 * time.Millisecond):
				}
			}
			if rp.stop() {
				break
			}
			r, _ := res["r"].(string)
			rp.endFeed(step, s, r)
		case "Release":
			if rp.parked == nil {
				rp.diverge(step, false, "no handler call is parked; the specification has a batch inside the handler")
				break
			}
			var order []int
			for _, o := range ev["order"].([]any) {
				order = append(order, gsInt(o)-1)
			}
			d.log.mu.Lock()
			mark, hends := len(d.log.acks), d.log.hends
			d.log.mu.Unlock()
			rp.parked.reply <- GsPlan{Order: order}
			rp.parked = nil
			if !d.log.waitFor(gsWaitLong, func() bool { return d.log.hends > hends }) {
				rp.diverge(step, true, "the released handler call did not return")
				break
			}
			d.log.mu.Lock()
			got := append([]gsItem(nil), d.log.acks[mark:]...)
			d.log.mu.Unlock()
			// (a): the batch and the plan are the specification's; session by session the
			// SENDACKs of this call must be the ones it determines
			want := gsItemsFrom(res["acks"])
			gp, wp := gsPerSession(got), gsPerSession(want)
			for name, w := range wp {
				g := gp[name]
				if len(g) > len(w) {
					g = g[:len(w)] // more than predicted is judged below
				}
				for j := range g {
					if g[j] != w[j] {
						rp.violate(step, "reply", fmt.Sprintf("Release(order=%v): SENDACKs written %v, specification %v (session %s)", ev["order"], got, want, name))
					}
				}
			}
			for name, g := range gp {
				if len(g) > len(wp[name]) && !rp.stop() {
					rp.diverge(step, false, fmt.Sprintf("Release(order=%v): SENDACKs written %v, specification %v (session %s got more)", ev["order"], got, want, name))
				}
			}
		case "Close":
			d.peerClose(s)
		case "Push":
			issuer, _ := ev["i"].(string)
			n := gsInt(ev["n"])
			want, _ := res["ok"].(bool)
			d.log.Issue(s, issuer, n)
			var ok bool
			if issuer == "q" {
				before := d.connOf(s).pongCount()
				d.feed(s, "G\n")
				ok = d.connOf(s).pongCount() == before+1
			} else {
				sess := d.session(s)
				ok = sess != nil && sess.WriteFrame(&frame.RecvPacket{ClientMsgNo: issuer + ":" + strconv.Itoa(n)}) == nil
			}
			d.log.IssueDone(s, issuer, n, ok)
			if ok != want {
				rp.diverge(step, false, fmt.Sprintf("Push(%s,%s,%d): written=%v, specification %v", s, issuer, n, ok, want))
			}
		case "DrainStart":
			d.drainStart()
			rp.waiter = make(chan error, 1)
			go func(ch chan error) { ch <- d.drainWait() }(rp.waiter)
		default:
			rep.Infra("unknown action %q in behaviour", a)
			rp.diverged = true
		}
		if st, ok := stp.St.(map[string]any); ok {
			rp.settle(step, st)
		}
	}
	// clean-up: let everything parked run to completion, then the common epilogue
	d.releaseAuto()
	for _, name := range d.names {
		rp.endFeed(len(beh.Steps), name, "")
	}
	var w <-chan error
	if rp.waiter != nil && !rp.drained {
		w = rp.waiter
	}
	started := rp.waiter != nil
	if started && rp.drained {
		// the waiter already returned and DrainDone is in the log
		d.quiesceAndStop()
	} else {
		d.finish(started, w)
	}
	rep.Replayed(steps)
	return rp
}

func (c *gsConn) pongCount() int {
	c.mu.Lock()
	defer c.mu.Unlock()
	return c.pongs
}

// GsRun is the body of both harnesses.
func GsRun(env *GsEnv, rec GsRecorder, rep GsReport) {
	hasFrameOnly := false
	{
		probe := &GsDriver{prng: rand.New(rand.NewSource(1))}
		hasFrameOnly = env.Inner(probe, false) != nil
	}
	diverged, timeouts, replayed := 0, 0, 0
	race, parkTried, parkOK := 0, 0, 0
	behs := append(append([]GsBehaviour(nil), env.Behs...), env.RaceBehs...)
	for i, b := range behs {
		if rep.Violations() >= 2 || timeouts >= 2 { // a broken build makes every further replay wait for its time-outs
			break
		}
		rp := gsReplayOne(env, rec, rep, b, env.Seed*1000+int64(i))
		if rp == nil {
			continue
		}
		replayed++
		if i >= len(env.Behs) {
			race++
			parkTried += rp.parkTried
			parkOK += rp.parkOK
		}
		if rp.diverged {
			diverged++
		}
		if rp.timeout {
			timeouts++
		}
		if i < 2 && len(b.Steps) > 1 {
			rep.Sample(map[string]any{"replayed_behaviour_prefix": []any{b.Steps[0].Ev, b.Steps[1].Ev}})
		}
	}
	// The scripts assume the implementation's admission and batching rules.  If most of them no
	// longer fit, the replay stage has become vacuous: say so (the traces still carry the verdict).
	if replayed >= 4 && diverged*2 > replayed {
		rep.Infra("%d of %d replayed behaviours left the script (admission/batching differs from specs/GatewaySession/Sim.tla); last: see extra last_divergence", diverged, replayed)
	}
	rep.Extra("race_behaviours_replayed", race)
	rep.Extra("feeds_held_inside_submit", parkOK)
	if parkTried > 0 && parkOK == 0 {
		rep.Infra("none of the %d feeds the scripts hold inside submit reached the parking point (Session.ID() is no longer called on the feeding goroutine inside submit): those schedules are vacuous", parkTried)
	}
	for i := 0; i < env.Traces; i++ {
		gsRandomTrace(env, rec, rep, env.Rand, hasFrameOnly)
	}
	rep.Extra("random_traces", env.Traces)
}

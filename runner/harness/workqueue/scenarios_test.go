package workqueue

// Method A: schedules found by TLC on specs/WorkQueue (MC_f3/f4/f5/f6/f7.cfg and variants) replayed on
// the REAL primitives of /repo/pkg/workqueue.  F3, F4 and F6 were genuine defects found this way and
// are fixed in /repo (commits 4a6260676, 3996f0eab, 294b0250e): their schedules must not reproduce any
// more (a reproduction carries the old signature, which known-findings.json lists as "fixed", so the
// runner reports it as a fresh violation).  F5 is still open and is reported with its signature.  No hook: goroutines are parked inside caller-supplied
// code the primitive invokes at the interesting points (observer callbacks, the handler, the batch
// policy, a caller context whose Err() blocks).  Gate waits are bounded; an expired bound never
// produces a verdict by itself - the oracle is always the property on the observed history
// (Submit replies, handler / cancel-hook invocations, Close reply).

import (
	"context"
	"errors"
	"fmt"
	"runtime"
	"sync"
	"sync/atomic"
	"time"

	wq "github.com/WuKongIM/WuKongIM/pkg/workqueue"
)

const (
	sigF3 = "C37:F3-mailbox-close-drops-admitted-item"
	sigF4 = "C37:F4-boundedpool-submit-after-close-admitted-never-run"
	sigF5 = "C37:F5-batchpool-cancelrunning-close-drops-accepted-when-saturated"
	sigF6 = "C37:F6-batchpool-cancelaccepted-close-skips-queued-when-executor-gives-up"
)

// gateBound bounds every wait on a gate; generous because the machine may be heavily loaded.
const gateBound = 60 * time.Second

// reproBound bounds the wait for a signal that only the DEFECTIVE code emits (so a repaired tree
// pays it once per scenario and then simply does not reproduce).
const reproBound = 4 * time.Second

type outcome struct {
	name       string
	sig        string // signature to use when the known defect reproduces
	reproduced bool   // the schedule's defect was observed
	fresh      string // a different property violation was observed (no signature)
	infra      string // a gate expired / unexpected error: no verdict
	history    []string
	steps      int
}

type hist struct {
	mu    sync.Mutex
	lines []string
	ran   map[int]int
	canc  map[int]int
}

func newHist() *hist { return &hist{ran: map[int]int{}, canc: map[int]int{}} }
func (h *hist) logf(format string, a ...any) {
	h.mu.Lock()
	h.lines = append(h.lines, fmt.Sprintf(format, a...))
	h.mu.Unlock()
}
func (h *hist) run(items ...int) {
	h.mu.Lock()
	for _, i := range items {
		h.ran[i]++
	}
	h.lines = append(h.lines, fmt.Sprintf("handler%v", items))
	h.mu.Unlock()
}
func (h *hist) cancel(i int) {
	h.mu.Lock()
	h.canc[i]++
	h.lines = append(h.lines, fmt.Sprintf("cancel-hook(%d)", i))
	h.mu.Unlock()
}
func (h *hist) counts(i int) (int, int) {
	h.mu.Lock()
	defer h.mu.Unlock()
	return h.ran[i], h.canc[i]
}
func (h *hist) snapshot() []string {
	h.mu.Lock()
	defer h.mu.Unlock()
	return append([]string{}, h.lines...)
}

func waitCh(ch <-chan struct{}, d time.Duration) bool {
	t := time.NewTimer(d)
	defer t.Stop()
	select {
	case <-ch:
		return true
	case <-t.C:
		return false
	}
}

func waitErr(ch <-chan error, d time.Duration) (error, bool) {
	t := time.NewTimer(d)
	defer t.Stop()
	select {
	case e := <-ch:
		return e, true
	case <-t.C:
		return nil, false
	}
}

func pollUntil(cond func() bool, d time.Duration) bool {
	deadline := time.Now().Add(d)
	for i := 0; ; i++ {
		if cond() {
			return true
		}
		if time.Now().After(deadline) {
			return false
		}
		if i < 200 {
			runtime.Gosched()
		} else {
			time.Sleep(200 * time.Microsecond)
		}
	}
}

func errName(err error) string {
	switch {
	case err == nil:
		return "nil"
	case errors.Is(err, wq.ErrClosed):
		return "ErrClosed"
	case errors.Is(err, wq.ErrFull):
		return "ErrFull"
	default:
		return err.Error()
	}
}

// judge applies the property to a finished scenario: Close returned nil; `admitted` are the items
// whose Submit returned nil, `rejected` those answered ErrClosed/ErrFull.
func judge(o *outcome, h *hist, admitted, rejected []int, cancelConfigured bool) {
	var lost []int
	for _, i := range admitted {
		r, c := h.counts(i)
		switch {
		case r+c > 1:
			o.fresh = fmt.Sprintf("item %d handled %d times and cancelled %d times", i, r, c)
		case c == 1 && !cancelConfigured:
			o.fresh = fmt.Sprintf("cancel hook ran for item %d although cancel-on-close is not configured", i)
		case r+c == 0:
			lost = append(lost, i)
		}
	}
	for _, i := range rejected {
		if r, c := h.counts(i); r+c > 0 {
			o.fresh = fmt.Sprintf("rejected item %d was handled %d times / cancelled %d times", i, r, c)
		}
	}
	if len(lost) > 0 {
		o.reproduced = true
		h.logf("after Close returned nil: admitted items %v were neither handled nor cancelled", lost)
	}
}

// ---- F3: ShardedMailbox ----------------------------------------------------------------------

type mailboxObs struct {
	armed   atomic.Bool
	parked  chan struct{}
	release chan struct{}
	once    sync.Once
}

// ObserveShardedMailbox parks the drain goroutine in the "worker" observation with Running == 0,
// which drainScheduledShard's deferred function emits immediately before finishShardDrain: the drain
// has seen its queue empty and has not yet given up the `scheduled` flag.
func (m *mailboxObs) ObserveShardedMailbox(o wq.ShardedMailboxObservation) {
	if o.Kind == "worker" && o.Running == 0 && m.armed.Load() {
		fire := false
		m.once.Do(func() { fire = true })
		if fire {
			close(m.parked)
			<-m.release
		}
	}
}

// scenarioMailboxFinishWindow replays MC_f3's counterexample (withClose) or its Close-free variant:
//   Submit(1) ok -> drain handles 1, sees the queue empty, is parked before finishShardDrain
//   Submit(2) ok (shard still scheduled: nothing invoked)      [withClose: Close() marks closed]
//   drain resumes: finishShardDrain
// Property: 2 was admitted, so it is handled exactly once (before Close returns nil).
func scenarioMailboxFinishWindow(withClose bool, workers int) outcome {
	name := "mailbox-finish-window"
	if withClose {
		name = "F3-mailbox-finish-window-close"
	}
	o := outcome{name: fmt.Sprintf("%s/workers=%d", name, workers), sig: sigF3}
	h := newHist()
	obs := &mailboxObs{parked: make(chan struct{}), release: make(chan struct{})}
	obs.armed.Store(true)
	var releaseOnce sync.Once
	release := func() { releaseOnce.Do(func() { close(obs.release) }) }
	defer release()
	handled2 := make(chan struct{}, 8)
	m, err := wq.NewShardedMailbox[int](wq.ShardedMailboxConfig{
		Name: "verif", Shards: 1, Workers: workers, QueueSizePerShard: 8, BatchMaxItems: 1, Observer: obs,
	}, func(_ context.Context, b wq.MailboxBatch[int]) error {
		h.run(b.Items...)
		for _, i := range b.Items {
			if i >= 2 {
				handled2 <- struct{}{}
			}
		}
		return nil
	})
	if err != nil {
		o.infra = "NewShardedMailbox: " + err.Error()
		return o
	}
	bg := context.Background()
	e1 := m.SubmitHash(bg, 0, 1)
	h.logf("Submit(1) = %s", errName(e1))
	if e1 != nil {
		o.infra = "first Submit refused"
		return o
	}
	if !waitCh(obs.parked, gateBound) {
		o.infra = "drain never reached the observation before finishShardDrain"
		return o
	}
	h.logf("drain parked before finishShardDrain (queue seen empty)")
	e2 := m.SubmitHash(bg, 0, 2)
	h.logf("Submit(2) = %s", errName(e2))
	admitted, rejected := []int{1}, []int{}
	if e2 == nil {
		admitted = append(admitted, 2)
	} else {
		rejected = append(rejected, 2)
	}
	closeDone := make(chan error, 1)
	if withClose {
		go func() { closeDone <- m.Close(bg) }()
		// Wait until Close has marked the mailbox closed: a probe Submit answers ErrClosed.
		// Probes admitted before that are ordinary admitted items of the same window.
		next := 3
		ok := pollUntil(func() bool {
			e := m.SubmitHash(bg, 0, next)
			switch {
			case errors.Is(e, wq.ErrClosed):
				rejected = append(rejected, next)
				return true
			case e == nil:
				h.logf("Submit(%d) = nil (probe admitted before Close marked the mailbox closed)", next)
				admitted = append(admitted, next)
			default:
				rejected = append(rejected, next)
			}
			next++
			return false
		}, gateBound)
		if !ok {
			o.infra = "Close never marked the mailbox closed"
			return o
		}
		h.logf("Close() called and has marked the mailbox closed")
	}
	release()
	h.logf("drain released")
	if withClose {
		cerr, ok := waitErr(closeDone, gateBound)
		if !ok {
			o.infra = "Close did not return"
			return o
		}
		h.logf("Close() = %s", errName(cerr))
		if cerr != nil {
			o.infra = "Close returned " + cerr.Error()
			return o
		}
	} else {
		// Without Close the re-scheduled drain must handle item 2; wait for it (bounded), then close.
		if e2 == nil && !waitCh(handled2, reproBound) {
			h.logf("item 2 was not handled within %s after the drain resumed", reproBound)
		}
		if cerr := m.Close(bg); cerr != nil {
			o.infra = "Close returned " + cerr.Error()
			return o
		}
		h.logf("Close() = nil")
	}
	judge(&o, h, admitted, rejected, false)
	if !withClose && o.reproduced {
		// no known defect explains a lost item without a concurrent Close
		o.fresh, o.reproduced = "admitted item lost by the finish/re-schedule path without any Close in the window", false
	}
	o.history, o.steps = h.snapshot(), len(h.snapshot())
	return o
}

// scenarioMailboxReschedOverlap replays MC_f7's counterexample (WQMailbox with ReschedKeepsFlag = FALSE,
// i.e. a finishShardDrain that re-invokes the shard without setting `scheduled` again; 21 states):
//   Submit(1) ok -> drain A handles 1, sees the queue empty (W_Next -> "fin"), is parked before finishShardDrain
//   Submit(2) ok (M_Lock: shard still scheduled, the item is only enqueued)
//   drain A resumes: finishShardDrain finds item 2 and re-invokes the shard (W_Fin, needs)
//   the follow-up drain takes item 2 and is parked inside the handler (W_HStart without W_HEnd)
//   Submit(3) ok -- in the variant `scheduled` is false here, so M_Lock sets it and M_Invoke starts a
//   second drain on a free worker: W_HStart(3) while item 2 of the same shard is inside the handler.
// Property: a shard never has two handler invocations in flight and hands its items to the handler in
// admission order, each exactly once.  The code as it is (ReschedKeepsFlag = TRUE) must not reproduce:
// item 3 waits in the queue until the handler of item 2 returns.  Needs Workers >= 2.
func scenarioMailboxReschedOverlap(workers int) outcome {
	o := outcome{name: fmt.Sprintf("mailbox-resched-overlap/workers=%d", workers)}
	h := newHist()
	obs := &mailboxObs{parked: make(chan struct{}), release: make(chan struct{})}
	obs.armed.Store(true)
	var releaseOnce, gateOnce, once2, once3 sync.Once
	release := func() { releaseOnce.Do(func() { close(obs.release) }) }
	defer release()
	gate2 := make(chan struct{})
	openGate2 := func() { gateOnce.Do(func() { close(gate2) }) }
	defer openGate2()
	entered2, entered3 := make(chan struct{}), make(chan struct{})
	var inFlight, peak atomic.Int64
	var orderMu sync.Mutex
	var order []int
	m, err := wq.NewShardedMailbox[int](wq.ShardedMailboxConfig{
		Name: "verif", Shards: 1, Workers: workers, QueueSizePerShard: 8, BatchMaxItems: 1, Observer: obs,
	}, func(_ context.Context, b wq.MailboxBatch[int]) error {
		cur := inFlight.Add(1)
		for {
			old := peak.Load()
			if cur <= old || peak.CompareAndSwap(old, cur) {
				break
			}
		}
		h.run(b.Items...)
		orderMu.Lock()
		order = append(order, b.Items...)
		orderMu.Unlock()
		for _, i := range b.Items {
			switch i {
			case 2:
				once2.Do(func() { close(entered2) })
				<-gate2
			case 3:
				once3.Do(func() { close(entered3) })
			}
		}
		inFlight.Add(-1)
		return nil
	})
	if err != nil {
		o.infra = "NewShardedMailbox: " + err.Error()
		return o
	}
	bg := context.Background()
	admitted, rejected := []int{}, []int{}
	submit := func(i int) error {
		e := m.SubmitHash(bg, 0, i)
		h.logf("Submit(%d) = %s", i, errName(e))
		if e == nil {
			admitted = append(admitted, i)
		} else {
			rejected = append(rejected, i)
		}
		return e
	}
	if submit(1) != nil {
		o.infra = "first Submit refused"
		return o
	}
	if !waitCh(obs.parked, gateBound) {
		o.infra = "drain never reached the observation before finishShardDrain"
		return o
	}
	h.logf("drain parked before finishShardDrain (queue seen empty)")
	if submit(2) != nil {
		o.infra = "second Submit refused although the queue has room"
		return o
	}
	release()
	h.logf("drain released: finishShardDrain finds item 2")
	overlap := false
	if waitCh(entered2, gateBound) {
		h.logf("follow-up drain parked inside the handler of item 2")
		if submit(3) != nil {
			o.infra = "third Submit refused although the queue has room"
			return o
		}
		// only a second drain of the same shard can enter the handler while item 2 is parked in it
		if overlap = waitCh(entered3, reproBound); overlap {
			h.logf("item 3 entered the handler while item 2 of the same shard was still inside it (handlers in flight: %d)", peak.Load())
		}
		openGate2()
		h.logf("handler of item 2 released")
		if !overlap && !waitCh(entered3, gateBound) {
			h.logf("item 3 was not handled after the handler of item 2 returned")
		}
	} else {
		h.logf("item 2 was not handled after the drain resumed")
		openGate2()
	}
	if cerr := m.Close(bg); cerr != nil {
		o.infra = "Close returned " + cerr.Error()
		return o
	}
	h.logf("Close() = nil")
	judge(&o, h, admitted, rejected, false)
	if o.reproduced { // no recorded defect explains a lost item here
		o.fresh, o.reproduced = "admitted item lost by the finish/re-schedule path without any Close in the window", false
	}
	orderMu.Lock()
	got := append([]int{}, order...)
	orderMu.Unlock()
	for k := 1; k < len(got); k++ {
		if got[k] < got[k-1] && o.fresh == "" {
			o.fresh = fmt.Sprintf("one shard handed its items to the handler in the order %v, admission order was 1 2 3", got)
		}
	}
	if overlap || peak.Load() > 1 {
		o.fresh = fmt.Sprintf("two handler invocations of one shard were in flight at once (peak %d): item 3 entered the handler while item 2 was inside it", peak.Load())
	}
	o.history, o.steps = h.snapshot(), len(h.snapshot())
	return o
}

// ---- F4: BoundedPool --------------------------------------------------------------------------

// parkCtx is a caller context whose Err() parks once.  BoundedPool.submit calls ctx.Err() between
// its unlocked `closed` check and acquireSlot; the batch pool and the worker queue call it before
// their locked re-check.
type parkCtx struct {
	context.Context
	parked  chan struct{}
	release chan struct{}
	once    sync.Once
}

func newParkCtx() *parkCtx {
	return &parkCtx{Context: context.Background(), parked: make(chan struct{}), release: make(chan struct{})}
}
func (c *parkCtx) Err() error {
	fire := false
	c.once.Do(func() { fire = true })
	if fire {
		close(c.parked)
		<-c.release
	}
	return nil
}
func (c *parkCtx) Done() <-chan struct{} { return nil }

type submitter interface {
	Submit(context.Context, int) error
	Close(context.Context) error
}

// scenarioSubmitAcrossClose replays MC_f4's counterexample against one primitive:
//   Submit(1) passes its first `closed` check and is parked in ctx.Err()
//   Close() runs to completion and returns nil
//   Submit(1) resumes
// Property: Close returned, so Submit must not admit (a nil reply is an admitted item nobody runs).
// Go chooses among ready select cases at random, so the schedule is repeated on fresh pools.
func scenarioSubmitAcrossClose(kind string, attempts int) outcome {
	o := outcome{name: "submit-across-close/" + kind}
	if kind == "pool" {
		o.name, o.sig = "F4-submit-across-close/pool", sigF4 // the recorded defect exists in BoundedPool only
	}
	var lines []string
	for a := 1; a <= attempts; a++ {
		h := newHist()
		var s submitter
		var err error
		switch kind {
		case "pool":
			s, err = wq.NewBoundedPool[int](wq.BoundedPoolConfig{Name: "verif", Workers: 1, QueueSize: 2},
				func(_ context.Context, i int) error { h.run(i); return nil })
		case "batch":
			s, err = wq.NewBoundedBatchPool[int](wq.BoundedBatchPoolConfig[int]{Name: "verif", Workers: 1, QueueSize: 2},
				func(_ context.Context, is []int) error { h.run(is...); return nil })
		case "worker":
			s, err = wq.NewBoundedWorkerQueue[int](wq.BoundedWorkerQueueConfig{Name: "verif", Workers: 1, QueueSize: 2},
				func(_ context.Context, i int) error { h.run(i); return nil })
		}
		if err != nil || s == nil {
			o.infra = fmt.Sprintf("constructor: %v", err)
			return o
		}
		pc := newParkCtx()
		sub := make(chan error, 1)
		go func() { sub <- s.Submit(pc, 1) }()
		if !waitCh(pc.parked, gateBound) {
			// the primitive answered without consulting the caller context: nothing to replay
			close(pc.release)
			e, _ := waitErr(sub, gateBound)
			_ = s.Close(context.Background())
			o.infra = fmt.Sprintf("Submit never consulted the caller context (reply %s)", errName(e))
			return o
		}
		cerr := s.Close(context.Background())
		close(pc.release)
		serr, ok := waitErr(sub, gateBound)
		if !ok {
			o.infra = "parked Submit did not return"
			return o
		}
		o.steps += 3
		if cerr != nil {
			o.infra = "Close returned " + cerr.Error()
			return o
		}
		if serr == nil {
			r, _ := h.counts(1)
			lines = append(lines,
				fmt.Sprintf("attempt %d: Submit(1) parked in ctx.Err() after its closed-check", a),
				"Close() = nil (dispatcher drained and exited)",
				fmt.Sprintf("Submit(1) resumed = nil  (handler invocations of item 1 so far: %d)", r))
			o.reproduced = true
			break
		}
		if !errors.Is(serr, wq.ErrClosed) {
			o.infra = "Submit returned " + serr.Error()
			return o
		}
	}
	if !o.reproduced {
		lines = append(lines, fmt.Sprintf("%d attempts: Submit resumed after Close always answered ErrClosed", attempts))
	}
	o.history = lines
	return o
}

// ---- F5 / F6: BoundedBatchPool ------------------------------------------------------------------

type depthObs struct{ f func(wq.BoundedPoolObservation) }

func (d depthObs) ObserveBoundedPool(o wq.BoundedPoolObservation) {
	if d.f != nil {
		d.f(o)
	}
}

// scenarioBatchCloseSaturated replays MC_f5 / MC_f6 (retry branch): one worker, its handler parked on
// item 1 (executor saturated); the dispatcher holds batch [2] in submitToExecutor's retry loop
// (witnessed by the second Policy call for item 2: extendBatchReady); item 3 waits in the queue;
// Close() is called; the handler is released once the dispatcher has given up (or after a bound).
// Property: 2 and 3 were admitted; each is handled exactly once, or (cancelAccepted) only its cancel
// hook runs, before Close returns nil.
func scenarioBatchCloseSaturated(cancelAccepted, cancelRunning bool) outcome {
	o := outcome{name: fmt.Sprintf("batch-close-saturated/cancelAccepted=%v,cancelRunning=%v", cancelAccepted, cancelRunning)}
	switch {
	case cancelAccepted:
		o.sig = sigF6
	case cancelRunning:
		o.sig = sigF5
	}
	h := newHist()
	gate := make(chan struct{})
	var gateOnce sync.Once
	openGate := func() { gateOnce.Do(func() { close(gate) }) }
	defer openGate()
	entered := make(chan struct{}, 16)
	var policy2 atomic.Int64
	inRetry := make(chan struct{})
	var inRetryOnce sync.Once
	gaveUp := make(chan struct{}, 64)
	cfg := wq.BoundedBatchPoolConfig[int]{
		Name: "verif", Workers: 1, QueueSize: 4,
		CancelAcceptedOnClose: cancelAccepted, CancelRunningOnClose: cancelRunning,
		Policy: func(first int) wq.BatchOptions {
			if first == 2 && policy2.Add(1) >= 2 {
				inRetryOnce.Do(func() { close(inRetry) })
			}
			return wq.BatchOptions{MaxItems: 1}
		},
	}
	if cancelAccepted {
		cfg.CancelAccepted = func(i int, _ error) {
			h.cancel(i)
			gaveUp <- struct{}{}
		}
	}
	var p *wq.BoundedBatchPool[int]
	p, err := wq.NewBoundedBatchPool[int](cfg, func(_ context.Context, items []int) error {
		entered <- struct{}{}
		if len(items) > 0 && items[0] == 1 {
			<-gate
		}
		h.run(items...)
		return nil
	})
	if err != nil {
		o.infra = "NewBoundedBatchPool: " + err.Error()
		return o
	}
	bg := context.Background()
	admitted, rejected := []int{}, []int{}
	submit := func(i int) {
		e := p.Submit(bg, i)
		h.logf("Submit(%d) = %s", i, errName(e))
		if e == nil {
			admitted = append(admitted, i)
		} else {
			rejected = append(rejected, i)
		}
	}
	submit(1)
	if !waitCh(entered, gateBound) {
		o.infra = "handler never entered"
		return o
	}
	h.logf("handler parked on item 1 (the only worker is busy)")
	submit(2)
	if waitCh(inRetry, gateBound) {
		h.logf("dispatcher holds batch [2] inside submitToExecutor (executor overloaded, retrying)")
	} else {
		h.logf("dispatcher never re-evaluated the policy for item 2 (no retry loop observed)")
	}
	submit(3)
	depthBefore := p.QueueDepth()
	closeDone := make(chan error, 1)
	go func() { closeDone <- p.Close(bg) }()
	if !pollUntil(p.Closed, gateBound) {
		o.infra = "Close never closed admission"
		return o
	}
	h.logf("Close() called (admission closed), handler of item 1 still parked")
	// Signals only a dispatcher that gives up emits: the cancel hook of item 2 (cancelAccepted) or the
	// slot of the dropped batch being released (QueueDepth falls while the handler is still parked).
	if cancelAccepted {
		if waitCh(gaveUp, reproBound) {
			h.logf("dispatcher cancelled the batch in hand")
		}
	} else {
		if pollUntil(func() bool { return p.QueueDepth() < depthBefore }, reproBound) {
			h.logf("dispatcher released the slots of the batch in hand without running it (QueueDepth %d -> %d)", depthBefore, p.QueueDepth())
		}
	}
	openGate()
	h.logf("handler of item 1 released")
	cerr, ok := waitErr(closeDone, gateBound)
	if !ok {
		o.infra = "Close did not return"
		return o
	}
	h.logf("Close() = %s", errName(cerr))
	if cerr != nil {
		o.infra = "Close returned " + cerr.Error()
		return o
	}
	judge(&o, h, admitted, rejected, cancelAccepted)
	if o.reproduced && o.sig == "" {
		o.fresh, o.reproduced = "admitted items lost by a draining Close (no cancel option configured)", false
	}
	o.history, o.steps = h.snapshot(), len(h.snapshot())
	return o
}

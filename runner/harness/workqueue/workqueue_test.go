// Package workqueue is the conformance harness of property C37 ("Work queues run each accepted
// task exactly once") for /repo/pkg/workqueue: BoundedPool, BoundedBatchPool, BoundedWorkerQueue,
// ShardedMailbox.  Exported API only, no hook.
//
//	Method A (scenarios_test.go): the schedules TLC finds on specs/WorkQueue are replayed on the real
//	primitives by parking goroutines inside caller-supplied code.
//	Method B (this file): seeded random producers / closers; every observable event is recorded with
//	one global sequence and the histories are validated by TLC against specs/WorkQueue/Trace.tla.
package workqueue

import (
	"context"
	"errors"
	"fmt"
	"math/rand"
	"runtime"
	"sync"
	"sync/atomic"
	"testing"
	"time"

	wq "github.com/WuKongIM/WuKongIM/pkg/workqueue"
	"verif/runner/kit"
)

const prop = "C37"

func TestVerifWorkQueue(t *testing.T) {
	env, ok := kit.LoadEnv()
	if !ok {
		t.Skip("not started by the verif runner")
	}
	rep := kit.NewReport(env, "workqueue")
	rec, err := kit.NewRecorder(env.TraceFile)
	if err != nil {
		t.Fatal(err)
	}
	known := &knownHits{seen: map[string]bool{}}
	runScenarios(env, rep, known)
	runRandom(env, rep, rec, known)
	// Recorded defects are reported last (and once per signature) so that they can never crowd a
	// fresh violation out of the report.
	known.flush(rep)
	if err := rec.Close(); err != nil {
		rep.Infra("trace file: %v", err)
	}
	if err := rep.Finish(rec); err != nil {
		t.Fatal(err)
	}
}

// ---- Method A ---------------------------------------------------------------------------------

// knownHits collects reproductions of recorded defects (one per signature).
type knownHits struct {
	seen map[string]bool
	list []func(*kit.Report)
}

func (k *knownHits) add(sig, kind, detail string, replay any) {
	if k.seen[sig] {
		return
	}
	k.seen[sig] = true
	k.list = append(k.list, func(rep *kit.Report) { rep.ViolateSig(prop, kind, detail, sig, replay) })
}

func (k *knownHits) flush(rep *kit.Report) {
	for _, f := range k.list {
		f(rep)
	}
}

func runScenarios(env kit.Env, rep *kit.Report, known *knownHits) {
	attempts := env.Pick(120, 400)
	var outs []outcome
	// counterexamples of MC_f3 / MC_f4 / MC_f5 / MC_f6 (the code as it is)
	outs = append(outs, scenarioMailboxFinishWindow(true, 1), scenarioMailboxFinishWindow(true, 2))
	outs = append(outs, scenarioSubmitAcrossClose("pool", attempts))
	outs = append(outs, scenarioBatchCloseSaturated(false, true))
	outs = append(outs, scenarioBatchCloseSaturated(true, false), scenarioBatchCloseSaturated(true, true))
	// the same schedules where the models say the protocol is correct: they must NOT reproduce
	outs = append(outs, scenarioMailboxFinishWindow(false, 1), scenarioMailboxFinishWindow(false, 2))
	outs = append(outs, scenarioSubmitAcrossClose("batch", attempts/2), scenarioSubmitAcrossClose("worker", attempts/2))
	outs = append(outs, scenarioBatchCloseSaturated(false, false))
	// MC_f7 (re-schedule without the flag: two drains of one shard); the code as it is must not reproduce.
	// The variants wait the same bound for a signal only defective code emits, so they run side by side.
	resched := make([]outcome, 2)
	var wg sync.WaitGroup
	for k, workers := range []int{2, 3} {
		wg.Add(1)
		go func() {
			defer wg.Done()
			resched[k] = scenarioMailboxReschedOverlap(workers)
		}()
	}
	wg.Wait()
	outs = append(outs, resched...)

	reproduced := map[string]bool{}
	for _, o := range outs {
		rep.Cover("Scenario:" + o.name)
		rep.Replayed(o.steps)
		replay := map[string]any{"scenario": o.name, "history": o.history}
		switch {
		case o.infra != "":
			rep.Infra("scenario %s: %s", o.name, o.infra)
		case o.fresh != "":
			rep.Violate(prop, "schedule", fmt.Sprintf("scenario %s: %s", o.name, o.fresh), replay)
		case o.reproduced && o.sig != "":
			reproduced[o.sig] = true
			known.add(o.sig, "schedule", fmt.Sprintf("scenario %s reproduced on the real code", o.name), replay)
		case o.reproduced:
			rep.Violate(prop, "schedule", fmt.Sprintf("scenario %s: admitted work lost", o.name), replay)
		}
		rep.Sample(replay)
	}
	rep.Extra("scenarios_replayed", len(outs))
	rep.Extra("known_defect_schedules_reproduced", len(reproduced))
}

// ---- Method B ---------------------------------------------------------------------------------

type runCfg struct {
	Kind           string // pool | batch | worker | mailbox
	Workers        int
	QueueSize      int
	Shards         int
	BatchMax       int
	BatchWait      bool
	CancelAccepted bool
	CancelRunning  bool
	Producers      int
	ItemsPer       int
	Wait           bool   // SubmitWait (pool, worker)
	Mode           string // after | concurrent | frozen
	CloseAfter     int    // concurrent/frozen: Close is called once this many Submit calls returned
	Yields         int    // scheduling noise
	// Paced (mailbox): producers, handlers and the drain's exit path (observer callback of the "worker"
	// observation) pause for seeded sub-millisecond times, Workers >= 2: drains run dry between arrivals,
	// items arrive while a drain is on its way out (finishShardDrain's re-schedule path) and while the
	// re-scheduled drain is inside the handler.  Pauses are noise only; the oracle is Trace.tla.
	Paced bool
}

// pacedObs pauses the drain goroutine in every second "worker" observation of a shard: a drain emits
// one when it starts and one on its way out, just before finishShardDrain (drains of one shard do not
// overlap in a correct mailbox, so the even ones are the exits).
type pacedObs struct {
	pause func(max int)
	mu    sync.Mutex
	seen  map[int]int
}

func (p *pacedObs) ObserveShardedMailbox(o wq.ShardedMailboxObservation) {
	if o.Kind != "worker" {
		return
	}
	p.mu.Lock()
	p.seen[o.Shard]++
	exit := p.seen[o.Shard]%2 == 0
	p.mu.Unlock()
	if exit {
		p.pause(400)
	}
}

type itemInfo struct {
	code    string
	retSeq  int
	handled int
	cancels int
}

// runLog buffers one history; seq is the index in evs (one global sequence per history).
type runLog struct {
	mu    sync.Mutex
	evs   []map[string]any
	items map[int]*itemInfo
	close int // seq of CloseCall, -1 before
}

func (r *runLog) add(ev map[string]any, f func(seq int)) {
	r.mu.Lock()
	r.evs = append(r.evs, ev)
	if f != nil {
		f(len(r.evs) - 1)
	}
	r.mu.Unlock()
}

func yield(n int) {
	for i := 0; i < n; i++ {
		runtime.Gosched()
	}
}

func genCfg(rng *rand.Rand, n int) runCfg {
	kinds := []string{"pool", "batch", "worker", "mailbox", "batch", "mailbox"}
	c := runCfg{
		Kind:      kinds[n%len(kinds)],
		Workers:   1 + rng.Intn(3),
		QueueSize: 1 + rng.Intn(4),
		Shards:    1 + rng.Intn(3),
		BatchMax:  1 + rng.Intn(3),
		BatchWait: rng.Intn(3) == 0,
		Producers: 1 + rng.Intn(4),
		ItemsPer:  1 + rng.Intn(6),
		Yields:    rng.Intn(4),
	}
	total := c.Producers * c.ItemsPer
	c.CloseAfter = rng.Intn(total + 1)
	switch c.Kind {
	case "pool", "worker":
		c.Mode = []string{"after", "concurrent", "frozen"}[rng.Intn(3)]
		c.Wait = c.Mode != "frozen" && rng.Intn(3) == 0
	case "batch":
		c.Mode = []string{"after", "concurrent", "frozen"}[rng.Intn(3)]
		switch rng.Intn(4) {
		case 0:
			c.CancelAccepted = true
		case 1:
			c.CancelAccepted, c.CancelRunning = true, true
		case 2:
			c.CancelRunning = rng.Intn(2) == 0
		}
	case "mailbox":
		c.Mode = []string{"after", "concurrent", "frozen"}[rng.Intn(3)]
		if rng.Intn(2) == 0 {
			c.Paced = true
			c.Mode = []string{"after", "after", "concurrent"}[rng.Intn(3)]
			c.Workers = 2 + rng.Intn(2)
			c.Shards = 1 + rng.Intn(2)
			c.QueueSize = 2 + rng.Intn(3)
			c.BatchMax = 1 + rng.Intn(2)
			c.BatchWait = false
			c.Producers = 2 + rng.Intn(3)
			c.ItemsPer = 3 + rng.Intn(4)
			c.CloseAfter = rng.Intn(c.Producers*c.ItemsPer + 1)
		}
	}
	return c
}

type primitive struct {
	submit func(ctx context.Context, shard int, item int, wait bool) error
	close  func(ctx context.Context) error
}

func build(c runCfg, lg *runLog, frozen <-chan struct{}, rng *rand.Rand) (primitive, error) {
	hseed := rng.Int63()
	var hcount atomic.Int64
	noise := func() {
		if c.Yields > 0 {
			k := int((hseed + hcount.Add(1)*2654435761) % int64(c.Yields+1))
			if k < 0 {
				k = -k
			}
			yield(k)
		}
	}
	// pause sleeps a seeded time below max microseconds (paced runs only)
	pause := func(max int) {
		k := (hseed + hcount.Add(1)*2654435761) % int64(max+1)
		if k < 0 {
			k = -k
		}
		time.Sleep(time.Duration(k) * time.Microsecond)
	}
	handle := func(shard int, items []int) {
		cp := append([]int{}, items...)
		lg.add(kit.Ev("HStart", "shard", shard, "res", map[string]any{"items": cp}), func(int) {
			for _, i := range cp {
				if it := lg.items[i]; it != nil {
					it.handled++
				}
			}
		})
		if frozen != nil {
			<-frozen
		}
		noise()
		if c.Paced {
			pause(600)
		}
		lg.add(kit.Ev("HEnd", "shard", shard, "res", map[string]any{"items": cp}), nil)
	}
	cancelHook := func(i int, _ error) {
		lg.add(kit.Ev("Cancel", "res", map[string]any{"item": i}), func(int) {
			if it := lg.items[i]; it != nil {
				it.cancels++
			}
		})
	}
	switch c.Kind {
	case "pool":
		p, err := wq.NewBoundedPool[int](wq.BoundedPoolConfig{Name: "verif", Workers: c.Workers, QueueSize: c.QueueSize},
			func(_ context.Context, i int) error { handle(0, []int{i}); return nil })
		if err != nil {
			return primitive{}, err
		}
		return primitive{
			submit: func(ctx context.Context, _ int, i int, wait bool) error {
				if wait {
					return p.SubmitWait(ctx, i)
				}
				return p.Submit(ctx, i)
			},
			close: p.Close,
		}, nil
	case "batch":
		cfg := wq.BoundedBatchPoolConfig[int]{Name: "verif", Workers: c.Workers, QueueSize: c.QueueSize,
			CancelAcceptedOnClose: c.CancelAccepted, CancelRunningOnClose: c.CancelRunning}
		if c.CancelAccepted {
			cfg.CancelAccepted = cancelHook
		}
		if c.BatchMax > 1 {
			opts := wq.BatchOptions{MaxItems: c.BatchMax}
			if c.BatchWait {
				opts.MaxWait = 200 * time.Microsecond
			}
			cfg.Policy = func(int) wq.BatchOptions { return opts }
		}
		p, err := wq.NewBoundedBatchPool[int](cfg, func(_ context.Context, is []int) error { handle(0, is); return nil })
		if err != nil {
			return primitive{}, err
		}
		return primitive{
			submit: func(ctx context.Context, _ int, i int, _ bool) error { return p.Submit(ctx, i) },
			close:  p.Close,
		}, nil
	case "worker":
		q, err := wq.NewBoundedWorkerQueue[int](wq.BoundedWorkerQueueConfig{Name: "verif", Workers: c.Workers, QueueSize: c.QueueSize},
			func(_ context.Context, i int) error { handle(0, []int{i}); return nil })
		if err != nil {
			return primitive{}, err
		}
		return primitive{
			submit: func(ctx context.Context, _ int, i int, wait bool) error {
				if wait {
					return q.SubmitWait(ctx, i)
				}
				return q.Submit(ctx, i)
			},
			close: q.Close,
		}, nil
	case "mailbox":
		cfg := wq.ShardedMailboxConfig{Name: "verif", Shards: c.Shards, Workers: c.Workers,
			QueueSizePerShard: c.QueueSize, BatchMaxItems: c.BatchMax}
		if c.BatchWait {
			cfg.BatchMaxWait = 200 * time.Microsecond
		}
		if c.Paced {
			cfg.Observer = &pacedObs{pause: pause, seen: map[int]int{}}
		}
		m, err := wq.NewShardedMailbox[int](cfg, func(_ context.Context, b wq.MailboxBatch[int]) error {
			handle(b.Shard, b.Items)
			return nil
		})
		if err != nil {
			return primitive{}, err
		}
		return primitive{
			submit: func(ctx context.Context, shard int, i int, _ bool) error {
				// hash chosen so that hash % Shards == shard (the documented placement)
				return m.SubmitHash(ctx, uint64(shard)+uint64(c.Shards)*uint64(i), i)
			},
			close: m.Close,
		}, nil
	}
	return primitive{}, fmt.Errorf("unknown kind %q", c.Kind)
}

func codeOf(err error) (string, bool) {
	switch {
	case err == nil:
		return "ok", true
	case errors.Is(err, wq.ErrFull):
		return "full", true
	case errors.Is(err, wq.ErrClosed):
		return "closed", true
	}
	return "", false
}

// oneRun drives one primitive and returns its history, or an infra message.
func oneRun(c runCfg, rng *rand.Rand) (*runLog, string) {
	lg := &runLog{items: map[int]*itemInfo{}, close: -1}
	var frozen chan struct{}
	if c.Mode == "frozen" {
		frozen = make(chan struct{})
	}
	prim, err := build(c, lg, frozen, rng)
	if err != nil {
		return nil, "constructor: " + err.Error()
	}
	total := c.Producers * c.ItemsPer
	ctx, cancel := context.WithTimeout(context.Background(), 90*time.Second)
	defer cancel()

	var returned atomic.Int64
	trigger := make(chan struct{})
	var trigOnce sync.Once
	fire := func() { trigOnce.Do(func() { close(trigger) }) }
	closeAfter := c.CloseAfter
	if c.Mode == "after" {
		closeAfter = total
	}
	if closeAfter == 0 {
		fire()
	}
	var infraMu sync.Mutex
	infra := ""
	setInfra := func(s string) {
		infraMu.Lock()
		if infra == "" {
			infra = s
		}
		infraMu.Unlock()
	}

	var producers sync.WaitGroup
	for p := 1; p <= c.Producers; p++ {
		p := p
		seeds := make([]int, c.ItemsPer)
		shards := make([]int, c.ItemsPer)
		paces := make([]int, c.ItemsPer)
		for k := range seeds {
			seeds[k] = rng.Intn(c.Yields + 1)
			if c.Paced {
				paces[k] = rng.Intn(1500)
			}
			if c.Kind == "mailbox" {
				shards[k] = rng.Intn(c.Shards)
			}
		}
		producers.Add(1)
		go func() {
			defer producers.Done()
			for k := 0; k < c.ItemsPer; k++ {
				item := (p-1)*c.ItemsPer + k + 1
				yield(seeds[k])
				if c.Paced {
					time.Sleep(time.Duration(paces[k]) * time.Microsecond)
				}
				lg.add(kit.Ev("Call", "p", p, "item", item, "shard", shards[k]), func(int) {
					lg.items[item] = &itemInfo{retSeq: -1}
				})
				err := prim.submit(ctx, shards[k], item, c.Wait)
				code, known := codeOf(err)
				if !known {
					setInfra(fmt.Sprintf("Submit(%d) returned %v", item, err))
					code = "closed"
				}
				lg.add(kit.Ev("Ret", "p", p, "item", item, "code", code), func(seq int) {
					lg.items[item].code, lg.items[item].retSeq = code, seq
				})
				if int(returned.Add(1)) >= closeAfter {
					fire()
				}
			}
		}()
	}
	closed := make(chan error, 1)
	go func() {
		<-trigger
		if c.Mode == "after" {
			producers.Wait()
		}
		lg.add(kit.Ev("CloseCall"), func(seq int) { lg.close = seq })
		err := prim.close(ctx)
		if err == nil {
			lg.add(kit.Ev("CloseRet"), nil)
		}
		closed <- err
	}()
	producers.Wait()
	if frozen != nil {
		close(frozen) // handlers were held until every Submit call returned
	}
	if cerr := <-closed; cerr != nil {
		setInfra(fmt.Sprintf("Close returned %v (kind %s)", cerr, c.Kind))
	}
	lg.add(kit.Ev("End"), nil)
	return lg, infra
}

// knownWindow matches a finished history to the one defect of the code as it is that is still open
// (known-findings.json, status "known"): F5, BoundedBatchPool with CancelRunningOnClose and without
// CancelAcceptedOnClose drops accepted items when its executor is saturated at Close.  Only histories
// of exactly that configuration are looked at, and only for that symptom (items admitted, never
// handled, never cancelled); every other history goes to TLC.  F3, F4 and F6 are fixed in /repo and
// get no special treatment any more.
func knownWindow(c runCfg, lg *runLog) (sig string, lost []int) {
	if !(c.Kind == "batch" && c.CancelRunning && !c.CancelAccepted) {
		return "", nil
	}
	lg.mu.Lock()
	defer lg.mu.Unlock()
	for i, it := range lg.items {
		if it.code == "ok" && it.handled == 0 && it.cancels == 0 {
			lost = append(lost, i)
		}
	}
	if len(lost) == 0 {
		return "", nil
	}
	return sigF5, lost
}

func (r *runLog) snapshot() []map[string]any {
	r.mu.Lock()
	defer r.mu.Unlock()
	return append([]map[string]any{}, r.evs...)
}

func runRandom(env kit.Env, rep *kit.Report, rec *kit.Recorder, known *knownHits) {
	rng := env.Rand()
	runs := env.Pick(240, 1600)
	matched := map[string]int{}
	kinds := map[string]int{}
	for n := 0; n < runs; n++ {
		c := genCfg(rng, n)
		lg, infra := oneRun(c, rng)
		if infra != "" {
			rep.Infra("random run %d (%+v): %s", n, c, infra)
			if lg == nil {
				continue
			}
			break
		}
		evs := lg.snapshot()
		if sig, lost := knownWindow(c, lg); sig != "" {
			known.add(sig, "trace", fmt.Sprintf("random run %d: items %v admitted, neither handled nor cancelled", n, lost),
				map[string]any{"cfg": c, "history": evs})
			matched[sig]++
			continue // the history is explained by a recorded defect; it is not given to TLC
		}
		rec.Begin(map[string]any{"kind": c.Kind, "cfg": map[string]any{"cancel": c.CancelAccepted, "shards": c.Shards},
			"mode": c.Mode}, nil)
		for _, ev := range evs {
			rec.Step(ev, nil)
			rep.Cover(kit.Str(ev, "a"))
		}
		if c.Paced {
			kinds[c.Kind+"/"+c.Mode+"/paced"]++
		} else {
			kinds[c.Kind+"/"+c.Mode]++
		}
	}
	rep.Extra("random_histories_by_kind_mode", kinds)
	rep.Extra("random_histories_matched_to_known_defects", matched)
}

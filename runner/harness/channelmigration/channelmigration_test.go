package channelmigration

// Conformance harness for specs/ChannelMigration (property C17).
//
// A package of the runner module (exported API only): a real metadata DB (Pebble) in a
// temporary directory and the real slot state machine over it.  Every modelled command is
// encoded with the exported fsm.Encode*Command function of its type and applied as a
// ONE-command multiraft ApplyBatch; the specification's Batch2 steps are applied as ONE
// apply batch of two commands (creates, plain or guarded, for the same or different task
// ids; a create next to a runtime-meta upsert; a create next to a create for another
// channel of the hash slot).  Batches that mix create / advance / cleanup commands are the
// known finding channel-migration-multi-command-batch of C13 and stay outside.  After every
// step the apply result(s), the runtime meta row, every task row and the reported active
// task are compared with the specification, and "at most one active task row" is checked
// on the rows directly.
//
//	(a) TLC behaviours of specs/ChannelMigration/Sim.tla are replayed step by step;
//	(b) a seeded random driver issues commands built from the rows it reads back
//	    (fresh / stale guards, fresh / stale proof fields) and records what it observed
//	    for TLC to validate against the module with the C17 properties switched on;
//	(c) one scripted probe looks for the known deviation "an expired fence can be reset
//	    to a pre-cutover phase after the cutover, after which the task can be aborted";
//	(d) one scripted probe puts the creates of two racing planners (two task ids, one
//	    channel) into one apply batch, in every guard combination.

import (
	"context"
	"errors"
	"fmt"
	"math/rand"
	"os"
	"sort"
	"testing"

	metadb "github.com/WuKongIM/WuKongIM/pkg/db/meta"
	"github.com/WuKongIM/WuKongIM/pkg/slot/fsm"
	"github.com/WuKongIM/WuKongIM/pkg/slot/multiraft"
	"verif/runner/kit"
)

const (
	slotID   = 7
	hashSlot = uint16(3)
	chanType = int64(2)
	baseMS   = int64(1750000000000)
)

var bg = context.Background()

var phaseName = map[metadb.ChannelMigrationPhase]string{
	metadb.ChannelMigrationPhaseValidate: "Validate", metadb.ChannelMigrationPhaseProbeTarget: "ProbeTarget",
	metadb.ChannelMigrationPhaseWriteFence: "WriteFence", metadb.ChannelMigrationPhaseDrainLeader: "DrainLeader",
	metadb.ChannelMigrationPhaseFinalTargetCatchUp: "FinalCatchUp", metadb.ChannelMigrationPhaseCommitLeaderMeta: "CommitLeaderMeta",
	metadb.ChannelMigrationPhaseVerifyNewLeader: "VerifyNewLeader", metadb.ChannelMigrationPhaseAddLearner: "AddLearner",
	metadb.ChannelMigrationPhaseBootstrapTarget: "Bootstrap", metadb.ChannelMigrationPhaseWarmCatchUp: "WarmCatchUp",
	metadb.ChannelMigrationPhaseCutoverFence: "CutoverFence", metadb.ChannelMigrationPhasePromoteAndRemove: "PromoteAndRemove",
	metadb.ChannelMigrationPhaseVerifyMembership: "VerifyMembership", metadb.ChannelMigrationPhaseClearFence: "ClearFence",
}
var phaseOf = func() map[string]metadb.ChannelMigrationPhase {
	m := map[string]metadb.ChannelMigrationPhase{}
	for k, v := range phaseName {
		m[v] = k
	}
	return m
}()
var statusName = map[metadb.ChannelMigrationStatus]string{
	metadb.ChannelMigrationStatusPending: "pending", metadb.ChannelMigrationStatusRunning: "running",
	metadb.ChannelMigrationStatusBlocked: "blocked", metadb.ChannelMigrationStatusCompleted: "completed",
	metadb.ChannelMigrationStatusFailed: "failed", metadb.ChannelMigrationStatusAborted: "aborted",
}
var statusOf = func() map[string]metadb.ChannelMigrationStatus {
	m := map[string]metadb.ChannelMigrationStatus{}
	for k, v := range statusName {
		m[v] = k
	}
	return m
}()

func in(p string, set ...string) bool {
	for _, s := range set {
		if s == p {
			return true
		}
	}
	return false
}

var (
	ltPhases      = []string{"Validate", "ProbeTarget", "WriteFence", "DrainLeader", "FinalCatchUp", "CommitLeaderMeta", "VerifyNewLeader", "ClearFence"}
	ltFencePhases = []string{"WriteFence", "DrainLeader", "FinalCatchUp", "CommitLeaderMeta", "VerifyNewLeader", "ClearFence"}
	postCutover   = []string{"VerifyNewLeader", "VerifyMembership", "ClearFence"}
	taskIDs       = []string{"t1", "t2"}
)

type tmpl struct {
	Kind, Status, Phase string
	Src, Tgt, Desired   uint64
}

type sut struct {
	db       *metadb.DB
	sm       multiraft.BatchStateMachine
	ch       string
	idx      uint64
	tm       map[string]tmpl
	failover bool // leader-transfer templates are created as leader FAILOVER tasks (same rules in metadb)
	nstep    int
}

func openSUT(dir string) (*sut, error) {
	db, err := metadb.Open(dir)
	if err != nil {
		return nil, err
	}
	sm, err := fsm.NewStateMachineWithHashSlots(db, slotID, []uint16{hashSlot})
	if err != nil {
		db.Close()
		return nil, err
	}
	bsm, ok := sm.(multiraft.BatchStateMachine)
	if !ok {
		db.Close()
		return nil, errors.New("slot state machine does not implement BatchStateMachine")
	}
	return &sut{db: db, sm: bsm}, nil
}

func (s *sut) shard() *metadb.ShardStore { return s.db.ForHashSlot(hashSlot) }

// submit applies one command as a one-command apply batch and maps the apply result.
func (s *sut) submit(data []byte) (string, []byte) {
	rs, raw := s.submitBatch(data)
	return rs[0], raw[0]
}

// submitBatch applies the commands as ONE apply batch (consecutive log indexes, as the Raft
// runtime delivers them) and maps every apply result.
func (s *sut) submitBatch(datas ...[]byte) ([]string, [][]byte) {
	cmds := make([]multiraft.Command, 0, len(datas))
	for _, data := range datas {
		s.idx++
		cmds = append(cmds, multiraft.Command{SlotID: slotID, HashSlot: hashSlot, Index: s.idx, Term: 1, Data: data})
	}
	out, raw := make([]string, len(datas)), make([][]byte, len(datas))
	res, err := s.sm.ApplyBatch(bg, cmds)
	for i := range out {
		switch {
		case err != nil:
			out[i] = "error: " + err.Error()
		case len(res) != len(datas):
			out[i] = fmt.Sprintf("error: %d results", len(res))
		case string(res[i]) == fsm.ApplyResultOK:
			out[i], raw[i] = "ok", res[i]
		case string(res[i]) == fsm.ApplyResultStaleMeta:
			out[i], raw[i] = "stale", res[i]
		default:
			out[i], raw[i] = "other", res[i]
		}
	}
	return out, raw
}

func u64s(v any) []uint64 {
	l, _ := v.([]any)
	out := make([]uint64, 0, len(l))
	for _, x := range l {
		out = append(out, uint64(kit.ToInt(x)))
	}
	return out
}

func ints(v []uint64) []int64 {
	out := make([]int64, 0, len(v))
	for _, x := range v {
		out = append(out, int64(x))
	}
	sort.Slice(out, func(i, j int) bool { return out[i] < out[j] })
	return out
}

// begin starts a case: the hash slot is wiped (the task GC is hash-slot wide), the
// initial runtime meta row of the configuration is written through the state machine.
func (s *sut) begin(n int, cfg map[string]any) error {
	if err := s.db.DeleteHashSlotData(bg, hashSlot); err != nil {
		return fmt.Errorf("wipe hash slot: %w", err)
	}
	if ts, err := s.shard().ListChannelMigrationTasks(bg); err != nil || len(ts) != 0 {
		return fmt.Errorf("hash slot not empty after wipe: %d tasks, %v", len(ts), err)
	}
	s.ch = fmt.Sprintf("case%d", n)
	s.failover = n%3 == 2
	s.nstep = 0
	s.tm = map[string]tmpl{}
	for id, v := range kit.Map(cfg, "tmpl") {
		m, _ := v.(map[string]any)
		s.tm[id] = tmpl{Kind: kit.Str(m, "kind"), Status: kit.Str(m, "status"), Phase: kit.Str(m, "phase"),
			Src: uint64(kit.Int(m, "src")), Tgt: uint64(kit.Int(m, "tgt")), Desired: uint64(kit.Int(m, "desired"))}
	}
	m := kit.Map(cfg, "meta")
	row := metadb.ChannelRuntimeMeta{ChannelID: s.ch, ChannelType: chanType,
		ChannelEpoch: uint64(kit.Int(m, "ce")), LeaderEpoch: uint64(kit.Int(m, "le")), Leader: uint64(kit.Int(m, "leader")),
		Replicas: u64s(m["rep"]), ISR: u64s(m["isr"]), MinISR: kit.Int(m, "minisr"), Status: 1, Features: 1,
		LeaseUntilMS: baseMS + 100000, WriteFenceToken: kit.Str(m, "ftok"), WriteFenceVersion: uint64(kit.Int(m, "fver"))}
	if r, _ := s.submit(fsm.EncodeUpsertChannelRuntimeMetaCommand(row)); r != "ok" {
		return fmt.Errorf("initial runtime meta: %s", r)
	}
	return nil
}

func (s *sut) meta() (metadb.ChannelRuntimeMeta, error) {
	return s.shard().GetChannelRuntimeMeta(bg, s.ch, chanType)
}

func (s *sut) task(id string) (metadb.ChannelMigrationTask, bool, error) {
	t, err := s.shard().GetChannelMigrationTask(bg, s.ch, chanType, id)
	if errors.Is(err, metadb.ErrNotFound) {
		return metadb.ChannelMigrationTask{}, false, nil
	}
	return t, err == nil, err
}

var absentTask = map[string]any{"present": false, "kind": "", "status": "", "phase": "", "owner": 0, "ftok": "", "fver": 0,
	"proof": map[string]any{"fv": 0, "ce": 0, "le": 0, "ld": 0}, "emb": false, "embd": 0}

func kindName(k metadb.ChannelMigrationKind) string {
	if k == metadb.ChannelMigrationKindReplicaReplace {
		return "RR"
	}
	return "LT"
}

func projMeta(m metadb.ChannelRuntimeMeta) map[string]any {
	return map[string]any{"ce": m.ChannelEpoch, "le": m.LeaderEpoch, "leader": m.Leader, "rep": ints(m.Replicas), "isr": ints(m.ISR),
		"minisr": m.MinISR, "ftok": m.WriteFenceToken, "fver": m.WriteFenceVersion}
}

func projTask(t metadb.ChannelMigrationTask) map[string]any {
	return map[string]any{"present": true, "kind": kindName(t.Kind), "status": statusName[t.Status], "phase": phaseName[t.Phase],
		"owner": t.OwnerNodeID, "ftok": t.FenceToken, "fver": t.FenceVersion,
		"proof": map[string]any{"fv": t.DrainedFenceVersion, "ce": t.DrainedChannelEpoch, "le": t.DrainedLeaderEpoch, "ld": t.DrainedLeaderNode},
		"emb":   t.EmbeddedLeaderTransfer, "embd": t.EmbeddedDesiredLeader}
}

// proj reads back what the specification's Proj describes.
func (s *sut) proj() (map[string]any, error) {
	m, err := s.meta()
	if err != nil {
		return nil, fmt.Errorf("GetChannelRuntimeMeta: %w", err)
	}
	tasks := map[string]any{}
	for _, id := range taskIDs {
		t, ok, err := s.task(id)
		if err != nil {
			return nil, fmt.Errorf("GetChannelMigrationTask(%s): %w", id, err)
		}
		if !ok {
			tasks[id] = absentTask
			continue
		}
		tasks[id] = projTask(t)
	}
	act := ""
	if t, ok, err := s.shard().GetActiveChannelMigrationTask(bg, s.ch, chanType); err != nil {
		return nil, fmt.Errorf("GetActiveChannelMigrationTask: %w", err)
	} else if ok {
		act = t.TaskID
	}
	out, _ := kit.Canon(map[string]any{"meta": projMeta(m), "tasks": tasks, "active": act}).(map[string]any)
	return out, nil
}

// ---- command construction -----------------------------------------------------------------

func (s *sut) templateTask(id string) metadb.ChannelMigrationTask {
	tp := s.tm[id]
	kind := metadb.ChannelMigrationKindReplicaReplace
	if tp.Kind == "LT" {
		kind = metadb.ChannelMigrationKindLeaderTransfer
		if s.failover {
			kind = metadb.ChannelMigrationKindLeaderFailover
		}
	}
	return metadb.ChannelMigrationTask{TaskID: id, Kind: kind, Status: statusOf[tp.Status], Phase: phaseOf[tp.Phase],
		ChannelID: s.ch, ChannelType: chanType, SourceNode: tp.Src, TargetNode: tp.Tgt, DesiredLeader: tp.Desired,
		BaseChannelEpoch: 10, BaseLeaderEpoch: 20, CreatedAtMS: baseMS, UpdatedAtMS: baseMS}
}

// taskGuard is the guard a caller that has just read the row would send; "stale" moves one
// of its fields (which one rotates with the step number) to a value the row does not have.
func (s *sut) taskGuard(id string, t metadb.ChannelMigrationTask, ok bool, tg string) metadb.ChannelMigrationTaskGuard {
	g := metadb.ChannelMigrationTaskGuard{ChannelID: s.ch, ChannelType: chanType, TaskID: id,
		ExpectedStatus: metadb.ChannelMigrationStatusPending, ExpectedPhase: metadb.ChannelMigrationPhaseValidate}
	if ok {
		g.ExpectedStatus, g.ExpectedPhase = t.Status, t.Phase
		g.ExpectedOwnerNodeID, g.ExpectedOwnerLeaseUntilMS, g.ExpectedUpdatedAtMS = t.OwnerNodeID, t.OwnerLeaseUntilMS, t.UpdatedAtMS
	}
	if tg == "stale" {
		switch s.nstep % 5 {
		case 0:
			g.ExpectedUpdatedAtMS--
		case 1:
			g.ExpectedStatus = g.ExpectedStatus%6 + 1
		case 2:
			if g.ExpectedPhase == metadb.ChannelMigrationPhaseValidate {
				g.ExpectedPhase = metadb.ChannelMigrationPhaseProbeTarget
			} else {
				g.ExpectedPhase = metadb.ChannelMigrationPhaseValidate
			}
		case 3:
			g.ExpectedOwnerNodeID += 7
		case 4:
			g.ExpectedOwnerLeaseUntilMS++
		}
	}
	return g
}

func (s *sut) runtimeGuard(g map[string]any) metadb.ChannelMigrationRuntimeGuard {
	return metadb.ChannelMigrationRuntimeGuard{ChannelID: s.ch, ChannelType: chanType,
		ExpectedChannelEpoch: uint64(kit.Int(g, "ce")), ExpectedLeaderEpoch: uint64(kit.Int(g, "le")), ExpectedLeader: uint64(kit.Int(g, "ld")),
		ExpectedFenceToken: kit.Str(g, "ftok"), ExpectedFenceVersion: uint64(kit.Int(g, "fver"))}
}

// guardOf is the specification's Guard(M, rg): the current row with at most one stale field.
func guardOf(m metadb.ChannelRuntimeMeta, rg string) map[string]any {
	g := map[string]any{"ce": int64(m.ChannelEpoch), "le": int64(m.LeaderEpoch), "ld": int64(m.Leader), "ftok": m.WriteFenceToken, "fver": int64(m.WriteFenceVersion)}
	switch rg {
	case "ce":
		g["ce"] = int64(m.ChannelEpoch) + 1
	case "le":
		g["le"] = int64(m.LeaderEpoch) + 1
	case "ld":
		if m.Leader == 1 {
			g["ld"] = int64(2)
		} else {
			g["ld"] = int64(1)
		}
	case "ftok":
		g["ftok"] = "zz"
	case "fver":
		g["fver"] = int64(m.WriteFenceVersion) + 1
	}
	return g
}

func ltish(t metadb.ChannelMigrationTask) bool {
	return t.Kind != metadb.ChannelMigrationKindReplicaReplace
}

// migrationFencePhase / migrationClearFenceTransition / channelMigrationDesiredLeader of
// pkg/cluster/channels/migration_store.go (unexported there): what the real caller sends.
func fencePhase(t metadb.ChannelMigrationTask) metadb.ChannelMigrationPhase {
	if ltish(t) || t.EmbeddedLeaderTransfer {
		if t.Phase == metadb.ChannelMigrationPhaseWriteFence {
			return metadb.ChannelMigrationPhaseDrainLeader
		}
		return t.Phase
	}
	if t.Phase == metadb.ChannelMigrationPhaseWarmCatchUp {
		return metadb.ChannelMigrationPhaseCutoverFence
	}
	return t.Phase
}

func callerDesired(t metadb.ChannelMigrationTask) uint64 {
	if t.EmbeddedLeaderTransfer && t.EmbeddedDesiredLeader != 0 {
		return t.EmbeddedDesiredLeader
	}
	if t.DesiredLeader != 0 {
		return t.DesiredLeader
	}
	return t.TargetNode
}

func nowAt(until int64, late bool) int64 {
	n := until
	if late {
		n++
	}
	if n < 1 {
		n = 1
	}
	return n
}

// encodeCreate: the plain create command (rg = "none") or the guarded one with guard g.
func (s *sut) encodeCreate(id, rg string, g metadb.ChannelMigrationRuntimeGuard) []byte {
	task := s.templateTask(id)
	if rg == "none" {
		return fsm.EncodeCreateChannelMigrationTaskCommand(task)
	}
	return fsm.EncodeCreateChannelMigrationTaskWithRuntimeGuardCommand(metadb.ChannelMigrationTaskCreate{Task: task, RuntimeGuard: g})
}

// encodeExt: a runtime-meta upsert from outside the migration, built on the row m its
// proposer read.
func encodeExt(k string, m metadb.ChannelRuntimeMeta) ([]byte, error) {
	// the encoder canonicalises the row (a zero route generation would be derived from the
	// epochs and then count as "given and older"), so the current generation is sent
	c := m
	c.WriteFenceToken, c.WriteFenceVersion, c.WriteFenceReason, c.WriteFenceUntilMS = "", 0, 0, 0
	switch k {
	case "le":
		c.LeaderEpoch++
	case "ce":
		c.ChannelEpoch++
	case "ld1", "ld2", "ld3", "ld4":
		c.LeaderEpoch++
		c.Leader = uint64(k[2] - '0')
	case "fence":
		c.WriteFenceToken, c.WriteFenceVersion, c.WriteFenceReason, c.WriteFenceUntilMS = "x", m.WriteFenceVersion+1, 2, baseMS+77000
	default:
		return nil, fmt.Errorf("unknown Ext kind %q", k)
	}
	return fsm.EncodeUpsertChannelRuntimeMetaCommand(c), nil
}

// otherChannel / encodeOther: the specification's "Other" batch command, the plain create of
// one fixed task row for another channel of the same hash slot.
func (s *sut) otherChannel() string { return s.ch + "-other" }
func (s *sut) encodeOther() []byte {
	return fsm.EncodeCreateChannelMigrationTaskCommand(metadb.ChannelMigrationTask{TaskID: "x1", Kind: metadb.ChannelMigrationKindLeaderTransfer,
		Status: metadb.ChannelMigrationStatusPending, Phase: metadb.ChannelMigrationPhaseValidate, ChannelID: s.otherChannel(), ChannelType: chanType,
		SourceNode: 1, TargetNode: 2, DesiredLeader: 2, BaseChannelEpoch: 10, BaseLeaderEpoch: 20, CreatedAtMS: baseMS, UpdatedAtMS: baseMS})
}

// applyBatch2 executes a Batch2 event: both commands, built on the rows read BEFORE the
// batch (as two racing proposers would), in one apply batch.
func (s *sut) applyBatch2(ev map[string]any, m metadb.ChannelRuntimeMeta) (map[string]any, map[string]any, error) {
	cs, _ := ev["cs"].([]any)
	if len(cs) != 2 {
		return nil, nil, fmt.Errorf("Batch2 with %d commands", len(cs))
	}
	var datas [][]byte
	other := false
	for _, x := range cs {
		c, _ := x.(map[string]any)
		switch kit.Str(c, "a") {
		case "Create":
			datas = append(datas, s.encodeCreate(kit.Str(c, "t"), kit.Str(c, "rg"), s.runtimeGuard(kit.Map(c, "g"))))
		case "Ext":
			data, err := encodeExt(kit.Str(c, "k"), m)
			if err != nil {
				return nil, nil, err
			}
			datas = append(datas, data)
		case "Other":
			other = true
			datas = append(datas, s.encodeOther())
		default:
			return nil, nil, fmt.Errorf("unknown batch command %q", kit.Str(c, "a"))
		}
	}
	rs, _ := s.submitBatch(datas...)
	r := "stale"
	for _, x := range rs {
		if x == "ok" {
			r = "ok"
		}
	}
	if other {
		// infrastructure sanity: the other channel holds exactly its one task
		if t, ok, err := s.shard().GetActiveChannelMigrationTask(bg, s.otherChannel(), chanType); err != nil || (ok && t.TaskID != "x1") {
			return nil, nil, fmt.Errorf("other channel: active task %q, %v", t.TaskID, err)
		}
	}
	p, err := s.proj()
	if err != nil {
		return nil, nil, err
	}
	res, _ := kit.Canon(map[string]any{"r": r, "rs": rs}).(map[string]any)
	return res, p, nil
}

// activeRows: the ids of the task rows of the channel that are active (not terminal).
// Property C17: at most one.
func activeRows(proj map[string]any) []string {
	var out []string
	for _, id := range taskIDs {
		t := kit.Map(kit.Map(proj, "tasks"), id)
		if kit.Bool(t, "present") && !in(kit.Str(t, "status"), "completed", "failed", "aborted") {
			out = append(out, id)
		}
	}
	return out
}

// apply executes one event of the specification on the real state machine and returns
// the reply and the projection afterwards.
func (s *sut) apply(ev map[string]any) (map[string]any, map[string]any, error) {
	s.nstep++
	a := kit.Str(ev, "a")
	id := kit.Str(ev, "t")
	var (
		t  metadb.ChannelMigrationTask
		ok bool
	)
	m, err := s.meta()
	if err != nil {
		return nil, nil, err
	}
	if a == "Batch2" {
		return s.applyBatch2(ev, m)
	}
	if id != "" {
		if t, ok, err = s.task(id); err != nil {
			return nil, nil, err
		}
	}
	now := baseMS + 1
	if ok {
		now = t.UpdatedAtMS + 1
	}
	tg := s.taskGuard(id, t, ok, kit.Str(ev, "tg"))
	rg := s.runtimeGuard(kit.Map(ev, "g"))
	if kit.Map(ev, "g") == nil {
		rg = s.runtimeGuard(guardOf(m, "ok"))
	}
	phase := t.Phase
	if !ok {
		phase = metadb.ChannelMigrationPhaseValidate
	}
	running := metadb.ChannelMigrationStatusRunning
	var data []byte
	res := map[string]any{}
	switch a {
	case "Create":
		data = s.encodeCreate(id, kit.Str(ev, "rg"), rg)
	case "Claim":
		claimNow := baseMS + 10
		if t.OwnerLeaseUntilMS > 0 {
			claimNow = t.OwnerLeaseUntilMS - 5
			if kit.Bool(ev, "exp") {
				claimNow = t.OwnerLeaseUntilMS + 5
			}
		}
		data = fsm.EncodeClaimChannelMigrationTaskCommand(metadb.ChannelMigrationTaskClaim{Guard: tg, Status: running, Phase: phase,
			OwnerNodeID: uint64(kit.Int(ev, "o")), OwnerLeaseUntilMS: claimNow + 10000, NowMS: claimNow, UpdatedAtMS: now})
	case "Advance":
		st := statusOf[kit.Str(ev, "st")]
		adv := metadb.ChannelMigrationTaskAdvance{Guard: tg, Status: st, Phase: phaseOf[kit.Str(ev, "to")], Attempt: t.Attempt + 1,
			UpdatedAtMS: now, EmbeddedDesiredLeader: uint64(kit.Int(ev, "embd"))}
		switch st {
		case metadb.ChannelMigrationStatusCompleted, metadb.ChannelMigrationStatusFailed, metadb.ChannelMigrationStatusAborted:
			adv.CompletedAtMS = now
			adv.LastError = "boom"
		case metadb.ChannelMigrationStatusBlocked:
			adv.BlockerMessage = "blocked"
		}
		p := kit.Map(ev, "p")
		if kit.Int(p, "fv") != 0 || kit.Int(p, "ce") != 0 || kit.Int(p, "le") != 0 || kit.Int(p, "ld") != 0 {
			adv.CutoverProof = metadb.ChannelMigrationCutoverProof{CutoverLEO: 7, CutoverHW: 7, DrainedRuntimeGeneration: 1,
				DrainedFenceVersion: uint64(kit.Int(p, "fv")), DrainedChannelEpoch: uint64(kit.Int(p, "ce")),
				DrainedLeaderEpoch: uint64(kit.Int(p, "le")), DrainedLeaderNode: uint64(kit.Int(p, "ld"))}
			adv.Progress = metadb.ChannelMigrationProgress{LeaderLEO: 7, LeaderHW: 7}
		}
		data = fsm.EncodeAdvanceChannelMigrationTaskCommand(adv)
	case "SetFence":
		to := metadb.ChannelMigrationPhaseValidate
		if ok {
			to = fencePhase(t)
		}
		data = fsm.EncodeSetChannelWriteFenceCommand(metadb.ChannelMigrationFenceRequest{Guard: tg, RuntimeGuard: rg, Status: running, Phase: to,
			FenceReason: 1, FenceUntilMS: now + 30000, UpdatedAtMS: now})
	case "ResetFence":
		data = fsm.EncodeResetChannelWriteFenceToPreCutoverCommand(metadb.ChannelMigrationResetFenceRequest{Guard: tg, RuntimeGuard: rg, Status: running,
			Phase: phaseOf[kit.Str(ev, "to")], NowMS: nowAt(m.WriteFenceUntilMS, kit.Bool(ev, "late")), UpdatedAtMS: now})
	case "Commit":
		dl := callerDesired(t)
		if dl == 0 {
			dl = 1
		}
		nle := m.LeaderEpoch + uint64(kit.Int(ev, "nle"))
		data = fsm.EncodeCommitChannelLeaderTransferCommand(metadb.ChannelMigrationLeaderTransferRequest{Guard: tg, RuntimeGuard: rg, Status: running,
			Phase: metadb.ChannelMigrationPhaseVerifyNewLeader, DesiredLeader: dl, NextLeaderEpoch: nle, LeaseUntilMS: now + 50000,
			NowMS: nowAt(m.WriteFenceUntilMS, kit.Bool(ev, "late")), UpdatedAtMS: now})
	case "AddLearner":
		tn := t.TargetNode
		if tn == 0 {
			tn = 4
		}
		data = fsm.EncodeAddChannelLearnerCommand(metadb.ChannelMigrationAddLearnerRequest{Guard: tg, RuntimeGuard: rg, Status: running,
			Phase: metadb.ChannelMigrationPhaseBootstrapTarget, TargetNode: tn, UpdatedAtMS: now})
	case "Promote":
		sn, tn := t.SourceNode, t.TargetNode
		if sn == 0 || tn == 0 || sn == tn {
			sn, tn = 3, 4
		}
		data = fsm.EncodePromoteLearnerAndRemoveReplicaCommand(metadb.ChannelMigrationPromoteLearnerRequest{Guard: tg, RuntimeGuard: rg, Status: running,
			Phase: metadb.ChannelMigrationPhaseVerifyMembership, SourceNode: sn, TargetNode: tn,
			NowMS: nowAt(m.WriteFenceUntilMS, kit.Bool(ev, "late")), UpdatedAtMS: now})
	case "ClearFence":
		req := metadb.ChannelMigrationClearFenceRequest{Guard: tg, RuntimeGuard: rg, Status: metadb.ChannelMigrationStatusCompleted,
			Phase: metadb.ChannelMigrationPhaseClearFence, UpdatedAtMS: now, CompletedAtMS: now}
		if t.Kind == metadb.ChannelMigrationKindReplicaReplace && t.EmbeddedLeaderTransfer && t.Phase == metadb.ChannelMigrationPhaseVerifyNewLeader {
			req.Status, req.Phase, req.CompletedAtMS = running, metadb.ChannelMigrationPhaseAddLearner, 0
		}
		data = fsm.EncodeClearChannelWriteFenceCommand(req)
	case "Abort":
		data = fsm.EncodeAbortChannelMigrationCommand(metadb.ChannelMigrationAbortRequest{Guard: tg, RuntimeGuard: rg, Status: metadb.ChannelMigrationStatusAborted,
			Phase: phase, UpdatedAtMS: now, CompletedAtMS: now, LastError: "operator"})
	case "GC":
		before := int64(1)
		if kit.Bool(ev, "old") {
			before = baseMS * 2
		}
		data = fsm.EncodeGarbageCollectTerminalChannelMigrationTasksCommand(metadb.ChannelMigrationTaskGCRequest{BeforeMS: before, Limit: int(kit.Int(ev, "lim"))})
	case "Ext":
		if data, err = encodeExt(kit.Str(ev, "k"), m); err != nil {
			return nil, nil, err
		}
	default:
		return nil, nil, fmt.Errorf("unknown action %q", a)
	}
	r, raw := s.submit(data)
	res["r"] = r
	if a == "GC" && raw != nil {
		// the apply result of the cleanup command carries the number of removed tasks
		n, isGC, err := fsm.DecodeGarbageCollectTerminalChannelMigrationTasksResult(raw)
		if err != nil || !isGC {
			return nil, nil, fmt.Errorf("GC result %q: gc=%v err=%v", raw, isGC, err)
		}
		res["r"], res["n"] = "ok", n
	}
	p, err := s.proj()
	if err != nil {
		return nil, nil, err
	}
	res, _ = kit.Canon(res).(map[string]any)
	return res, p, nil
}

// ---- seeded random driver ---------------------------------------------------------------------

var (
	allRGs  = []string{"ok", "ce", "le", "ld", "ftok", "fver"}
	allExts = []string{"le", "ce", "fence", "ld"}
)

type wf struct {
	to, st string
	proof  bool
	embd   int64
}

// workflow mirrors Workflow(T) of the specification (the executor's transitions).
func workflow(t metadb.ChannelMigrationTask, m metadb.ChannelRuntimeMeta) []wf {
	p := phaseName[t.Phase]
	lt := ltish(t) || (t.EmbeddedLeaderTransfer && in(p, ltPhases...))
	var out []wf
	run := func(to string, proof bool, embd int64) { out = append(out, wf{to, "running", proof, embd}) }
	switch {
	case lt && p == "Validate":
		run("ProbeTarget", false, 0)
	case lt && p == "ProbeTarget":
		run("WriteFence", false, 0)
	case lt && (p == "DrainLeader" || p == "FinalCatchUp"):
		run("FinalCatchUp", true, 0)
		run("CommitLeaderMeta", true, 0)
	case lt && p == "CommitLeaderMeta":
		run("FinalCatchUp", false, 0)
	case !lt && p == "Validate":
		run("AddLearner", false, 0)
		for _, n := range ints(m.ISR) {
			if uint64(n) != m.Leader {
				run("ProbeTarget", false, n)
			}
		}
	case !lt && p == "Bootstrap":
		run("WarmCatchUp", false, 0)
	case !lt && p == "CutoverFence":
		run("FinalCatchUp", true, 0)
	case !lt && p == "FinalCatchUp":
		run("FinalCatchUp", true, 0)
		run("PromoteAndRemove", true, 0)
	case !lt && p == "PromoteAndRemove":
		run("FinalCatchUp", false, 0)
	}
	if statusName[t.Status] == "blocked" {
		out = append(out, wf{p, "running", false, 0})
	} else {
		out = append(out, wf{p, "blocked", false, 0})
	}
	return append(out, wf{p, "failed", false, 0})
}

func mkProof(m metadb.ChannelRuntimeMeta, stale []string) map[string]any {
	p := map[string]any{"fv": int64(m.WriteFenceVersion), "ce": int64(m.ChannelEpoch), "le": int64(m.LeaderEpoch), "ld": int64(m.Leader)}
	for _, f := range stale {
		switch f {
		case "fv", "ce", "le":
			p[f] = p[f].(int64) - 1
		case "ld":
			if m.Leader == 1 {
				p["ld"] = int64(2)
			} else {
				p["ld"] = int64(1)
			}
		}
	}
	return p
}

func proofCurrent(t metadb.ChannelMigrationTask, m metadb.ChannelRuntimeMeta) bool {
	return t.DrainedFenceVersion != 0 && t.DrainedFenceVersion == m.WriteFenceVersion && t.DrainedChannelEpoch == m.ChannelEpoch &&
		t.DrainedLeaderEpoch == m.LeaderEpoch && t.DrainedLeaderNode == m.Leader
}

var noProof = map[string]any{"fv": 0, "ce": 0, "le": 0, "ld": 0}

type driver struct {
	s   *sut
	rng *rand.Rand
	// batchEvery > 0: about one draw in batchEvery is a two-command apply batch
	batchEvery int
}

// batchCmd / batch2 build a Batch2 event in the JSON shape of the specification: both
// commands carry the guard their proposer derived from the row m read before the batch.
func batchCmd(a, t, rg, k string, m metadb.ChannelRuntimeMeta) map[string]any {
	g := "ok"
	if a == "Create" && rg != "none" {
		g = rg
	}
	return map[string]any{"a": a, "t": t, "rg": rg, "k": k, "g": guardOf(m, g)}
}

func (d *driver) extKind(m metadb.ChannelRuntimeMeta) string {
	k := d.pick(allExts)
	if k == "ld" {
		// a new leader out of the ISR (the resolver would refuse a leader outside it)
		k = "le"
		var cands []int64
		for _, n := range ints(m.ISR) {
			if uint64(n) != m.Leader {
				cands = append(cands, n)
			}
		}
		if len(cands) > 0 {
			k = fmt.Sprintf("ld%d", cands[d.rng.Intn(len(cands))])
		}
	}
	return k
}

func (d *driver) batch2(m metadb.ChannelRuntimeMeta) map[string]any {
	crg := func() string {
		switch d.rng.Intn(4) {
		case 0:
			return "none"
		case 1:
			return d.pick(allRGs[1:])
		}
		return "ok"
	}
	a, b := taskIDs[0], taskIDs[1]
	if d.rng.Intn(2) == 0 {
		a, b = b, a
	}
	var c1, c2 map[string]any
	switch r := d.rng.Intn(100); {
	case r < 40: // two planners: different task ids
		c1, c2 = batchCmd("Create", a, crg(), "", m), batchCmd("Create", b, crg(), "", m)
	case r < 50: // the same task id twice
		c1, c2 = batchCmd("Create", a, crg(), "", m), batchCmd("Create", a, crg(), "", m)
	case r < 75: // next to an upsert from outside: the guard may be fresh only before / only after it
		c1, c2 = batchCmd("Create", a, d.pick([]string{"none", "ok", "le", "ce", "fver"}), "", m), batchCmd("Ext", "", "", d.extKind(m), m)
	default: // next to a create for another channel
		c1, c2 = batchCmd("Create", a, crg(), "", m), batchCmd("Other", "", "", "", m)
	}
	if c2["a"] != "Create" && d.rng.Intn(2) == 0 {
		c1, c2 = c2, c1
	}
	return kit.Ev("Batch2", "cs", []any{c1, c2})
}

func (d *driver) pick(xs []string) string { return xs[d.rng.Intn(len(xs))] }
func (d *driver) tgv() string {
	if d.rng.Intn(6) == 0 {
		return "stale"
	}
	return "ok"
}
func (d *driver) rgv() string {
	if d.rng.Intn(4) == 0 {
		return d.pick(allRGs[1:])
	}
	return "ok"
}
func (d *driver) stales() []string {
	var out []string
	if d.rng.Intn(2) == 0 { // exactly one stale field
		return []string{d.pick([]string{"fv", "ce", "le", "ld"})}
	}
	for _, f := range []string{"fv", "ce", "le", "ld"} {
		if d.rng.Intn(3) == 0 {
			out = append(out, f)
		}
	}
	return out
}

func terminal(t metadb.ChannelMigrationTask) bool { return t.IsTerminal() }

// next draws one command.  Half of the draws walk the active task along the workflow with
// fresh guards (so that cutovers are reached), the others are arbitrary commands with fresh
// or stale guards / proofs; late resets are issued only before the cutover (the deviation
// after it is probed separately).
func (d *driver) next() (map[string]any, error) {
	s := d.s
	m, err := s.meta()
	if err != nil {
		return nil, err
	}
	rows := map[string]metadb.ChannelMigrationTask{}
	var present, live []string
	for _, id := range taskIDs {
		t, ok, err := s.task(id)
		if err != nil {
			return nil, err
		}
		if ok {
			rows[id] = t
			present = append(present, id)
			if !terminal(t) {
				live = append(live, id)
			}
		}
	}
	guarded := func(a, id, tg, rg string, kv ...any) map[string]any {
		ev := kit.Ev(a, append([]any{"t", id, "tg", tg, "rg", rg, "g", guardOf(m, rg)}, kv...)...)
		return ev
	}
	advance := func(id string, w wf, tg string, stale []string, fresh bool) map[string]any {
		p := noProof
		if w.proof && fresh {
			p = mkProof(m, stale)
		}
		return kit.Ev("Advance", "t", id, "to", w.to, "st", w.st, "p", p, "embd", w.embd, "tg", tg)
	}
	progress := func(id string) map[string]any {
		t, ok := rows[id]
		p := phaseName[t.Phase]
		switch {
		case !ok:
			rg := d.pick([]string{"none", "ok"})
			return kit.Ev("Create", "t", id, "rg", rg, "g", guardOf(m, "ok"))
		case terminal(t) || t.OwnerNodeID == 0 || statusName[t.Status] == "pending":
			return kit.Ev("Claim", "t", id, "o", 1+d.rng.Intn(2), "exp", false, "tg", "ok")
		case statusName[t.Status] == "blocked":
			return kit.Ev("Advance", "t", id, "to", p, "st", "running", "p", noProof, "embd", 0, "tg", "ok")
		case in(p, "WriteFence", "WarmCatchUp"):
			return guarded("SetFence", id, "ok", "ok")
		case in(p, "CommitLeaderMeta", "PromoteAndRemove") && !proofCurrent(t, m) && d.rng.Intn(2) == 0:
			// a proof that is no longer current sends the task back to the final catch-up
			return kit.Ev("Advance", "t", id, "to", "FinalCatchUp", "st", "running", "p", noProof, "embd", 0, "tg", "ok")
		case p == "CommitLeaderMeta":
			return guarded("Commit", id, "ok", "ok", "late", false, "nle", 1)
		case p == "AddLearner":
			return guarded("AddLearner", id, "ok", "ok")
		case p == "PromoteAndRemove":
			return guarded("Promote", id, "ok", "ok", "late", false)
		case in(p, "VerifyNewLeader", "VerifyMembership"):
			return guarded("ClearFence", id, "ok", "ok")
		}
		var ws []wf
		for _, w := range workflow(t, m) {
			if w.st == "running" && (w.to != p || w.proof) {
				ws = append(ws, w)
			}
		}
		if len(ws) == 0 {
			return guarded("Abort", id, "ok", "ok")
		}
		w := ws[d.rng.Intn(len(ws))]
		if w.proof && d.rng.Intn(5) == 0 { // a proof with exactly one stale field
			return advance(id, w, "ok", []string{d.pick([]string{"fv", "ce", "le", "ld"})}, true)
		}
		return advance(id, w, "ok", nil, true)
	}
	anyID := taskIDs[d.rng.Intn(len(taskIDs))]
	some := func(xs []string) string {
		if len(xs) == 0 {
			return anyID
		}
		return xs[d.rng.Intn(len(xs))]
	}
	if d.batchEvery > 0 && d.rng.Intn(d.batchEvery) == 0 {
		return d.batch2(m), nil
	}
	r := d.rng.Intn(100)
	if d.rng.Intn(4) == 0 { // a quarter of the other draws is a workflow step as well
		r = 0
	}
	switch {
	case r < 42:
		return progress(some(live)), nil
	case r < 46:
		return progress(anyID), nil
	case r < 51:
		rg := d.pick(append([]string{"none", "none"}, allRGs...))
		g := rg
		if rg == "none" {
			g = "ok"
		}
		return kit.Ev("Create", "t", anyID, "rg", rg, "g", guardOf(m, g)), nil
	case r < 55:
		return kit.Ev("Claim", "t", some(present), "o", 1+d.rng.Intn(2), "exp", d.rng.Intn(2) == 0, "tg", d.tgv()), nil
	case r < 65:
		id := some(live)
		t, ok := rows[id]
		if !ok || terminal(t) {
			return progress(id), nil
		}
		ws := workflow(t, m)
		w := ws[d.rng.Intn(len(ws))]
		return advance(id, w, d.tgv(), d.stales(), d.rng.Intn(4) != 0), nil
	case r < 69:
		return guarded("SetFence", some(present), d.tgv(), d.rgv()), nil
	case r < 73:
		id := some(present)
		t := rows[id]
		if in(phaseName[t.Phase], postCutover...) {
			return guarded("ClearFence", id, d.tgv(), d.rgv()), nil
		}
		to := "WarmCatchUp"
		if ltish(t) || (t.EmbeddedLeaderTransfer && in(phaseName[t.Phase], ltFencePhases...)) {
			to = d.pick([]string{"ProbeTarget", "WriteFence"})
		}
		return guarded("ResetFence", id, d.tgv(), d.rgv(), "to", to, "late", d.rng.Intn(3) != 0), nil
	case r < 79:
		return guarded("Commit", some(present), d.tgv(), d.rgv(), "late", d.rng.Intn(5) == 0, "nle", int64(1-d.rng.Intn(5)/4)), nil
	case r < 82:
		return guarded("AddLearner", some(present), d.tgv(), d.rgv()), nil
	case r < 87:
		return guarded("Promote", some(present), d.tgv(), d.rgv(), "late", d.rng.Intn(5) == 0), nil
	case r < 90:
		return guarded("ClearFence", some(present), d.tgv(), d.rgv()), nil
	case r < 94:
		return guarded("Abort", some(present), d.tgv(), d.rgv()), nil
	case r < 96:
		return kit.Ev("GC", "lim", 1+d.rng.Intn(2), "old", d.rng.Intn(3) != 0), nil
	default:
		k := d.pick(allExts)
		for _, id := range live {
			t := rows[id]
			if t.Kind == metadb.ChannelMigrationKindReplicaReplace && !t.EmbeddedLeaderTransfer && t.SourceNode != m.Leader &&
				in(phaseName[t.Phase], "Bootstrap", "WarmCatchUp", "CutoverFence", "FinalCatchUp", "PromoteAndRemove") && d.rng.Intn(2) == 0 {
				for _, n := range m.ISR {
					if n == t.SourceNode { // leadership moves onto the replica the task is about to remove
						return kit.Ev("Ext", "k", fmt.Sprintf("ld%d", n)), nil
					}
				}
			}
		}
		if k == "ld" {
			// a new leader out of the ISR (the resolver would refuse a leader outside it)
			k = "le"
			var cands []int64
			for _, n := range ints(m.ISR) {
				if uint64(n) != m.Leader {
					cands = append(cands, n)
				}
			}
			if len(cands) > 0 {
				k = fmt.Sprintf("ld%d", cands[d.rng.Intn(len(cands))])
			}
		}
		return kit.Ev("Ext", "k", k), nil
	}
}

var (
	simTmpls = []map[string]any{
		{"kind": "LT", "src": 1, "tgt": 2, "desired": 2, "status": "pending", "phase": "Validate"},
		{"kind": "RR", "src": 3, "tgt": 4, "desired": 0, "status": "pending", "phase": "Validate"},
		{"kind": "RR", "src": 1, "tgt": 4, "desired": 0, "status": "pending", "phase": "Validate"},
		{"kind": "LT", "src": 1, "tgt": 2, "desired": 2, "status": "running", "phase": "VerifyNewLeader"},
	}
	simMetas = []map[string]any{
		{"ce": 10, "le": 20, "leader": 1, "rep": []int{1, 2, 3}, "isr": []int{1, 2, 3}, "minisr": 2, "ftok": "", "fver": 3},
		{"ce": 10, "le": 20, "leader": 1, "rep": []int{1, 2, 3}, "isr": []int{1, 2}, "minisr": 2, "ftok": "", "fver": 3},
		{"ce": 10, "le": 20, "leader": 1, "rep": []int{1, 2, 3}, "isr": []int{1, 3}, "minisr": 2, "ftok": "", "fver": 3},
	}
)

func randomCfg(rng *rand.Rand) map[string]any {
	cfg := map[string]any{"tmpl": map[string]any{"t1": simTmpls[rng.Intn(3)], "t2": simTmpls[rng.Intn(4)]}, "meta": simMetas[rng.Intn(len(simMetas))]}
	out, _ := kit.Canon(cfg).(map[string]any)
	return out
}

// ---- the scripted probe for the known deviation --------------------------------------------

// probeLateReset walks a leader transfer to its commit, lets the fence expire, resets the
// fence "to pre-cutover" and aborts.  Property C17 says a committed task can no longer be
// aborted; the real state machine accepts both commands (the reset is allowed in every
// fence phase, including the ones after the cutover).
func probeLateReset(s *sut, caseNo int, rep *kit.Report, id string) {
	cfg, _ := kit.Canon(map[string]any{"tmpl": map[string]any{"t1": simTmpls[0], "t2": simTmpls[1]}, "meta": simMetas[0]}).(map[string]any)
	if err := s.begin(caseNo, cfg); err != nil {
		rep.Infra("late-reset probe: %v", err)
		return
	}
	var steps []any
	do := func(ev map[string]any) (string, map[string]any) {
		if g := kit.Str(ev, "rg"); g != "" && g != "none" {
			m, _ := s.meta()
			ev["g"] = guardOf(m, g)
		}
		ev, _ = kit.Canon(ev).(map[string]any)
		res, proj, err := s.apply(ev)
		if err != nil {
			rep.Infra("late-reset probe %s: %v", kit.JSON(ev), err)
			return "infra", nil
		}
		ev["res"] = res
		steps = append(steps, map[string]any{"ev": ev, "st": proj})
		return kit.Str(res, "r"), proj
	}
	m0, _ := s.meta()
	script := []map[string]any{
		kit.Ev("Create", "t", "t1", "rg", "none"),
		kit.Ev("Claim", "t", "t1", "o", 1, "exp", false, "tg", "ok"),
		kit.Ev("Advance", "t", "t1", "to", "ProbeTarget", "st", "running", "p", noProof, "embd", 0, "tg", "ok"),
		kit.Ev("Advance", "t", "t1", "to", "WriteFence", "st", "running", "p", noProof, "embd", 0, "tg", "ok"),
		kit.Ev("SetFence", "t", "t1", "tg", "ok", "rg", "ok"),
	}
	for _, ev := range script {
		if r, _ := do(ev); r != "ok" {
			rep.Infra("late-reset probe: setup step %s answered %s", kit.JSON(ev), r)
			return
		}
	}
	m1, _ := s.meta()
	_ = m0
	for _, ev := range []map[string]any{
		kit.Ev("Advance", "t", "t1", "to", "CommitLeaderMeta", "st", "running", "p", mkProof(m1, nil), "embd", 0, "tg", "ok"),
		kit.Ev("Commit", "t", "t1", "late", false, "nle", 1, "tg", "ok", "rg", "ok"),
	} {
		if r, _ := do(ev); r != "ok" {
			rep.Infra("late-reset probe: setup step %s answered %s", kit.JSON(ev), r)
			return
		}
	}
	r1, _ := do(kit.Ev("ResetFence", "t", "t1", "to", "WriteFence", "late", true, "tg", "ok", "rg", "ok"))
	if r1 != "ok" {
		rep.Extra("late_reset_after_cutover", "rejected")
		return
	}
	r2, proj := do(kit.Ev("Abort", "t", "t1", "tg", "ok", "rg", "ok"))
	t1 := kit.Map(kit.Map(proj, "tasks"), "t1")
	if r2 == "ok" && kit.Str(t1, "status") == "aborted" {
		rep.Extra("late_reset_after_cutover", "accepted; abort accepted")
		rep.ViolateSig(id, "irreversible",
			"a leader transfer that committed (leader moved to the target) was aborted: after the commit the expired fence was reset to a pre-cutover phase (ResetChannelWriteFenceToPreCutover is accepted in the post-cutover fence phases), and the abort was then accepted",
			"C17:reset-fence-after-cutover-reopens-abort", map[string]any{"steps": steps})
		return
	}
	rep.Extra("late_reset_after_cutover", "reset accepted; abort "+r2)
}

// ---- the scripted probe for two creates in one apply batch -------------------------------------

// probeSameBatchCreates: two planners propose a migration for the same channel under
// different task ids and Raft delivers both creates in ONE apply batch.  Property C17: at
// most one of the two rows may be active afterwards, the reported active task is that row,
// and a create that answered "ok" is stored.  Every combination of plain / guarded creates,
// both orders, over rotating task templates and initial meta rows.  The oracle is the
// property itself (no specification involved); the model-based stages reach the same
// batches through Batch2 steps of TLC-generated behaviours.
func probeSameBatchCreates(s *sut, caseNo *int, rep *kit.Report, id string) {
	n := 0
	for _, rgs := range [][2]string{{"none", "none"}, {"ok", "ok"}, {"none", "ok"}, {"ok", "none"}} {
		for _, order := range [][2]string{{"t1", "t2"}, {"t2", "t1"}} {
			*caseNo++
			cfg, _ := kit.Canon(map[string]any{"tmpl": map[string]any{"t1": simTmpls[n%3], "t2": simTmpls[(n+1)%4]}, "meta": simMetas[n%3]}).(map[string]any)
			n++
			if err := s.begin(*caseNo, cfg); err != nil {
				rep.Infra("same-batch-creates probe: %v", err)
				return
			}
			st0, err := s.proj()
			if err != nil {
				rep.Infra("same-batch-creates probe: %v", err)
				return
			}
			m, _ := s.meta()
			ev, _ := kit.Canon(kit.Ev("Batch2", "cs", []any{batchCmd("Create", order[0], rgs[0], "", m), batchCmd("Create", order[1], rgs[1], "", m)})).(map[string]any)
			res, proj, err := s.apply(ev)
			if err != nil {
				rep.Infra("same-batch-creates probe %s: %v", kit.JSON(ev), err)
				return
			}
			rep.Cover("Batch2")
			ev["res"] = res
			replay := map[string]any{"steps": []any{map[string]any{"ev": kit.Ev("Init", "cfg", cfg), "st": st0}, map[string]any{"ev": ev, "st": proj}}}
			act := activeRows(proj)
			rs, _ := res["rs"].([]any)
			bad := ""
			switch {
			case len(act) > 1:
				bad = fmt.Sprintf("two creates for one channel in one apply batch answered %v and left %d active task rows %v (reported active task %q)", rs, len(act), act, kit.Str(proj, "active"))
			case len(act) == 1 && kit.Str(proj, "active") != act[0]:
				bad = fmt.Sprintf("the active task row is %s, the reported active task is %q", act[0], kit.Str(proj, "active"))
			default:
				for i, r := range rs {
					if r == "ok" && !in(order[i], act...) {
						bad = fmt.Sprintf("create of %s answered ok but its row is not an active task row (active rows %v)", order[i], act)
					}
				}
			}
			if bad != "" {
				rep.Violate(id, "one-active", bad, replay)
				return
			}
		}
	}
	rep.Extra("same_batch_creates_probe", fmt.Sprintf("%d batches, at most one active row each", n))
}

// ---- the test -------------------------------------------------------------------------------

func TestVerifChannelMigration(t *testing.T) {
	env, ok := kit.LoadEnv()
	if !ok {
		t.Skip("not started by the verif runner")
	}
	id := env.Property
	if id == "" {
		id = "C17"
	}
	rep := kit.NewReport(env, "channelmigration")
	rec, err := kit.NewRecorder(env.TraceFile)
	if err != nil {
		t.Fatal(err)
	}
	finish := func() {
		if err := rec.Close(); err != nil {
			rep.Infra("trace file: %v", err)
		}
		if err := rep.Finish(rec); err != nil {
			t.Fatal(err)
		}
	}
	dir := t.TempDir()
	if st, err := os.Stat("/dev/shm"); err == nil && st.IsDir() {
		if d, err := os.MkdirTemp("/dev/shm", "verif-c17-"); err == nil {
			dir = d
			defer os.RemoveAll(d)
		}
	}
	s, err := openSUT(dir)
	if err != nil {
		rep.Infra("open metadata DB / state machine: %v", err)
		finish()
		return
	}
	defer func() { _ = s.db.Close() }()
	caseNo := 0

	// ---- spec -> code: replay TLC behaviours ----
	behs, err := kit.LoadBehaviours(env.BehFile)
	if err != nil {
		rep.Infra("load behaviours: %v", err)
	}
	replayAccepted := map[string]int{}
	for bi, b := range behs {
		if len(b.Steps) == 0 || kit.Str(b.Steps[0].Ev, "a") != "Init" {
			rep.Infra("behaviour %d does not start with Init", bi)
			continue
		}
		caseNo++
		if err := s.begin(caseNo, kit.Map(b.Steps[0].Ev, "cfg")); err != nil {
			rep.Infra("behaviour %d: %v", bi, err)
			break
		}
		if p, err := s.proj(); err != nil {
			rep.Infra("behaviour %d: %v", bi, err)
			break
		} else if d := kit.Diff(b.Steps[0].St, p); d != "" {
			rep.Infra("behaviour %d: initial state differs: %s", bi, d)
			break
		}
		for si, st := range b.Steps[1:] {
			res, proj, err := s.apply(st.Ev)
			rep.Cover(kit.Str(st.Ev, "a"))
			if err != nil {
				rep.Infra("behaviour %d step %d %s: %v", bi, si+1, kit.JSON(kit.CloneEv(st.Ev)), err)
				break
			}
			if kit.Str(res, "r") == "ok" {
				replayAccepted[kit.Str(st.Ev, "a")]++
			}
			if act := activeRows(proj); len(act) > 1 {
				rep.Violate(id, "one-active", fmt.Sprintf("step %d %s answered %s and left %d active task rows %v on one channel", si+1, kit.JSON(kit.CloneEv(st.Ev)), kit.JSON(res), len(act), act),
					map[string]any{"behaviour": b, "step": si + 1, "observed": res, "observed_state": proj})
				break
			}
			if d := kit.Diff(st.Ev["res"], res); d != "" {
				rep.Violate(id, "reply", fmt.Sprintf("step %d %s: apply result %s", si+1, kit.JSON(kit.CloneEv(st.Ev)), d),
					map[string]any{"behaviour": b, "step": si + 1, "observed": res, "observed_state": proj})
				break
			}
			if d := kit.Diff(st.St, proj); d != "" {
				rep.Violate(id, "state", fmt.Sprintf("step %d %s: stored rows %s", si+1, kit.JSON(kit.CloneEv(st.Ev)), d),
					map[string]any{"behaviour": b, "step": si + 1, "observed": proj})
				break
			}
		}
		rep.Replayed(len(b.Steps) - 1)
		if bi == 0 {
			rep.Sample(b)
		}
	}

	rep.Extra("replay_accepted", replayAccepted)

	// ---- code -> spec: seeded random driver, trace validated by TLC ----
	rng := env.Rand()
	d := &driver{s: s, rng: rng}
	traces := env.Pick(120, 500)
	// the last `batchTraces` traces mix two-command apply batches into the command stream
	// (about every fifth draw); the ones before are one-command batches only
	batchTraces := env.Pick(40, 150)
	accepted := map[string]int{}
	batchReplies := map[string]int{}
	for tr := 0; tr < traces+batchTraces; tr++ {
		caseNo++
		d.batchEvery = 0
		if tr >= traces {
			d.batchEvery = 5
		}
		cfg := randomCfg(rng)
		if err := s.begin(caseNo, cfg); err != nil {
			rep.Infra("trace %d: %v", tr, err)
			break
		}
		st, err := s.proj()
		if err != nil {
			rep.Infra("projection: %v", err)
			break
		}
		rec.Begin(map[string]any{"cfg": cfg}, st)
		steps := 25 + rng.Intn(40)
		if tr >= traces {
			steps = 12 + rng.Intn(24)
		}
		var hist []any
		for i := 0; i < steps; i++ {
			ev, err := d.next()
			if err != nil {
				rep.Infra("trace %d step %d: %v", tr, i, err)
				finish()
				return
			}
			ev, _ = kit.Canon(ev).(map[string]any) // the JSON shape the specification sees
			res, proj, err := s.apply(ev)
			if err != nil {
				rep.Infra("trace %d step %d %s: %v", tr, i, kit.JSON(ev), err)
				finish()
				return
			}
			ev["res"] = res
			rec.Step(ev, proj)
			rep.Cover(kit.Str(ev, "a"))
			if kit.Str(res, "r") == "ok" {
				accepted[kit.Str(ev, "a")]++
			}
			if kit.Str(ev, "a") == "Batch2" {
				batchReplies[kit.JSON(res["rs"])]++
			}
			hist = append(hist, map[string]any{"ev": ev, "st": proj})
			if act := activeRows(proj); len(act) > 1 {
				rep.Violate(id, "one-active", fmt.Sprintf("driver trace %d step %d %s left %d active task rows %v on one channel", tr, i, kit.JSON(ev), len(act), act),
					map[string]any{"cfg": cfg, "steps": hist})
				finish()
				return
			}
		}
	}
	rep.Extra("driver_batch2_replies", batchReplies)
	rep.Extra("driver_accepted", accepted)

	// ---- the known deviation ----
	caseNo++
	probeLateReset(s, caseNo, rep, id)

	// ---- two racing creates in one apply batch ----
	probeSameBatchCreates(s, &caseNo, rep, id)
	finish()
}

package slotraft

// TestVerifSlotRaft is started by the runner (checks/C12.json).
//
// Method B (trace validation) for property C12 "Slot Raft replicas apply identical command
// sequences": a seeded driver runs random workloads and faults against a real three-replica
// multiraft.Runtime cluster (see cluster_test.go) and records, in one global order,
//
//	Propose(n, v)                         a caller hands command v to Runtime.Propose on node n
//	Save(n, ents, sn, so, sc)             Storage.Save returned: entries [index, term, value] and/or a
//	                                      snapshot at index sn taken by node so with content sc
//	Apply(n, cmds)                        StateMachine.Apply / ApplyBatch took effect
//	Mark(n, i)                            Storage.MarkApplied(i) returned
//	Restore(n, i, boot, cmds)             StateMachine.Restore took effect (boot: while opening the slot)
//	Result(n, v, ok, res{i, t})           Future.Wait returned for proposal v
//	Crash(n) / Restart(n)                 kill (at a storage / state-machine call) or Close; reopen
//
// The runner has TLC validate every trace against specs/SlotRaft/Trace.tla, which evaluates the C12
// formulas of specs/SlotRaft/SlotRaft.tla after every event.  The oracle is purely order-based.

import (
	"context"
	"encoding/binary"
	"fmt"
	"math/rand"
	"os"
	"sync"
	"testing"
	"time"

	"github.com/WuKongIM/WuKongIM/pkg/slot/multiraft"
	"verif/runner/kit"
)

func TestVerifSlotRaft(t *testing.T) {
	env, ok := kit.LoadEnv()
	if !ok {
		t.Skip("not started by the verif runner")
	}
	rep := kit.NewReport(env, "slotraft")
	rec, err := kit.NewRecorder("") // counts only; the trace file is written by tracer
	if err != nil {
		t.Fatal(err)
	}
	tr, err := newTracer(env.TraceFile, rec)
	if err != nil {
		t.Fatal(err)
	}
	// a result file exists from the start: if a broken runtime panics the test binary, the runner
	// still gets the traces recorded so far
	_ = rep.Finish(rec)

	base := env.OutDir
	if st, err := os.Stat("/dev/shm"); err == nil && st.IsDir() {
		if d, err := os.MkdirTemp("/dev/shm", "verif-slotraft-"); err == nil {
			base = d
			defer os.RemoveAll(d)
		}
	}
	traces := env.Pick(6, 30)
	steps := env.Pick(32, 50)
	rng := env.Rand()
	scenarios := env.Pick(2, 4)
	if os.Getenv("VERIF_SLOTRAFT_PARTS") == "random" { // mutation trials: random driver only
		scenarios = 0
	}
	for i := 0; i < scenarios; i++ {
		dir, derr := os.MkdirTemp(base, "scenario-")
		if derr != nil {
			rep.Infra("tempdir: %v", derr)
			break
		}
		err := scenarioQueuedProposalAcrossStepDown(rng, rep, tr, dir)
		_ = os.RemoveAll(dir)
		_ = rep.Finish(rec)
		if err != nil {
			rep.Infra("scenario %d: %v", i, err)
			break
		}
	}
	// aimed schedule 2: ONE Ready whose committed entries are normal..., conf change, normal... (both
	// state-machine flavours of applyCommittedEntries: ApplyBatch and one-by-one Apply)
	mixedReached := 0
	mixed := mixedBatchPlan(rng, env.Pick(6, 16))
	if os.Getenv("VERIF_SLOTRAFT_PARTS") == "random" {
		mixed = nil
	}
	for i, shape := range mixed {
		dir, derr := os.MkdirTemp(base, "mixed-")
		if derr != nil {
			rep.Infra("tempdir: %v", derr)
			break
		}
		reached, err := scenarioMixedCommittedBatch(rng, rep, tr, dir, shape)
		_ = os.RemoveAll(dir)
		_ = rep.Finish(rec)
		if err != nil {
			rep.Infra("mixed-batch scenario %d (%+v): %v", i, shape, err)
			break
		}
		if reached {
			mixedReached++
		}
	}
	if len(mixed) > 0 && mixedReached == 0 {
		// not an infrastructure failure: whether a schedule reaches its shape depends on the machine's
		// timing (vp check #6: none of six did on a freshly restored sandbox); the count is in the
		// evidence (mixed_batch_schedules_reached) and the random driver draws the same shape
		rep.AddExtra("mixed_batch_schedules_none_reached", 1)
	}
	rep.AddExtra("mixed_batch_schedules_reached", mixedReached)
	for i := 0; i < traces; i++ {
		dir, derr := os.MkdirTemp(base, "cluster-")
		if derr != nil {
			rep.Infra("tempdir: %v", derr)
			break
		}
		err := randomTrace(rng, rep, tr, dir, i, steps)
		_ = os.RemoveAll(dir)
		_ = rep.Finish(rec)
		if err != nil {
			rep.Infra("trace %d: %v", i, err)
			break
		}
	}
	if err := tr.close(); err != nil {
		rep.Infra("trace file: %v", err)
	}
	if covered("ResultOK") == 0 || covered("Apply") == 0 {
		rep.Infra("vacuous run: no proposal was acknowledged / applied")
	}
	if err := rep.Finish(rec); err != nil {
		t.Fatal(err)
	}
	_ = os.Stdout.Sync()
}

// ---- proposals ---------------------------------------------------------------------------------------------

type proposals struct {
	c      *cluster
	ctx    context.Context
	cancel context.CancelFunc
	wg     sync.WaitGroup
	mu     sync.Mutex
	next   uint64
	acked  map[uint64]int // slot -> acknowledged proposals
	maxIdx map[uint64]uint64
	open   int
	phase  string // driver phase, for diagnostics of futures that never resolve
	oks    []ackRec
}

type ackRec struct {
	node         uint64
	slot         uint64
	pid, dv      uint64
	index, term  uint64
}

func (p *proposals) propose(n *node, slot uint64) bool {
	rt := n.runtime()
	if rt == nil {
		return false
	}
	p.mu.Lock()
	p.next++
	pid := p.next
	phase := p.phase
	p.mu.Unlock()
	p.c.tr.emit(slot, kit.Ev("Propose", "n", n.id, "v", pid), nil)
	p.c.count("Propose")
	fut, err := rt.Propose(context.Background(), multiraft.SlotID(slot), encodeProposal(pid))
	if err != nil {
		p.c.count("ProposeRefused")
		return false // not accepted: never enters the log
	}
	p.mu.Lock()
	p.open++
	p.mu.Unlock()
	p.wg.Add(1)
	go func() {
		defer p.wg.Done()
		res, err := fut.Wait(p.ctx)
		p.mu.Lock()
		p.open--
		p.mu.Unlock()
		if err != nil {
			p.c.tr.emit(slot, kit.Ev("Result", "n", n.id, "v", pid, "ok", false, "why", err.Error()), nil)
			if p.ctx.Err() != nil {
				// accepted by Runtime.Propose but not resolved until the cluster was closed
				p.c.count("ResultNeverResolved")
				p.c.count("ResultNeverResolved@" + phase)
			} else {
				p.c.count("ResultError")
			}
			return
		}
		dv := uint64(0)
		if len(res.Data) == 8 {
			dv = binary.BigEndian.Uint64(res.Data)
		}
		if dv != pid && !n.everSaved(slot, res.Index, pid) {
			// shape of the defect fixed by /repo 5bdfca2f5 (a follower forwarded the proposal and bound its
			// future to a foreign entry): reported under its signature; the event is recorded as it is,
			// so the trace validation rejects it as well
			p.c.count("ResultForeign")
			p.c.rep.ViolateSig("C12", "ack", fmt.Sprintf("Future of proposal %d on node %d resolved with Index=%d Term=%d Data=result of command %d: the replica never saved an entry carrying command %d at that index (future bound to a foreign entry)",
				pid, n.id, res.Index, res.Term, dv, pid), sigForeignAck,
				map[string]any{"random_trace": true, "slot": slot, "ack": map[string]any{"node": n.id, "proposal": pid, "index": res.Index, "term": res.Term, "data_is_result_of": dv}})
		}
		p.c.tr.emit(slot, map[string]any{"a": "Result", "n": n.id, "v": pid, "ok": true, "dv": dv,
			"res": map[string]any{"i": res.Index, "t": res.Term}}, nil)
		p.c.count("ResultOK")
		p.mu.Lock()
		p.oks = append(p.oks, ackRec{node: n.id, slot: slot, pid: pid, dv: dv, index: res.Index, term: res.Term})
		p.acked[slot]++
		if res.Index > p.maxIdx[slot] {
			p.maxIdx[slot] = res.Index
		}
		p.mu.Unlock()
	}()
	return true
}

// ---- the random driver ------------------------------------------------------------------------------------------

func waitUntil(d time.Duration, cond func() bool) bool {
	deadline := time.Now().Add(d)
	for {
		if cond() {
			return true
		}
		if time.Now().After(deadline) {
			return false
		}
		time.Sleep(500 * time.Microsecond)
	}
}

func randomTrace(rng *rand.Rand, rep *kit.Report, tr *tracer, dir string, idx, steps int) error {
	cfg := clusterCfg{
		durable:      true,
		slots:        []uint64{11},
		checkQuorum:  rng.Intn(2) == 0,
		preVote:      rng.Intn(2) == 0,
		maxApplying:  []int{0, 0, 1, 2}[rng.Intn(4)],
		trigger:      []uint64{3, 5, 8}[rng.Intn(3)],
		workers:      1 + rng.Intn(3),
		tick:         time.Duration(1+rng.Intn(3)) * time.Millisecond,
		electionTick: 8 + rng.Intn(8),
		lagP:         []float64{0, 0.3, 0.7}[rng.Intn(3)],
		lagMax:       time.Duration(1+rng.Intn(5)) * time.Millisecond,
	}
	// Every fourth trace belongs to one class, so that each tier covers all of them:
	//   0  production state machine, no snapshots at all: restarts resume from the state machine's own
	//      durable applied index / Storage.MarkApplied
	//   1  production state machine, frequent automatic compaction (restart on a snapshot, snapshot catch-up)
	//   2  plain state machine (Storage.MarkApplied after every apply task), orderly restarts
	//   3  any mix
	manualCompaction := true
	switch idx % 4 {
	case 0:
		cfg.trigger, manualCompaction = 1<<40, false
	case 1:
	case 2:
		cfg.durable = false
		cfg.single = rng.Intn(2) == 0 // plain multiraft.StateMachine without ApplyBatch
		if rng.Intn(2) == 0 {
			cfg.trigger, manualCompaction = 1<<40, false
		}
	default:
		cfg.durable = rng.Intn(4) != 0
		cfg.single = rng.Intn(3) == 0
		if rng.Intn(3) == 0 {
			cfg.trigger = 1 << 40
		}
	}
	if rng.Intn(3) == 0 {
		cfg.slots = []uint64{11, 12}
	}
	tr.begin(cfg.slots, map[string]any{"durable": cfg.durable})
	defer tr.end()
	c, err := newCluster(dir, cfg, tr, rep, rng)
	if err != nil {
		return err
	}
	c.net.mu.Lock()
	c.net.loss = []float64{0, 0.02, 0.08}[rng.Intn(3)]
	c.net.dup = []float64{0, 0.05, 0.15}[rng.Intn(3)]
	c.net.delayP = []float64{0, 0.2, 0.5}[rng.Intn(3)]
	c.net.maxDelay = time.Duration(2+rng.Intn(10)) * time.Millisecond
	c.net.mu.Unlock()

	ctx, cancel := context.WithCancel(context.Background())
	p := &proposals{c: c, ctx: ctx, cancel: cancel, acked: map[uint64]int{}, maxIdx: map[uint64]uint64{}}
	rep.AddExtra("traces_"+map[bool]string{true: "durable_sm", false: "plain_sm"}[cfg.durable], 1)
	if len(cfg.slots) > 1 {
		rep.AddExtra("traces_two_slots", 1)
	}
	if cfg.single {
		rep.AddExtra("traces_sm_without_applybatch", 1)
	}

	var down *node
	learner := map[uint64]bool{} // slot -> learner 4 currently added
	pickSlot := func() uint64 { return cfg.slots[rng.Intn(len(cfg.slots))] }
	upNodes := func() []*node {
		out := []*node{}
		for _, id := range c.ids {
			if n := c.nodes[id]; n != down && n.runtime() != nil && !n.isDead() {
				out = append(out, n)
			}
		}
		return out
	}
	pickUp := func() *node { u := upNodes(); return u[rng.Intn(len(u))] }
	waitLeader := func(slot uint64, d time.Duration) uint64 {
		var l uint64
		waitUntil(d, func() bool { l = c.leaderOf(slot); return l != 0 })
		return l
	}
	burst := func(n *node, slot uint64, k int) {
		for j := 0; j < k; j++ {
			p.propose(n, slot)
		}
	}
	proposeSomewhere := func(slot uint64, k int) {
		l := c.leaderOf(slot)
		if l == 0 || rng.Intn(5) == 0 {
			burst(pickUp(), slot, k)
			return
		}
		burst(c.nodes[l], slot, k)
	}
	toggleLearnerOn := func(l uint64, slot uint64) {
		if l == 0 {
			return
		}
		rt := c.nodes[l].runtime()
		if rt == nil {
			return
		}
		change := multiraft.ConfigChange{Type: multiraft.AddLearner, NodeID: 4}
		if learner[slot] {
			change.Type = multiraft.RemoveVoter
		}
		if _, err := rt.ChangeConfig(context.Background(), multiraft.SlotID(slot), change); err == nil {
			learner[slot] = !learner[slot]
			rep.Cover("ChangeConfig")
		}
	}
	toggleLearner := func(slot uint64) { toggleLearnerOn(c.leaderOf(slot), slot) }
	settle := func(d time.Duration) bool {
		return waitUntil(d, func() bool {
			for _, s := range cfg.slots {
				want := -1
				for _, n := range upNodes() {
					st, ok := c.status(n, s)
					if !ok || st.AppliedIndex < st.CommitIndex {
						return false
					}
					if l := n.smLen(s); want == -1 {
						want = l
					} else if l != want {
						return false
					}
				}
			}
			return true
		})
	}
	takeDown := func(n *node) error {
		if err := c.stop(n); err != nil {
			return err
		}
		down = n
		return nil
	}
	bringUp := func() error {
		if down == nil {
			return nil
		}
		n := down
		down = nil
		return c.start(n, false)
	}

	// let every group elect a leader and commit something before faults start
	for _, s := range cfg.slots {
		if waitLeader(s, 20*time.Second) == 0 {
			c.close()
			cancel()
			return fmt.Errorf("no leader elected for slot %d", s)
		}
		proposeSomewhere(s, 2)
	}
	settle(5 * time.Second)

	p.setPhase("run")
	et := time.Duration(cfg.electionTick) * cfg.tick // one election timeout (pacing of the driver only)
	for step := 0; step < steps; step++ {
		slot := pickSlot()
		if rng.Intn(4) != 0 {
			waitLeader(slot, 10*et) // mostly work against a cluster that has a leader
		}
		switch r := rng.Intn(112); {
		case r >= 100: // proposals, a conf change, proposals queued on the leader while its worker is parked in a Save
			l := c.leaderOf(slot)
			if l == 0 || c.nodes[l] == down || c.nodes[l].isDead() {
				break
			}
			ld := c.nodes[l]
			ld.hold("save")
			burst(ld, slot, 1)
			if !waitUntil(20*et+200*time.Millisecond, ld.isHolding) {
				ld.unhold()
				break
			}
			// optionally the acknowledgements of the followers are lost for a while, so that the leader
			// learns of the whole span at once (one Ready with normal, conf-change, normal committed entries)
			oneWay := rng.Intn(3) != 0
			if oneWay {
				for _, id := range c.ids {
					if id != l {
						c.net.setBlockedOneWay(id, l, true)
					}
				}
			}
			burst(ld, slot, rng.Intn(3))
			toggleLearnerOn(l, slot)
			burst(ld, slot, rng.Intn(4))
			parkedAt := ld.lastSavedIndex(slot)
			ld.unhold()
			rep.Cover("MixedBurstBehindHeldSave")
			if oneWay {
				// until the followers hold what the leader saved after the parked Save (pacing only)
				waitUntil(3*et, func() bool {
					li := ld.lastSavedIndex(slot)
					if li <= parkedAt {
						return false
					}
					for _, id := range c.ids {
						if n := c.nodes[id]; n != ld && n != down && !n.isDead() && n.lastSavedIndex(slot) < li {
							return false
						}
					}
					return true
				})
				for _, id := range c.ids {
					if id != l {
						c.net.setBlockedOneWay(id, l, false)
					}
				}
			}
		case r < 34: // plain workload
			proposeSomewhere(slot, 1+rng.Intn(4))
			if rng.Intn(6) == 0 {
				toggleLearner(slot)
				proposeSomewhere(slot, 1+rng.Intn(2))
			}
		case r < 42: // partition one node (the leader more often than not), keep working
			u := upNodes()
			victim := u[rng.Intn(len(u))]
			if l := c.leaderOf(slot); l != 0 && rng.Intn(3) != 0 && c.nodes[l] != down {
				victim = c.nodes[l]
			}
			for _, id := range c.ids {
				if id != victim.id {
					c.net.setBlocked(victim.id, id, true)
				}
			}
			rep.Cover("Partition")
			// the isolated (possibly stale) leader still accepts proposals for a while
			burst(victim, slot, 1+rng.Intn(3))
			time.Sleep(time.Duration(cfg.electionTick) * cfg.tick * time.Duration(1+rng.Intn(3)))
			proposeSomewhere(slot, 1+rng.Intn(4))
			burst(victim, slot, rng.Intn(2))
			if rng.Intn(2) == 0 {
				time.Sleep(time.Duration(cfg.electionTick) * cfg.tick)
				proposeSomewhere(slot, 1+rng.Intn(3))
			}
		case r < 46: // heal
			c.net.healAll()
			rep.Cover("Heal")
		case r < 50: // a stale leader is reconnected while callers still hand it proposals
			l := c.leaderOf(slot)
			if l == 0 || c.nodes[l] == down {
				break
			}
			old := c.nodes[l]
			others := []uint64{}
			for _, id := range c.ids {
				if id != l {
					c.net.setBlocked(l, id, true)
					others = append(others, id)
				}
			}
			burst(old, slot, 1+rng.Intn(2))
			var nl uint64
			waitUntil(time.Duration(6*cfg.electionTick)*cfg.tick+500*time.Millisecond, func() bool {
				for _, id := range others {
					if st, ok := c.status(c.nodes[id], slot); ok && st.Role == multiraft.RoleLeader {
						nl = id
						return true
					}
				}
				return false
			})
			if nl != 0 {
				burst(c.nodes[nl], slot, 2+rng.Intn(3))
				rep.Cover("StaleLeaderReconnected")
			}
			burst(old, slot, 1+rng.Intn(3))
			c.net.healAll()
			for k := 0; k < 3; k++ {
				burst(old, slot, 1+rng.Intn(2))
			}
		case r < 56: // leadership transfer
			if l := c.leaderOf(slot); l != 0 {
				if rt := c.nodes[l].runtime(); rt != nil {
					target := c.ids[rng.Intn(len(c.ids))]
					if err := rt.TransferLeadership(context.Background(), multiraft.SlotID(slot), multiraft.NodeID(target)); err == nil {
						rep.Cover("TransferLeadership")
					}
				}
				proposeSomewhere(slot, 1+rng.Intn(2))
			}
		case r < 66: // take a node down
			if down != nil {
				if err := bringUp(); err != nil {
					c.close()
					cancel()
					return err
				}
				break
			}
			n := pickUp()
			if l := c.leaderOf(slot); l != 0 && rng.Intn(2) == 0 {
				n = c.nodes[l]
			}
			if cfg.durable && rng.Intn(4) != 0 {
				// kill at a storage / state-machine call of the pipeline
				kinds := [][]string{{"apply"}, {"save", "savesnap"}, {"mark", "apply"}, {"save", "apply", "mark", "savesnap", "restore", "snap"}, {"savesnap", "snap", "restore"}}[rng.Intn(5)]
				n.arm(1+rng.Intn(4), rng.Intn(2) == 0, kinds...)
				// keep the pipeline of that node busy until the armed call comes by
				for k := 0; k < 12 && !n.isDead(); k++ {
					proposeSomewhere(slot, 1+rng.Intn(3))
					if k == 4 && manualCompaction {
						if rt := n.runtime(); rt != nil {
							cctx, ccancel := context.WithTimeout(context.Background(), time.Second)
							_, _ = rt.CompactLog(cctx, multiraft.SlotID(slot))
							ccancel()
						}
					}
					waitUntil(et, n.isDead)
				}
				if waitUntil(time.Duration(100+rng.Intn(200))*time.Millisecond, n.isDead) {
					rep.Cover("Kill@" + n.killedAtSafe())
				} else {
					n.disarm()
					rep.Cover("KillNotReached")
				}
			} else {
				proposeSomewhere(slot, rng.Intn(4))
				rep.Cover("CloseOrderly")
			}
			if err := takeDown(n); err != nil {
				c.close()
				cancel()
				return err
			}
		case r < 74: // restart the node that is down
			if err := bringUp(); err != nil {
				c.close()
				cancel()
				return err
			}
		case r < 82: // manual compaction
			n := pickUp()
			if rt := n.runtime(); rt != nil && manualCompaction {
				cctx, ccancel := context.WithTimeout(context.Background(), 5*time.Second)
				res, err := rt.CompactLog(cctx, multiraft.SlotID(slot))
				ccancel()
				if err == nil && res.Compacted {
					rep.Cover("CompactLog")
				}
			}
		case r < 90: // let the cluster catch up
			settle(time.Duration(200+rng.Intn(800)) * time.Millisecond)
		default:
			time.Sleep(time.Duration(1+rng.Intn(8)) * time.Millisecond)
		}
		time.Sleep(time.Duration(rng.Int63n(int64(et) + 1)))
		// a node killed by an armed gate while the driver was doing something else
		for _, id := range c.ids {
			if n := c.nodes[id]; n != down && n.runtime() != nil && n.isDead() {
				if down != nil {
					if err := bringUp(); err != nil {
						c.close()
						cancel()
						return err
					}
				}
				rep.Cover("Kill@" + n.killedAtSafe())
				if err := takeDown(n); err != nil {
					c.close()
					cancel()
					return err
				}
			}
		}
	}

	p.setPhase("winddown")
	// wind down: heal, restart, let everybody catch up (so late replicas replay / restore too)
	c.net.healAll()
	c.net.mu.Lock()
	c.net.loss, c.net.dup = 0, 0
	c.net.mu.Unlock()
	if err := bringUp(); err != nil {
		c.close()
		cancel()
		return err
	}
	for _, s := range cfg.slots {
		if waitLeader(s, 10*time.Second) != 0 {
			proposeSomewhere(s, 1)
		}
	}
	converged := settle(15 * time.Second)
	if converged {
		rep.AddExtra("traces_converged", 1)
	} else {
		rep.AddExtra("traces_not_converged", 1)
		if os.Getenv("VERIF_SLOTRAFT_DEBUG") != "" {
			for _, s := range cfg.slots {
				for _, id := range c.ids {
					n := c.nodes[id]
					st, ok := c.status(n, s)
					var serr error
					if rt := n.runtime(); rt != nil {
						_, serr = rt.Status(multiraft.SlotID(s))
					}
					fmt.Fprintf(os.Stderr, "NOTCONVERGED trace %d cfg %+v slot %d node %d ok=%v err=%v role=%v leader=%d term=%d commit=%d applied=%d smlen=%d dead=%v\n",
						idx, cfg, s, id, ok, serr, st.Role, st.LeaderID, st.Term, st.CommitIndex, st.AppliedIndex, n.smLen(s), n.isDead())
				}
			}
		}
	}
	c.close()
	cancel()
	p.wg.Wait()

	// sanity of the run itself (not of the property): something must have been acknowledged
	total := 0
	for _, s := range cfg.slots {
		total += p.acked[s]
	}
	if total == 0 {
		rep.AddExtra("traces_without_acknowledgement", 1)
	}
	rep.AddExtra("proposals_acknowledged", total)
	c.net.mu.Lock()
	rep.AddExtra("messages_sent", int(c.net.sent))
	rep.AddExtra("messages_dropped", int(c.net.dropped))
	rep.AddExtra("messages_duplicated", int(c.net.dupped))
	rep.AddExtra("messages_delayed", int(c.net.delayed))
	c.net.mu.Unlock()

	// direct cross-check of the final state machines (the trace validation checks every step; this
	// only makes a divergence readable at once)
	checkStateMachines(c, rep, map[string]any{"trace": idx})
	return nil
}

// checkStateMachines compares the replicas' final state machines directly: the same (term, command) at
// every index on every replica, indexes strictly increasing on each (applied once, in order).
func checkStateMachines(c *cluster, rep *kit.Report, ctx map[string]any) bool {
	for _, s := range c.cfg.slots {
		logs := map[uint64][]cmdRec{}
		for _, id := range c.ids {
			logs[id] = c.nodes[id].smCopy(s)
		}
		replay := map[string]any{"slot": s, "state_machines": logs}
		for k, v := range ctx {
			replay[k] = v
		}
		at := map[uint64]cmdRec{}
		for _, id := range c.ids {
			prev := uint64(0)
			for _, e := range logs[id] {
				if o, ok := at[e.I]; ok && o != e {
					rep.Violate("C12", "final", fmt.Sprintf("slot %d index %d: node %d applied (term %d, cmd %d) but another replica applied (term %d, cmd %d)", s, e.I, id, e.T, e.V, o.T, o.V), replay)
					return false
				}
				at[e.I] = e
				if e.I <= prev {
					rep.Violate("C12", "final", fmt.Sprintf("slot %d node %d: applied index %d after index %d", s, id, e.I, prev), replay)
					return false
				}
				prev = e.I
			}
		}
	}
	return true
}

func (p *proposals) setPhase(s string) {
	p.mu.Lock()
	p.phase = s
	p.mu.Unlock()
}

func (p *proposals) ackedCount(slot uint64) int {
	p.mu.Lock()
	defer p.mu.Unlock()
	return p.acked[slot]
}

func (p *proposals) openCount() int {
	p.mu.Lock()
	defer p.mu.Unlock()
	return p.open
}

func (n *node) killedAtSafe() string {
	n.mu.Lock()
	defer n.mu.Unlock()
	return n.killedAt
}

// ---- aimed schedules (Method A flavour: storage gates force one interleaving) ------------------------------------

// scenarioQueuedProposalAcrossStepDown: a proposal is accepted by Runtime.Propose while the local replica
// still believes it leads, but the slot worker reaches it only after raft stepped down to a follower
// that knows the new leader.  The worker is parked inside Storage.Save (which has taken effect) while
// the proposal is queued and the partition heals.  Whatever the runtime does with that proposal, a
// future that resolves successfully must name the entry that holds THIS proposal's command.
func scenarioQueuedProposalAcrossStepDown(rng *rand.Rand, rep *kit.Report, tr *tracer, dir string) error {
	cfg := clusterCfg{durable: true, slots: []uint64{11}, checkQuorum: false, preVote: false,
		maxApplying: 0, trigger: 1 << 40, workers: 1, tick: 2 * time.Millisecond, electionTick: 10}
	// recorded for TLC like every trace; checkAcks below is an additional order-free oracle that
	// reports the defect under its signature
	tr.begin(cfg.slots, map[string]any{"durable": cfg.durable})
	defer tr.end()
	c, err := newCluster(dir, cfg, tr, rep, rng)
	if err != nil {
		return err
	}
	ctx, cancel := context.WithCancel(context.Background())
	p := &proposals{c: c, ctx: ctx, cancel: cancel, acked: map[uint64]int{}, maxIdx: map[uint64]uint64{}}
	p.setPhase("scenario")
	var schedule []string
	note := func(format string, a ...any) { schedule = append(schedule, fmt.Sprintf(format, a...)) }
	defer func() {
		c.close()
		cancel()
		p.wg.Wait()
		checkAcks(c, p, rep, "QueuedProposalAcrossStepDown", schedule)
	}()
	const slot = 11
	var l uint64
	if !waitUntil(20*time.Second, func() bool { l = c.leaderOf(slot); return l != 0 }) {
		return fmt.Errorf("scenario: no leader")
	}
	old := c.nodes[l]
	note("leader n%d commits two commands", l)
	p.propose(old, slot)
	p.propose(old, slot)
	waitUntil(5*time.Second, func() bool { return p.ackedCount(slot) >= 2 })
	note("isolate n%d", l)
	others := []uint64{}
	for _, id := range c.ids {
		if id != l {
			c.net.setBlocked(l, id, true)
			others = append(others, id)
		}
	}
	var nl uint64
	if !waitUntil(10*time.Second, func() bool {
		for _, id := range others {
			if st, ok := c.status(c.nodes[id], slot); ok && st.Role == multiraft.RoleLeader {
				nl = id
				return true
			}
		}
		return false
	}) {
		return nil // no second leader emerged: schedule not reached (not an error)
	}
	note("n%d elected; commits three commands", nl)
	before := p.ackedCount(slot)
	for k := 0; k < 3; k++ {
		p.propose(c.nodes[nl], slot)
	}
	waitUntil(5*time.Second, func() bool { return p.ackedCount(slot) >= before+3 })
	// park the stale leader's worker in the Save of one more local entry
	note("park n%d's slot worker in Storage.Save of one more local entry; Propose x2 on n%d (accepted, queued); heal; wait until n%d's status is no longer Leader; release the Save", l, l, l)
	old.hold("save")
	p.propose(old, slot)
	if !waitUntil(5*time.Second, old.isHolding) {
		old.unhold()
		return nil
	}
	// queued behind the parked worker while the replica still reports itself leader
	queued := 0
	for k := 0; k < 2; k++ {
		if p.propose(old, slot) {
			queued++
		}
	}
	c.net.healAll()
	// a message of the new term reaches the stale leader's inbox
	waitUntil(5*time.Second, func() bool {
		st, ok := c.status(old, slot)
		return ok && st.Role != multiraft.RoleLeader
	})
	old.unhold()
	if queued > 0 {
		rep.Cover("Scenario:QueuedProposalAcrossStepDown")
	}
	// more traffic through the new leader, then let everything drain
	for k := 0; k < 2; k++ {
		p.propose(c.nodes[nl], slot)
	}
	waitUntil(3*time.Second, func() bool { return p.openCount() == 0 })
	return nil
}

// mixedShape is one aimed schedule of scenarioMixedCommittedBatch.
type mixedShape struct {
	durable bool // state machine with DurableAppliedIndex
	single  bool // state machine WITHOUT ApplyBatch (every command through StateMachine.Apply)
	gate    bool // the commands are queued while the leader's worker is parked in Storage.Save of the first one
	pre     int  // commands before the conf change
	post    int  // commands after the conf change
	remove  bool // the conf change removes a learner added before (else it adds one)
}

// mixedBatchPlan: the two flavours of applyCommittedEntries (ApplyBatch / one-by-one) with the span
// lengths that select its two paths (a span of one entry goes one-by-one also with ApplyBatch), gated
// and not; the rest of the budget is drawn at random.
func mixedBatchPlan(rng *rand.Rand, n int) []mixedShape {
	plan := []mixedShape{
		{durable: true, single: false, gate: false, pre: 1, post: 1},
		{durable: true, single: false, gate: true, pre: 1, post: 2},
		{durable: false, single: true, gate: false, pre: 2, post: 1},
		{durable: false, single: true, gate: true, pre: 1 + rng.Intn(2), post: rng.Intn(3)},
		{durable: false, single: false, gate: rng.Intn(2) == 0, pre: 1, post: rng.Intn(3), remove: true},
		{durable: true, single: true, gate: rng.Intn(2) == 0, pre: 1 + rng.Intn(3), post: 1 + rng.Intn(2)},
	}
	for len(plan) < n {
		plan = append(plan, mixedShape{durable: rng.Intn(2) == 0, single: rng.Intn(2) == 0, gate: rng.Intn(2) == 0,
			pre: 1 + rng.Intn(3), post: rng.Intn(4), remove: rng.Intn(3) == 0})
	}
	return plan[:n]
}

// scenarioMixedCommittedBatch: every replica receives, in ONE Ready, committed entries of the shape
// command x pre, conf change, command x post.  applyCommittedEntries flushes the span of commands
// collected so far before it applies the conf change and flushes again at the end; each command must
// reach the state machine exactly once and in index order whichever path (ApplyBatch / one-by-one) a
// span takes.
//
// How the shape is forced: the acknowledgements of both followers are dropped (one direction of the
// links only - they keep receiving appends and heartbeats, nobody campaigns) while the leader admits
// and replicates the commands and the conf change, so nothing of the span commits; once both
// followers have saved the whole span the links are healed: the next append response moves the
// leader's commit index over the whole span at once, and its next message does the same on the
// followers.  With gate=true the leader's worker is additionally parked inside Storage.Save of the
// first command while the rest is queued (one control batch, one Save, as in pkg/slot/multiraft's
// own control loop under load).  Judged by TLC on the recorded trace (Trace.tla: C12_InOrderOnce ...)
// and by the direct comparison of the final state machines.  reached=false: the cluster did not get
// into the shape (leader change, timeouts under load) - not an error.
func scenarioMixedCommittedBatch(rng *rand.Rand, rep *kit.Report, tr *tracer, dir string, sh mixedShape) (reached bool, err error) {
	cfg := clusterCfg{durable: sh.durable, single: sh.single, slots: []uint64{11}, checkQuorum: false, preVote: false,
		maxApplying: []int{0, 1}[rng.Intn(2)], trigger: 1 << 40, workers: 1, tick: 4 * time.Millisecond, electionTick: 25}
	tr.begin(cfg.slots, map[string]any{"durable": cfg.durable})
	defer tr.end()
	c, err := newCluster(dir, cfg, tr, rep, rng)
	if err != nil {
		return false, err
	}
	ctx, cancel := context.WithCancel(context.Background())
	p := &proposals{c: c, ctx: ctx, cancel: cancel, acked: map[uint64]int{}, maxIdx: map[uint64]uint64{}}
	p.setPhase("scenario-mixed")
	var schedule []string
	note := func(format string, a ...any) { schedule = append(schedule, fmt.Sprintf(format, a...)) }
	defer func() {
		c.net.healAll()
		for _, id := range c.ids {
			c.nodes[id].unhold()
		}
		c.close()
		cancel()
		p.wg.Wait()
		checkAcks(c, p, rep, "MixedCommittedBatch", schedule)
		checkStateMachines(c, rep, map[string]any{"scenario": "MixedCommittedBatch", "shape": fmt.Sprintf("%+v", sh), "schedule": schedule})
	}()
	const slot = 11
	var l uint64
	if !waitUntil(20*time.Second, func() bool { l = c.leaderOf(slot); return l != 0 }) {
		return false, fmt.Errorf("scenario: no leader")
	}
	ld := c.nodes[l]
	allCaughtUp := func() bool {
		li := ld.lastSavedIndex(slot)
		for _, id := range c.ids {
			n := c.nodes[id]
			st, ok := c.status(n, slot)
			if !ok || st.CommitIndex < li || st.AppliedIndex < st.CommitIndex || n.lastSavedIndex(slot) < li {
				return false
			}
		}
		return true
	}
	changeConfig := func(change multiraft.ConfigChange) (multiraft.Future, bool) {
		rt := ld.runtime()
		if rt == nil {
			return nil, false
		}
		fut, err := rt.ChangeConfig(context.Background(), multiraft.SlotID(slot), change)
		if err != nil {
			return nil, false
		}
		rep.Cover("ChangeConfig")
		return fut, true
	}
	note("leader n%d commits two commands; all replicas catch up", l)
	p.propose(ld, slot)
	p.propose(ld, slot)
	if !waitUntil(10*time.Second, func() bool { return p.ackedCount(slot) >= 2 && allCaughtUp() }) {
		return false, nil
	}
	change := multiraft.ConfigChange{Type: multiraft.AddLearner, NodeID: 4}
	if sh.remove {
		note("learner 4 is added (own Ready) so that the conf change of the span removes it")
		fut, ok := changeConfig(change)
		if !ok {
			return false, nil
		}
		wctx, wcancel := context.WithTimeout(ctx, 10*time.Second)
		_, werr := fut.Wait(wctx)
		wcancel()
		if werr != nil || !waitUntil(10*time.Second, allCaughtUp) {
			return false, nil
		}
		change.Type = multiraft.RemoveVoter
	}
	start := ld.lastSavedIndex(slot)
	total := uint64(sh.pre + 1 + sh.post)
	note("drop the followers' messages to n%d (one direction)", l)
	for _, id := range c.ids {
		if id != l {
			c.net.setBlockedOneWay(id, l, true)
		}
	}
	before := p.ackedCount(slot)
	queued := 0
	pre := sh.pre
	if sh.gate {
		note("park n%d's slot worker in Storage.Save of the first command", l)
		ld.hold("save")
		if p.propose(ld, slot) {
			queued++
		}
		pre--
		if !waitUntil(10*time.Second, ld.isHolding) {
			return false, nil
		}
	}
	note("on n%d: Propose x%d, ChangeConfig(%v node 4), Propose x%d", l, pre, change.Type, sh.post)
	for k := 0; k < pre; k++ {
		if p.propose(ld, slot) {
			queued++
		}
	}
	ccFut, ok := changeConfig(change)
	if !ok {
		return false, nil
	}
	for k := 0; k < sh.post; k++ {
		if p.propose(ld, slot) {
			queued++
		}
	}
	if sh.gate {
		note("release the Save")
		ld.unhold()
	}
	if queued != sh.pre+sh.post {
		return false, nil
	}
	// every replica has saved the whole span, nothing of it is committed
	if !waitUntil(10*time.Second, func() bool {
		for _, id := range c.ids {
			if c.nodes[id].lastSavedIndex(slot) < start+total {
				return false
			}
		}
		return true
	}) {
		return false, nil
	}
	st, ok := c.status(ld, slot)
	uncommitted := ok && st.Role == multiraft.RoleLeader && st.CommitIndex <= start && ld.lastSavedIndex(slot) == start+total
	note("all replicas saved indexes %d..%d, commit index of n%d is %d; heal", start+1, start+total, l, st.CommitIndex)
	c.net.healAll()
	wctx, wcancel := context.WithTimeout(ctx, 10*time.Second)
	res, werr := ccFut.Wait(wctx)
	wcancel()
	resolved := waitUntil(10*time.Second, func() bool { return p.ackedCount(slot) >= before+queued })
	if uncommitted && werr == nil && resolved && res.Index == start+uint64(sh.pre)+1 {
		reached = true
		rep.Cover("Scenario:MixedCommittedBatch")
		rep.Cover(fmt.Sprintf("Scenario:MixedCommittedBatch:batch=%v,pre=%d,post=%d", !sh.single, min(sh.pre, 2), min(sh.post, 2)))
	}
	// some more traffic, then let everything drain
	note("two more commands; drain")
	p.propose(ld, slot)
	p.propose(ld, slot)
	waitUntil(5*time.Second, func() bool { return p.openCount() == 0 && allCaughtUp() })
	return reached, nil
}

// checkAcks is the order-free oracle of the aimed schedules: a future resolved with (index, term) names
// the entry that carries this proposal's command on the replica that resolved it (and, through the
// final comparison of the state machines, on every replica).
func checkAcks(c *cluster, p *proposals, rep *kit.Report, scenario string, schedule []string) {
	p.mu.Lock()
	oks := append([]ackRec(nil), p.oks...)
	p.mu.Unlock()
	for _, a := range oks {
		var at *cmdRec
		log := c.nodes[a.node].smCopy(a.slot)
		for k := range log {
			if log[k].I == a.index {
				at = &log[k]
			}
		}
		if a.dv == a.pid && at != nil && at.V == a.pid && at.T == a.term {
			continue
		}
		holds := "nothing"
		if at != nil {
			holds = fmt.Sprintf("command %d (term %d)", at.V, at.T)
		}
		detail := fmt.Sprintf("Future of proposal %d on node %d resolved with Index=%d Term=%d Data=result of command %d, but index %d holds %s on that replica",
			a.pid, a.node, a.index, a.term, a.dv, a.index, holds)
		rep.ViolateSig("C12", "ack", detail, sigForeignAck,
			map[string]any{"scenario": scenario, "schedule": schedule, "ack": map[string]any{"node": a.node, "proposal": a.pid, "index": a.index, "term": a.term, "data_is_result_of": a.dv},
				"state_machine_of_that_node": triples(log)})
		return
	}
}

// signature of the defect found while building this check (known-findings.json: fixed by /repo 5bdfca2f5)
const sigForeignAck = "C12:future-bound-to-foreign-entry-after-follower-forwarded-proposal"

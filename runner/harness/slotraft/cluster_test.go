package slotraft

// Real three-replica multiraft.Runtime cluster for property C12:
//   - pkg/raftlog Pebble storage per node, wrapped by a recording Storage (Save / MarkApplied);
//   - a recording StateMachine whose state (ordered list of applied commands + applied index) is
//     "durable": it lives in the node object and survives runtime restarts, like the metadb-backed
//     pkg/slot/fsm.  Two flavours, as in the code: with DurableAppliedIndex (production) or plain;
//   - an in-process Transport with seeded loss, duplication, delay/reordering and a link matrix;
//   - a crash gate: a node can be "killed" at the n-th storage / state-machine call, before or
//     after the call took effect.  The call and every later mutating call of that node block; the
//     driver closes the runtime, releases the blocked calls with an error only once the runtime
//     is closed (so the runtime never acts on an injected error - it just dies), reopens the
//     Pebble directory and starts a new runtime on it.
//
// Every event gets its place in one global order under tracer.mu, taken at the call's
// linearization point (after a storage write returned, inside the state machine's critical section).

import (
	"bufio"
	"bytes"
	"context"
	"encoding/binary"
	"encoding/json"
	"errors"
	"fmt"
	"math/rand"
	"os"
	"path/filepath"
	"sync"
	"sync/atomic"
	"time"

	"github.com/WuKongIM/WuKongIM/pkg/raftlog"
	"github.com/WuKongIM/WuKongIM/pkg/slot/multiraft"
	"github.com/WuKongIM/WuKongIM/pkg/wklog"
	"go.etcd.io/raft/v3/raftpb"
	"verif/runner/kit"
)

var errDead = errors.New("verif: node was killed")

// ---- trace writer -----------------------------------------------------------------------------------

// tracer writes one trace per slot.  The primary slot is written through to the file at once (so a
// dying test binary leaves a valid prefix); the other slots are buffered and appended at the end.
type tracer struct {
	mu      sync.Mutex
	w       *bufio.Writer
	f       *os.File
	rec     *kit.Recorder // counts only
	primary uint64
	buf     map[uint64][]kit.Step
	open    bool
}

func newTracer(path string, rec *kit.Recorder) (*tracer, error) {
	if err := os.MkdirAll(filepath.Dir(path), 0o755); err != nil {
		return nil, err
	}
	f, err := os.Create(path)
	if err != nil {
		return nil, err
	}
	return &tracer{f: f, w: bufio.NewWriterSize(f, 1<<16), rec: rec}, nil
}

func (t *tracer) writeLine(s kit.Step) {
	raw, err := json.Marshal(s)
	if err != nil {
		panic(err)
	}
	t.w.Write(raw)
	t.w.WriteByte('\n')
	t.w.Flush()
}

func (t *tracer) begin(slots []uint64, cfg map[string]any) {
	t.mu.Lock()
	defer t.mu.Unlock()
	t.primary = slots[0]
	t.buf = map[uint64][]kit.Step{}
	t.open = true
	for _, s := range slots {
		init := kit.Step{Ev: map[string]any{"a": "Init", "cfg": cfg, "g": s}}
		if s == t.primary {
			t.rec.Begin(map[string]any{}, nil)
			t.writeLine(init)
		} else {
			t.buf[s] = []kit.Step{init}
		}
	}
}

// emit records one event of a slot (slot 0 = every slot: node-level events).
func (t *tracer) emit(slot uint64, ev map[string]any, st any) {
	t.mu.Lock()
	defer t.mu.Unlock()
	t.emitLocked(slot, ev, st)
}

func (t *tracer) emitLocked(slot uint64, ev map[string]any, st any) {
	if !t.open {
		return
	}
	if slot == 0 {
		t.emitLocked(t.primary, ev, st)
		for s := range t.buf {
			t.emitLocked(s, ev, st)
		}
		return
	}
	step := kit.Step{Ev: ev, St: st}
	if slot == t.primary {
		t.rec.Step(map[string]any{}, nil)
		t.writeLine(step)
		return
	}
	if _, ok := t.buf[slot]; ok {
		t.buf[slot] = append(t.buf[slot], step)
	}
}

func (t *tracer) end() {
	t.mu.Lock()
	defer t.mu.Unlock()
	t.open = false
	for _, steps := range t.buf {
		for i, s := range steps {
			if i == 0 {
				t.rec.Begin(map[string]any{}, nil)
			} else {
				t.rec.Step(map[string]any{}, nil)
			}
			t.writeLine(s)
		}
	}
	t.buf = nil
}

func (t *tracer) close() error {
	t.mu.Lock()
	defer t.mu.Unlock()
	if err := t.w.Flush(); err != nil {
		return err
	}
	return t.f.Close()
}

// ---- commands ----------------------------------------------------------------------------------------

const envelopeSize = 10 // multiraft proposal envelope: [hashSlot:2][createdAtMS:8]

func encodeProposal(pid uint64) []byte {
	out := make([]byte, envelopeSize+8)
	binary.BigEndian.PutUint64(out[2:10], uint64(time.Now().UnixMilli()))
	binary.BigEndian.PutUint64(out[envelopeSize:], pid)
	return out
}

// entryValue classifies a raft entry: command id (> 0) or 0 for entries the state machine never
// sees (empty entries of new leaders, conf changes).  -1 = a payload this harness did not write.
func entryValue(e raftpb.Entry) int64 {
	if e.Type != raftpb.EntryNormal || len(e.Data) == 0 {
		return 0
	}
	if len(e.Data) != envelopeSize+8 {
		return -1
	}
	return int64(binary.BigEndian.Uint64(e.Data[envelopeSize:]))
}

type cmdRec struct{ I, T, V uint64 }

func triples(cs []cmdRec) [][]uint64 {
	out := make([][]uint64, 0, len(cs))
	for _, c := range cs {
		out = append(out, []uint64{c.I, c.T, c.V})
	}
	return out
}

var snapMagic = []byte("VSMSNAP1")

func encodeSMSnapshot(origin uint64, log []cmdRec) []byte {
	out := append([]byte(nil), snapMagic...)
	out = binary.BigEndian.AppendUint64(out, origin)
	out = binary.BigEndian.AppendUint64(out, uint64(len(log)))
	for _, c := range log {
		out = binary.BigEndian.AppendUint64(out, c.I)
		out = binary.BigEndian.AppendUint64(out, c.T)
		out = binary.BigEndian.AppendUint64(out, c.V)
	}
	return out
}

// decodeSMSnapshot finds the state-machine payload inside snapshot bytes (multiraft wraps it in its own
// envelope when it travels through raft / storage; the payload is located by its magic).
func decodeSMSnapshot(data []byte) (origin uint64, log []cmdRec, ok bool) {
	i := bytes.Index(data, snapMagic)
	if i < 0 {
		return 0, nil, false
	}
	p := data[i+len(snapMagic):]
	if len(p) < 16 {
		return 0, nil, false
	}
	origin = binary.BigEndian.Uint64(p[0:8])
	n := binary.BigEndian.Uint64(p[8:16])
	p = p[16:]
	if uint64(len(p)) < n*24 {
		return 0, nil, false
	}
	log = make([]cmdRec, 0, n)
	for k := uint64(0); k < n; k++ {
		log = append(log, cmdRec{binary.BigEndian.Uint64(p[0:8]), binary.BigEndian.Uint64(p[8:16]), binary.BigEndian.Uint64(p[16:24])})
		p = p[24:]
	}
	return origin, log, true
}

// ---- node --------------------------------------------------------------------------------------------

type smState struct {
	log     []cmdRec
	applied uint64 // last applied command index or restored snapshot index
}

type node struct {
	c   *cluster
	id  uint64
	dir string

	rtMu sync.RWMutex
	rt   *multiraft.Runtime
	db   *raftlog.DB

	// gate: serialises the node's mutating storage / state-machine calls and implements the kill.
	mu       sync.Mutex
	dead     bool
	released chan struct{}
	armed    int             // kill at the armed-th matching call from now (0 = not armed)
	armAfter bool            // kill after the call took effect (else before)
	armKinds map[string]bool // call kinds that count
	killedAt string
	holdKind string        // the next call of this kind waits (after taking effect) until unhold
	holdCh   chan struct{} // closed by unhold
	holding  bool

	savedCmd map[[3]uint64]bool // (slot, index, command id) of every command entry this node saved
	lastSave map[uint64]uint64  // slot -> index of the last entry of the latest Save that carried entries
	sms      map[uint64]*smState // "durable" state machine state per slot
	booting atomic.Bool         // OpenSlot in progress (Restore during newSlot)
}

func (n *node) runtime() *multiraft.Runtime {
	n.rtMu.RLock()
	defer n.rtMu.RUnlock()
	return n.rt
}

// gate runs one mutating call.  exec performs it, record logs it (only when exec succeeded).
func (n *node) gate(kind string, exec func() error, record func()) error {
	if d := n.c.diskLag(kind); d > 0 {
		time.Sleep(d) // simulated device latency before the call takes effect (not an oracle)
	}
	n.mu.Lock()
	if n.dead {
		ch := n.released
		n.mu.Unlock()
		<-ch
		return errDead
	}
	before, after := false, false
	if n.armed > 0 && n.armKinds[kind] {
		n.armed--
		if n.armed == 0 {
			before, after = !n.armAfter, n.armAfter
		}
	}
	if before {
		n.dieLocked(kind + ":before")
		ch := n.released
		n.mu.Unlock()
		<-ch
		return errDead
	}
	err := exec()
	if err == nil && record != nil {
		record()
	}
	if n.holdKind == kind && n.holdCh != nil && !after {
		// scenario support: park this call (it has taken effect and is recorded) until released
		ch := n.holdCh
		n.holdKind, n.holding = "", true
		n.mu.Unlock()
		<-ch
		n.mu.Lock()
		n.holding = false
	}
	if after {
		n.dieLocked(kind + ":after")
		ch := n.released
		n.mu.Unlock()
		<-ch
		return errDead
	}
	n.mu.Unlock()
	return err
}

func (n *node) dieLocked(at string) {
	n.dead = true
	n.killedAt = at
	n.c.tr.emit(0, kit.Ev("Crash", "n", n.id), nil)
}

func (n *node) isDead() bool {
	n.mu.Lock()
	defer n.mu.Unlock()
	return n.dead
}

// ---- recording storage --------------------------------------------------------------------------------

type recStorage struct {
	n     *node
	slot  uint64
	inner multiraft.Storage
}

func (s *recStorage) InitialState(ctx context.Context) (multiraft.BootstrapState, error) {
	return s.inner.InitialState(ctx)
}
func (s *recStorage) Entries(ctx context.Context, lo, hi, maxSize uint64) ([]raftpb.Entry, error) {
	return s.inner.Entries(ctx, lo, hi, maxSize)
}
func (s *recStorage) Term(ctx context.Context, index uint64) (uint64, error) {
	return s.inner.Term(ctx, index)
}
func (s *recStorage) FirstIndex(ctx context.Context) (uint64, error) { return s.inner.FirstIndex(ctx) }
func (s *recStorage) LastIndex(ctx context.Context) (uint64, error)  { return s.inner.LastIndex(ctx) }
func (s *recStorage) Snapshot(ctx context.Context) (raftpb.Snapshot, error) {
	return s.inner.Snapshot(ctx)
}

func (s *recStorage) Save(ctx context.Context, st multiraft.PersistentState) error {
	// copy what is logged before the call (the runtime may reuse the slices afterwards)
	ents := make([][]int64, 0, len(st.Entries))
	for _, e := range st.Entries {
		ents = append(ents, []int64{int64(e.Index), int64(e.Term), entryValue(e)})
	}
	var sn, so uint64
	sc := [][]uint64{}
	badSnap := false
	if st.Snapshot != nil {
		sn = st.Snapshot.Metadata.Index
		origin, log, ok := decodeSMSnapshot(st.Snapshot.Data)
		if !ok {
			badSnap = true
		}
		so, sc = origin, triples(log)
	}
	kind := "save"
	if st.Snapshot != nil {
		kind = "savesnap"
	}
	return s.n.gate(kind, func() error { return s.inner.Save(ctx, st) }, func() {
		if badSnap {
			s.n.c.infra("node %d slot %d: snapshot without state-machine payload saved", s.n.id, s.slot)
		}
		if len(ents) == 0 && sn == 0 {
			return // HardState only: not modelled
		}
		for _, e := range ents {
			if e[2] > 0 {
				s.n.savedCmd[[3]uint64{s.slot, uint64(e[0]), uint64(e[2])}] = true
			}
		}
		if len(ents) > 0 {
			s.n.lastSave[s.slot] = uint64(ents[len(ents)-1][0])
		}
		s.n.c.tr.emit(s.slot, kit.Ev("Save", "n", s.n.id, "ents", ents, "sn", sn, "so", so, "sc", sc), nil)
		s.n.c.count("Save")
		if sn > 0 {
			s.n.c.count("SaveSnapshot")
		}
	})
}

func (s *recStorage) MarkApplied(ctx context.Context, index uint64) error {
	return s.n.gate("mark", func() error { return s.inner.MarkApplied(ctx, index) }, func() {
		s.n.c.tr.emit(s.slot, kit.Ev("Mark", "n", s.n.id, "i", index), nil)
		s.n.c.count("Mark")
	})
}

// MarkConfigApplied keeps the optional ConfigAppliedIndexStorage capability of pkg/raftlog visible.
func (s *recStorage) MarkConfigApplied(ctx context.Context, index uint64) error {
	cs, ok := s.inner.(multiraft.ConfigAppliedIndexStorage)
	if !ok {
		return nil
	}
	return s.n.gate("cfgmark", func() error { return cs.MarkConfigApplied(ctx, index) }, nil)
}

// ---- recording state machine ----------------------------------------------------------------------------

type recSM struct {
	n    *node
	slot uint64
	st   *smState
}

func (m *recSM) applyCmds(cmds []multiraft.Command) ([][]byte, error) {
	recs := make([]cmdRec, 0, len(cmds))
	out := make([][]byte, 0, len(cmds))
	for _, c := range cmds {
		v := uint64(0)
		if len(c.Data) == 8 {
			v = binary.BigEndian.Uint64(c.Data)
		}
		recs = append(recs, cmdRec{c.Index, c.Term, v})
		out = append(out, binary.BigEndian.AppendUint64(nil, v))
	}
	err := m.n.gate("apply", func() error {
		m.st.log = append(m.st.log, recs...)
		if len(recs) > 0 {
			m.st.applied = recs[len(recs)-1].I
		}
		return nil
	}, func() {
		m.n.c.tr.emit(m.slot, kit.Ev("Apply", "n", m.n.id, "cmds", triples(recs)), map[string]any{"len": len(m.st.log)})
		m.n.c.count("Apply")
		if len(recs) > 1 {
			m.n.c.count("ApplyBatch>1")
		}
	})
	if err != nil {
		return nil, err
	}
	return out, nil
}

func (m *recSM) Apply(ctx context.Context, cmd multiraft.Command) ([]byte, error) {
	out, err := m.applyCmds([]multiraft.Command{cmd})
	if err != nil {
		return nil, err
	}
	return out[0], nil
}

func (m *recSM) ApplyBatch(ctx context.Context, cmds []multiraft.Command) ([][]byte, error) {
	return m.applyCmds(cmds)
}

func (m *recSM) Restore(ctx context.Context, snap multiraft.Snapshot) error {
	_, log, ok := decodeSMSnapshot(snap.Data)
	if !ok {
		m.n.c.infra("node %d slot %d: Restore with a snapshot this harness did not write (index %d, %d bytes)", m.n.id, m.slot, snap.Index, len(snap.Data))
		return errors.New("verif: unknown snapshot payload")
	}
	boot := m.n.booting.Load()
	return m.n.gate("restore", func() error {
		m.st.log = append([]cmdRec(nil), log...)
		m.st.applied = snap.Index
		return nil
	}, func() {
		m.n.c.tr.emit(m.slot, kit.Ev("Restore", "n", m.n.id, "i", snap.Index, "boot", boot, "cmds", triples(log)), map[string]any{"len": len(log)})
		m.n.c.count("Restore")
		if boot {
			m.n.c.count("RestoreAtBoot")
		}
	})
}

func (m *recSM) Snapshot(ctx context.Context) (multiraft.Snapshot, error) {
	var data []byte
	err := m.n.gate("snap", func() error {
		data = encodeSMSnapshot(m.n.id, m.st.log)
		return nil
	}, nil)
	if err != nil {
		return multiraft.Snapshot{}, err
	}
	return multiraft.Snapshot{Data: data}, nil
}

// durableSM adds the DurableAppliedStateMachine capability (as pkg/slot/fsm has it).
type durableSM struct{ *recSM }

func (m durableSM) DurableAppliedIndex(ctx context.Context) (uint64, error) {
	m.n.mu.Lock()
	defer m.n.mu.Unlock()
	return m.st.applied, nil
}

// singleSM is the same recording state machine WITHOUT the BatchStateMachine capability: multiraft
// hands it every command through StateMachine.Apply, one by one (the fallback path of
// applyCommittedEntries for every span, not only for spans of one entry).
type singleSM struct{ m *recSM }

func (s singleSM) Apply(ctx context.Context, cmd multiraft.Command) ([]byte, error) {
	return s.m.Apply(ctx, cmd)
}
func (s singleSM) Restore(ctx context.Context, snap multiraft.Snapshot) error {
	return s.m.Restore(ctx, snap)
}
func (s singleSM) Snapshot(ctx context.Context) (multiraft.Snapshot, error) {
	return s.m.Snapshot(ctx)
}

// durableSingleSM: no ApplyBatch, but the durable applied index.
type durableSingleSM struct{ singleSM }

func (s durableSingleSM) DurableAppliedIndex(ctx context.Context) (uint64, error) {
	return durableSM{s.m}.DurableAppliedIndex(ctx)
}

// ---- network ------------------------------------------------------------------------------------------------

type network struct {
	c        *cluster
	mu       sync.Mutex
	rng      *rand.Rand
	blocked  map[[2]uint64]bool
	loss     float64
	dup      float64
	delayP   float64
	maxDelay time.Duration
	closed   bool
	wg       sync.WaitGroup
	sent     int64
	dropped  int64
	dupped   int64
	delayed  int64
}

type transport struct {
	net  *network
	from uint64
}

func cloneEnvelope(env multiraft.Envelope) (multiraft.Envelope, error) {
	raw, err := env.Message.Marshal()
	if err != nil {
		return multiraft.Envelope{}, err
	}
	var m raftpb.Message
	if err := m.Unmarshal(raw); err != nil {
		return multiraft.Envelope{}, err
	}
	return multiraft.Envelope{SlotID: env.SlotID, Message: m}, nil
}

func (t *transport) Send(ctx context.Context, batch []multiraft.Envelope) error {
	for _, env := range batch {
		cp, err := cloneEnvelope(env)
		if err != nil {
			t.net.c.infra("clone message: %v", err)
			continue
		}
		t.net.route(t.from, cp)
	}
	return nil
}

func (nw *network) route(from uint64, env multiraft.Envelope) {
	to := env.Message.To
	nw.mu.Lock()
	if nw.closed {
		nw.mu.Unlock()
		return
	}
	nw.sent++
	if nw.blocked[[2]uint64{from, to}] || nw.rng.Float64() < nw.loss {
		nw.dropped++
		nw.mu.Unlock()
		return
	}
	copies := 1
	if nw.rng.Float64() < nw.dup {
		copies = 2
		nw.dupped++
	}
	delays := make([]time.Duration, copies)
	for i := range delays {
		if nw.rng.Float64() < nw.delayP {
			delays[i] = time.Duration(1+nw.rng.Int63n(int64(nw.maxDelay/time.Microsecond))) * time.Microsecond
			nw.delayed++
		}
	}
	nw.wg.Add(copies)
	nw.mu.Unlock()
	for _, d := range delays {
		d := d
		go func() {
			defer nw.wg.Done()
			if d > 0 {
				time.Sleep(d) // network latency of the simulated link (not an oracle)
			}
			nw.mu.Lock()
			stop := nw.closed || nw.blocked[[2]uint64{from, to}]
			nw.mu.Unlock()
			if stop {
				return
			}
			target := nw.c.nodes[to]
			if target == nil {
				return // e.g. a learner id that has no process
			}
			rt := target.runtime()
			if rt == nil {
				return
			}
			cp, err := cloneEnvelope(env)
			if err != nil {
				return
			}
			_ = rt.Step(context.Background(), cp) // closed / unknown slot / busy: the message is lost
		}()
	}
}

func (nw *network) setBlocked(a, b uint64, v bool) {
	nw.mu.Lock()
	nw.blocked[[2]uint64{a, b}] = v
	nw.blocked[[2]uint64{b, a}] = v
	nw.mu.Unlock()
}

// setBlockedOneWay drops messages from -> to only (the other direction keeps working).
func (nw *network) setBlockedOneWay(from, to uint64, v bool) {
	nw.mu.Lock()
	nw.blocked[[2]uint64{from, to}] = v
	nw.mu.Unlock()
}

func (nw *network) healAll() {
	nw.mu.Lock()
	nw.blocked = map[[2]uint64]bool{}
	nw.mu.Unlock()
}

func (nw *network) close() {
	nw.mu.Lock()
	nw.closed = true
	nw.mu.Unlock()
	nw.wg.Wait()
}

// ---- cluster ---------------------------------------------------------------------------------------------------

type clusterCfg struct {
	durable      bool
	single       bool // the state machine has no ApplyBatch (plain multiraft.StateMachine)
	slots        []uint64
	checkQuorum  bool
	preVote      bool
	maxApplying  int
	trigger      uint64
	workers      int
	tick         time.Duration
	electionTick int
	lagP         float64       // probability that a storage write is slow
	lagMax       time.Duration // its largest latency
}

type cluster struct {
	cfg   clusterCfg
	tr    *tracer
	rep   *kit.Report
	net   *network
	nodes map[uint64]*node
	ids   []uint64
	dir   string

	lagMu  sync.Mutex
	lagRng *rand.Rand
}

func (c *cluster) infra(format string, a ...any) { c.rep.Infra(format, a...) }

// diskLag draws the simulated latency of a storage write: while a Save is "on its way to the disk"
// the rest of the runtime keeps running, which is when a pipeline that does not wait for it shows.
func (c *cluster) diskLag(kind string) time.Duration {
	if c.cfg.lagP == 0 || (kind != "save" && kind != "savesnap" && kind != "mark") {
		return 0
	}
	c.lagMu.Lock()
	defer c.lagMu.Unlock()
	if c.lagRng.Float64() >= c.cfg.lagP {
		return 0
	}
	return time.Duration(1+c.lagRng.Int63n(int64(c.cfg.lagMax/time.Microsecond))) * time.Microsecond
}
func (c *cluster) count(k string) {
	c.rep.Cover(k)
	totalsMu.Lock()
	totals[k]++
	totalsMu.Unlock()
}

var (
	totalsMu sync.Mutex
	totals   = map[string]int{}
)

func covered(k string) int {
	totalsMu.Lock()
	defer totalsMu.Unlock()
	return totals[k]
}

func newCluster(dir string, cfg clusterCfg, tr *tracer, rep *kit.Report, rng *rand.Rand) (*cluster, error) {
	c := &cluster{cfg: cfg, tr: tr, rep: rep, nodes: map[uint64]*node{}, ids: []uint64{1, 2, 3}, dir: dir}
	c.net = &network{c: c, rng: rand.New(rand.NewSource(rng.Int63())), blocked: map[[2]uint64]bool{}}
	c.lagRng = rand.New(rand.NewSource(rng.Int63()))
	if c.cfg.lagMax <= 0 {
		c.cfg.lagMax = time.Millisecond
	}
	for _, id := range c.ids {
		n := &node{c: c, id: id, dir: filepath.Join(dir, fmt.Sprintf("node%d", id)), sms: map[uint64]*smState{}, savedCmd: map[[3]uint64]bool{}, lastSave: map[uint64]uint64{}}
		for _, s := range cfg.slots {
			n.sms[s] = &smState{}
		}
		c.nodes[id] = n
	}
	for _, id := range c.ids {
		if err := c.start(c.nodes[id], true); err != nil {
			c.close()
			return nil, err
		}
	}
	return c, nil
}

func (c *cluster) slotOptions(n *node, slot uint64) multiraft.SlotOptions {
	base := &recSM{n: n, slot: slot, st: n.sms[slot]}
	var sm multiraft.StateMachine = base
	switch {
	case c.cfg.durable && c.cfg.single:
		sm = durableSingleSM{singleSM{base}}
	case c.cfg.durable:
		sm = durableSM{base}
	case c.cfg.single:
		sm = singleSM{base}
	}
	return multiraft.SlotOptions{
		ID:           multiraft.SlotID(slot),
		Storage:      &recStorage{n: n, slot: slot, inner: n.db.ForSlot(slot)},
		StateMachine: sm,
	}
}

// start opens the node's Pebble directory and a runtime on it.  first = bootstrap the groups.
func (c *cluster) start(n *node, first bool) error {
	db, err := raftlog.Open(n.dir, raftlog.Options{Logger: wklog.NewNop()})
	if err != nil {
		return fmt.Errorf("open raftlog of node %d: %w", n.id, err)
	}
	rt, err := multiraft.New(multiraft.Options{
		NodeID:       multiraft.NodeID(n.id),
		TickInterval: c.cfg.tick,
		Workers:      c.cfg.workers,
		Transport:    &transport{net: c.net, from: n.id},
		Raft: multiraft.RaftOptions{
			ElectionTick:     c.cfg.electionTick,
			HeartbeatTick:    1,
			PreVote:          c.cfg.preVote,
			CheckQuorum:      c.cfg.checkQuorum,
			MaxApplyingTasks: c.cfg.maxApplying,
			LogCompaction: multiraft.LogCompactionConfig{
				Enabled: true, EnabledSet: true, TriggerEntries: c.cfg.trigger, CheckInterval: time.Nanosecond,
			},
		},
	})
	if err != nil {
		_ = db.Close()
		return fmt.Errorf("runtime of node %d: %w", n.id, err)
	}
	n.mu.Lock()
	n.dead, n.armed, n.killedAt = false, 0, ""
	n.released = make(chan struct{})
	n.mu.Unlock()
	n.rtMu.Lock()
	n.db = db
	n.rtMu.Unlock()
	if !first {
		c.tr.emit(0, kit.Ev("Restart", "n", n.id), nil)
		c.count("Restart")
	}
	n.booting.Store(true)
	defer n.booting.Store(false)
	voters := []multiraft.NodeID{1, 2, 3}
	for _, s := range c.cfg.slots {
		opts := c.slotOptions(n, s)
		if first {
			err = rt.BootstrapSlot(context.Background(), multiraft.BootstrapSlotRequest{Slot: opts, Voters: voters})
		} else {
			err = rt.OpenSlot(context.Background(), opts)
		}
		if err != nil {
			_ = rt.Close()
			_ = db.Close()
			return fmt.Errorf("open slot %d on node %d: %w", s, n.id, err)
		}
	}
	n.rtMu.Lock()
	n.rt = rt
	n.rtMu.Unlock()
	return nil
}

// stop takes the node down: an orderly Close, or - when the kill gate fired - the end of the kill.
func (c *cluster) stop(n *node) error {
	n.rtMu.Lock()
	rt, db := n.rt, n.db
	n.rt = nil
	n.rtMu.Unlock()
	if rt == nil {
		return nil
	}
	wasDead := n.isDead()
	done := make(chan error, 1)
	go func() { done <- rt.Close() }()
	if wasDead {
		// release the blocked calls only after the runtime refuses new work (it must not react to
		// the injected error by anything but dying)
		deadline := time.Now().Add(20 * time.Second)
		for {
			if _, err := rt.Status(multiraft.SlotID(c.cfg.slots[0])); errors.Is(err, multiraft.ErrRuntimeClosed) {
				break
			}
			if time.Now().After(deadline) {
				return fmt.Errorf("node %d: runtime did not start closing", n.id)
			}
			time.Sleep(200 * time.Microsecond)
		}
		n.mu.Lock()
		close(n.released)
		n.mu.Unlock()
	}
	select {
	case err := <-done:
		if err != nil {
			return fmt.Errorf("close runtime of node %d: %w", n.id, err)
		}
	case <-time.After(60 * time.Second):
		return fmt.Errorf("node %d: runtime Close did not return", n.id)
	}
	if !wasDead {
		// orderly shutdown: everything the runtime did is recorded before this point
		n.mu.Lock()
		n.dead = true
		n.killedAt = "close"
		close(n.released)
		n.mu.Unlock()
		c.tr.emit(0, kit.Ev("Crash", "n", n.id), nil)
	}
	c.count("Crash")
	if err := db.Close(); err != nil {
		return fmt.Errorf("close raftlog of node %d: %w", n.id, err)
	}
	return nil
}

// arm makes the node die at the k-th call of the given kinds.
func (n *node) arm(k int, after bool, kinds ...string) {
	n.mu.Lock()
	n.armed, n.armAfter = k, after
	n.armKinds = map[string]bool{}
	for _, x := range kinds {
		n.armKinds[x] = true
	}
	n.mu.Unlock()
}

// hold parks the next call of the given kind right after it took effect; unhold lets it return.
func (n *node) hold(kind string) {
	n.mu.Lock()
	n.holdKind, n.holdCh = kind, make(chan struct{})
	n.mu.Unlock()
}

func (n *node) isHolding() bool {
	n.mu.Lock()
	defer n.mu.Unlock()
	return n.holding
}

func (n *node) unhold() {
	n.mu.Lock()
	if n.holdCh != nil {
		close(n.holdCh)
		n.holdCh = nil
	}
	n.holdKind = ""
	n.mu.Unlock()
}

func (n *node) disarm() {
	n.mu.Lock()
	n.armed = 0
	n.mu.Unlock()
}

func (c *cluster) close() {
	c.net.close()
	for _, id := range c.ids {
		n := c.nodes[id]
		if n.runtime() != nil {
			if err := c.stop(n); err != nil {
				c.infra("%v", err)
			}
		}
	}
}

// status of a slot on a node (ok=false: node down or slot failed).
func (c *cluster) status(n *node, slot uint64) (multiraft.Status, bool) {
	rt := n.runtime()
	if rt == nil || n.isDead() {
		return multiraft.Status{}, false
	}
	st, err := rt.Status(multiraft.SlotID(slot))
	return st, err == nil
}

func (c *cluster) leaderOf(slot uint64) uint64 {
	var best uint64
	var bestTerm uint64
	for _, id := range c.ids {
		st, ok := c.status(c.nodes[id], slot)
		if ok && st.Role == multiraft.RoleLeader && st.Term >= bestTerm {
			best, bestTerm = id, st.Term
		}
	}
	return best
}

// smLen reads the number of commands a node's state machine holds.
func (n *node) smLen(slot uint64) int {
	n.mu.Lock()
	defer n.mu.Unlock()
	return len(n.sms[slot].log)
}

func (n *node) everSaved(slot, index, v uint64) bool {
	n.mu.Lock()
	defer n.mu.Unlock()
	return n.savedCmd[[3]uint64{slot, index, v}]
}

// lastSavedIndex: index of the last entry of the node's latest Save with entries (0 = none yet).
func (n *node) lastSavedIndex(slot uint64) uint64 {
	n.mu.Lock()
	defer n.mu.Unlock()
	return n.lastSave[slot]
}

func (n *node) smCopy(slot uint64) []cmdRec {
	n.mu.Lock()
	defer n.mu.Unlock()
	return append([]cmdRec(nil), n.sms[slot].log...)
}

package entryidentity

// Conformance harness for specs/EntryIdentity (property C05).  External package of the runner
// module; exported API only:
//
//	ch.SealProposalManifest / ch.DeriveProposalEntries   (pkg/channel/proposal.go, ch.Record)
//	quorumlog.SealProposalManifest / quorumlog.VerifyEntry (pkg/quorumlog/proposal.go)
//
// spec -> code: TLC enumerates proposals over two-valued field domains with every single-field
// perturbation (plus random multi-field walks).  Each abstract value 0/1 of a field is mapped to
// two concrete values by a *table*; every behaviour is replayed under several tables (boundary
// shift between adjacent variable-length fields, differences only in high bytes / last bytes,
// empty versus one zero byte, seeded random tables).  After every step the real code is asked for
// the specification's projection:
//
//	same[k]  digest of candidate entry k == digest of sealed entry k
//	accR[k]  VerifyEntry(sealed identity k, candidate record k)
//	accH[k]  VerifyEntry(candidate identity k carrying the sealed digest k, sealed record k)
//
// and, independently of TLC's expectations, every (concrete tuple, digest) pair ever produced is
// kept: two different tuples with one digest, or one tuple with two digests, is a violation
// ("digest equal <=> tuple equal" over everything enumerated, which is what detects a missing
// length prefix: it needs two fields to change at once).
//
// There is no code -> spec trace stage: the subject is a pure function of its arguments, a
// recorded call is exactly a replayed step.

import (
	"bufio"
	"bytes"
	"encoding/hex"
	"encoding/json"
	"fmt"
	"math/rand"
	"os"
	"strings"
	"testing"

	ch "github.com/WuKongIM/WuKongIM/pkg/channel"
	"github.com/WuKongIM/WuKongIM/pkg/quorumlog"
	"verif/runner/kit"
)

const propID = "C05"

// ---- behaviours (typed decoding; the files are large) ---------------------------------------

type proposal struct {
	Gen  bool             `json:"gen"`
	Hdr  map[string]int   `json:"hdr"`
	Recs []map[string]int `json:"recs"`
}

func (p proposal) clone() proposal {
	q := proposal{Gen: p.Gen, Hdr: make(map[string]int, len(p.Hdr)), Recs: make([]map[string]int, len(p.Recs))}
	for k, v := range p.Hdr {
		q.Hdr[k] = v
	}
	for i, r := range p.Recs {
		q.Recs[i] = make(map[string]int, len(r))
		for k, v := range r {
			q.Recs[i][k] = v
		}
	}
	return q
}

type obs struct {
	Same []bool `json:"same"`
	AccR []bool `json:"accR"`
	AccH []bool `json:"accH"`
}

type step struct {
	Ev struct {
		A string    `json:"a"`
		K int       `json:"k"`
		F string    `json:"f"`
		P *proposal `json:"p"`
	} `json:"ev"`
	St obs `json:"st"`
}

type behaviour struct {
	Steps []step `json:"steps"`
	raw   json.RawMessage
}

func loadBehaviours(path string) ([]behaviour, error) {
	if path == "" {
		return nil, nil
	}
	f, err := os.Open(path)
	if err != nil {
		return nil, err
	}
	defer f.Close()
	var out []behaviour
	sc := bufio.NewScanner(f)
	sc.Buffer(make([]byte, 1<<20), 1<<28)
	for sc.Scan() {
		line := bytes.TrimSpace(sc.Bytes())
		if len(line) == 0 {
			continue
		}
		var b behaviour
		if err := json.Unmarshal(line, &b); err != nil {
			return nil, fmt.Errorf("behaviour %d: %w", len(out)+1, err)
		}
		b.raw = append(json.RawMessage(nil), line...)
		out = append(out, b)
	}
	return out, sc.Err()
}

var recFields = []string{"id", "sender", "cmn", "setting", "sync", "ts", "payload"}
var hdrFields = []string{"epoch", "term", "fence", "cmd", "base", "pterm", "pdig"}

// ---- concretisation tables --------------------------------------------------------------------

type table struct {
	Name    string
	ID      [2]uint64
	Sender  [2]string
	Cmn     [2]string
	Setting [2]uint8
	Sync    [2]bool
	TS      [2]int64
	Payload [2][]byte
	Epoch   [2]uint64
	Term    [2]uint64
	Fence   [2]uint64
	Cmd     [2]quorumlog.CommandID
	Base    [2]uint64
	PTerm   [2]uint64
	PDig    [2]quorumlog.EntryDigest
	// ZeroIndex: present records with Index = 0 ("unassigned", accepted by the code) instead of
	// the entry index.
	ZeroIndex bool
}

func (t table) describe() map[string]any {
	return map[string]any{
		"name": t.Name, "id": t.ID, "sender": t.Sender, "cmn": t.Cmn, "setting": t.Setting, "sync": t.Sync, "ts": t.TS,
		"payload": []string{hex.EncodeToString(t.Payload[0]), hex.EncodeToString(t.Payload[1])},
		"epoch":   t.Epoch, "term": t.Term, "fence": t.Fence,
		"cmd":  []string{hex.EncodeToString(t.Cmd[0][:]), hex.EncodeToString(t.Cmd[1][:])},
		"base": t.Base, "pterm": t.PTerm,
		"pdig":       []string{hex.EncodeToString(t.PDig[0][:]), hex.EncodeToString(t.PDig[1][:])},
		"zero_index": t.ZeroIndex,
	}
}

func fill32(b byte) (out [32]byte) {
	for i := range out {
		out[i] = b
	}
	return
}

// fixedTables: hand-made value pairs aimed at the classic ways a digest loses a field.
func fixedTables() []table {
	var c0, c1, d0, d1 [32]byte
	c0[0], c1[0] = 1, 2
	d0[31], d1[31] = 1, 2
	shift := table{Name: "boundary-shift",
		// (sender, cmn) = ("u","cc") and ("uc","c") concatenate alike; so do (cmn, payload) =
		// ("cc","p") and ("c","cp"): only a length prefix tells them apart.
		ID: [2]uint64{1, 2}, Sender: [2]string{"u", "uc"}, Cmn: [2]string{"cc", "c"},
		Setting: [2]uint8{0, 1}, Sync: [2]bool{false, true}, TS: [2]int64{1, 2},
		Payload: [2][]byte{[]byte("p"), []byte("cp")},
		Epoch:   [2]uint64{1, 2}, Term: [2]uint64{1, 2}, Fence: [2]uint64{1, 2},
		Cmd: [2]quorumlog.CommandID{c0, c1}, Base: [2]uint64{1, 2}, PTerm: [2]uint64{1, 2},
		PDig: [2]quorumlog.EntryDigest{d0, d1}}

	long0 := bytes.Repeat([]byte{0xab}, 300)
	long1 := append(bytes.Repeat([]byte{0xab}, 299), 0xac)
	h0, h1 := fill32(0x5a), fill32(0x5a)
	h1[31] = 0x5b
	g0, g1 := fill32(0xc3), fill32(0xc3)
	g1[0] = 0xc2
	high := table{Name: "high-bytes-and-tails",
		// numbers differ only in their most significant byte, strings and blobs only in their
		// last byte: a digest over a truncated or narrowed field loses them.
		ID: [2]uint64{7, 7 | 1<<56}, Sender: [2]string{"user-000000000000000a", "user-000000000000000b"},
		Cmn:     [2]string{strings.Repeat("n", 64) + "0", strings.Repeat("n", 64) + "1"},
		Setting: [2]uint8{0x01, 0x81}, Sync: [2]bool{true, false}, TS: [2]int64{1_700_000_000_000, 1_700_000_000_000 | 1<<62},
		Payload: [2][]byte{long0, long1},
		Epoch:   [2]uint64{3, 3 | 1<<63}, Term: [2]uint64{5, 5 | 1<<32}, Fence: [2]uint64{9, 9 | 1<<48},
		Cmd: [2]quorumlog.CommandID{h0, h1}, Base: [2]uint64{6, 6 | 1<<40}, PTerm: [2]uint64{4, 4 | 1<<33},
		PDig: [2]quorumlog.EntryDigest{g0, g1}, ZeroIndex: true}

	var e0, e1, f0, f1 [32]byte
	e0[15], e1[16] = 1, 1
	f0[0], f1[0] = 0x80, 0x40
	empties := table{Name: "empty-versus-zero-byte",
		// an empty string/blob against one NUL byte; values that are prefixes of each other.
		ID: [2]uint64{1 << 63, 1<<63 + 1}, Sender: [2]string{"", "\x00"}, Cmn: [2]string{"\x00", ""},
		Setting: [2]uint8{0xff, 0x7f}, Sync: [2]bool{false, true}, TS: [2]int64{1, 1 << 32},
		Payload: [2][]byte{nil, {0}},
		Epoch:   [2]uint64{^uint64(0), ^uint64(0) - 1}, Term: [2]uint64{1 << 32, 1}, Fence: [2]uint64{255, 256},
		Cmd: [2]quorumlog.CommandID{e0, e1}, Base: [2]uint64{255, 256}, PTerm: [2]uint64{256, 255},
		PDig: [2]quorumlog.EntryDigest{f0, f1}}
	return []table{shift, high, empties}
}

func randU64(r *rand.Rand) uint64 {
	for {
		if v := r.Uint64(); v != 0 {
			return v
		}
	}
}

// pairU64 draws two distinct non-zero values in one of several difference styles.
func pairU64(r *rand.Rand, max uint64) [2]uint64 {
	for {
		a := randU64(r)
		if max != 0 {
			a = a%max + 1
		}
		var b uint64
		switch r.Intn(4) {
		case 0:
			b = a ^ (1 << uint(r.Intn(64))) // one bit
		case 1:
			b = a + 1
		case 2:
			b = a ^ (0xff << uint(8*r.Intn(8))) // one byte
		default:
			b = randU64(r)
		}
		if max != 0 {
			b = b%max + 1
		}
		if a != 0 && b != 0 && a != b {
			return [2]uint64{a, b}
		}
	}
}

func pairBytes(r *rand.Rand) [2][]byte {
	for {
		n := r.Intn(40)
		a := make([]byte, n)
		r.Read(a)
		var b []byte
		switch r.Intn(5) {
		case 0: // one byte changed
			if n == 0 {
				continue
			}
			b = append([]byte(nil), a...)
			b[r.Intn(n)] ^= byte(1 + r.Intn(255))
		case 1: // extended by one byte (possibly NUL)
			b = append(append([]byte(nil), a...), byte(r.Intn(2)*r.Intn(256)))
		case 2: // first byte dropped
			if n == 0 {
				continue
			}
			b = append([]byte(nil), a[1:]...)
		case 3: // two halves swapped
			if n < 2 {
				continue
			}
			b = append(append([]byte(nil), a[n/2:]...), a[:n/2]...)
		default:
			b = make([]byte, r.Intn(40))
			r.Read(b)
		}
		if !bytes.Equal(a, b) {
			return [2][]byte{a, b}
		}
	}
}

func pair32(r *rand.Rand) [2][32]byte {
	for {
		var a, b [32]byte
		r.Read(a[:])
		b = a
		switch r.Intn(3) {
		case 0:
			b[r.Intn(32)] ^= byte(1 + r.Intn(255))
		case 1:
			b[31] ^= 1
		default:
			r.Read(b[:])
		}
		if a != b && a != ([32]byte{}) && b != ([32]byte{}) {
			return [2][32]byte{a, b}
		}
	}
}

func randomTable(r *rand.Rand, i int) table {
	t := table{Name: fmt.Sprintf("random-%d", i)}
	t.ID = pairU64(r, 0)
	s, c, p := pairBytes(r), pairBytes(r), pairBytes(r)
	t.Sender = [2]string{string(s[0]), string(s[1])}
	t.Cmn = [2]string{string(c[0]), string(c[1])}
	t.Payload = p
	a := uint8(r.Intn(256))
	t.Setting = [2]uint8{a, a ^ uint8(1<<uint(r.Intn(8)))}
	if r.Intn(2) == 0 {
		t.Sync = [2]bool{false, true}
	} else {
		t.Sync = [2]bool{true, false}
	}
	ts := pairU64(r, 1<<63-1)
	t.TS = [2]int64{int64(ts[0]), int64(ts[1])}
	t.Epoch, t.Term, t.Fence, t.PTerm = pairU64(r, 0), pairU64(r, 0), pairU64(r, 0), pairU64(r, 0)
	t.Base = pairU64(r, 1<<62) // leaves room for base + record count
	cm, pd := pair32(r), pair32(r)
	t.Cmd = [2]quorumlog.CommandID{cm[0], cm[1]}
	t.PDig = [2]quorumlog.EntryDigest{pd[0], pd[1]}
	t.ZeroIndex = r.Intn(2) == 0
	return t
}

// ---- abstract proposal -> real values ---------------------------------------------------------

func (t table) manifest(p proposal) ch.ProposalManifest {
	m := ch.ProposalManifest{
		Version:      ch.ProposalManifestVersion,
		ChannelEpoch: t.Epoch[p.Hdr["epoch"]], LeaderTerm: t.Term[p.Hdr["term"]], FenceVersion: t.Fence[p.Hdr["fence"]],
		CommandID: t.Cmd[p.Hdr["cmd"]],
	}
	if !p.Gen {
		m.BaseOffset = t.Base[p.Hdr["base"]]
		m.PreviousIndex = m.BaseOffset
		m.PreviousTerm = t.PTerm[p.Hdr["pterm"]]
		m.PreviousDigest = t.PDig[p.Hdr["pdig"]]
	}
	m.LastOffset = m.BaseOffset + uint64(len(p.Recs))
	return m
}

// record builds the channel record for abstract record r at the given index under epoch.
func (t table) record(r map[string]int, epoch, index uint64) ch.Record {
	if t.ZeroIndex {
		index = 0
	}
	return ch.Record{
		ID: t.ID[r["id"]], Index: index, Epoch: epoch, Setting: t.Setting[r["setting"]],
		FromUID: t.Sender[r["sender"]], ClientMsgNo: t.Cmn[r["cmn"]], ServerTimestampMS: t.TS[r["ts"]],
		SyncOnce: t.Sync[r["sync"]], Payload: t.Payload[r["payload"]],
		SizeBytes: len(t.Payload[r["payload"]]), // not semantic
	}
}

func (t table) records(p proposal, m ch.ProposalManifest) []ch.Record {
	out := make([]ch.Record, len(p.Recs))
	for i, r := range p.Recs {
		out[i] = t.record(r, m.ChannelEpoch, m.BaseOffset+uint64(i)+1)
	}
	return out
}

func toQL(r ch.Record) quorumlog.Record {
	return quorumlog.Record{ID: r.ID, Index: r.Index, Epoch: r.Epoch, Setting: r.Setting, FromUID: r.FromUID,
		ClientMsgNo: r.ClientMsgNo, ServerTimestampMS: r.ServerTimestampMS, SyncOnce: r.SyncOnce, Payload: r.Payload}
}

type sealedProposal struct {
	manifest ch.ProposalManifest
	records  []ch.Record
	entries  []ch.EntryIdentity
}

// registry remembers every (tuple, digest) produced by the real code.
type registry struct {
	byDigest map[quorumlog.EntryDigest]string
	byTuple  map[string]quorumlog.EntryDigest
}

func tupleKey(e ch.EntryIdentity, r ch.Record) string {
	return fmt.Sprintf("v%d e%d t%d f%d i%d pt%d pi%d c%x pd%x | id%d set%d sync%t ts%d from%q cmn%q pay%x",
		e.Version, e.ChannelEpoch, e.LeaderTerm, e.FenceVersion, e.Index, e.PreviousTerm, e.PreviousIndex, e.CommandID[:], e.PreviousDigest[:],
		r.ID, r.Setting, r.SyncOnce, r.ServerTimestampMS, r.FromUID, r.ClientMsgNo, r.Payload)
}

// keyDiff shows where two tuple keys differ (with a little context).
func keyDiff(a, b string) string {
	i := 0
	for i < len(a) && i < len(b) && a[i] == b[i] {
		i++
	}
	j := 0
	for j < len(a)-i && j < len(b)-i && a[len(a)-1-j] == b[len(b)-1-j] {
		j++
	}
	lo := i - 24
	if lo < 0 {
		lo = 0
	}
	clip := func(s string) string {
		hi := len(s) - j + 8
		if hi > len(s) {
			hi = len(s)
		}
		out := s[lo:hi]
		if len(out) > 160 {
			out = out[:160] + "…"
		}
		return out
	}
	return fmt.Sprintf("A[...%s...] B[...%s...]", clip(a), clip(b))
}

type harness struct {
	rep     *kit.Report
	reg     registry
	sealN   int
	verifyN int
	pairsN  int
	infra   bool
	cur     json.RawMessage // behaviour being replayed (for replay artefacts)
}

// seal runs the real sealing path on (manifest, records).  useDerive selects
// DeriveProposalEntries on the manifest instead of SealProposalManifest (same chain).
func (h *harness) seal(t table, p proposal, viaQuorumlog bool) (sealedProposal, bool) {
	m := t.manifest(p)
	recs := t.records(p, m)
	var (
		sealed  ch.ProposalManifest
		entries []ch.EntryIdentity
		ok      bool
	)
	if viaQuorumlog {
		q := make([]quorumlog.Record, len(recs))
		for i, r := range recs {
			q[i] = toQL(r)
		}
		sealed, entries, ok = quorumlog.SealProposalManifest(m, q)
	} else {
		sealed, entries, ok = ch.SealProposalManifest(m, recs)
	}
	h.sealN++
	if !ok || len(entries) != len(recs) {
		if !h.infra {
			h.infra = true
			h.rep.Infra("sealing a structurally valid proposal failed (table %s, manifest %+v): ok=%v entries=%d", t.Name, m, ok, len(entries))
		}
		return sealedProposal{}, false
	}
	// The entries derived from the sealed manifest are the sealed entries (same function of the same tuple).
	derived, dok := ch.DeriveProposalEntries(sealed, len(recs), func(i int) ch.Record { return recs[i] })
	if !dok || len(derived) != len(entries) {
		if !h.infra {
			h.infra = true
			h.rep.Infra("DeriveProposalEntries on a sealed manifest failed (table %s)", t.Name)
		}
		return sealedProposal{}, false
	}
	for i := range entries {
		if derived[i] != entries[i] {
			h.rep.Violate(propID, "nondeterministic", fmt.Sprintf("table %s: DeriveProposalEntries and SealProposalManifest disagree on entry %d of the same proposal", t.Name, i+1),
				map[string]any{"behaviour": h.cur, "table": t.describe(), "proposal": p, "sealed": fmt.Sprintf("%+v", entries[i]), "derived": fmt.Sprintf("%+v", derived[i])})
		}
	}
	if sealed.Digest != entries[len(entries)-1].Digest {
		h.rep.Violate(propID, "tail", fmt.Sprintf("table %s: sealed manifest digest is not the digest of its last entry", t.Name),
			map[string]any{"behaviour": h.cur, "table": t.describe(), "proposal": p})
	}
	for i, e := range entries {
		key := tupleKey(e, recs[i])
		if prev, seen := h.reg.byDigest[e.Digest]; seen && prev != key {
			h.rep.Violate(propID, "collision", fmt.Sprintf("two different entry tuples have the same digest %x; they differ at %s", e.Digest[:8], keyDiff(prev, key)),
				map[string]any{"behaviour": h.cur, "table": t.describe(), "proposal": p, "entry": i + 1, "tuple_a": prev, "tuple_b": key})
		} else if !seen {
			h.reg.byDigest[e.Digest] = key
		}
		if prev, seen := h.reg.byTuple[key]; seen && prev != e.Digest {
			h.rep.Violate(propID, "nondeterministic", fmt.Sprintf("one entry tuple was given two digests: %s", key),
				map[string]any{"behaviour": h.cur, "table": t.describe(), "proposal": p, "entry": i + 1})
		} else if !seen {
			h.reg.byTuple[key] = e.Digest
		}
	}
	return sealedProposal{manifest: sealed, records: recs, entries: entries}, true
}

// observe asks the real code for the specification's projection Obs(sealed, cand).
func (h *harness) observe(t table, s, c sealedProposal) (obs, []string) {
	n := len(s.entries)
	o := obs{Same: make([]bool, n), AccR: make([]bool, n), AccH: make([]bool, n)}
	var extra []string
	for k := 0; k < n; k++ {
		o.Same[k] = c.entries[k].Digest == s.entries[k].Digest
		// the candidate's record presented under the sealed identity (epoch/index as the identity says)
		rc := toQL(c.records[k])
		rc.Epoch = s.entries[k].ChannelEpoch
		if rc.Index != 0 {
			rc.Index = s.entries[k].Index
		}
		o.AccR[k] = quorumlog.VerifyEntry(s.entries[k], rc)
		// the candidate's identity header carrying the sealed digest, certifying the sealed record
		e := c.entries[k]
		e.Digest = s.entries[k].Digest
		rs := toQL(s.records[k])
		rs.Epoch = e.ChannelEpoch
		if rs.Index != 0 {
			rs.Index = e.Index
		}
		o.AccH[k] = quorumlog.VerifyEntry(e, rs)
		// and certifying the candidate's own record: accepted exactly when the digests agree
		both := quorumlog.VerifyEntry(e, toQL(c.records[k]))
		h.verifyN += 3
		if both != o.Same[k] {
			extra = append(extra, fmt.Sprintf("entry %d: VerifyEntry(candidate header + sealed digest, candidate record) = %v but digests equal = %v", k+1, both, o.Same[k]))
		}
	}
	if tail := c.manifest.Digest == s.manifest.Digest; tail != o.Same[n-1] {
		extra = append(extra, fmt.Sprintf("manifest tail digests equal = %v but last entry digests equal = %v", tail, o.Same[n-1]))
	}
	return o, extra
}

func obsEqual(a, b obs) bool {
	eq := func(x, y []bool) bool {
		if len(x) != len(y) {
			return false
		}
		for i := range x {
			if x[i] != y[i] {
				return false
			}
		}
		return true
	}
	return eq(a.Same, b.Same) && eq(a.AccR, b.AccR) && eq(a.AccH, b.AccH)
}

// explain words a disagreement in terms of the property.
func explain(want, got obs) string {
	var out []string
	for k := range want.Same {
		if k < len(got.Same) && want.Same[k] != got.Same[k] {
			if want.Same[k] {
				out = append(out, fmt.Sprintf("entry %d: identical tuples were given different digests", k+1))
			} else {
				out = append(out, fmt.Sprintf("entry %d: the digest did NOT change although a bound field changed", k+1))
			}
		}
		if k < len(got.AccR) && want.AccR[k] != got.AccR[k] {
			if want.AccR[k] {
				out = append(out, fmt.Sprintf("entry %d: VerifyEntry rejected the very record the identity was sealed from", k+1))
			} else {
				out = append(out, fmt.Sprintf("entry %d: VerifyEntry accepted a record that differs from the sealed content", k+1))
			}
		}
		if k < len(got.AccH) && want.AccH[k] != got.AccH[k] {
			if want.AccH[k] {
				out = append(out, fmt.Sprintf("entry %d: VerifyEntry rejected the sealed record under an identical identity", k+1))
			} else {
				out = append(out, fmt.Sprintf("entry %d: VerifyEntry accepted the sealed record under an identity whose index/authority/command/predecessor differs", k+1))
			}
		}
	}
	return strings.Join(out, "; ")
}

// replay runs one behaviour under one table.  It returns the first disagreement (step index,
// text, expected, observed) or -1.
func (h *harness) replay(t table, b behaviour, viaQL bool) (int, string, obs, obs) {
	var S, C proposal
	var ss, cs sealedProposal
	h.cur = b.raw
	for i, st := range b.Steps {
		switch st.Ev.A {
		case "Init":
			if st.Ev.P == nil {
				h.rep.Infra("Init step without a proposal")
				h.infra = true
				return -1, "", obs{}, obs{}
			}
			S = st.Ev.P.clone()
			C = S.clone()
		case "Perturb":
			if st.Ev.K == 0 {
				if _, ok := C.Hdr[st.Ev.F]; !ok {
					h.rep.Infra("unknown header field %q", st.Ev.F)
					h.infra = true
					return -1, "", obs{}, obs{}
				}
				C.Hdr[st.Ev.F] = 1 - C.Hdr[st.Ev.F]
			} else {
				if st.Ev.K > len(C.Recs) {
					h.rep.Infra("Perturb of record %d of %d", st.Ev.K, len(C.Recs))
					h.infra = true
					return -1, "", obs{}, obs{}
				}
				if _, ok := C.Recs[st.Ev.K-1][st.Ev.F]; !ok {
					h.rep.Infra("unknown record field %q", st.Ev.F)
					h.infra = true
					return -1, "", obs{}, obs{}
				}
				C.Recs[st.Ev.K-1][st.Ev.F] = 1 - C.Recs[st.Ev.K-1][st.Ev.F]
			}
		case "Reset":
			C = S.clone()
		case "Adopt":
			S = C.clone()
		default:
			h.rep.Infra("unknown action %q", st.Ev.A)
			h.infra = true
			return -1, "", obs{}, obs{}
		}
		var ok bool
		if st.Ev.A != "Perturb" && st.Ev.A != "Reset" { // the sealed side moved
			if ss, ok = h.seal(t, S, viaQL); !ok {
				return -1, "", obs{}, obs{}
			}
		}
		// the candidate is sealed through the other path than the reference: identities must not
		// depend on whether the records came in as ch.Record or quorumlog.Record
		if cs, ok = h.seal(t, C, !viaQL); !ok {
			return -1, "", obs{}, obs{}
		}
		got, extra := h.observe(t, ss, cs)
		h.pairsN++
		if !obsEqual(st.St, got) {
			return i, explain(st.St, got), st.St, got
		}
		if len(extra) > 0 {
			return i, strings.Join(extra, "; "), st.St, got
		}
	}
	return -1, "", obs{}, obs{}
}

func TestVerifEntryIdentity(t *testing.T) {
	env, ok := kit.LoadEnv()
	if !ok {
		t.Skip("not started by the verif runner")
	}
	rep := kit.NewReport(env, "entryidentity")
	defer func() {
		if err := rep.Finish(nil); err != nil {
			t.Fatal(err)
		}
	}()
	behs, err := loadBehaviours(env.BehFile)
	if err != nil {
		rep.Infra("cannot load behaviours: %v", err)
		return
	}
	if len(behs) == 0 {
		rep.Infra("no behaviours to replay")
		return
	}
	rng := env.Rand()
	tables := fixedTables()
	for i := 0; i < env.Pick(2, 5); i++ {
		tables = append(tables, randomTable(rng, i+1))
	}
	h := &harness{rep: rep, reg: registry{byDigest: map[quorumlog.EntryDigest]string{}, byTuple: map[string]quorumlog.EntryDigest{}}}

	// Self-test of the comparison: a behaviour with one expected value altered must be flagged.
	{
		alt := behs[0]
		alt.Steps = append([]step(nil), alt.Steps...)
		last := len(alt.Steps) - 1
		st := alt.Steps[last]
		st.St.Same = append([]bool(nil), st.St.Same...)
		st.St.Same[0] = !st.St.Same[0]
		alt.Steps[last] = st
		probe := &harness{rep: rep, reg: registry{byDigest: map[quorumlog.EntryDigest]string{}, byTuple: map[string]quorumlog.EntryDigest{}}}
		at, _, _, _ := probe.replay(tables[0], alt, false)
		rep.SelfTest("altered_expectation_detected", at == last)
		if at != last && !probe.infra {
			rep.Infra("self-test: a behaviour with an altered expected digest relation was not flagged (got step %d, want %d)", at, last)
		}
	}

	perturbed := map[string]int{}
	for bi, b := range behs {
		for _, st := range b.Steps {
			rep.Cover(st.Ev.A)
			if st.Ev.A == "Perturb" {
				perturbed[st.Ev.F]++
			}
		}
		for ti, tb := range tables {
			at, text, want, got := h.replay(tb, b, (bi+ti)%2 == 1)
			if h.infra {
				break
			}
			if at >= 0 {
				rep.Violate(propID, "state", fmt.Sprintf("table %s, step %d (%s k=%d f=%s): %s", tb.Name, at, b.Steps[at].Ev.A, b.Steps[at].Ev.K, b.Steps[at].Ev.F, text),
					map[string]any{"behaviour": b.raw, "step": at, "table": tb.describe(), "expected": want, "observed": got})
			}
		}
		if h.infra || rep.Violations() >= 5 {
			break
		}
		rep.Replayed(len(b.Steps))
		if bi%(len(behs)/4+1) == 0 {
			rep.Sample(map[string]any{"behaviour_prefix": json.RawMessage(prefixOf(b, 4)), "tables": len(tables)})
		}
	}
	for _, f := range append(append([]string{}, recFields...), hdrFields...) {
		if perturbed[f] == 0 && !strings.Contains(env.BehFile, "beh_replay") {
			rep.Infra("no behaviour perturbed field %q", f)
		}
	}
	rep.Extra("tables", len(tables))
	rep.Extra("seal_calls", h.sealN)
	rep.Extra("verify_calls", h.verifyN)
	rep.Extra("pairs_compared", h.pairsN)
	rep.Extra("distinct_tuples_digested", len(h.reg.byTuple))
	rep.Extra("perturbations_by_field", perturbed)
}

func prefixOf(b behaviour, n int) []byte {
	if len(b.Steps) < n {
		n = len(b.Steps)
	}
	raw, _ := json.Marshal(map[string]any{"steps": b.Steps[:n]})
	return raw
}

package raftstorage

// Conformance harness for specs/RaftStorage (property C14): the durable Raft log of
// pkg/raftlog against the specification AND against etcd's raft.MemoryStorage, which is
// driven the way pkg/slot/multiraft drives it next to the durable store
// (Ready.Snapshot -> ApplySnapshot, local compaction -> CreateSnapshot+Compact,
// entries -> Append, hard state -> SetHardState).  Exported API only.
//
// Three parties per step: the specification's reply/projection (behaviour file), the real
// raftlog scopes (two or three scopes sharing one Pebble DB in t.TempDir()), and one
// MemoryStorage per scope.  Comparison happens while the DB is open and after a clean
// Close/Open at the points the behaviour names ("Reopen") and once more at its end.
//
// Known finding (signature knownSig, registered in known-findings.json).  20-line reproduction:
//
//	db, _ := raftlog.Open(dir, raftlog.Options{}); st := db.ForSlot(1); ms := raft.NewMemoryStorage()
//	ents := []raftpb.Entry{{Index: 1, Term: 1}, {Index: 2, Term: 1}, {Index: 3, Term: 1}, {Index: 4, Term: 1}, {Index: 5, Term: 1}}
//	hs := raftpb.HardState{Term: 1, Vote: 1, Commit: 2}
//	st.Save(ctx, multiraft.PersistentState{HardState: &hs, Entries: ents}); ms.Append(ents); ms.SetHardState(hs)
//	// the follower's (3,t1) does not match the leader's snapshot (3,t2): raft.restore drops the log
//	snap := raftpb.Snapshot{Data: []byte("x"), Metadata: raftpb.SnapshotMetadata{Index: 3, Term: 2,
//		ConfState: raftpb.ConfState{Voters: []uint64{1, 2}}}}
//	hs2 := raftpb.HardState{Term: 2, Vote: 2, Commit: 3}
//	st.Save(ctx, multiraft.PersistentState{HardState: &hs2, Snapshot: &snap}); ms.ApplySnapshot(snap); ms.SetHardState(hs2)
//	db.Close(); db, _ = raftlog.Open(dir, raftlog.Options{}); st = db.ForSlot(1)
//	st.LastIndex(ctx)     // 5      reference ms.LastIndex() = 3
//	st.Entries(ctx, 4, 6, 0) // [(4,t1) (5,t1)]   reference: none
//	st.Term(ctx, 5)       // 1      reference: ErrUnavailable
//
// Observation (not a C14 violation, reported through Extra "unpredicted_refusals"): when scopes write
// concurrently, a call the write worker refuses fails every request sharing its Pebble batch:
//
//	db, _ := raftlog.Open(dir, raftlog.Options{WriteBatchMaxWait: 300 * time.Millisecond}); a, b := db.ForSlot(1), db.ForSlot(2)
//	a.Save(ctx, multiraft.PersistentState{HardState: &raftpb.HardState{Term: 1, Commit: 5}, Snapshot: &snapAt5}); a.MarkApplied(ctx, 2)
//	go a.(multiraft.ExternalSnapshotStorage).ReplaceSnapshot(ctx, snapAt2) // refused by the worker: ErrSnapOutOfDate (correct)
//	time.Sleep(50 * time.Millisecond)                                      // same batch window
//	b.Save(ctx, multiraft.PersistentState{HardState: &raftpb.HardState{Term: 1}, Entries: []raftpb.Entry{{Index: 1, Term: 1}}})
//	// -> returns the same ErrSnapOutOfDate; b.LastIndex() == 0: flushWriteRequests fails the whole cross-scope batch
//
// Failed writes (model action SaveFails).  pkg/raftlog has no exported way to make a Pebble commit
// fail, and a WAL write error injected through the verif FS hook is fatal to Pebble
// (DB.applyInternal: "fatal commit error", the commit pipeline is unusable afterwards).  What the
// exported API does reach is the other road to a batch that is built but never committed: a request
// of the same cross-scope batch that saveOp.apply refuses AFTER the earlier requests were applied to
// the writer's working copies.  The harness opens such stores with WriteBatchMaxItems 2 and a long
// WriteBatchMaxWait, so every flush carries exactly two requests: an ordinary write travels with a
// filler write of an unrelated scope, and a write that is to fail (the victim: a Raft-valid Save /
// ReplaceSnapshot / MarkApplied, preferably a snapshot install) travels with a poisoned Save of the
// saboteur scope (a committed conf-change entry that cannot be decoded; deriveConfState fails).  The
// victim must be queued first: the harness waits until its goroutine is parked in DB.submitWrite
// (goroutine dump; steering only, never an oracle).  Both calls return the error, nothing may have
// changed, and the history goes on: a later write on the victim's scope recomputes the metadata
// record from the committed writer cache, which is where a failed install that leaked into that
// cache shows (seeded change C14-1).
//
// C14 constrains what the store holds for the calls that took effect.  A call that returns an error
// the specification did not predict is therefore checked for having persisted NOTHING (a refused call
// that changed the store is a violation), counted, and repeated; only a refusal that persists over
// maxRetry repetitions is reported (the store can then never hold what the reference holds).

import (
	"bytes"
	"context"
	"errors"
	"fmt"
	"math"
	"math/rand"
	"os"
	"path/filepath"
	"runtime"
	"sort"
	"strings"
	"sync"
	"testing"
	"time"

	"github.com/WuKongIM/WuKongIM/pkg/raftlog"
	"github.com/WuKongIM/WuKongIM/pkg/slot/multiraft"
	"github.com/WuKongIM/WuKongIM/pkg/wklog"
	raft "go.etcd.io/raft/v3"
	"go.etcd.io/raft/v3/raftpb"
	"verif/runner/kit"
)

const (
	propID   = "C14"
	knownSig = "C14:stale-suffix-after-nonmatching-snapshot-install"
	maxRetry = 20
)

var scopeOf = map[string]raftlog.Scope{
	"s1": raftlog.SlotScope(1),
	"s2": raftlog.SlotScope(2), // adjacent key range to s1
	"s3": raftlog.ControllerScope(),
}

// ---- payloads -------------------------------------------------------------------------
// Entry and snapshot payloads are a function of (scope, index, term, kind) resp. (scope, id)
// so that a record that surfaces in the wrong scope or at the wrong index is recognised.

func mkEntry(scope string, i, t, c int64) raftpb.Entry {
	tag := []byte(fmt.Sprintf("%s/%d/%d/%d/", scope, i, t, c))
	tag = append(tag, bytes.Repeat([]byte{'.'}, int((i*7+t*3)%23))...)
	if c == 0 {
		return raftpb.Entry{Index: uint64(i), Term: uint64(t), Type: raftpb.EntryNormal, Data: tag}
	}
	cc := raftpb.ConfChange{Type: raftpb.ConfChangeAddNode, NodeID: uint64(c), Context: tag}
	data, err := cc.Marshal()
	if err != nil {
		panic(err)
	}
	return raftpb.Entry{Index: uint64(i), Term: uint64(t), Type: raftpb.EntryConfChange, Data: data}
}

func decodeEntry(scope string, e raftpb.Entry) (map[string]any, error) {
	c := int64(0)
	if e.Type == raftpb.EntryConfChange {
		var cc raftpb.ConfChange
		if err := cc.Unmarshal(e.Data); err != nil {
			return nil, fmt.Errorf("entry %d: undecodable conf change: %v", e.Index, err)
		}
		c = int64(cc.NodeID)
	}
	want := mkEntry(scope, int64(e.Index), int64(e.Term), c)
	if want.Type != e.Type || !bytes.Equal(want.Data, e.Data) {
		return nil, fmt.Errorf("entry (index %d, term %d) of scope %s carries a payload that was never saved there: %q", e.Index, e.Term, scope, e.Data)
	}
	return map[string]any{"i": int64(e.Index), "t": int64(e.Term), "c": c}, nil
}

func snapData(scope string, d int64) []byte {
	if d <= 0 {
		return nil
	}
	n := int((d * 53) % 131) // 53, 106, 28, 81 ... bytes: one or several 32-byte chunks
	if d%4 == 2 {
		n = 0 // an empty payload is a legal snapshot
	}
	tag := []byte(fmt.Sprintf("%s#%d#", scope, d))
	out := make([]byte, 0, n)
	for len(out) < n {
		out = append(out, tag...)
	}
	return out[:n]
}

func decodeSnapData(scope string, data []byte) (int64, error) {
	for d := int64(1); d <= 12; d++ {
		if bytes.Equal(snapData(scope, d), data) && (len(data) > 0 || d%4 == 2) {
			return d, nil
		}
	}
	return -1, fmt.Errorf("snapshot of scope %s carries a payload that was never saved there (%d bytes)", scope, len(data))
}

// ---- event decoding -------------------------------------------------------------------

type snapArg struct {
	i, t, d int64
	v       []uint64
}

func snapFromEv(m map[string]any) snapArg {
	s := snapArg{i: kit.Int(m, "i"), t: kit.Int(m, "t"), d: kit.Int(m, "d")}
	for _, x := range kit.List(m, "v") {
		s.v = append(s.v, uint64(kit.ToInt(x)))
	}
	return s
}

func (s snapArg) pb(scope string) raftpb.Snapshot {
	return raftpb.Snapshot{Data: snapData(scope, s.d), Metadata: raftpb.SnapshotMetadata{
		Index: uint64(s.i), Term: uint64(s.t), ConfState: raftpb.ConfState{Voters: append([]uint64(nil), s.v...)}}}
}

func entsFromEv(scope string, ev map[string]any) []raftpb.Entry {
	var out []raftpb.Entry
	for _, x := range kit.List(ev, "ents") {
		m := x.(map[string]any)
		out = append(out, mkEntry(scope, kit.Int(m, "i"), kit.Int(m, "t"), kit.Int(m, "c")))
	}
	return out
}

func hsFromEv(ev map[string]any) raftpb.HardState {
	m := kit.Map(ev, "hs")
	return raftpb.HardState{Term: uint64(kit.Int(m, "term")), Vote: uint64(kit.Int(m, "vote")), Commit: uint64(kit.Int(m, "commit"))}
}

func hsJ(hs raftpb.HardState) map[string]any {
	return map[string]any{"term": int64(hs.Term), "vote": int64(hs.Vote), "commit": int64(hs.Commit)}
}

func votersJ(cs raftpb.ConfState) []int64 {
	out := []int64{}
	for _, v := range cs.Voters {
		out = append(out, int64(v))
	}
	sort.Slice(out, func(i, j int) bool { return out[i] < out[j] })
	return out
}

func snapJ(scope string, sn raftpb.Snapshot) (map[string]any, error) {
	if sn.Metadata.Index == 0 {
		if len(sn.Data) != 0 || sn.Metadata.Term != 0 {
			return nil, fmt.Errorf("empty snapshot with term %d and %d payload bytes", sn.Metadata.Term, len(sn.Data))
		}
		return map[string]any{"i": 0, "t": 0, "v": []int64{}, "d": 0}, nil
	}
	d, err := decodeSnapData(scope, sn.Data)
	if err != nil {
		return nil, err
	}
	return map[string]any{"i": int64(sn.Metadata.Index), "t": int64(sn.Metadata.Term), "v": votersJ(sn.Metadata.ConfState), "d": d}, nil
}

func entsJ(scope string, es []raftpb.Entry) ([]any, error) {
	out := []any{}
	for _, e := range es {
		m, err := decodeEntry(scope, e)
		if err != nil {
			return nil, err
		}
		out = append(out, m)
	}
	return out, nil
}

// ---- the real store ---------------------------------------------------------------------

type sut struct {
	path   string
	db     *raftlog.DB
	scopes []string
	n      int64 // MaxIdx of the specification instance
	wait   time.Duration
	// paired: every flush of the write worker carries exactly two requests (see "Failed writes" above).
	paired bool
	// steering statistics of the paired mode (never part of a verdict)
	steerTimeouts int
	sameBatch     int // failing pairs in which victim and saboteur returned the same error
}

var ctx = context.Background()

const pairedWait = 3 * time.Second

func (s *sut) open() error {
	opts := raftlog.Options{SnapshotChunkSize: 32, WriteBatchMaxWait: s.wait, Logger: wklog.NewNop()}
	if s.paired {
		opts.WriteBatchMaxWait, opts.WriteBatchMaxItems = pairedWait, 2
	}
	db, err := raftlog.Open(s.path, opts)
	if err != nil {
		return err
	}
	s.db = db
	return nil
}

// ---- paired mode: fillers, saboteur, failing writes -----------------------------------------

var (
	fillerScope   = raftlog.SlotScope(901) // written by fillers only, never compared
	saboteurScope = raftlog.SlotScope(902) // target of the poisoned Save; stays empty for ever
)

// parkedWriters counts the goroutines that have queued a request for the write worker and wait
// for its outcome (blocked on the reply channel inside DB.submitWrite).
func parkedWriters() int {
	buf := make([]byte, 1<<20)
	buf = buf[:runtime.Stack(buf, true)]
	n := 0
	for _, g := range strings.Split(string(buf), "\n\n") {
		nl := strings.IndexByte(g, '\n')
		if nl < 0 || !strings.Contains(g[:nl], "[chan receive") {
			continue
		}
		if strings.HasPrefix(g[nl+1:], "github.com/WuKongIM/WuKongIM/pkg/raftlog.(*DB).submitWrite(") {
			n++
		}
	}
	return n
}

// start runs fn on its own goroutine and returns once fn has queued its request for the write
// worker or has returned without queueing one (early = true, err = its result).
func (s *sut) start(fn func() error) (done chan error, early bool, err error) {
	done = make(chan error, 1)
	go func() { done <- fn() }()
	deadline := time.Now().Add(pairedWait / 3)
	for spin := 0; ; spin++ {
		select {
		case err = <-done:
			return done, true, err
		default:
		}
		if parkedWriters() >= 1 {
			return done, false, nil
		}
		if time.Now().After(deadline) { // the dump did not show it (renamed function?): go on, steering lost
			s.steerTimeouts++
			return done, false, nil
		}
		if spin < 50 {
			runtime.Gosched()
		} else {
			time.Sleep(100 * time.Microsecond)
		}
	}
}

// mutate performs one mutating call.  In paired mode the call travels with a filler request.
func (s *sut) mutate(fn func() error) error {
	if !s.paired {
		return fn()
	}
	done, early, err := s.start(fn)
	if early {
		return err
	}
	ferr := s.db.For(fillerScope).(multiraft.ConfigAppliedIndexStorage).MarkConfigApplied(ctx, 1)
	err = <-done
	if err == nil && ferr != nil {
		return fmt.Errorf("filler write failed: %w", ferr)
	}
	return err
}

// poison is a Save the write worker refuses while it applies it: entry 1 is a committed
// configuration change that cannot be decoded.
func (s *sut) poison() error {
	hs := raftpb.HardState{Term: 1, Commit: 1}
	return s.db.For(saboteurScope).Save(ctx, multiraft.PersistentState{HardState: &hs,
		Entries: []raftpb.Entry{{Index: 1, Term: 1, Type: raftpb.EntryConfChange, Data: []byte{0xff, 0xff}}}})
}

// failing performs fn so that it fails: its request shares the Pebble batch with the poisoned Save
// queued behind it.  It returns the victim's and the saboteur's results.
func (s *sut) failing(fn func() error) (victim, sab error, err error) {
	if !s.paired {
		return nil, nil, errors.New("failing writes need a store opened in paired mode")
	}
	done, early, verr := s.start(fn)
	if early {
		return verr, nil, nil
	}
	sab = s.poison()
	victim = <-done
	if sab == nil {
		return victim, nil, errors.New("the poisoned Save was accepted: the fault injection no longer works on this code")
	}
	if victim != nil && victim.Error() == sab.Error() {
		s.sameBatch++
	}
	return victim, sab, nil
}

func newSUT(dir string, scopes []string, n int64, wait time.Duration, paired bool) (*sut, error) {
	s := &sut{path: filepath.Join(dir, "raft"), scopes: scopes, n: n, wait: wait, paired: paired}
	return s, s.open()
}

func (s *sut) st(scope string) multiraft.Storage { return s.db.For(scopeOf[scope]) }

// obsErr marks an error returned by an observation call of the real store.
type obsErr struct{ error }

// project asks the real store for every observation of one scope.
func (s *sut) project(scope string) (map[string]any, error) {
	st := s.st(scope)
	first, err := st.FirstIndex(ctx)
	if err != nil {
		return nil, obsErr{fmt.Errorf("FirstIndex: %w", err)}
	}
	last, err := st.LastIndex(ctx)
	if err != nil {
		return nil, obsErr{fmt.Errorf("LastIndex: %w", err)}
	}
	bs, err := st.InitialState(ctx)
	if err != nil {
		return nil, obsErr{fmt.Errorf("InitialState: %w", err)}
	}
	sn, err := st.Snapshot(ctx)
	if err != nil {
		return nil, obsErr{fmt.Errorf("Snapshot: %w", err)}
	}
	sj, err := snapJ(scope, sn)
	if err != nil {
		return nil, obsErr{err}
	}
	es, err := st.Entries(ctx, 1, math.MaxUint64, 0)
	if err != nil {
		return nil, obsErr{fmt.Errorf("Entries: %w", err)}
	}
	ej, err := entsJ(scope, es)
	if err != nil {
		return nil, obsErr{err}
	}
	terms := []int64{}
	for i := int64(0); i <= s.n+1; i++ {
		t, err := st.Term(ctx, uint64(i))
		if err != nil {
			return nil, obsErr{fmt.Errorf("Term(%d): %w", i, err)}
		}
		terms = append(terms, int64(t))
	}
	return map[string]any{
		"first": int64(first), "last": int64(last),
		"init": map[string]any{"hs": hsJ(bs.HardState), "v": votersJ(bs.ConfState),
			"applied": int64(bs.AppliedIndex), "cfg": int64(bs.ConfigAppliedIndex)},
		"snap": sj, "ents": ej, "terms": terms,
	}, nil
}

func (s *sut) projectAll() (map[string]any, error) {
	out := map[string]any{}
	for _, sc := range s.scopes {
		p, err := s.project(sc)
		if err != nil {
			return nil, fmt.Errorf("scope %s: %w", sc, err)
		}
		out[sc] = p
	}
	return out, nil
}

// apply performs the call described by ev on the real store and returns the reply.
// A non-nil error is harness trouble (unknown action, cannot reopen) unless it is an obsErr.
func (s *sut) apply(ev map[string]any) (map[string]any, error) {
	res, _, err := s.applyE(ev)
	return res, err
}

// applyE is apply that also hands out the error a mutating call returned (reply ok=false).
func (s *sut) applyE(ev map[string]any) (map[string]any, error, error) {
	var callErr error
	res, err := s.applyInner(ev, &callErr)
	return res, callErr, err
}

func (s *sut) applyInner(ev map[string]any, callErr *error) (map[string]any, error) {
	scope := kit.Str(ev, "s")
	switch a := kit.Str(ev, "a"); a {
	case "Save":
		ps := multiraft.PersistentState{Entries: entsFromEv(scope, ev)}
		if kit.Bool(ev, "hasHS") {
			hs := hsFromEv(ev)
			ps.HardState = &hs
		}
		if kit.Bool(ev, "hasSnap") {
			sn := snapFromEv(kit.Map(ev, "snap")).pb(scope)
			ps.Snapshot = &sn
		}
		err := s.mutate(func() error { return s.st(scope).Save(ctx, ps) })
		*callErr = err
		return map[string]any{"ok": err == nil}, nil
	case "ReplaceSnapshot":
		r, ok := s.st(scope).(multiraft.ExternalSnapshotStorage)
		if !ok {
			return nil, errors.New("store does not implement ExternalSnapshotStorage")
		}
		sn := snapFromEv(kit.Map(ev, "snap")).pb(scope)
		err := s.mutate(func() error { return r.ReplaceSnapshot(ctx, sn) })
		*callErr = err
		return map[string]any{"ok": err == nil}, nil
	case "MarkApplied":
		err := s.mutate(func() error { return s.st(scope).MarkApplied(ctx, uint64(kit.Int(ev, "i"))) })
		*callErr = err
		return map[string]any{"ok": err == nil}, nil
	case "MarkConfigApplied":
		r, ok := s.st(scope).(multiraft.ConfigAppliedIndexStorage)
		if !ok {
			return nil, errors.New("store does not implement ConfigAppliedIndexStorage")
		}
		err := s.mutate(func() error { return r.MarkConfigApplied(ctx, uint64(kit.Int(ev, "i"))) })
		*callErr = err
		return map[string]any{"ok": err == nil}, nil
	case "SaveFails":
		// ev["call"] is the attempted (Raft-valid) write; it is made to fail.
		call := kit.Map(ev, "call")
		if call == nil || kit.Str(call, "s") != scope {
			return nil, errors.New("SaveFails without the call to attempt")
		}
		plain := &sut{path: s.path, db: s.db, scopes: s.scopes, n: s.n}
		var inner error
		victim, _, err := s.failing(func() error {
			var ce error
			_, inner = plain.applyInner(call, &ce)
			return ce
		})
		if err == nil && inner != nil {
			err = inner
		}
		if err != nil {
			return nil, err
		}
		if victim == nil {
			return nil, fmt.Errorf("fault injection: the attempted write %s did not fail", kit.JSON(call))
		}
		*callErr = victim
		return map[string]any{"ok": false}, nil
	case "Reopen":
		if err := s.db.Close(); err != nil {
			return nil, fmt.Errorf("close: %w", err)
		}
		if err := s.open(); err != nil {
			return nil, fmt.Errorf("reopen: %w", err)
		}
		return map[string]any{"ok": true}, nil
	case "Entries":
		es, err := s.st(scope).Entries(ctx, uint64(kit.Int(ev, "lo")), uint64(kit.Int(ev, "hi")), 0)
		if err != nil {
			return nil, obsErr{fmt.Errorf("Entries: %w", err)}
		}
		ej, err := entsJ(scope, es)
		if err != nil {
			return nil, obsErr{err}
		}
		return map[string]any{"ents": ej}, nil
	case "Term":
		t, err := s.st(scope).Term(ctx, uint64(kit.Int(ev, "i")))
		if err != nil {
			return nil, obsErr{fmt.Errorf("Term: %w", err)}
		}
		return map[string]any{"t": int64(t)}, nil
	case "FirstIndex":
		i, err := s.st(scope).FirstIndex(ctx)
		if err != nil {
			return nil, obsErr{fmt.Errorf("FirstIndex: %w", err)}
		}
		return map[string]any{"i": int64(i)}, nil
	case "LastIndex":
		i, err := s.st(scope).LastIndex(ctx)
		if err != nil {
			return nil, obsErr{fmt.Errorf("LastIndex: %w", err)}
		}
		return map[string]any{"i": int64(i)}, nil
	case "InitialState":
		bs, err := s.st(scope).InitialState(ctx)
		if err != nil {
			return nil, obsErr{fmt.Errorf("InitialState: %w", err)}
		}
		return map[string]any{"hs": hsJ(bs.HardState), "v": votersJ(bs.ConfState),
			"applied": int64(bs.AppliedIndex), "cfg": int64(bs.ConfigAppliedIndex)}, nil
	case "Snapshot":
		sn, err := s.st(scope).Snapshot(ctx)
		if err != nil {
			return nil, obsErr{fmt.Errorf("Snapshot: %w", err)}
		}
		sj, err := snapJ(scope, sn)
		if err != nil {
			return nil, obsErr{err}
		}
		return sj, nil
	default:
		return nil, fmt.Errorf("unknown action %q", a)
	}
}

// ---- the etcd reference -----------------------------------------------------------------

// refStore is one raft.MemoryStorage driven as multiraft's storageAdapter / compactLogAt
// drive theirs.  dead: the scope ran into the known deviation and is no longer compared.
type refStore struct {
	ms      *raft.MemoryStorage
	applied int64
	dead    bool
}

func newRef() *refStore { return &refStore{ms: raft.NewMemoryStorage()} }

func (r *refStore) last() int64  { i, _ := r.ms.LastIndex(); return int64(i) }
func (r *refStore) first() int64 { i, _ := r.ms.FirstIndex(); return int64(i) }
func (r *refStore) snapIdx() int64 {
	sn, _ := r.ms.Snapshot()
	return int64(sn.Metadata.Index)
}
func (r *refStore) hs() raftpb.HardState { hs, _, _ := r.ms.InitialState(); return hs }
func (r *refStore) term(i int64) int64 {
	if i < 0 {
		return 0
	}
	t, err := r.ms.Term(uint64(i))
	if err != nil { // ErrCompacted / ErrUnavailable: the index is not held
		return 0
	}
	return int64(t)
}

func sameSnap(a, b raftpb.Snapshot) bool {
	return a.Metadata.Index == b.Metadata.Index && a.Metadata.Term == b.Metadata.Term &&
		bytes.Equal(a.Data, b.Data) && kit.Equal(votersJ(a.Metadata.ConfState), votersJ(b.Metadata.ConfState))
}

// installSnap applies an accepted snapshot with index >= the current one.
func (r *refStore) installSnap(sn raftpb.Snapshot, replace bool) error {
	cur, _ := r.ms.Snapshot()
	idx := int64(sn.Metadata.Index)
	switch {
	case sn.Metadata.Index == cur.Metadata.Index:
		if !replace {
			return nil // identical snapshot at the same index: nothing to do
		}
		// MemoryStorage cannot swap a snapshot in place: rebuild it from the new snapshot and the
		// retained entries, as a node does after a maintenance restore.
		hs := r.hs()
		var keep []raftpb.Entry
		if r.last() >= r.first() {
			keep, _ = r.ms.Entries(uint64(r.first()), uint64(r.last())+1, math.MaxUint64)
		}
		r.ms = raft.NewMemoryStorage()
		if err := r.ms.ApplySnapshot(sn); err != nil {
			return err
		}
		if err := r.ms.Append(keep); err != nil {
			return err
		}
		return r.ms.SetHardState(hs)
	case idx <= r.last() && r.term(idx) == int64(sn.Metadata.Term):
		// compaction (compactLogAt): CreateSnapshot + Compact keep the suffix
		cs := sn.Metadata.ConfState
		if _, err := r.ms.CreateSnapshot(sn.Metadata.Index, &cs, sn.Data); err != nil {
			return err
		}
		if err := r.ms.Compact(sn.Metadata.Index); err != nil && !errors.Is(err, raft.ErrCompacted) {
			return err
		}
	default:
		// install (Ready.Snapshot): the log is forgotten
		if err := r.ms.ApplySnapshot(sn); err != nil {
			return err
		}
	}
	return nil
}

func (r *refStore) raiseCommit(idx uint64) error {
	if hs := r.hs(); hs.Commit < idx {
		hs.Commit = idx
		return r.ms.SetHardState(hs)
	}
	return nil
}

// save mirrors storageAdapter.applyReadyToMemory; ok=false: the snapshot is refused, nothing changes.
func (r *refStore) save(hs *raftpb.HardState, ents []raftpb.Entry, sn *raftpb.Snapshot) (bool, error) {
	if sn != nil {
		cur, _ := r.ms.Snapshot()
		if sn.Metadata.Index < cur.Metadata.Index {
			return false, nil
		}
		if sn.Metadata.Index == cur.Metadata.Index && !sameSnap(cur, *sn) {
			return false, nil
		}
	}
	if hs != nil {
		if err := r.ms.SetHardState(*hs); err != nil {
			return false, err
		}
	}
	if sn != nil {
		if err := r.installSnap(*sn, false); err != nil {
			return false, err
		}
		if err := r.raiseCommit(sn.Metadata.Index); err != nil {
			return false, err
		}
	}
	if len(ents) > 0 {
		if err := r.ms.Append(ents); err != nil { // etcd's overwrite rule; drops entries at or below the snapshot
			return false, err
		}
	}
	return true, nil
}

func (r *refStore) replace(sn raftpb.Snapshot) (bool, error) {
	idx := int64(sn.Metadata.Index)
	if idx == 0 || idx != r.applied || idx < r.snapIdx() {
		return false, nil
	}
	if err := r.installSnap(sn, true); err != nil {
		return false, err
	}
	return true, r.raiseCommit(sn.Metadata.Index)
}

// project: the observations the reference has an opinion on (no applied / conf-state derivation).
func (r *refStore) project(scope string, n int64) (map[string]any, error) {
	sn, _ := r.ms.Snapshot()
	sj, err := snapJ(scope, sn)
	if err != nil {
		return nil, err
	}
	var es []raftpb.Entry
	if r.last() >= r.first() {
		es, err = r.ms.Entries(uint64(r.first()), uint64(r.last())+1, math.MaxUint64)
		if err != nil {
			return nil, err
		}
	}
	ej, err := entsJ(scope, es)
	if err != nil {
		return nil, err
	}
	terms := []int64{}
	for i := int64(0); i <= n+1; i++ {
		terms = append(terms, r.term(i))
	}
	return map[string]any{"first": r.first(), "last": r.last(), "hs": hsJ(r.hs()), "snap": sj, "ents": ej, "terms": terms}, nil
}

// entries: Entries(lo,hi) with MemoryStorage's error semantics mapped onto raftlog's:
// ErrCompacted / ErrUnavailable / out of bound mean "only the held part of the range".
func (r *refStore) entries(scope string, lo, hi int64) ([]any, error) {
	if lo < r.first() {
		lo = r.first()
	}
	if hi > r.last()+1 {
		hi = r.last() + 1
	}
	if lo >= hi {
		return []any{}, nil
	}
	es, err := r.ms.Entries(uint64(lo), uint64(hi), math.MaxUint64)
	if err != nil {
		return nil, err
	}
	return entsJ(scope, es)
}

// implView reduces the real store's projection to the fields the reference speaks about.
func implView(p map[string]any) map[string]any {
	return map[string]any{"first": p["first"], "last": p["last"], "hs": kit.Map(p, "init")["hs"],
		"snap": p["snap"], "ents": p["ents"], "terms": p["terms"]}
}

// ---- one checked step ---------------------------------------------------------------------

type finding struct {
	kind, detail, sig string
}

type runner struct {
	sut  *sut
	refs map[string]*refStore
}

// staleShape: the one step for which the code is known to deviate from the reference (judged on
// the reference BEFORE the step): an accepted Save whose snapshot is newer than the stored one,
// below the last index, does not match the term of the stored entry, and is not followed by entries.
func staleShape(r *refStore, ev map[string]any) ([]any, bool) {
	if kit.Str(ev, "a") != "Save" || !kit.Bool(ev, "hasSnap") {
		return nil, false
	}
	sn := snapFromEv(kit.Map(ev, "snap"))
	if !(sn.i > r.snapIdx() && sn.i < r.last() && r.term(sn.i) != 0 && r.term(sn.i) != sn.t) {
		return nil, false
	}
	for _, x := range kit.List(ev, "ents") {
		if kit.Int(x.(map[string]any), "i") > sn.i {
			return nil, false
		}
	}
	suffix, err := r.entries(kit.Str(ev, "s"), sn.i+1, r.last()+1)
	if err != nil {
		return nil, false
	}
	return suffix, true
}

// refStep applies ev to the reference of its scope and compares the real store with it.
func (x *runner) refStep(ev map[string]any, res map[string]any, projOf func(string) (map[string]any, error), scopes []string) *finding {
	scope := kit.Str(ev, "s")
	a := kit.Str(ev, "a")
	r := x.refs[scope]
	var suffix []any
	stale := false
	if r != nil && !r.dead {
		suffix, stale = staleShape(r, ev)
		var ok bool
		var err error
		switch a {
		case "Save":
			var hs *raftpb.HardState
			if kit.Bool(ev, "hasHS") {
				h := hsFromEv(ev)
				hs = &h
			}
			var sn *raftpb.Snapshot
			if kit.Bool(ev, "hasSnap") {
				s := snapFromEv(kit.Map(ev, "snap")).pb(scope)
				sn = &s
			}
			ok, err = r.save(hs, entsFromEv(scope, ev), sn)
		case "ReplaceSnapshot":
			ok, err = r.replace(snapFromEv(kit.Map(ev, "snap")).pb(scope))
		case "MarkApplied":
			r.applied, ok = kit.Int(ev, "i"), true
		case "SaveFails": // the caller saw an error: the reference is not told
			ok = false
		default:
			ok = true
		}
		if err != nil {
			return &finding{kind: "infra", detail: fmt.Sprintf("reference refused %s: %v", kit.JSON(kit.CloneEv(ev)), err)}
		}
		if got, has := res["ok"]; has && got != ok {
			return &finding{kind: "reference", detail: fmt.Sprintf("%s: accepted by the real store = %v, by the reference = %v", kit.JSON(kit.CloneEv(ev)), got, ok)}
		}
		switch a {
		case "Entries":
			want, err := r.entries(scope, kit.Int(ev, "lo"), kit.Int(ev, "hi"))
			if err != nil {
				return &finding{kind: "infra", detail: err.Error()}
			}
			if d := kit.Diff(want, res["ents"]); d != "" {
				return &finding{kind: "reference", detail: fmt.Sprintf("Entries(%s,%d,%d) differs from raft.MemoryStorage (spec= reference) %s", scope, kit.Int(ev, "lo"), kit.Int(ev, "hi"), d)}
			}
			for _, e := range kit.List(res, "ents") {
				if kit.Int(e.(map[string]any), "i") < r.first() {
					return &finding{kind: "reference", detail: fmt.Sprintf("Entries(%s,%d,%d) returned index %d below the compaction point (first index %d)", scope, kit.Int(ev, "lo"), kit.Int(ev, "hi"), kit.Int(e.(map[string]any), "i"), r.first())}
				}
			}
		case "Term":
			if want := r.term(kit.Int(ev, "i")); want != kit.Int(res, "t") {
				return &finding{kind: "reference", detail: fmt.Sprintf("Term(%s,%d) = %d, raft.MemoryStorage says %d (0 = not held)", scope, kit.Int(ev, "i"), kit.Int(res, "t"), want)}
			}
		}
	}
	for _, sc := range scopes {
		rr := x.refs[sc]
		if rr == nil || rr.dead {
			continue
		}
		p, err := projOf(sc)
		if err != nil {
			return &finding{kind: "reply", detail: fmt.Sprintf("scope %s: %v", sc, err)}
		}
		want, err := rr.project(sc, x.sut.n)
		if err != nil {
			return &finding{kind: "infra", detail: "reference projection: " + err.Error()}
		}
		got := implView(p)
		d := kit.Diff(want, got)
		if d == "" {
			continue
		}
		if stale && sc == scope && knownDeviation(want, got, suffix) {
			rr.dead = true
			return &finding{kind: "reference", sig: knownSig,
				detail: fmt.Sprintf("after %s the real store keeps the stale entries %s above the snapshot; raft.MemoryStorage (ApplySnapshot) holds none: %s", kit.JSON(kit.CloneEv(ev)), kit.JSON(suffix), d)}
		}
		return &finding{kind: "reference", detail: fmt.Sprintf("after %s scope %s differs from raft.MemoryStorage (spec= reference) %s", kit.JSON(kit.CloneEv(ev)), sc, d)}
	}
	return nil
}

// knownDeviation recognises the registered finding narrowly: the only difference is that the
// real store still holds exactly the entries that were stored above the snapshot index.
func knownDeviation(want, got map[string]any, suffix []any) bool {
	if len(suffix) == 0 {
		return false
	}
	for _, k := range []string{"first", "hs", "snap"} {
		if !kit.Equal(want[k], got[k]) {
			return false
		}
	}
	if len(kit.List(want, "ents")) != 0 || !kit.Equal(got["ents"], suffix) {
		return false
	}
	return kit.ToInt(got["last"]) == kit.ToInt(want["last"])+int64(len(suffix))
}

// ---- replay of TLC behaviours ------------------------------------------------------------

type replayOutcome struct {
	step     int
	f        *finding
	known    int // occurrences of the registered stale-suffix deviation
	refusals int // calls that failed although the specification accepts them, persisted nothing and succeeded when repeated
	refusal  any // the first of them, written out
	actions  []string
	// paired mode: writes made to fail, how many of them demonstrably shared the saboteur's batch,
	// and how often the queueing order could not be steered
	faults, sameBatch, steerTimeouts int
}

// hasFaults reports whether the behaviour contains writes that are to fail.
func hasFaults(b kit.Behaviour) bool {
	for _, st := range b.Steps {
		if kit.Str(st.Ev, "a") == "SaveFails" {
			return true
		}
	}
	return false
}

// withoutFaults drops the failed writes: they change nothing, so the rest is a behaviour of the
// specification with the same replies and projections.
func withoutFaults(b kit.Behaviour) kit.Behaviour {
	out := kit.Behaviour{Final: b.Final}
	for _, st := range b.Steps {
		if kit.Str(st.Ev, "a") != "SaveFails" {
			out.Steps = append(out.Steps, st)
		}
	}
	return out
}

// victimFor draws the write that a SaveFails step attempts on scope sc: a Raft-valid mutating call
// the store would accept, judged on the scope's reference; mostly one that carries a newer snapshot
// (install, compaction, replacement), because that is the write that rewrites the cached tail.
func victimFor(rng *rand.Rand, refs map[string]*refStore, sc string) map[string]any {
	fallback := kit.Ev("MarkConfigApplied", "s", sc, "i", 0)
	r := refs[sc]
	if r == nil || r.dead {
		return fallback
	}
	d := &driver{rng: rng, refs: refs, scopes: []string{sc}}
	wantSnap := rng.Intn(4) != 0
	for try := 0; try < 300; try++ {
		ev := d.next()
		switch kit.Str(ev, "a") {
		case "Save":
			if kit.Bool(ev, "hasSnap") {
				if kit.ToInt(kit.Map(ev, "snap")["i"]) > r.snapIdx() {
					return ev
				}
				continue
			}
			fallback = ev
			if !wantSnap {
				return ev
			}
		case "ReplaceSnapshot":
			if i := kit.ToInt(kit.Map(ev, "snap")["i"]); i != 0 && i == r.applied && i >= r.snapIdx() {
				return ev
			}
		case "MarkApplied":
			if !wantSnap && rng.Intn(3) == 0 {
				return ev
			}
		}
	}
	return fallback
}

func errNote(err error) string {
	if err == nil {
		return ""
	}
	return fmt.Sprintf(" (error returned: %q)", err)
}

// callChecked performs ev.  If the call fails although the specification accepts it, the scope's
// observations must be exactly what they were before (prev); the call is then repeated.
// refusals counts such repetitions; f is set when the refused call changed something or the
// refusal persists.
func callChecked(s *sut, ev map[string]any, prev map[string]any) (res map[string]any, callErr error, refusals int, sample any, f *finding, err error) {
	want := kit.Map(ev, "res")
	for try := 0; ; try++ {
		res, callErr, err = s.applyE(ev)
		if err != nil || want == nil || !kit.Bool(want, "ok") || kit.Bool(res, "ok") {
			return
		}
		if _, has := res["ok"]; !has {
			return
		}
		now, perr := s.project(kit.Str(ev, "s"))
		if perr != nil {
			f = &finding{kind: "state", detail: fmt.Sprintf("%s failed with %q and the scope cannot be observed afterwards: %v", kit.JSON(kit.CloneEv(ev)), callErr, perr)}
			return
		}
		if d := kit.Diff(prev, now); d != "" {
			f = &finding{kind: "state", detail: fmt.Sprintf("%s returned the error %q but changed the store: %s (spec= before the call)", kit.JSON(kit.CloneEv(ev)), callErr, d)}
			return
		}
		if try == 0 {
			sample = map[string]any{"unpredicted_refusal": kit.CloneEv(ev), "error": fmt.Sprint(callErr), "persisted": "nothing"}
		}
		if try >= maxRetry {
			f = &finding{kind: "reply", detail: fmt.Sprintf("%s is refused %d times in a row with %q although it is Raft-valid and accepted by the specification and the reference", kit.JSON(kit.CloneEv(ev)), try+1, callErr)}
			return
		}
		refusals++
	}
}

// replaySequential replays one behaviour step by step: reply and full projection (every scope)
// against the specification, every scope against its reference, then a closing reopen.
// A behaviour with SaveFails steps is replayed on a store in paired mode; vrng draws the writes those
// steps attempt (they are stored in the step as "call", so a replay artefact repeats them).
func replaySequential(dir string, b kit.Behaviour, withRef bool, vrng *rand.Rand) (out replayOutcome) {
	scopes := []string{"s1", "s2"}
	n := kit.Int(b.Steps[0].Ev, "n")
	s, err := newSUT(dir, scopes, n, 50*time.Microsecond, hasFaults(b))
	if err != nil {
		out.f = &finding{kind: "infra", detail: "open: " + err.Error()}
		return out
	}
	defer func() {
		_ = s.db.Close()
		out.sameBatch, out.steerTimeouts = s.sameBatch, s.steerTimeouts
	}()
	x := &runner{sut: s, refs: map[string]*refStore{}}
	if withRef {
		for _, sc := range scopes {
			x.refs[sc] = newRef()
		}
	}
	prev, err := s.projectAll()
	if err != nil {
		out.f = &finding{kind: "state", detail: "fresh store: " + err.Error()}
		return out
	}
	check := func(si int, ev map[string]any, wantRes any, wantSt any) *finding {
		if kit.Str(ev, "a") == "SaveFails" {
			out.faults++
			if kit.Map(ev, "call") == nil {
				if !withRef || vrng == nil {
					return &finding{kind: "infra", detail: fmt.Sprintf("step %d: SaveFails without a reference to draw the attempted write from", si)}
				}
				ev["call"] = kit.Canon(victimFor(vrng, x.refs, kit.Str(ev, "s")))
			}
		}
		res, callErr, n, sample, f, err := callChecked(s, ev, kit.Map(prev, kit.Str(ev, "s")))
		if n > 0 && out.refusal == nil {
			out.refusal = sample
		}
		out.refusals += n
		if f != nil {
			f.detail = fmt.Sprintf("step %d: %s", si, f.detail)
			return f
		}
		if err != nil {
			var oe obsErr
			if errors.As(err, &oe) {
				return &finding{kind: "reply", detail: fmt.Sprintf("step %d %s: the real store failed: %v", si, kit.JSON(kit.CloneEv(ev)), err)}
			}
			return &finding{kind: "infra", detail: fmt.Sprintf("step %d: %v", si, err)}
		}
		if wantRes != nil {
			if d := kit.Diff(wantRes, res); d != "" {
				return &finding{kind: "reply", detail: fmt.Sprintf("step %d %s: %s%s", si, kit.JSON(kit.CloneEv(ev)), d, errNote(callErr))}
			}
		}
		proj, err := s.projectAll()
		if err != nil {
			return &finding{kind: "state", detail: fmt.Sprintf("step %d %s: observation failed afterwards: %v", si, kit.JSON(kit.CloneEv(ev)), err)}
		}
		if wantSt != nil {
			if d := kit.Diff(wantSt, proj); d != "" {
				return &finding{kind: "state", detail: fmt.Sprintf("step %d after %s: %s", si, kit.JSON(kit.CloneEv(ev)), d)}
			}
		}
		prev = proj
		if f := x.refStep(ev, res, func(sc string) (map[string]any, error) { return kit.Map(proj, sc), nil }, scopes); f != nil {
			f.detail = fmt.Sprintf("step %d: %s", si, f.detail)
			return f
		}
		return nil
	}
	for si, st := range b.Steps[1:] {
		out.actions = append(out.actions, kit.Str(st.Ev, "a"))
		if f := check(si+1, st.Ev, st.Ev["res"], st.St); f != nil {
			if f.sig == knownSig {
				out.known++
				continue
			}
			out.step, out.f = si+1, f
			return out
		}
	}
	// the same observations once more after a clean close / reopen at the end
	if f := check(len(b.Steps), kit.Ev("Reopen"), nil, b.Final); f != nil && f.sig != knownSig {
		out.step, out.f = len(b.Steps), f
	}
	return out
}

type idxStep struct {
	i  int
	st kit.Step
}

func (x idxStep) event() map[string]any { return x.st.Ev }

// replayConcurrent replays the same behaviour with one goroutine per scope between the Reopen
// barriers (scopes are independent in the specification, so every step's reply and own-scope
// projection are determined whatever the interleaving): this exercises the shared write worker
// batching mutations of several scopes into one Pebble commit.
func replayConcurrent(dir string, b kit.Behaviour) replayOutcome {
	out := replayOutcome{}
	scopes := []string{"s1", "s2"}
	n := kit.Int(b.Steps[0].Ev, "n")
	s, err := newSUT(dir, scopes, n, 2*time.Millisecond, false)
	if err != nil {
		out.f = &finding{kind: "infra", detail: "open: " + err.Error()}
		return out
	}
	defer func() { _ = s.db.Close() }()
	x := &runner{sut: s, refs: map[string]*refStore{"s1": newRef(), "s2": newRef()}}
	var mu sync.Mutex
	fail := func(i int, f *finding) {
		mu.Lock()
		defer mu.Unlock()
		if f.sig == knownSig {
			out.known++
			return
		}
		if out.f == nil || i < out.step {
			out.step, out.f = i, f
		}
	}
	runSegment := func(seg []idxStep) {
		var wg sync.WaitGroup
		for _, sc := range scopes {
			var mine []idxStep
			for _, is := range seg {
				if kit.Str(is.st.Ev, "s") == sc {
					mine = append(mine, is)
				}
			}
			wg.Add(1)
			go func(sc string, mine []idxStep) {
				defer wg.Done()
				prev, err := s.project(sc)
				if err != nil {
					fail(0, &finding{kind: "state", detail: fmt.Sprintf("scope %s cannot be observed: %v", sc, err)})
					return
				}
				for _, is := range mine {
					ev := is.st.Ev
					res, callErr, n, sample, f, err := callChecked(s, ev, prev)
					if n > 0 {
						mu.Lock()
						out.refusals += n
						if out.refusal == nil {
							out.refusal = sample
						}
						mu.Unlock()
					}
					if f != nil {
						f.detail = fmt.Sprintf("step %d (concurrent scopes): %s", is.i, f.detail)
						fail(is.i, f)
						return
					}
					if err != nil {
						fail(is.i, &finding{kind: "reply", detail: fmt.Sprintf("step %d %s (concurrent scopes): %v", is.i, kit.JSON(kit.CloneEv(ev)), err)})
						return
					}
					if d := kit.Diff(ev["res"], res); d != "" {
						fail(is.i, &finding{kind: "reply", detail: fmt.Sprintf("step %d %s (concurrent scopes): %s%s", is.i, kit.JSON(kit.CloneEv(ev)), d, errNote(callErr))})
						return
					}
					p, err := s.project(sc)
					if err != nil {
						fail(is.i, &finding{kind: "state", detail: fmt.Sprintf("step %d %s (concurrent scopes): observation failed afterwards: %v", is.i, kit.JSON(kit.CloneEv(ev)), err)})
						return
					}
					if d := kit.Diff(kit.Map(is.st.St.(map[string]any), sc), p); d != "" {
						fail(is.i, &finding{kind: "state", detail: fmt.Sprintf("step %d after %s (concurrent scopes): %s", is.i, kit.JSON(kit.CloneEv(ev)), d)})
						return
					}
					prev = p
					if f := x.refStep(ev, res, func(string) (map[string]any, error) { return p, nil }, []string{sc}); f != nil {
						f.detail = fmt.Sprintf("step %d (concurrent scopes): %s", is.i, f.detail)
						fail(is.i, f)
						if f.sig != knownSig {
							return
						}
					}
				}
			}(sc, mine)
		}
		wg.Wait()
	}
	barrier := func(i int, want any) bool {
		if _, err := s.apply(kit.Ev("Reopen")); err != nil {
			fail(i, &finding{kind: "infra", detail: err.Error()})
			return false
		}
		proj, err := s.projectAll()
		if err != nil {
			fail(i, &finding{kind: "state", detail: fmt.Sprintf("step %d: observation failed after reopen: %v", i, err)})
			return false
		}
		if d := kit.Diff(want, proj); d != "" {
			fail(i, &finding{kind: "state", detail: fmt.Sprintf("step %d after reopen (concurrent scopes before it): %s", i, d)})
			return false
		}
		return true
	}
	var seg []idxStep
	for si, st := range b.Steps[1:] {
		if kit.Str(st.Ev, "a") == "Reopen" {
			runSegment(seg)
			seg = nil
			if out.f != nil || !barrier(si+1, st.St) {
				return out
			}
			continue
		}
		seg = append(seg, idxStep{si + 1, st})
	}
	runSegment(seg)
	if out.f == nil {
		barrier(len(b.Steps), b.Final)
	}
	return out
}

// ---- seeded random driver (code -> spec) ----------------------------------------------------

const (
	drvN       = 8 // = MaxIdx of Trace.cfg
	drvMaxTerm = 4
)

type driver struct {
	rng    *rand.Rand
	refs   map[string]*refStore
	cfg    map[string]int64
	scopes []string
}

func (d *driver) pick(lo, hi int64) int64 { return lo + d.rng.Int63n(hi-lo+1) }

func (d *driver) voters() []int64 {
	return [][]int64{{1}, {1, 2}, {1, 3}, {1, 2, 3}}[d.rng.Intn(4)]
}

func entJ(i, t, c int64) map[string]any { return map[string]any{"i": i, "t": t, "c": c} }

var noHS = map[string]any{"term": 0, "vote": 0, "commit": 0}
var noSnap = map[string]any{"i": 0, "t": 0, "v": []int64{}, "d": 0}

// batch draws n contiguous entries from f with non-decreasing terms in [loT, hiT].
func (d *driver) batch(f, n, loT, hiT int64) []any {
	out := []any{}
	t := loT
	for k := int64(0); k < n; k++ {
		if t < hiT && d.rng.Intn(3) == 0 {
			t = d.pick(t, hiT)
		}
		c := int64(0)
		if d.rng.Intn(5) == 0 {
			c = d.pick(2, 4)
		}
		out = append(out, entJ(f+k, t, c))
	}
	return out
}

// next draws one Raft-valid call for a random scope, judged on that scope's reference.
func (d *driver) next() map[string]any {
	for {
		sc := d.scopes[d.rng.Intn(len(d.scopes))]
		r := d.refs[sc]
		hs := r.hs()
		cur, commit, last, snapIdx := int64(hs.Term), int64(hs.Commit), r.last(), r.snapIdx()
		newHS := func(term, lo, hi int64) map[string]any {
			if lo < commit {
				lo = commit
			}
			return map[string]any{"term": term, "vote": d.pick(0, 3), "commit": d.pick(lo, hi)}
		}
		upTerm := func() int64 {
			lo := cur
			if lo < 1 {
				lo = 1
			}
			if d.rng.Intn(3) > 0 {
				return lo
			}
			return d.pick(lo, drvMaxTerm)
		}
		switch p := d.rng.Intn(100); {
		case p < 28: // append, mostly with a hard state
			if last >= drvN {
				continue
			}
			hasHS := cur == 0 || d.rng.Intn(2) == 0
			term := cur
			if hasHS {
				term = upTerm()
			}
			loT := r.term(last)
			if loT < 1 {
				loT = 1
			}
			if loT > term {
				continue
			}
			n := d.pick(1, 3)
			if last+n > drvN {
				n = drvN - last
			}
			ents := d.batch(last+1, n, loT, term)
			ev := kit.Ev("Save", "s", sc, "hasHS", hasHS, "hs", noHS, "ents", ents, "hasSnap", false, "snap", noSnap)
			if hasHS {
				ev["hs"] = newHS(term, commit, last+n)
			}
			return ev
		case p < 38: // a newer term overwrites an uncommitted suffix
			if commit >= last || cur >= drvMaxTerm {
				continue
			}
			term := d.pick(cur+1, drvMaxTerm)
			f := d.pick(commit+1, last)
			n := d.pick(1, 3)
			if f+n-1 > drvN {
				n = drvN - f + 1
			}
			ents := d.batch(f, n, term, term)
			return kit.Ev("Save", "s", sc, "hasHS", true, "hs", newHS(term, commit, f+n-1), "ents", ents, "hasSnap", false, "snap", noSnap)
		case p < 46: // hard state only
			if cur == 0 && last == 0 && d.rng.Intn(2) == 0 {
				continue
			}
			return kit.Ev("Save", "s", sc, "hasHS", true, "hs", newHS(upTerm(), commit, last), "ents", []any{}, "hasSnap", false, "snap", noSnap)
		case p < 56: // local compaction at a committed, held index
			hi := commit
			if last < hi {
				hi = last
			}
			if snapIdx+1 > hi {
				continue
			}
			i := d.pick(snapIdx+1, hi)
			snap := map[string]any{"i": i, "t": r.term(i), "v": d.voters(), "d": d.pick(1, 4)}
			return kit.Ev("Save", "s", sc, "hasHS", false, "hs", noHS, "ents", []any{}, "hasSnap", true, "snap", snap)
		case p < 66: // snapshot install that does not match the log
			lo := commit
			if snapIdx > lo {
				lo = snapIdx
			}
			if lo+1 > drvN {
				continue
			}
			term := upTerm()
			i := d.pick(lo+1, drvN)
			var ts []int64
			for t := int64(1); t <= term; t++ {
				if !(i <= last && r.term(i) == t) {
					ts = append(ts, t)
				}
			}
			if len(ts) == 0 {
				continue
			}
			t := ts[d.rng.Intn(len(ts))]
			ents := []any{}
			newLast := i
			// below the last index the suffix must be overwritten in the same Save (the shape without is
			// the registered finding; it is exercised by the TLC behaviours, not by this driver)
			if i < drvN && (i < last || d.rng.Intn(2) == 0) {
				n := d.pick(1, 3)
				if i+n > drvN {
					n = drvN - i
				}
				ents = d.batch(i+1, n, t, term)
				newLast = i + n
				if d.rng.Intn(4) == 0 { // the batch overlaps the snapshot index: that entry must be dropped
					ents = append([]any{entJ(i, t, 0)}, ents...)
				}
			}
			snap := map[string]any{"i": i, "t": t, "v": d.voters(), "d": d.pick(1, 4)}
			return kit.Ev("Save", "s", sc, "hasHS", true, "hs", newHS(term, i, newLast), "ents", ents, "hasSnap", true, "snap", snap)
		case p < 70: // a snapshot that is not newer: identical (idempotent), different or older (refused)
			if snapIdx == 0 {
				continue
			}
			sn, _ := r.ms.Snapshot()
			cj, err := snapJ(sc, sn)
			if err != nil {
				continue
			}
			snap := map[string]any{"i": cj["i"], "t": cj["t"], "v": cj["v"], "d": cj["d"]}
			switch d.rng.Intn(3) {
			case 1:
				snap["d"] = kit.ToInt(cj["d"])%4 + 1
			case 2:
				if snapIdx > 1 {
					snap["i"] = snapIdx - 1
				}
			}
			ev := kit.Ev("Save", "s", sc, "hasHS", false, "hs", noHS, "ents", []any{}, "hasSnap", true, "snap", snap)
			if d.rng.Intn(2) == 0 {
				ev["hasHS"], ev["hs"] = true, newHS(upTerm(), commit, last)
			}
			return ev
		case p < 78:
			if r.applied > commit {
				continue
			}
			return kit.Ev("MarkApplied", "s", sc, "i", d.pick(r.applied, commit))
		case p < 81:
			return kit.Ev("MarkConfigApplied", "s", sc, "i", d.pick(0, r.applied))
		case p < 87: // replace the snapshot at the applied index (rarely at a wrong one: refused)
			i := r.applied
			if i == 0 || d.rng.Intn(6) == 0 {
				i++
			}
			t := r.term(i)
			if t == 0 {
				t = 1
			}
			snap := map[string]any{"i": i, "t": t, "v": d.voters(), "d": d.pick(1, 4)}
			return kit.Ev("ReplaceSnapshot", "s", sc, "snap", snap)
		case p < 92:
			return kit.Ev("Reopen")
		case p < 95:
			lo := d.pick(1, drvN+1)
			return kit.Ev("Entries", "s", sc, "lo", lo, "hi", d.pick(lo, drvN+2))
		case p < 98:
			return kit.Ev("Term", "s", sc, "i", d.pick(0, drvN+1))
		default:
			return kit.Ev([]string{"FirstIndex", "LastIndex", "InitialState", "Snapshot"}[d.rng.Intn(4)], "s", sc)
		}
	}
}

// ---- the test ---------------------------------------------------------------------------------

func report(rep *kit.Report, f *finding, replay any) {
	switch {
	case f.kind == "infra":
		rep.Infra("%s", f.detail)
	case f.sig != "":
		rep.ViolateSig(propID, f.kind, f.detail, f.sig, replay)
	default:
		rep.Violate(propID, f.kind, f.detail, replay)
	}
}

func TestVerifRaftStorage(t *testing.T) {
	env, ok := kit.LoadEnv()
	if !ok {
		t.Skip("not started by the verif runner")
	}
	rep := kit.NewReport(env, "raftstorage")
	rec, err := kit.NewRecorder(env.TraceFile)
	if err != nil {
		t.Fatal(err)
	}
	base, err := os.MkdirTemp(t.TempDir(), "c14-")
	if err != nil {
		t.Fatal(err)
	}
	dirNo := 0
	fresh := func() string {
		dirNo++
		return filepath.Join(base, fmt.Sprintf("d%05d", dirNo))
	}
	knownReported, refusalSampled := false, false
	noteRefusals := func(o replayOutcome, mode string) {
		if o.refusals == 0 {
			return
		}
		rep.AddExtra("unpredicted_refusals", o.refusals)
		if !refusalSampled {
			refusalSampled = true
			rep.Extra("unpredicted_refusal_sample", map[string]any{"mode": mode, "call": o.refusal})
		}
	}
	noteKnown := func(n int, f func() *finding, replay any) {
		if n == 0 {
			return
		}
		rep.AddExtra("known_deviation_occurrences", n)
		if !knownReported { // once per run: the report keeps only a handful of violations
			knownReported = true
			report(rep, f(), replay)
		}
	}

	// ---- spec -> code: replay TLC behaviours, sequentially and with concurrent scopes ----
	behs, err := kit.LoadBehaviours(env.BehFile)
	if err != nil {
		rep.Infra("load behaviours: %v", err)
	}
	// behaviours with failed writes (second sim stage "fault"; absent in a --replay run)
	if dir := os.Getenv("VERIF_BEH_DIR"); dir != "" {
		if _, serr := os.Stat(filepath.Join(dir, "beh_fault.jsonl")); serr == nil {
			fb, err := kit.LoadBehaviours(filepath.Join(dir, "beh_fault.jsonl"))
			if err != nil {
				rep.Infra("load fault behaviours: %v", err)
			}
			behs = append(behs, fb...)
		}
	}
	noteFaults := func(o replayOutcome) {
		if o.faults > 0 {
			rep.AddExtra("failed_writes_injected", o.faults)
			rep.AddExtra("failed_writes_sharing_the_saboteurs_batch", o.sameBatch)
		}
		if o.steerTimeouts > 0 {
			rep.AddExtra("queueing_order_not_steered", o.steerTimeouts)
		}
	}
	concEvery := env.Pick(4, 2)
	for bi, b := range behs {
		if len(b.Steps) == 0 || kit.Str(b.Steps[0].Ev, "a") != "Init" {
			rep.Infra("behaviour %d does not start with Init", bi)
			continue
		}
		dir := fresh()
		faulty := hasFaults(b)
		out := replaySequential(dir, b, true, rand.New(rand.NewSource(env.Seed*1000003+int64(bi))))
		_ = os.RemoveAll(dir)
		noteFaults(out)
		if faulty {
			rep.AddExtra("behaviours_replayed_with_failed_writes", 1)
		}
		for _, a := range out.actions {
			rep.Cover(a)
		}
		if out.f != nil {
			report(rep, out.f, map[string]any{"behaviour": b, "step": out.step, "mode": "sequential"})
		}
		noteRefusals(out, "sequential")
		if out.known > 0 {
			bb := b
			noteKnown(out.known, func() *finding { return firstKnown(fresh(), bb) }, map[string]any{"behaviour": b, "mode": "sequential"})
		}
		rep.Replayed(len(b.Steps) - 1)
		if bi == 0 {
			rep.Sample(map[string]any{"steps": b.Steps[:min(len(b.Steps), 6)]})
		}
		if bi == 0 && out.f == nil {
			// self-test of the binding: an altered expectation must be noticed
			alt := alter(b)
			d2 := fresh()
			o2 := replaySequential(d2, alt, false, nil)
			_ = os.RemoveAll(d2)
			rep.SelfTest("altered_expectation_detected", o2.f != nil && o2.f.kind == "state")
			if o2.f == nil || o2.f.kind != "state" {
				rep.Infra("self-test: an altered expected projection was not detected")
			}
		}
		if out.f == nil && bi%concEvery == 0 {
			dir := fresh()
			oc := replayConcurrent(dir, withoutFaults(b))
			_ = os.RemoveAll(dir)
			rep.AddExtra("behaviours_replayed_with_concurrent_scopes", 1)
			if oc.f != nil {
				report(rep, oc.f, map[string]any{"behaviour": b, "step": oc.step, "mode": "concurrent scopes"})
			}
			noteRefusals(oc, "concurrent scopes")
		}
		if rep.Violations() >= 4 {
			break
		}
	}

	// ---- code -> spec: seeded random driver, trace validated by TLC ----
	rng := env.Rand()
	scopes := []string{"s1", "s2", "s3"}
	traces := env.Pick(30, 300)
	for tr := 0; tr < traces && rep.Violations() < 4; tr++ {
		dir := fresh()
		paired := tr%3 == 2 // a third of the traces with writes that are made to fail
		s, err := newSUT(dir, scopes, drvN, 50*time.Microsecond, paired)
		if err != nil {
			rep.Infra("open: %v", err)
			break
		}
		d := &driver{rng: rng, refs: map[string]*refStore{}, scopes: scopes}
		x := &runner{sut: s, refs: d.refs}
		for _, sc := range scopes {
			d.refs[sc] = newRef()
		}
		p0, err := s.projectAll()
		if err != nil {
			rep.Violate(propID, "state", "fresh store: "+err.Error(), nil)
			_ = s.db.Close()
			break
		}
		rec.Begin(map[string]any{"n": drvN}, p0)
		var hist []any
		steps := 20 + rng.Intn(26)
		for i := 0; i < steps; i++ {
			var ev map[string]any
			if paired && rng.Intn(100) < 12 {
				sc := scopes[rng.Intn(len(scopes))]
				ev = kit.Ev("SaveFails", "s", sc, "call", victimFor(rng, d.refs, sc))
			} else {
				ev = d.next()
			}
			ev = kit.Canon(ev).(map[string]any) // plain JSON shapes, as a replayed event has them
			res, err := s.apply(ev)
			if err != nil {
				var oe obsErr
				if errors.As(err, &oe) {
					rep.Violate(propID, "reply", fmt.Sprintf("%s: the real store failed: %v", kit.JSON(ev), err), map[string]any{"trace": hist, "event": ev})
				} else {
					rep.Infra("driver: %v", err)
				}
				break
			}
			ev["res"] = res
			proj, err := s.projectAll()
			if err != nil {
				rep.Violate(propID, "state", fmt.Sprintf("after %s: observation failed: %v", kit.JSON(ev), err), map[string]any{"trace": hist, "event": ev})
				break
			}
			rec.Step(ev, proj)
			rep.Cover(kit.Str(ev, "a"))
			hist = append(hist, ev)
			if f := x.refStep(ev, res, func(sc string) (map[string]any, error) { return kit.Map(proj, sc), nil }, scopes); f != nil {
				report(rep, f, map[string]any{"trace": hist})
				break
			}
		}
		_ = s.db.Close()
		_ = os.RemoveAll(dir)
		if paired {
			rep.AddExtra("traces_recorded_with_failed_writes", 1)
			rep.AddExtra("failed_writes_sharing_the_saboteurs_batch", s.sameBatch)
			if s.steerTimeouts > 0 {
				rep.AddExtra("queueing_order_not_steered", s.steerTimeouts)
			}
		}
	}
	if err := rec.Close(); err != nil {
		rep.Infra("trace file: %v", err)
	}
	if err := rep.Finish(rec); err != nil {
		t.Fatal(err)
	}
}

// firstKnown replays b again and returns the first occurrence of the registered finding.
func firstKnown(dir string, b kit.Behaviour) *finding {
	defer os.RemoveAll(dir)
	scopes := []string{"s1", "s2"}
	s, err := newSUT(dir, scopes, kit.Int(b.Steps[0].Ev, "n"), 50*time.Microsecond, false)
	if err != nil {
		return &finding{kind: "infra", detail: err.Error()}
	}
	defer func() { _ = s.db.Close() }()
	x := &runner{sut: s, refs: map[string]*refStore{"s1": newRef(), "s2": newRef()}}
	for si, st := range b.Steps[1:] {
		res, err := s.apply(st.Ev)
		if err != nil {
			break
		}
		proj, err := s.projectAll()
		if err != nil {
			break
		}
		if f := x.refStep(st.Ev, res, func(sc string) (map[string]any, error) { return kit.Map(proj, sc), nil }, scopes); f != nil && f.sig == knownSig {
			f.detail = fmt.Sprintf("step %d: %s", si+1, f.detail)
			return f
		}
	}
	return &finding{kind: "infra", detail: "the registered deviation did not reproduce on a second replay"}
}

// alter returns a copy of b whose last expected projection claims one more entry for s1.
func alter(b kit.Behaviour) kit.Behaviour {
	c := kit.Canon(b).(map[string]any)
	steps := c["steps"].([]any)
	last := steps[len(steps)-1].(map[string]any)
	st := last["st"].(map[string]any)
	s1 := st["s1"].(map[string]any)
	s1["last"] = kit.ToInt(s1["last"]) + 1
	var out kit.Behaviour
	for _, x := range steps {
		m := x.(map[string]any)
		out.Steps = append(out.Steps, kit.Step{Ev: m["ev"].(map[string]any), St: m["st"]})
	}
	out.Final = nil
	return out
}

package channelquorum

// Three real replication.Runtime nodes bound together by wrappers around the exported seams:
// recStore wraps replication.ReplicaStore (records every mutation at its linearization point and can
// park calls for scripted schedules), link implements replication.PeerLink (reachability matrix,
// reply loss).  Nothing under /repo is touched and no unexported name is used.

import (
	"context"
	"encoding/hex"
	"errors"
	"fmt"
	"hash/fnv"
	"sync"
	"time"

	ch "github.com/WuKongIM/WuKongIM/pkg/channel"
	"github.com/WuKongIM/WuKongIM/pkg/channel/replication"
	channelstore "github.com/WuKongIM/WuKongIM/pkg/channel/store"
	"verif/runner/kit"
)

var (
	chanID  = ch.ChannelID{ID: "verif-cq", Type: 2}
	chanKey = ch.ChannelKeyForID(chanID)
	voters  = []ch.NodeID{1, 2, 3}
	// writeQuorum is the majority of voters; the five-voter stage (VERIF_CQ_VOTERS=5) runs with 3 of 5,
	// where leader + one follower is NOT a write quorum.
	writeQuorum = 2
)

// setVoters switches the harness to n voters with a majority write quorum (before any cluster exists).
func setVoters(n int) {
	voters = voters[:0]
	for i := 1; i <= n; i++ {
		voters = append(voters, ch.NodeID(i))
	}
	writeQuorum = n/2 + 1
}

type commandLookuper interface {
	LookupCommands(context.Context, []replication.CommandLookup) []replication.CommandLookupResult
}

// authInt encodes an authority id as one integer (epoch, term, fence are < 100 here) so that the
// specification compares authorities with <=, exactly like compareAuthorityID's lexicographic order.
func authInt(id replication.AuthorityID) int64 {
	return int64(id.ChannelEpoch)*10000 + int64(id.LeaderTerm)*100 + int64(id.FenceVersion)
}

func manifestAuth(m ch.ProposalManifest) int64 {
	return int64(m.ChannelEpoch)*10000 + int64(m.LeaderTerm)*100 + int64(m.FenceVersion)
}

func dig(d ch.EntryDigest) string {
	if d == (ch.EntryDigest{}) {
		return ""
	}
	return hex.EncodeToString(d[:6])
}

func cmdHex(c ch.CommandID) string { return hex.EncodeToString(c[4:10]) }

type cluster struct {
	mu    sync.Mutex // event order: one global sequence, taken at each linearization point
	rec   *kit.Recorder
	nodes map[ch.NodeID]*node
	// reach[from][to] = exchanges from -> to are delivered; dropReply loses the reply after handling
	reach     map[ch.NodeID]map[ch.NodeID]bool
	dropReply map[ch.NodeID]map[ch.NodeID]bool
	hedge     time.Duration
	factory   func() channelstore.Factory
	parkMu    sync.Mutex
	parkRule  func(op parkOp) bool
	parked    chan *parkedCall
	retained  int
	pageBytes int
}

type node struct {
	id      ch.NodeID
	factory channelstore.Factory
	inner   replication.ReplicaStore
	store   *recStore
	rt      *replication.Runtime
}

type parkOp struct {
	node  ch.NodeID
	kind  string // "Load" | "Sync" | "Replace" | "Fetch"
	plain bool   // Load without probe indexes
}

type parkedCall struct {
	op      parkOp
	release chan struct{}
}

func newCluster(rec *kit.Recorder, factory func() channelstore.Factory, hedge time.Duration, retained, pageBytes int) (*cluster, error) {
	c := &cluster{rec: rec, nodes: map[ch.NodeID]*node{}, reach: map[ch.NodeID]map[ch.NodeID]bool{},
		dropReply: map[ch.NodeID]map[ch.NodeID]bool{}, hedge: hedge, factory: factory,
		parked: make(chan *parkedCall, 16), retained: retained, pageBytes: pageBytes}
	for _, id := range voters {
		c.reach[id] = map[ch.NodeID]bool{}
		c.dropReply[id] = map[ch.NodeID]bool{}
		for _, to := range voters {
			c.reach[id][to] = true
		}
		f := factory()
		inner, err := replication.NewStoreAdapter(replication.StoreAdapterConfig{
			Factory: f, MaxBatchItems: replication.MaxExchangeBatchItems, MaxBatchBytes: 4 << 20})
		if err != nil {
			return nil, err
		}
		n := &node{id: id, factory: f, inner: inner}
		n.store = &recStore{c: c, n: id, inner: inner, lookup: inner.(commandLookuper)}
		c.nodes[id] = n
		if err := c.start(id); err != nil {
			return nil, err
		}
	}
	return c, nil
}

func (c *cluster) start(id ch.NodeID) error {
	n := c.nodes[id]
	rt, err := replication.NewRuntime(replication.RuntimeConfig{
		LocalNode: id, Store: n.store, Link: &link{c: c, from: id},
		ReplicaHedgeDelay: c.hedge, TrailingFlushInterval: 2 * time.Millisecond,
		ExchangeTimeout: 2 * time.Second, LocalTimeout: 2 * time.Second,
		RecoveryTimeout: 3 * time.Second, CloseTimeout: 3 * time.Second,
		MaxRetainedCommands: c.retained, RecoveryPageBytes: c.pageBytes,
		LocalWorkers: 4, PeerWorkers: 8, PeerTargetFlight: 4, RepairWorkers: 2, MaxVoters: len(voters),
	})
	if err != nil {
		return err
	}
	n.rt = rt
	return nil
}

func (c *cluster) runtime(id ch.NodeID) *replication.Runtime {
	c.mu.Lock()
	defer c.mu.Unlock()
	return c.nodes[id].rt
}

func (c *cluster) crash(id ch.NodeID) {
	c.mu.Lock()
	rt := c.nodes[id].rt
	c.nodes[id].rt = nil
	c.mu.Unlock()
	if rt == nil {
		return
	}
	ctx, cancel := context.WithTimeout(context.Background(), 5*time.Second)
	_ = rt.Close(ctx)
	cancel()
	c.event(kit.Ev("Crash", "n", int(id)))
}

func (c *cluster) restart(id ch.NodeID) error {
	c.mu.Lock()
	up := c.nodes[id].rt != nil
	c.mu.Unlock()
	if up {
		return nil
	}
	n := c.nodes[id]
	rt, err := replication.NewRuntime(replication.RuntimeConfig{
		LocalNode: id, Store: n.store, Link: &link{c: c, from: id},
		ReplicaHedgeDelay: c.hedge, TrailingFlushInterval: 2 * time.Millisecond,
		ExchangeTimeout: 2 * time.Second, LocalTimeout: 2 * time.Second,
		RecoveryTimeout: 3 * time.Second, CloseTimeout: 3 * time.Second,
		MaxRetainedCommands: c.retained, RecoveryPageBytes: c.pageBytes,
		LocalWorkers: 4, PeerWorkers: 8, PeerTargetFlight: 4, RepairWorkers: 2, MaxVoters: len(voters),
	})
	if err != nil {
		return err
	}
	c.mu.Lock()
	n.rt = rt
	c.mu.Unlock()
	c.event(kit.Ev("Restart", "n", int(id)))
	return nil
}

func (c *cluster) close() {
	defer func() {
		for _, id := range voters {
			if cl, ok := c.nodes[id].factory.(interface{ Close() error }); ok {
				_ = cl.Close()
			}
		}
	}()
	for _, id := range voters {
		c.mu.Lock()
		rt := c.nodes[id].rt
		c.nodes[id].rt = nil
		c.mu.Unlock()
		if rt != nil {
			ctx, cancel := context.WithTimeout(context.Background(), 5*time.Second)
			_ = rt.Close(ctx)
			cancel()
		}
	}
}

func (c *cluster) event(ev map[string]any) {
	c.mu.Lock()
	c.rec.Step(ev, nil)
	c.mu.Unlock()
}

func (c *cluster) setReach(from, to ch.NodeID, ok bool) {
	c.mu.Lock()
	c.reach[from][to] = ok
	c.mu.Unlock()
}

func (c *cluster) setDrop(from, to ch.NodeID, drop bool) {
	c.mu.Lock()
	c.dropReply[from][to] = drop
	c.mu.Unlock()
}

func (c *cluster) healAll() {
	c.mu.Lock()
	for _, a := range voters {
		for _, b := range voters {
			c.reach[a][b] = true
			c.dropReply[a][b] = false
		}
	}
	c.mu.Unlock()
}

// ---- PeerLink -------------------------------------------------------------------------------

type link struct {
	c    *cluster
	from ch.NodeID
}

var errUnreachable = errors.New("verif: peer unreachable")

func (l *link) Exchange(ctx context.Context, to ch.NodeID, batch replication.ExchangeBatch) (replication.ExchangeBatchResult, error) {
	l.c.mu.Lock()
	ok := l.c.reach[l.from][to]
	drop := l.c.dropReply[l.from][to]
	var rt *replication.Runtime
	if n := l.c.nodes[to]; n != nil {
		rt = n.rt
	}
	l.c.mu.Unlock()
	if !ok || rt == nil {
		return replication.ExchangeBatchResult{}, errUnreachable
	}
	res, err := rt.ExchangeServer().Handle(ctx, l.from, batch)
	if err != nil {
		return replication.ExchangeBatchResult{}, err
	}
	if drop {
		return replication.ExchangeBatchResult{}, errUnreachable
	}
	return res, nil
}

// ---- ReplicaStore wrapper -------------------------------------------------------------------

type recStore struct {
	c      *cluster
	n      ch.NodeID
	inner  replication.ReplicaStore
	lookup commandLookuper
	mu     sync.Mutex // serializes this replica's store operations together with their log records
}

func (s *recStore) gate(ctx context.Context, op parkOp) {
	s.c.parkMu.Lock()
	rule := s.c.parkRule
	s.c.parkMu.Unlock()
	if rule == nil || !rule(op) {
		return
	}
	p := &parkedCall{op: op, release: make(chan struct{})}
	select {
	case s.c.parked <- p:
	case <-ctx.Done():
		return
	}
	select {
	case <-p.release:
	case <-ctx.Done():
	}
}

func (s *recStore) state() map[string]any {
	loaded, err := s.inner.Load(context.Background(), replication.LoadBatch{Items: []replication.LoadRequest{{ChannelKey: chanKey, ChannelID: chanID}}})
	if err != nil || len(loaded.Items) != 1 || loaded.Items[0].Err != nil {
		return map[string]any{"leo": -1, "cm": -1, "tail": "?", "part": false}
	}
	st := loaded.Items[0].State
	return map[string]any{"leo": int64(st.LEO), "cm": int64(st.Committed), "tail": dig(st.TailIdentity.Digest), "part": false}
}

func (s *recStore) Load(ctx context.Context, batch replication.LoadBatch) (replication.LoadBatchResult, error) {
	plain := len(batch.Items) == 1 && len(batch.Items[0].ProbeIndexes) == 0
	s.gate(ctx, parkOp{node: s.n, kind: "Load", plain: plain})
	s.mu.Lock()
	defer s.mu.Unlock()
	return s.inner.Load(ctx, batch)
}

func (s *recStore) LookupCommands(ctx context.Context, lookups []replication.CommandLookup) []replication.CommandLookupResult {
	s.mu.Lock()
	defer s.mu.Unlock()
	return s.lookup.LookupCommands(ctx, lookups)
}

func (s *recStore) Fetch(ctx context.Context, ranges []replication.FetchRange) []replication.FetchRangeResult {
	s.gate(ctx, parkOp{node: s.n, kind: "Fetch"})
	s.mu.Lock()
	defer s.mu.Unlock()
	return s.inner.Fetch(ctx, ranges)
}

func entriesOf(manifest ch.ProposalManifest, records []ch.Record) []any {
	_, ids, ok := ch.SealProposalManifest(manifest, records)
	out := []any{}
	if !ok {
		return out
	}
	for i, id := range ids {
		out = append(out, map[string]any{"id": dig(id.Digest), "prev": dig(id.PreviousDigest),
			"t": manifestAuth(manifest), "c": cmdHex(manifest.CommandID), "ph": contentHash(records[i])})
	}
	return out
}

func outcomeName(o ch.AppendOutcome) string {
	switch o {
	case ch.AppendOutcomeDurable:
		return "durable"
	case ch.AppendOutcomeAlreadyDurable:
		return "already"
	case ch.AppendOutcomeConflict:
		return "rejected"
	case ch.AppendOutcomeUnknown:
		return "unknown"
	default:
		return "other"
	}
}

func (s *recStore) Sync(ctx context.Context, mutations []replication.Mutation) []replication.MutationResult {
	s.gate(ctx, parkOp{node: s.n, kind: "Sync"})
	s.mu.Lock()
	defer s.mu.Unlock()
	// one store call per mutation so that each has its own linearization point and post-state
	out := make([]replication.MutationResult, 0, len(mutations))
	for _, m := range mutations {
		res := s.inner.Sync(ctx, []replication.Mutation{m})
		if len(res) != 1 {
			out = append(out, replication.MutationResult{Outcome: ch.AppendOutcomeUnknown, Err: errors.New("verif: bad inner result")})
			continue
		}
		out = append(out, res[0])
		if m.ChannelKey != chanKey {
			continue
		}
		cls := map[replication.MutationClass]string{replication.MutationClassLeaderQuorum: "leader",
			replication.MutationClassFollowerQuorum: "follower", replication.MutationClassTrailing: "trailing"}[m.Class]
		ev := kit.Ev("Sync", "n", int(s.n), "cls", cls, "base", int64(m.Manifest.BaseOffset),
			"prev", dig(m.Manifest.PreviousDigest), "ents", entriesOf(m.Manifest, m.Records), "cm", int64(m.Committed),
			"res", map[string]any{"out": outcomeName(res[0].Outcome)},
			"st", s.state())
		s.c.event(ev)
	}
	return out
}

func (s *recStore) Replace(ctx context.Context, reps []replication.RecoveryReplacement) []replication.RecoveryReplacementResult {
	s.gate(ctx, parkOp{node: s.n, kind: "Replace"})
	s.mu.Lock()
	defer s.mu.Unlock()
	out := make([]replication.RecoveryReplacementResult, 0, len(reps))
	for _, r := range reps {
		res := s.inner.Replace(ctx, []replication.RecoveryReplacement{r})
		if len(res) != 1 {
			out = append(out, replication.RecoveryReplacementResult{Outcome: ch.AppendOutcomeUnknown, Err: errors.New("verif: bad inner result")})
			continue
		}
		out = append(out, res[0])
		if r.ChannelKey != chanKey {
			continue
		}
		ents := []any{}
		for _, p := range r.Proposals {
			ents = append(ents, entriesOf(p.Manifest, p.Records)...)
		}
		ev := kit.Ev("Replace", "n", int(s.n), "keep", int64(r.KeepThrough), "ents", ents, "cm", int64(r.Committed),
			"exp", map[string]any{"leo": int64(r.Expected.LEO), "cm": int64(r.Expected.Committed), "tail": dig(r.Expected.TailIdentity.Digest)},
			"res", map[string]any{"out": outcomeName(res[0].Outcome)},
			"st", s.state())
		s.c.event(ev)
	}
	return out
}

// ---- API calls with call/return events --------------------------------------------------------

func mkAuthority(id replication.AuthorityID, leader ch.NodeID, fenced bool) replication.Authority {
	a := replication.Authority{Key: chanKey, ChannelID: chanID, ID: id, Leader: leader,
		Voters: append([]ch.NodeID(nil), voters...), WriteQuorum: writeQuorum}
	if fenced {
		a.WriteFence = ch.WriteFence{Token: fmt.Sprintf("wf-%d", authInt(id)), Version: id.FenceVersion, Reason: ch.WriteFenceReasonLeaderTransfer}
	}
	return a
}

func errClass(err error) string {
	switch {
	case err == nil:
		return ""
	case errors.Is(err, ch.ErrStaleMeta):
		return "stale"
	case errors.Is(err, ch.ErrInvalidConfig):
		return "invalid"
	case errors.Is(err, ch.ErrWriteFenced):
		return "write_fenced"
	case errors.Is(err, ch.ErrLogConflict):
		return "conflict"
	case errors.Is(err, ch.ErrNotReady):
		return "not_ready"
	case errors.Is(err, ch.ErrBackpressured):
		return "backpressured"
	case errors.Is(err, ch.ErrClosed):
		return "closed"
	case errors.Is(err, context.DeadlineExceeded), errors.Is(err, context.Canceled):
		return "timeout"
	default:
		return "other"
	}
}

// install calls Install on node n. sameIDOther marks an attempt to re-use an authority id with a
// different leader/fence (must be refused without fencing).
func (c *cluster) install(n ch.NodeID, a replication.Authority, timeout time.Duration) (replication.Installed, error) {
	rt := c.runtime(n)
	if rt == nil {
		return replication.Installed{}, ch.ErrClosed
	}
	c.event(kit.Ev("InstallCall", "n", int(n), "auth", authInt(a.ID), "wf", a.WriteFence.Set()))
	ctx, cancel := context.WithTimeout(context.Background(), timeout)
	inst, err := rt.Log().Install(ctx, a)
	cancel()
	cls := errClass(err)
	c.event(kit.Ev("InstallRet", "n", int(n), "auth", authInt(a.ID), "ok", err == nil, "err", cls,
		"leo", int64(inst.LEO), "hw", int64(inst.HW)))
	return inst, err
}

type command struct {
	id      ch.CommandID
	records []ch.Record
	// serverAlloc claims the record ids come from the server allocator (they are unique here): the
	// message store may then skip duplicate-id reads only - every other validation must still run.
	serverAlloc bool
}

func mkCommand(seq int, nrec int, epoch uint64, variant byte) command {
	var id ch.CommandID
	copy(id[:], fmt.Sprintf("cmd-%06d-padding-padding-padding", seq))
	recs := make([]ch.Record, nrec)
	for i := range recs {
		payload := []byte(fmt.Sprintf("payload-%d-%d-%d", seq, i, variant))
		recs[i] = ch.Record{ID: uint64(seq*100 + i + 1), Epoch: epoch, FromUID: fmt.Sprintf("u%d", seq%3),
			ClientMsgNo: fmt.Sprintf("c-%d-%d", seq, i), ServerTimestampMS: int64(1700000000000 + seq*10 + i),
			Payload: payload, SizeBytes: len(payload)}
	}
	return command{id: id, records: recs, serverAlloc: seq%2 == 1}
}

func (c *cluster) commit(n ch.NodeID, expected replication.AuthorityID, cmd command, changed bool, timeout time.Duration) (replication.Receipt, error) {
	rt := c.runtime(n)
	if rt == nil {
		return replication.Receipt{}, ch.ErrClosed
	}
	c.event(kit.Ev("CommitCall", "n", int(n), "auth", authInt(expected), "cmd", cmdHex(cmd.id)))
	ctx, cancel := context.WithTimeout(context.Background(), timeout)
	rc, err := rt.Log().Commit(ctx, replication.Proposal{Key: chanKey, Expected: expected, CommandID: cmd.id, Records: cmd.records, ServerAllocatedMessageIDs: cmd.serverAlloc})
	cancel()
	c.event(kit.Ev("CommitRet", "n", int(n), "cmd", cmdHex(cmd.id), "ok", err == nil, "err", errClass(err),
		"first", int64(rc.First), "last", int64(rc.Last), "hw", int64(rc.HW), "auth", authInt(rc.Authority), "exp", authInt(expected),
		"nrec", len(cmd.records), "variant", variantOf(changed), "phs", contentHashes(cmd.records)))
	return rc, err
}

// replicaLog reads one replica's durable state through the store contract only.
type replicaView struct {
	leo, committed uint64
	ids            []string
}

func (c *cluster) view(n ch.NodeID) (replicaView, error) {
	st := c.nodes[n].inner
	first, err := st.Load(context.Background(), replication.LoadBatch{Items: []replication.LoadRequest{{ChannelKey: chanKey, ChannelID: chanID}}})
	if err != nil || len(first.Items) != 1 || first.Items[0].Err != nil {
		return replicaView{}, fmt.Errorf("load: %v", err)
	}
	v := replicaView{leo: first.Items[0].State.LEO, committed: first.Items[0].State.Committed}
	if v.leo == 0 {
		return v, nil
	}
	idx := make([]uint64, 0, v.leo)
	for i := uint64(1); i <= v.leo && i <= 200; i++ {
		idx = append(idx, i)
	}
	loaded, err := st.Load(context.Background(), replication.LoadBatch{Items: []replication.LoadRequest{{ChannelKey: chanKey, ChannelID: chanID, ProbeIndexes: idx}}})
	if err != nil || len(loaded.Items) != 1 || loaded.Items[0].Err != nil {
		return replicaView{}, fmt.Errorf("load entries: %v", err)
	}
	for _, e := range loaded.Items[0].Entries {
		v.ids = append(v.ids, dig(e.Identity.Digest))
	}
	return v, nil
}

func variantOf(changed bool) int {
	if changed {
		return 7
	}
	return 0
}

// contentHash identifies the semantic content of one submitted/stored record independently of the
// entry digest (which only the owner can derive): a receipt must be for exactly the submitted content.
func contentHash(r ch.Record) string {
	h := fnv.New64a()
	fmt.Fprintf(h, "%d|%d|%s|%s|%d|%v|", r.ID, r.Setting, r.FromUID, r.ClientMsgNo, r.ServerTimestampMS, r.SyncOnce)
	h.Write(r.Payload)
	return fmt.Sprintf("%012x", h.Sum64()&0xffffffffffff)
}

func contentHashes(rs []ch.Record) []string {
	out := make([]string, len(rs))
	for i, r := range rs {
		out[i] = contentHash(r)
	}
	return out
}
